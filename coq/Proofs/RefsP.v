(* Proofs/RefsP.v — the two-level files store behaves like a flat map *)
From DV Require Import Bytes Refs.
Local Open Scope Z_scope.

Lemma beq_sym a b : bytes_beq a b = bytes_beq b a.
Proof.
  destruct (bytes_beq a b) eqn:E.
  - apply bytes_beq_spec in E. subst. symmetry. apply bytes_beq_refl.
  - destruct (bytes_beq b a) eqn:E2; [|reflexivity]. apply bytes_beq_spec in E2. subst.
    rewrite bytes_beq_refl in E. discriminate.
Qed.

Lemma rget_rset m n v q : rget q (rset n v m) = if bytes_beq q n then Some v else rget q m.
Proof.
  induction m as [|[k w] r IH]; cbn [rset rget]; [reflexivity|].
  destruct (bytes_beq n k) eqn:E.
  - apply bytes_beq_spec in E. subst k. cbn [rget]. destruct (bytes_beq q n); reflexivity.
  - cbn [rget]. rewrite IH. destruct (bytes_beq q k) eqn:E2; [|reflexivity].
    apply bytes_beq_spec in E2. subst q. rewrite beq_sym, E. reflexivity.
Qed.

Lemma rget_rdel m n q : rget q (rdel n m) = if bytes_beq q n then None else rget q m.
Proof.
  induction m as [|[k w] r IH]; cbn [rdel rget]; [destruct (bytes_beq q n); reflexivity|].
  destruct (bytes_beq n k) eqn:E.
  - apply bytes_beq_spec in E. subst k. rewrite IH. destruct (bytes_beq q n); reflexivity.
  - cbn [rget]. rewrite IH. destruct (bytes_beq q k) eqn:E2; [|reflexivity].
    apply bytes_beq_spec in E2. subst q. rewrite beq_sym, E. reflexivity.
Qed.

(* ---------- packing is unobservable ---------- *)
Lemma pack_one_dread all d n q : dread (pack_one all d n) q = dread d q.
Proof.
  unfold pack_one. destruct (selected all n); [|reflexivity].
  destruct (dread d n) as [[h|t]|] eqn:E; try reflexivity.
  unfold dread in *. cbn [loose packed]. rewrite rget_rdel, rget_rset.
  destruct (bytes_beq q n) eqn:Eq; [|reflexivity].
  apply bytes_beq_spec in Eq. subst q. destruct (rget n (loose d)); [exact (eq_sym E)|exact (eq_sym E)].
Qed.

Lemma pack_fold_dread all : forall l d q, dread (fold_left (pack_one all) l d) q = dread d q.
Proof. induction l as [|n l IH]; intros d q; [reflexivity|]. cbn [fold_left]. rewrite IH. apply pack_one_dread. Qed.

Lemma pack_refs_unobservable_lemma d all q : dread (pack_refs d all) q = dread d q.
Proof. unfold pack_refs. apply pack_fold_dread. Qed.

(* following symbolic refs only uses dread, hence every observer is unchanged *)
Lemma follow_ext (r1 r2 : bytes -> option rval) : (forall q, r1 q = r2 q) ->
  forall fuel n acc, follow_f r1 fuel n acc = follow_f r2 fuel n acc.
Proof.
  intros H. induction fuel as [|f IH]; intros n acc; cbn [follow_f]; rewrite H; [reflexivity|].
  destruct (r2 n) as [[h|t]|]; try reflexivity. apply IH.
Qed.

Lemma pack_refs_getitem_lemma d all n : getitem (pack_refs d all) n = getitem d n.
Proof.
  unfold getitem, follow. rewrite (follow_ext (dread (pack_refs d all)) (dread d)); [reflexivity|].
  intros q. apply pack_refs_unobservable_lemma.
Qed.

(* ---------- effect of each writer on the visible map ---------- *)
Definition upd (d : disk) (n : bytes) (v : option rval) (q : bytes) : option rval :=
  if bytes_beq q n then v else dread d q.

Lemma set_if_equals_spec d n old new d' r :
  set_if_equals d n old new = (d', r) ->
  let real := realname d n in
  match r with
  | RTrue => (forall q, dread d' q = upd d real (Some (Sha new)) q) /\
             (forall o, old = Some o -> orig_is d real o = true)
  | RFalse => d' = d /\ exists o, old = Some o /\ orig_is d real o = false
  | RExc => d' = d /\ (pre_collide real d = true \/ post_collide real d = true)
  end.
Proof.
  unfold set_if_equals. cbv zeta. set (real := realname d n).
  destruct (pre_collide real d) eqn:Ep.
  { intros H; inversion H; subst. auto. }
  destruct old as [o|].
  - destruct (orig_is d real o) eqn:Eo; cbn [negb].
    + destruct (match dread d real with Some v => rval_eqb v (Sha new) | None => false end) eqn:Es.
      * intros H; inversion H; subst. split.
        -- intros q. unfold upd. destruct (bytes_beq q real) eqn:Eq; [|reflexivity].
           apply bytes_beq_spec in Eq. subst q. destruct (dread d' real) as [[h|t]|]; try discriminate.
           cbn in Es. apply bytes_beq_spec in Es. subst. reflexivity.
        -- intros o' Ho. inversion Ho; subst. exact Eo.
      * destruct (post_collide real d) eqn:Epc; intros H; inversion H; subst; [auto|].
        split.
        -- intros q. unfold dread, upd. cbn [loose packed]. rewrite rget_rset.
           destruct (bytes_beq q real); reflexivity.
        -- intros o' Ho. inversion Ho; subst. exact Eo.
    + intros H; inversion H; subst. split; [reflexivity|]. eauto.
  - destruct (match dread d real with Some v => rval_eqb v (Sha new) | None => false end) eqn:Es.
    + intros H; inversion H; subst. split; [|discriminate].
      intros q. unfold upd. destruct (bytes_beq q real) eqn:Eq; [|reflexivity].
      apply bytes_beq_spec in Eq. subst q. destruct (dread d' real) as [[h|t]|]; try discriminate.
      cbn in Es. apply bytes_beq_spec in Es. subst. reflexivity.
    + destruct (post_collide real d) eqn:Epc; intros H; inversion H; subst; [auto|].
      split; [|discriminate].
      intros q. unfold dread, upd. cbn [loose packed]. rewrite rget_rset.
      destruct (bytes_beq q real); reflexivity.
Qed.

(* an unconditional write to a name free of collisions always takes effect *)
Lemma set_unconditional_lemma d n new :
  pre_collide (realname d n) d = false -> post_collide (realname d n) d = false ->
  snd (set_if_equals d n None new) = RTrue.
Proof.
  intros H1 H2. unfold set_if_equals. cbv zeta. rewrite H1, H2.
  destruct (match dread d (realname d n) with Some v => rval_eqb v (Sha new) | None => false end); reflexivity.
Qed.

Lemma remove_if_equals_spec d n old d' r :
  remove_if_equals d n old = (d', r) ->
  match r with
  | RTrue => (forall q, dread d' q = upd d n None q) /\ (forall o, old = Some o -> orig_is d n o = true)
  | RFalse => d' = d /\ exists o, old = Some o /\ orig_is d n o = false
  | RExc => d' = d /\ (loose_ancestor n d = true \/ post_collide n d = true)
  end.
Proof.
  unfold remove_if_equals. destruct (loose_ancestor n d) eqn:Ea.
  { intros H; inversion H; subst. auto. }
  destruct old as [o|].
  - destruct (orig_is d n o) eqn:Eo; cbn [negb].
    + destruct (post_collide n d) eqn:Ep; intros H; inversion H; subst; [auto|]. split.
      * intros q. unfold dread, upd. cbn [loose packed]. rewrite !rget_rdel. destruct (bytes_beq q n); reflexivity.
      * intros o' Ho. inversion Ho; subst. exact Eo.
    + intros H; inversion H; subst. split; [reflexivity|eauto].
  - destruct (post_collide n d) eqn:Ep; intros H; inversion H; subst; [auto|]. split; [|discriminate].
    intros q. unfold dread, upd. cbn [loose packed]. rewrite !rget_rdel. destruct (bytes_beq q n); reflexivity.
Qed.

Lemma follow_f_none read : forall fuel n acc chain dflt,
  follow_f read fuel n acc = Some (chain, None) -> read (last chain dflt) = None.
Proof.
  induction fuel as [|f IH]; intros n acc chain dflt H; cbn [follow_f] in H.
  - destruct (read n) eqn:E; [discriminate|]. inversion H; subst. rewrite last_last. exact E.
  - destruct (read n) as [[h|t]|] eqn:E.
    + discriminate.
    + eapply IH; eauto.
    + inversion H; subst. rewrite last_last. exact E.
Qed.

Lemma add_if_new_spec d n v d' r :
  add_if_new d n v = (d', r) ->
  match r with
  | RTrue => exists real, dread d real = None /\ forall q, dread d' q = upd d real (Some (Sha v)) q
  | _ => d' = d
  end.
Proof.
  unfold add_if_new. destruct (follow (dread d) n) as [[chain [h|]]|] eqn:Ef; try (intros H; inversion H; subst; reflexivity).
  cbv zeta. set (real := last_or chain n).
  destruct (pre_collide real d); [intros H; inversion H; subst; reflexivity|].
  destruct (rget real (loose d)) eqn:El; cbn [orb]; [intros H; inversion H; subst; reflexivity|].
  destruct (post_collide real d); cbn [orb]; [intros H; inversion H; subst; reflexivity|].
  destruct (rget real (packed d)) eqn:Ep; [intros H; inversion H; subst; reflexivity|].
  intros H; inversion H; subst. clear H.
  exists real. split.
  - unfold follow in Ef. apply (follow_f_none _ _ _ _ _ n) in Ef. exact Ef.
  - intros q. unfold dread, upd. cbn [loose packed]. rewrite rget_rset. destruct (bytes_beq q real); reflexivity.
Qed.

Lemma set_symbolic_ref_spec d n t d' r :
  set_symbolic_ref d n t = (d', r) ->
  match r with
  | RTrue => forall q, dread d' q = upd d n (Some (Sym t)) q
  | _ => d' = d
  end.
Proof.
  unfold set_symbolic_ref. destruct (pre_collide n d); [intros H; inversion H; subst; reflexivity|].
  destruct (post_collide n d); intros H; inversion H; subst; [reflexivity|].
  intros q. unfold dread, upd. cbn [loose packed]. rewrite rget_rset. destruct (bytes_beq q n); reflexivity.
Qed.

(* after a successful delete the name is gone: a stale packed value cannot resurface *)
Lemma remove_gone_lemma d n old d' :
  remove_if_equals d n old = (d', RTrue) -> dread d' n = None /\ getitem d' n = None.
Proof.
  intros H. apply remove_if_equals_spec in H. destruct H as [H _].
  assert (E : dread d' n = None) by (rewrite H; unfold upd; rewrite bytes_beq_refl; reflexivity).
  split; [exact E|]. unfold getitem, follow. cbn [follow_f]. rewrite E. reflexivity.
Qed.

(* non-vacuity: a loose value over a stale packed one, packed, then deleted *)
Example ex_refs :
  let a := [97] in let h1 := [49] in let h2 := [50] in
  let d0 := {| loose := [(a, Sha h2)]; packed := [(a, Sha h1)] |} in
  dread d0 a = Some (Sha h2) /\
  dread (pack_refs d0 true) a = Some (Sha h2) /\
  snd (remove_if_equals d0 a (Some h1)) = RFalse /\
  dread (fst (remove_if_equals d0 a (Some h2))) a = None.
Proof. vm_compute. repeat split; reflexivity. Qed.
