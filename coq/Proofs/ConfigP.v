(* Proofs/ConfigP.v — lemmas about Model/Config.v *)
From DV Require Import Bytes Config.
Local Open Scope Z_scope.

Ltac consts := unfold BS, DQ, LF, CR, TAB, SP, HASH, SEMI in *.

(* ---------- the dulwich reader inside quotes ---------- *)
Lemma ps_quoted : forall v tail ret,
  ps (escape_value v ++ tail) ret [] true = ps tail (ret ++ v) [] true.
Proof.
  induction v as [|c v IH]; intros tail ret; [cbn; rewrite app_nil_r; reflexivity|].
  unfold escape_value in *. cbn [flat_map]. rewrite <- app_assoc.
  replace (ret ++ c :: v) with ((ret ++ [c]) ++ v) by (rewrite <- app_assoc; reflexivity).
  rewrite <- IH. unfold esc_byte.
  destruct (c =? BS) eqn:E1.
  { assert (c = BS) by lia. subst c. cbn. reflexivity. }
  destruct (c =? LF) eqn:E2.
  { assert (c = LF) by lia. subst c. cbn. reflexivity. }
  destruct (c =? TAB) eqn:E3.
  { assert (c = TAB) by lia. subst c. cbn. reflexivity. }
  destruct (c =? DQ) eqn:E4.
  { assert (c = DQ) by lia. subst c. cbn. reflexivity. }
  cbn [app ps]. rewrite E1, E4. cbn [negb andb]. rewrite andb_false_r.
  unfold is_blank. rewrite E3. rewrite orb_false_r.
  destruct (c =? SP); cbn [app]; reflexivity.
Qed.

(* ---------- the dulwich reader outside quotes ---------- *)
Fixpoint absorb (v : bytes) (st : bytes * bytes) : bytes * bytes :=
  match v with
  | [] => st
  | c :: r => absorb r (if c =? SP then (fst st, snd st ++ [c]) else (fst st ++ snd st ++ [c], []))
  end.

Lemma ps_unquoted : forall v tail ret ws,
  mem HASH v = false -> mem SEMI v = false ->
  ps (escape_value v ++ tail) ret ws false =
  ps tail (fst (absorb v (ret, ws))) (snd (absorb v (ret, ws))) false.
Proof.
  induction v as [|c v IH]; intros tail ret ws Hh Hs; [reflexivity|].
  cbn [mem existsb] in Hh, Hs. apply orb_false_elim in Hh, Hs. destruct Hh as [Hh1 Hh2], Hs as [Hs1 Hs2].
  unfold escape_value in *. cbn [flat_map absorb fst snd]. rewrite <- app_assoc.
  unfold esc_byte.
  destruct (c =? BS) eqn:E1.
  { assert (c = BS) by lia. subst c. cbn. apply IH; assumption. }
  destruct (c =? LF) eqn:E2.
  { assert (c = LF) by lia. subst c. cbn. apply IH; assumption. }
  destruct (c =? TAB) eqn:E3.
  { assert (c = TAB) by lia. subst c. cbn. apply IH; assumption. }
  destruct (c =? DQ) eqn:E4.
  { assert (c = DQ) by lia. subst c. cbn. apply IH; assumption. }
  cbn [app ps]. rewrite E1, E4.
  replace ((c =? HASH) || (c =? SEMI)) with false by (consts; lia). cbn [andb].
  unfold is_blank. rewrite E3, orb_false_r.
  destruct (c =? SP) eqn:E5; apply IH; assumption.
Qed.

Lemma absorb_inv : forall v ret ws,
  Forall (eq SP) ws ->
  fst (absorb v (ret, ws)) ++ snd (absorb v (ret, ws)) = ret ++ ws ++ v /\
  Forall (eq SP) (snd (absorb v (ret, ws))).
Proof.
  induction v as [|c v IH]; intros ret ws Hw.
  - cbn. rewrite app_nil_r. auto.
  - cbn [absorb fst snd]. destruct (c =? SP) eqn:E; cbn [fst snd].
    + assert (c = SP) by lia. subst c.
      destruct (IH ret (ws ++ [SP])) as [H1 H2]; [apply Forall_app; auto|]. split; [|exact H2].
      etransitivity; [exact H1|]. rewrite <- app_assoc. reflexivity.
    + destruct (IH (ret ++ ws ++ [c]) []) as [H1 H2]; [constructor|]. split; [|exact H2].
      etransitivity; [exact H1|]. cbn [app]. rewrite <- !app_assoc. reflexivity.
Qed.

Lemma absorb_clean v : ends_blank v = false -> absorb v ([], []) = (v, []).
Proof.
  intros He. pose proof (absorb_inv v [] [] (Forall_nil _)) as H. unfold bytes in *.
  destruct (absorb v ([], [])) as [r w]. cbn [fst snd] in H. destruct H as [H1 H2]. cbn [app] in H1.
  destruct w as [|x w]; [rewrite app_nil_r in H1; subst; reflexivity|].
  exfalso. unfold ends_blank in He. rewrite <- H1 in He. rewrite rev_app_distr in He.
  assert (Hr : Forall (eq SP) (rev (x :: w))) by (apply Forall_rev; exact H2).
  destruct (rev (x :: w)) as [|y l] eqn:E.
  - apply (f_equal (@length Z)) in E. rewrite rev_length in E. cbn in E. lia.
  - inversion Hr; subst. cbn in He. discriminate.
Qed.

(* ---------- strip ---------- *)
Definition clean (s : bytes) : Prop :=
  s = [] \/ (exists c r, s = c :: r /\ is_strip c = false) /\ (exists c r, rev s = c :: r /\ is_strip c = false).

Lemma lstrip_head c r x : is_strip c = false -> lstrip ((c :: r) ++ x) = (c :: r) ++ x.
Proof. intros H. cbn. rewrite H. reflexivity. Qed.

Lemma strip_value_part s : clean s -> strip (SP :: s ++ [LF]) = s.
Proof.
  intros [->|[(c & r & -> & Hc) (c2 & r2 & Hr & Hc2)]]; [reflexivity|].
  unfold strip.
  assert (L1 : lstrip (SP :: (c :: r) ++ [LF]) = (c :: r) ++ [LF]).
  { cbn [lstrip]. replace (is_strip SP) with true by reflexivity.
    change ((c :: r) ++ [LF]) with (c :: (r ++ [LF])). cbn [lstrip]. rewrite Hc. reflexivity. }
  change (SP :: (c :: r) ++ [LF]) with (SP :: (c :: r) ++ [LF]). rewrite L1.
  rewrite rev_app_distr. cbn [rev app].
  change (rev r ++ [c]) with (rev (c :: r)). rewrite Hr.
  cbn [lstrip]. replace (is_strip LF) with true by reflexivity. rewrite Hc2.
  rewrite <- Hr. apply rev_involutive.
Qed.

(* first / last byte of an escaped value *)
Lemma esc_byte_first c : c <> SP -> c <> TAB -> c <> CR ->
  exists d l, esc_byte c = d :: l /\ is_strip d = false.
Proof.
  intros H1 H2 H3. unfold esc_byte.
  destruct (c =? BS) eqn:E1; [eexists _, _; split; reflexivity|].
  destruct (c =? LF) eqn:E2; [eexists _, _; split; reflexivity|].
  destruct (c =? TAB) eqn:E3; [consts; lia|].
  destruct (c =? DQ) eqn:E4; [eexists _, _; split; reflexivity|].
  eexists _, _; split; [reflexivity|]. unfold is_strip. consts. lia.
Qed.

Lemma esc_byte_last c : c <> SP -> c <> TAB -> c <> CR ->
  exists d l, rev (esc_byte c) = d :: l /\ is_strip d = false.
Proof.
  intros H1 H2 H3. unfold esc_byte.
  destruct (c =? BS) eqn:E1; [eexists _, _; split; reflexivity|].
  destruct (c =? LF) eqn:E2; [eexists _, _; split; reflexivity|].
  destruct (c =? TAB) eqn:E3; [consts; lia|].
  destruct (c =? DQ) eqn:E4; [eexists _, _; split; reflexivity|].
  eexists _, _; split; [reflexivity|]. unfold is_strip. consts. lia.
Qed.

Lemma mem_false_head c x v : mem c (x :: v) = false -> x <> c /\ mem c v = false.
Proof. cbn. intros H. apply orb_false_elim in H. destruct H as [H1 H2]. split; [lia|exact H2]. Qed.

Lemma mem_rev c v : mem c (rev v) = mem c v.
Proof.
  unfold mem. destruct (existsb (Z.eqb c) v) eqn:E.
  - apply existsb_exists in E. destruct E as (x & Hx & Hc). apply existsb_exists. exists x. split; [rewrite <- in_rev; exact Hx|exact Hc].
  - destruct (existsb (Z.eqb c) (rev v)) eqn:E2; [|reflexivity].
    apply existsb_exists in E2. destruct E2 as (x & Hx & Hc). rewrite <- in_rev in Hx.
    assert (existsb (Z.eqb c) v = true) by (apply existsb_exists; eauto). congruence.
Qed.

Lemma escape_value_rev_last v c :
  rev (escape_value (v ++ [c])) = rev (esc_byte c) ++ rev (escape_value v).
Proof. unfold escape_value. rewrite flat_map_app. cbn [flat_map]. rewrite app_nil_r, rev_app_distr. reflexivity. Qed.

Lemma format_clean v : clean (format_string v).
Proof.
  unfold format_string. destruct (needs_quote v) eqn:Eq.
  - right. split; [eexists _, _; split; reflexivity|].
    cbn [rev]. rewrite rev_app_distr. cbn [rev app]. eexists _, _; split; reflexivity.
  - unfold needs_quote in Eq. repeat (apply orb_false_elim in Eq; destruct Eq as [Eq ?]).
    destruct v as [|c v]; [left; reflexivity|]. right. split.
    + unfold starts_blank, is_blank in Eq. apply mem_false_head in H as [Hcr _].
      destruct (esc_byte_first c) as (d & l & Hd & Hs); [consts; lia|consts; lia|exact Hcr|].
      unfold escape_value. cbn [flat_map]. rewrite Hd. cbn [app]. eauto.
    + unfold ends_blank in H2. rewrite <- mem_rev in H.
      destruct (rev (c :: v)) as [|z l] eqn:Er.
      { apply (f_equal (@length Z)) in Er. rewrite rev_length in Er. cbn in Er. lia. }
      assert (c :: v = rev l ++ [z]) by (rewrite <- (rev_involutive (c :: v)), Er; reflexivity).
      rewrite H3. rewrite escape_value_rev_last.
      unfold starts_blank, is_blank in H2. apply mem_false_head in H as [Hcr _].
      destruct (esc_byte_last z) as (d & l2 & Hd & Hs); [consts; lia|consts; lia|exact Hcr|].
      rewrite Hd. cbn [app]. eauto.
Qed.

Lemma value_roundtrip_lemma v : parse_string (value_part v) = Some v.
Proof.
  unfold parse_string, value_part. rewrite strip_value_part by apply format_clean.
  unfold format_string. destruct (needs_quote v) eqn:Eq.
  - cbn [ps]. change (DQ =? BS) with false. change (DQ =? DQ) with true. cbn [negb].
    rewrite ps_quoted. cbn [app ps]. change (DQ =? BS) with false. change (DQ =? DQ) with true. reflexivity.
  - unfold needs_quote in Eq. repeat (apply orb_false_elim in Eq; destruct Eq as [Eq ?]).
    rewrite <- (app_nil_r (escape_value v)). rewrite ps_unquoted by assumption.
    rewrite absorb_clean by assumption. reflexivity.
Qed.

(* ---------- git's reader on what dulwich writes ---------- *)
Lemma crlf_no_lf : forall l, Forall (fun c => c <> LF) l -> last l SP <> CR -> crlf (l ++ [LF]) = l ++ [LF].
Proof.
  induction l as [|c r IH]; intros Hf Hl; [reflexivity|].
  inversion Hf as [|? ? Hc Hr]; subst.
  destruct r as [|n r'].
  - cbn [app crlf last] in *. replace ((c =? CR) && (LF =? LF)) with false by (consts; lia). reflexivity.
  - cbn [app crlf]. inversion Hr; subst.
    replace ((c =? CR) && (n =? LF)) with false by (consts; lia).
    f_equal. apply IH; [assumption|]. exact Hl.
Qed.

Lemma esc_byte_no_lf c : Forall (fun x => x <> LF) (esc_byte c).
Proof.
  unfold esc_byte. destruct (c =? BS); [repeat constructor; consts; lia|].
  destruct (c =? LF) eqn:E; [repeat constructor; consts; lia|].
  destruct (c =? TAB); [repeat constructor; consts; lia|].
  destruct (c =? DQ); repeat constructor; consts; lia.
Qed.

Lemma escape_value_no_lf v : Forall (fun x => x <> LF) (escape_value v).
Proof.
  unfold escape_value. induction v as [|c v IH]; [constructor|].
  cbn [flat_map]. apply Forall_app. split; [apply esc_byte_no_lf|exact IH].
Qed.

Lemma format_no_lf v : Forall (fun x => x <> LF) (format_string v).
Proof.
  unfold format_string. destruct (needs_quote v).
  - constructor; [consts; lia|]. apply Forall_app. split; [apply escape_value_no_lf|repeat constructor; consts; lia].
  - apply escape_value_no_lf.
Qed.

Lemma last_rev_head (l : bytes) c r d : rev l = c :: r -> last l d = c.
Proof.
  intros H. assert (l = rev r ++ [c]) by (rewrite <- (rev_involutive l), H; reflexivity). subst l.
  apply last_last.
Qed.

Lemma crlf_value_part v : crlf (value_part v) = value_part v.
Proof.
  unfold value_part. change (SP :: format_string v ++ [LF]) with ((SP :: format_string v) ++ [LF]).
  apply crlf_no_lf.
  - constructor; [consts; lia|apply format_no_lf].
  - destruct (format_clean v) as [E|[_ (c & r & Hr & Hc)]].
    + rewrite E. cbn. consts. lia.
    + destruct (format_string v) as [|x l] eqn:Ef; [cbn in Hr; discriminate|].
      change (last (SP :: x :: l) SP) with (last (x :: l) SP).
      rewrite (last_rev_head _ _ _ _ Hr). unfold is_strip in Hc. consts. lia.
Qed.

Lemma gpv_quoted : forall v tail val,
  gpv (escape_value v ++ tail) val 0 true false = gpv tail (val ++ v) 0 true false.
Proof.
  induction v as [|c v IH]; intros tail val; [cbn; rewrite app_nil_r; reflexivity|].
  unfold escape_value in *. cbn [flat_map]. rewrite <- app_assoc.
  replace (val ++ c :: v) with ((val ++ [c]) ++ v) by (rewrite <- app_assoc; reflexivity).
  rewrite <- IH. unfold esc_byte.
  destruct (c =? BS) eqn:E1.
  { assert (c = BS) by lia. subst c. cbn. rewrite app_nil_r. reflexivity. }
  destruct (c =? LF) eqn:E2.
  { assert (c = LF) by lia. subst c. cbn. rewrite app_nil_r. reflexivity. }
  destruct (c =? TAB) eqn:E3.
  { assert (c = TAB) by lia. subst c. cbn. rewrite app_nil_r. reflexivity. }
  destruct (c =? DQ) eqn:E4.
  { assert (c = DQ) by lia. subst c. cbn. rewrite app_nil_r. reflexivity. }
  cbn [app gpv]. rewrite E1, E2, E4. cbn [negb andb]. rewrite andb_false_r.
  cbn [spaces]. rewrite app_nil_r. reflexivity.
Qed.

Fixpoint gabsorb (v : bytes) (st : bytes * nat) : bytes * nat :=
  match v with
  | [] => st
  | c :: r => gabsorb r (if c =? SP then (fst st, S (snd st)) else (fst st ++ spaces (snd st) ++ [c], 0%nat))
  end.

Lemma gpv_unquoted : forall v tail val space,
  val <> [] -> mem HASH v = false -> mem SEMI v = false -> mem CR v = false ->
  gpv (escape_value v ++ tail) val space false false =
  gpv tail (fst (gabsorb v (val, space))) (snd (gabsorb v (val, space))) false false.
Proof.
  induction v as [|c v IH]; intros tail val space Hv Hh Hs Hc; [reflexivity|].
  apply mem_false_head in Hh as [Hh1 Hh2]. apply mem_false_head in Hs as [Hs1 Hs2].
  apply mem_false_head in Hc as [Hc1 Hc2].
  assert (Hne : forall x y, val ++ x ++ [y] <> []) by (intros x y E; apply app_eq_nil in E; destruct E; contradiction).
  unfold escape_value in *. cbn [flat_map gabsorb fst snd]. rewrite <- app_assoc.
  unfold esc_byte.
  destruct (c =? BS) eqn:E1.
  { assert (c = BS) by lia. subst c. cbn. rewrite <- ?app_assoc. apply IH; auto. }
  destruct (c =? LF) eqn:E2.
  { assert (c = LF) by lia. subst c. cbn. rewrite <- ?app_assoc. apply IH; auto. }
  destruct (c =? TAB) eqn:E3.
  { assert (c = TAB) by lia. subst c. cbn. rewrite <- ?app_assoc. apply IH; auto. }
  destruct (c =? DQ) eqn:E4.
  { assert (c = DQ) by lia. subst c. cbn. rewrite <- ?app_assoc. apply IH; auto. }
  cbn [app gpv]. rewrite E2. cbn [negb andb]. rewrite andb_true_r.
  unfold git_space. rewrite E2, E3. replace (c =? CR) with false by (consts; lia). rewrite !orb_false_r.
  destruct (c =? SP) eqn:E5.
  - destruct val as [|x val']; [contradiction|]. apply IH; auto.
  - replace ((c =? SEMI) || (c =? HASH)) with false by (consts; lia). rewrite E1, E4.
    rewrite <- ?app_assoc. apply IH; auto.
Qed.

Lemma spaces_app n : spaces n ++ [SP] = SP :: spaces n.
Proof. induction n as [|n IH]; [reflexivity|]. cbn. rewrite IH. reflexivity. Qed.

Lemma gabsorb_inv : forall v val space,
  fst (gabsorb v (val, space)) ++ spaces (snd (gabsorb v (val, space))) = val ++ spaces space ++ v.
Proof.
  induction v as [|c v IH]; intros val space; [cbn; rewrite app_nil_r; reflexivity|].
  cbn [gabsorb fst snd]. destruct (c =? SP) eqn:E; cbn [fst snd].
  - assert (c = SP) by lia. subst c. etransitivity; [apply IH|]. cbn [spaces].
    f_equal. rewrite <- spaces_app, <- app_assoc. reflexivity.
  - etransitivity; [apply IH|]. cbn [spaces app]. rewrite <- !app_assoc. reflexivity.
Qed.

Lemma spaces_all n : Forall (eq SP) (spaces n).
Proof. induction n; constructor; auto. Qed.

Lemma gabsorb_app : forall a b st, gabsorb (a ++ b) st = gabsorb b (gabsorb a st).
Proof. induction a as [|c a IH]; intros b st; [reflexivity|]. cbn [app gabsorb]. apply IH. Qed.

Lemma gabsorb_clean v c val : ends_blank (c :: v) = false ->
  gabsorb v (val, 0%nat) = (val ++ v, 0%nat).
Proof.
  intros He. destruct (rev v) as [|x l] eqn:Er.
  - assert (v = []) by (rewrite <- (rev_involutive v), Er; reflexivity). subst v.
    cbn. rewrite app_nil_r. reflexivity.
  - assert (Hv : v = rev l ++ [x]) by (rewrite <- (rev_involutive v), Er; reflexivity).
    assert (Hx : x <> SP).
    { unfold ends_blank in He. cbn [rev] in He. rewrite Er in He. cbn in He.
      unfold is_blank in He. consts. lia. }
    pose proof (gabsorb_inv v val 0) as H.
    assert (Hs : snd (gabsorb v (val, 0%nat)) = 0%nat).
    { rewrite Hv, gabsorb_app. cbn [gabsorb]. replace (x =? SP) with false by lia. reflexivity. }
    destruct (gabsorb v (val, 0%nat)) as [r n]. cbn [fst snd] in *. subst n.
    cbn [spaces app] in H. rewrite app_nil_r in H. subst r. reflexivity.
Qed.

Lemma git_reads_dulwich_lemma v : git_parse_value (value_part v) = Some v.
Proof.
  unfold git_parse_value. rewrite crlf_value_part. unfold value_part.
  cbn [gpv]. change (SP =? LF) with false. change (git_space SP && negb false) with true. cbv iota.
  unfold format_string. destruct (needs_quote v) eqn:Eq.
  - cbn [app gpv]. change (DQ =? LF) with false. change (git_space DQ && negb false) with false.
    change (negb false && ((DQ =? SEMI) || (DQ =? HASH))) with false. cbv iota.
    change (DQ =? BS) with false. change (DQ =? DQ) with true. cbv iota. cbn [spaces app negb].
    rewrite <- app_assoc. rewrite gpv_quoted. cbn [app gpv]. change (DQ =? LF) with false.
    change (git_space DQ && negb true) with false. cbn [negb andb]. cbv iota.
    change (DQ =? BS) with false. change (DQ =? DQ) with true. cbv iota.
    cbn [spaces negb]. rewrite app_nil_r. change (LF =? LF) with true. reflexivity.
  - unfold needs_quote in Eq. repeat (apply orb_false_elim in Eq; destruct Eq as [Eq ?]).
    destruct v as [|c v]; [reflexivity|].
    (* first character: not blank, so it starts the value *)
    unfold escape_value. cbn [flat_map]. rewrite <- app_assoc. fold (escape_value v).
    apply mem_false_head in H as [Hc1 Hc2]. apply mem_false_head in H0 as [Hs1 Hs2].
    apply mem_false_head in H1 as [Hh1 Hh2].
    unfold starts_blank, is_blank in Eq.
    assert (Hfirst : gpv (esc_byte c ++ escape_value v ++ [LF]) [] 0 false false
                     = gpv (escape_value v ++ [LF]) [c] 0 false false).
    { unfold esc_byte.
      destruct (c =? BS) eqn:E1; [assert (c = BS) by lia; subst c; reflexivity|].
      destruct (c =? LF) eqn:E2; [assert (c = LF) by lia; subst c; reflexivity|].
      destruct (c =? TAB) eqn:E3; [consts; lia|].
      destruct (c =? DQ) eqn:E4; [assert (c = DQ) by lia; subst c; reflexivity|].
      cbn [app gpv]. rewrite E2. unfold git_space. rewrite E2, E3.
      replace (c =? SP) with false by (consts; lia). replace (c =? CR) with false by (consts; lia).
      cbn [orb andb negb]. replace ((c =? SEMI) || (c =? HASH)) with false by (consts; lia).
      rewrite E1, E4. reflexivity. }
    rewrite Hfirst. rewrite gpv_unquoted by (auto; discriminate).
    pose proof (gabsorb_clean v c [c] H2) as HG. unfold bytes in *. rewrite HG. cbn [fst snd app gpv].
    change (LF =? LF) with true. reflexivity.
Qed.

(* ---------- subsections ---------- *)
Lemma unescape_escape_sub : forall n, unescape_subsection (flat_map esc_sub_byte n) = n.
Proof.
  induction n as [|c n IH]; [reflexivity|]. cbn [flat_map]. unfold esc_sub_byte.
  destruct (c =? BS) eqn:E1.
  { assert (c = BS) by lia. subst c. cbn [app unescape_subsection]. change (BS =? BS) with true. cbv iota.
    f_equal. exact IH. }
  destruct (c =? DQ) eqn:E2.
  { assert (c = DQ) by lia. subst c. cbn [app unescape_subsection]. change (BS =? BS) with true. cbv iota.
    f_equal. exact IH. }
  cbn [app unescape_subsection]. rewrite E1. f_equal. exact IH.
Qed.

Lemma subsection_roundtrip_lemma n e : escape_subsection n = Some e -> unescape_subsection e = n.
Proof.
  unfold escape_subsection. destruct (_ || _); [discriminate|]. intros H; inversion H; subst.
  apply unescape_escape_sub.
Qed.

(* ---------- non-vacuity ---------- *)
Example ex_values :
  map (fun v => (parse_string (value_part v), git_parse_value (value_part v)))
      [[97;59;98]; [32;97;32]; [13]; [11;97;12]; [35]; [34;92;10;9]] =
  map (fun v => (Some v, Some v)) [[97;59;98]; [32;97;32]; [13]; [11;97;12]; [35]; [34;92;10;9]].
Proof. vm_compute. reflexivity. Qed.
