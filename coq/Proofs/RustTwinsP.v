(* Proofs/RustTwinsP.v — the Python and Rust twins agree *)
From DV Require Import Bytes RustTwins.
Local Open Scope Z_scope.

(* ---------- parse_tree ---------- *)
Lemma octal_fold_mono : forall l acc, 0 <= acc -> forallb is_octal l = true ->
  acc <= fold_left (fun a c => a * 8 + (c - 48)) l acc.
Proof.
  induction l as [|c l IH]; intros acc Ha Hl; cbn [fold_left]; [lia|].
  cbn [forallb] in Hl. apply andb_prop in Hl. destruct Hl as [Hc Hl]. unfold is_octal in Hc.
  specialize (IH (acc * 8 + (c - 48)) ltac:(lia) Hl). lia.
Qed.

Lemma u32_octal_spec : forall l acc, 0 <= acc <= 4294967295 -> forallb is_octal l = true ->
  u32_octal l acc =
  (let v := fold_left (fun a c => a * 8 + (c - 48)) l acc in if v >? 4294967295 then None else Some v).
Proof.
  induction l as [|c l IH]; intros acc Ha Hl; cbn [u32_octal fold_left]; cbv zeta.
  - replace (acc >? 4294967295) with false by lia. reflexivity.
  - cbn [forallb] in Hl. apply andb_prop in Hl. destruct Hl as [Hc Hl]. unfold is_octal in Hc.
    destruct (acc * 8 + (c - 48) >? 4294967295) eqn:E.
    + pose proof (octal_fold_mono l (acc * 8 + (c - 48)) ltac:(lia) Hl).
      replace (fold_left (fun a c0 => a * 8 + (c0 - 48)) l (acc * 8 + (c - 48)) >? 4294967295) with true by lia.
      reflexivity.
    + apply IH; [lia|exact Hl].
Qed.

Lemma find_byte_spec b : forall l k, find_byte b l = Some k ->
  0 <= k /\ zskipn k l = b :: zskipn (k + 1) l /\ ~ In b (zfirstn k l).
Proof.
  induction l as [|c l IH]; intros k H; cbn [find_byte] in H; [discriminate|].
  destruct (c =? b) eqn:E.
  - inversion H; subst. assert (c = b) by lia. subst. split; [lia|]. split; [reflexivity|]. cbn. auto.
  - destruct (find_byte b l) as [k'|] eqn:E2; [|discriminate]. inversion H; subst.
    destruct (IH k' eq_refl) as (H0 & H1 & H2). split; [lia|].
    unfold zskipn, zfirstn in *.
    replace (Z.to_nat (k' + 1)) with (S (Z.to_nat k')) by lia.
    replace (Z.to_nat (k' + 1 + 1)) with (S (Z.to_nat (k' + 1))) by lia.
    cbn [skipn firstn]. split; [exact H1|]. intros [Hc|Hin]; [lia|contradiction].
Qed.

Lemma find_byte_cons_other b c l : c <> b ->
  find_byte b (c :: l) = match find_byte b l with Some k => Some (k + 1) | None => None end.
Proof. intros H. cbn [find_byte]. replace (c =? b) with false by lia. reflexivity. Qed.

Lemma zfirstn_hd {A} k (l : list A) : 0 < k ->
  match zfirstn k l with c :: _ => Some c | [] => None end = match l with c :: _ => Some c | [] => None end.
Proof. intros H. unfold zfirstn. destruct (Z.to_nat k) eqn:E; [lia|]. destruct l; reflexivity. Qed.

Lemma entry_py_eq_rs sha_len strict text : 0 <= sha_len -> py_entry sha_len strict text = rs_entry sha_len strict text.
Proof.
  intros Hs. unfold py_entry, rs_entry.
  destruct (find_byte 32 text) as [me|] eqn:Ef; [|reflexivity].
  destruct (find_byte_spec 32 text me Ef) as (Hme & Hskip & _).
  set (mt := zfirstn me text).
  (* the strict test looks at the same byte *)
  assert (Hstrict : (match mt with c :: _ => c =? 48 | [] => false end) = (match text with c :: _ => c =? 48 | [] => false end)
                    \/ mt = []).
  { destruct (Z.eq_dec me 0) as [->|Hnz]; [right; reflexivity|left].
    pose proof (zfirstn_hd me text ltac:(lia)) as H. fold mt in H.
    destruct mt, text; try discriminate; try reflexivity. inversion H; subst. reflexivity. }
  destruct (forallb is_octal mt) eqn:Eo; cbn [negb orb].
  2:{ rewrite orb_true_r. destruct (strict && _); reflexivity. }
  destruct mt as [|c0 mt'] eqn:Emt.
  { rewrite andb_false_r. reflexivity. }
  destruct Hstrict as [Hstrict|]; [|discriminate]. rewrite <- Hstrict.
  rewrite orb_false_r.
  rewrite u32_octal_spec by (try lia; exact Eo). cbv zeta. unfold octal_value.
  destruct (strict && (c0 =? 48)) eqn:Est.
  { destruct (fold_left _ (c0 :: mt') 0 >? 4294967295); reflexivity. }
  destruct (fold_left (fun a c => a * 8 + (c - 48)) (c0 :: mt') 0 >? 4294967295); [reflexivity|].
  rewrite Hskip. rewrite find_byte_cons_other by lia.
  destruct (find_byte 0 (zskipn (me + 1) text)) as [k|] eqn:Ek; [|reflexivity].
  destruct (find_byte_spec 0 _ k Ek) as (Hk & _ & _).
  replace (k + 1 - 1) with k by lia.
  assert (Hname : slice (32 :: zskipn (me + 1) text) 1 k = zfirstn k (zskipn (me + 1) text)) by reflexivity.
  assert (Hrest : zskipn (k + 1 + 1) (32 :: zskipn (me + 1) text) = zskipn (k + 1) (zskipn (me + 1) text)).
  { unfold zskipn. replace (Z.to_nat (k + 1 + 1)) with (S (Z.to_nat (k + 1))) by lia. reflexivity. }
  rewrite Hname, Hrest. reflexivity.
Qed.

Lemma parse_tree_py_eq_rs_lemma : forall fuel sha_len strict text, 0 <= sha_len ->
  py_parse_tree fuel sha_len strict text = rs_parse_tree fuel sha_len strict text.
Proof.
  induction fuel as [|f IH]; intros sha_len strict text Hs; [reflexivity|].
  cbn [py_parse_tree rs_parse_tree]. destruct text as [|c t]; [reflexivity|].
  rewrite entry_py_eq_rs by exact Hs. destruct (rs_entry sha_len strict (c :: t)) as [[e rest]|]; [|reflexivity].
  rewrite IH by exact Hs. reflexivity.
Qed.

(* ---------- tree order ---------- *)
Lemma zcmp_refl x : zcmp x x = OEq.
Proof. unfold zcmp. replace (x <? x) with false by lia. reflexivity. Qed.

Lemma zcmp_eq x y : zcmp x y = OEq -> x = y.
Proof. unfold zcmp. destruct (x <? y) eqn:E1; [discriminate|]. destruct (y <? x) eqn:E2; [discriminate|]. lia. Qed.

Definition plain (l : bytes) : Prop := Forall (fun c => c <> 0 /\ c <> 47 /\ 0 <= c < 256) l.

Lemma cmp_suffix_eq : forall (a b : bytes) (da db : bool), plain a -> plain b ->
  bytes_cmp (if da then a ++ [47] else a) (if db then b ++ [47] else b) = rs_cmp_suffix a b da db.
Proof.
  induction a as [|x a IH]; intros b da db Ha Hb.
  - destruct b as [|y b].
    + destruct da, db; reflexivity.
    + inversion Hb as [|? ? (Hy0 & Hy47 & Hyr) Hb']; subst. cbn [rs_cmp_suffix app].
      destruct da, db; cbn [bytes_cmp app]; unfold zcmp;
        destruct (47 <? y) eqn:E1; destruct (y <? 47) eqn:E2; destruct (0 <? y) eqn:E3; destruct (y <? 0) eqn:E4;
        try lia; try reflexivity.
  - inversion Ha as [|? ? (Hx0 & Hx47 & Hxr) Ha']; subst. destruct b as [|y b].
    + cbn [rs_cmp_suffix app]. destruct da, db; cbn [bytes_cmp app]; unfold zcmp;
        destruct (x <? 47) eqn:E1; destruct (47 <? x) eqn:E2; destruct (x <? 0) eqn:E3; destruct (0 <? x) eqn:E4;
        try lia; try reflexivity.
    + inversion Hb as [|? ? Hy Hb']; subst. cbn [rs_cmp_suffix].
      specialize (IH b da db Ha' Hb').
      destruct da, db; cbn [bytes_cmp app] in *; destruct (zcmp x y); try reflexivity; exact IH.
Qed.

Lemma tree_order_one_byte_lemma a b : plain (fst a) -> plain (fst b) -> py_tree_cmp a b = rs_tree_cmp_one_byte a b.
Proof. intros Ha Hb. unfold py_tree_cmp, rs_tree_cmp_one_byte, py_key. apply cmp_suffix_eq; assumption. Qed.

Lemma tree_order_py_eq_rs_lemma a b : py_tree_cmp a b = rs_tree_cmp a b.
Proof.
  unfold py_tree_cmp, rs_tree_cmp, py_key, rs_suffix.
  destruct (is_dir (snd a)), (is_dir (snd b)); rewrite ?app_nil_r; reflexivity.
Qed.

(* "foo" (a directory) against "foo/bar": equal for the one-byte comparator, ordered for key_entry *)
Lemma one_byte_differs :
  exists a b, py_tree_cmp a b <> rs_tree_cmp_one_byte a b.
Proof. exists ([102;111;111], 16384), ([102;111;111;47;98;97;114], 33188). vm_compute. discriminate. Qed.

(* ---------- bisect ---------- *)
Lemma bisect_py_eq_rs_lemma name sha : forall fuel s e,
  0 <= s -> e < 4611686018427387904 ->
  py_bisect fuel name sha s e = rs_bisect fuel name sha s e.
Proof.
  induction fuel as [|f IH]; intros s e Hs He; [reflexivity|].
  cbn [py_bisect rs_bisect]. destruct (s >? e) eqn:E; [reflexivity|].
  unfold i64_ok.
  assert (Hq : s + Z.quot (e - s) 2 = (s + e) / 2).
  { rewrite Z.quot_div_nonneg by lia. lia. }
  rewrite Hq.
  replace (negb ((-9223372036854775808 <=? e - s) && (e - s <=? 9223372036854775807))) with false by lia.
  replace (negb ((-9223372036854775808 <=? (s + e) / 2) && ((s + e) / 2 <=? 9223372036854775807))) with false by lia.
  destruct (bytes_cmp (name ((s + e) / 2)) sha).
  - replace ((-9223372036854775808 <=? (s + e) / 2 + 1) && ((s + e) / 2 + 1 <=? 9223372036854775807)) with true by lia.
    apply IH; lia.
  - reflexivity.
  - replace ((-9223372036854775808 <=? (s + e) / 2 - 1) && ((s + e) / 2 - 1 <=? 9223372036854775807)) with true by lia.
    apply IH; lia.
Qed.

Lemma bisect_top_py_eq_rs fuel name sha s e :
  0 <= s -> e < 4611686018427387904 ->
  py_bisect_top fuel name sha s e = rs_bisect_top fuel name sha s e.
Proof.
  intros Hs He. unfold py_bisect_top, rs_bisect_top.
  destruct (negb ((zlen sha =? 20) || (zlen sha =? 32))); [reflexivity|].
  destruct (s >? e); [reflexivity|]. apply bisect_py_eq_rs_lemma; assumption.
Qed.

Example ex_twins :
  py_parse_tree 5 2 false [49;48;48;54;52;52;32;97;0;7;8;52;48;48;48;48;32;98;0;9;10] =
    Some [([97], 33188, [7;8]); ([98], 16384, [9;10])] /\
  rs_parse_tree 5 2 false [49;48;48;54;52;52;32;97;0;7;8;52;48;48;48;48;32;98;0;9;10] =
    Some [([97], 33188, [7;8]); ([98], 16384, [9;10])] /\
  py_parse_tree 5 2 false [45;55;32;97;0;7;8] = None /\
  py_tree_cmp ([97], 16384) ([97;46;98], 33188) = OGt /\ rs_tree_cmp ([97], 16384) ([97;46;98], 33188) = OGt.
Proof. vm_compute. repeat split; reflexivity. Qed.

(* ---------- _count_blocks: the blocks partition the data ---------- *)
Lemma split_blocks_concat : forall l cur n, concat (split_blocks l cur n) = rev cur ++ l.
Proof.
  induction l as [|c l IH]; intros cur n; cbn [split_blocks].
  - destruct cur; cbn; [reflexivity|]. rewrite !app_nil_r. reflexivity.
  - destruct ((c =? 10) || (n + 1 =? 64)).
    + cbn [concat]. rewrite IH. cbn [rev app]. rewrite <- app_assoc. reflexivity.
    + rewrite IH. cbn [rev]. rewrite <- app_assoc. reflexivity.
Qed.

Lemma count_blocks_partition data : concat (count_blocks data) = data.
Proof. unfold count_blocks. rewrite split_blocks_concat. reflexivity. Qed.

Lemma split_blocks_bounded : forall l cur n, n = zlen cur -> 0 <= n < 64 ->
  Forall (fun b => 1 <= zlen b <= 64) (split_blocks l cur n).
Proof.
  induction l as [|c l IH]; intros cur n Hn Hb; cbn [split_blocks].
  - destruct cur as [|x cur']; [constructor|]. constructor; [|constructor].
    unfold zlen in *. rewrite rev_length. cbn [length] in *. lia.
  - destruct ((c =? 10) || (n + 1 =? 64)) eqn:E.
    + constructor; [|apply IH; [reflexivity|lia]].
      unfold zlen in *. rewrite rev_length. cbn [length]. lia.
    + apply IH; [rewrite zlen_cons; lia|lia].
Qed.

Lemma count_blocks_bounded data : Forall (fun b => 1 <= zlen b <= 64) (count_blocks data).
Proof. apply split_blocks_bounded; [reflexivity|lia]. Qed.
