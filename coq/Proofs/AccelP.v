(* Proofs/AccelP.v — the graph algorithms depend on the parent / reference
   relation only through its values: two sources that agree on every object
   (the commit objects themselves, a commit-graph file) give the same answers *)
From DV Require Import Gc Mof Lca.

Lemma fold_visit_ext : forall ds st, fold_left visit ds st = fold_left visit ds st.
Proof. reflexivity. Qed.

Section Ext.
  Variables f g : nat -> list nat.
  Hypothesis E : forall o, f o = g o.

  Lemma walk_ext : forall fuel p r, walk f fuel p r = walk g fuel p r.
  Proof.
    induction fuel as [|k IH]; intros p r; destruct p as [|x rest]; cbn [walk]; try reflexivity.
    rewrite E. destruct (fold_left visit (g x) (rest, r)) as [p' r']. apply IH.
  Qed.

  Lemma find_reachable_ext fuel roots : find_reachable f fuel roots = find_reachable g fuel roots.
  Proof. unfold find_reachable. destruct (fold_left visit roots ([], [])). apply walk_ext. Qed.

  Lemma collect_ext : forall fuel q c b common, collect f fuel q c b common = collect g fuel q c b common.
  Proof.
    induction fuel as [|k IH]; intros q c b common; destruct q as [|e q']; cbn [collect]; try reflexivity.
    rewrite E. destruct (mem e common); [apply IH|]. destruct (mem e c); apply IH.
  Qed.

  Lemma send_ext : forall fuel t d s, send f fuel t d s = send g fuel t d s.
  Proof.
    induction fuel as [|k IH]; intros t d s; destruct t as [|x rest]; cbn [send]; try reflexivity.
    rewrite E. destruct (mem x d); apply IH.
  Qed.
End Ext.

(* the sender's selection with parents read from two agreeing sources *)
Lemma select_parents_ext kind_of (p1 p2 cdeps : nat -> list nat) :
  (forall o, p1 o = p2 o) -> forall fuel haves wants,
  select kind_of p1 cdeps fuel haves wants = select kind_of p2 cdeps fuel haves wants.
Proof.
  intros E fuel haves wants. unfold select.
  destruct (Mof.split kind_of fuel haves) as [[hc ht] ho]. destruct (Mof.split kind_of fuel wants) as [[wc wt] wo].
  rewrite (find_reachable_ext p1 p2 E). destruct (find_reachable p2 fuel hc) as [anc|]; [|reflexivity].
  rewrite (collect_ext p1 p2 E). reflexivity.
Qed.

(* merge-base computation *)
Section LcaExt.
  Variables p1 p2 : node -> list node.
  Hypothesis E : forall v, p1 v = p2 v.
  Variable pick : list node -> nat.

  Lemma step_ext s : step p1 pick s = step p2 pick s.
  Proof. unfold step. destruct (nth_error (wl s) (pick (wl s) mod length (wl s))); [|reflexivity]. rewrite E. reflexivity. Qed.

  Lemma run_ext : forall fuel s, run p1 pick fuel s = run p2 pick fuel s.
  Proof.
    induction fuel as [|k IH]; intros s; cbn [run]; destruct (has_candidates s); try reflexivity.
    rewrite step_ext. apply IH.
  Qed.

  Lemma anc_tbl_ext : forall n, anc_tbl p1 n = anc_tbl p2 n.
  Proof. induction n as [|k IH]; cbn [anc_tbl]; [reflexivity|]. rewrite IH, E. reflexivity. Qed.

  Lemma find_lcas_ext n fuel c1 c2s : find_lcas p1 pick n fuel c1 c2s = find_lcas p2 pick n fuel c1 c2s.
  Proof.
    unfold find_lcas. rewrite run_ext. destruct (run p2 pick fuel (init c1 c2s)); [|reflexivity].
    unfold finish, ancb. rewrite anc_tbl_ext. reflexivity.
  Qed.

  Lemma can_fast_forward_ext n fuel c1 c2 : can_fast_forward p1 pick n fuel c1 c2 = can_fast_forward p2 pick n fuel c1 c2.
  Proof. unfold can_fast_forward. rewrite find_lcas_ext. reflexivity. Qed.
End LcaExt.
