(* Proofs/TreeDiffP.v — one directory level of the tree diff pairs every name exactly once *)
From DV Require Import Bytes RustTwins PackIdx PackIdxP TreeDiff.
Local Open Scope Z_scope.

(* strictly increasing names *)
Inductive sorted_ents : list tent -> Prop :=
| se_nil : sorted_ents []
| se_cons e r : Forall (fun x => bytes_cmp (t_name e) (t_name x) = OLt) r -> sorted_ents r -> sorted_ents (e :: r).

Definition find (n : bytes) (l : list tent) : option tent :=
  List.find (fun e => bytes_beq (t_name e) n) l.

Definition pair_name (p : option tent * option tent) : bytes :=
  match p with (Some a, _) => t_name a | (None, Some b) => t_name b | (None, None) => [] end.

Lemma bytes_cmp_trans : forall a b c, bytes_cmp a b = OLt -> bytes_cmp b c = OLt -> bytes_cmp a c = OLt.
Proof.
  induction a as [|x a IH]; intros [|y b] [|z c] H1 H2; cbn [bytes_cmp] in *; try discriminate; try reflexivity.
  unfold zcmp in *.
  destruct (x <? y) eqn:E1.
  - destruct (y <? z) eqn:E2.
    + replace (x <? z) with true by lia. reflexivity.
    + destruct (z <? y) eqn:E3; [discriminate|]. assert (y = z) by lia. subst. rewrite E1. reflexivity.
  - destruct (y <? x) eqn:E1'; [discriminate|]. assert (x = y) by lia. subst.
    destruct (y <? z) eqn:E2; [reflexivity|]. destruct (z <? y) eqn:E3; [discriminate|]. eapply IH; eauto.
Qed.

Lemma find_none_lt n l : Forall (fun x => bytes_cmp n (t_name x) = OLt) l -> find n l = None.
Proof.
  induction 1 as [|x r Hx _ IH]; [reflexivity|]. unfold find in *. cbn [List.find].
  destruct (bytes_beq (t_name x) n) eqn:E; [|exact IH]. apply bytes_beq_spec in E. subst n. rewrite bytes_cmp_refl in Hx. discriminate.
Qed.

Lemma find_head e r : find (t_name e) (e :: r) = Some e.
Proof. unfold find. cbn [List.find]. rewrite bytes_beq_refl. reflexivity. Qed.

Lemma find_tail e r n : bytes_cmp (t_name e) n <> OEq -> find n (e :: r) = find n r.
Proof.
  intros H. unfold find. cbn [List.find]. destruct (bytes_beq (t_name e) n) eqn:E; [|reflexivity].
  apply bytes_beq_spec in E. subst n. rewrite bytes_cmp_refl in H. contradiction.
Qed.

Lemma bytes_cmp_flip' : forall a b, bytes_cmp a b = OGt -> bytes_cmp b a = OLt.
Proof.
  induction a as [|x a IH]; intros [|y b] H; cbn [bytes_cmp] in *; try discriminate; try reflexivity.
  unfold zcmp in *. destruct (x <? y) eqn:E1; [discriminate|]. destruct (y <? x) eqn:E2; [reflexivity|].
  apply IH. exact H.
Qed.

Lemma lt_neq a b : bytes_cmp a b = OLt -> bytes_cmp a b <> OEq.
Proof. intros H; rewrite H; discriminate. Qed.
Lemma gt_neq a b : bytes_cmp a b = OLt -> bytes_cmp b a <> OEq.
Proof. intros H; apply bytes_cmp_flip in H; rewrite H; discriminate. Qed.

Lemma Forall_lt_trans a b l : bytes_cmp a b = OLt -> Forall (fun x => bytes_cmp b (t_name x) = OLt) l ->
  Forall (fun x => bytes_cmp a (t_name x) = OLt) l.
Proof. intros H F. eapply Forall_impl; [|exact F]. intros x Hx. eapply bytes_cmp_trans; eauto. Qed.

(* what a correct pairing is *)
Definition pair_ok (l1 l2 : list tent) (p : option tent * option tent) : Prop :=
  fst p = find (pair_name p) l1 /\ snd p = find (pair_name p) l2 /\ (fst p <> None \/ snd p <> None).

Inductive sorted_pairs : list (option tent * option tent) -> Prop :=
| sp_nil : sorted_pairs []
| sp_cons p r : Forall (fun q => bytes_cmp (pair_name p) (pair_name q) = OLt) r -> sorted_pairs r -> sorted_pairs (p :: r).

(* pairs of a tail are pairs of the whole when the dropped heads sort before them *)
Lemma pair_ok_weaken l1 l2 l1' l2' ps :
  Forall (fun p => find (pair_name p) l1' = find (pair_name p) l1 /\ find (pair_name p) l2' = find (pair_name p) l2) ps ->
  Forall (pair_ok l1 l2) ps -> Forall (pair_ok l1' l2') ps.
Proof.
  intros Hf Hp. induction ps as [|p ps IH]; [constructor|].
  inversion Hf as [|? ? [Ha Hb] Hf']; subst. inversion Hp as [|? ? [H1 [H2 H3]] Hp']; subst.
  constructor; [|apply IH; assumption]. unfold pair_ok. rewrite Ha, Hb. auto.
Qed.

Lemma merge_spec : forall fuel l1 l2 lo,
  sorted_ents l1 -> sorted_ents l2 -> (length l1 + length l2 <= fuel)%nat ->
  Forall (fun x => bytes_cmp lo (t_name x) = OLt) l1 -> Forall (fun x => bytes_cmp lo (t_name x) = OLt) l2 ->
  Forall (pair_ok l1 l2) (merge_entries fuel l1 l2) /\
  Forall (fun p => bytes_cmp lo (pair_name p) = OLt) (merge_entries fuel l1 l2) /\
  sorted_pairs (merge_entries fuel l1 l2) /\
  (forall n, (find n l1 <> None \/ find n l2 <> None) -> In n (map pair_name (merge_entries fuel l1 l2))).
Proof.
  induction fuel as [|f IH]; intros l1 l2 lo S1 S2 Hf L1 L2.
  - destruct l1; destruct l2; cbn [length] in Hf; try lia. cbn. repeat split; try constructor. intros n [H|H]; exfalso; apply H; reflexivity.
  - destruct l1 as [|e1 r1]; destruct l2 as [|e2 r2]; cbn [merge_entries].
    + repeat split; try constructor. intros n [H|H]; exfalso; apply H; reflexivity.
    + inversion S2 as [|? ? F2 S2']; subst. inversion L2 as [|? ? Le2 L2']; subst.
      destruct (IH [] r2 (t_name e2) S1 S2' ltac:(cbn [length] in *; lia) ltac:(constructor) F2) as (Ha & Hb & Hc & Hd).
      repeat split.
      * constructor.
        -- unfold pair_ok; cbn [fst snd pair_name]. rewrite find_head. repeat split; try reflexivity; (left; discriminate) || (right; discriminate).
        -- eapply pair_ok_weaken; [|exact Ha].
           eapply Forall_impl; [|exact Hb]. intros p Hp. split; [reflexivity|]. apply find_tail. apply lt_neq. exact Hp.
      * constructor; [exact Le2|]. eapply Forall_impl; [|exact Hb]. intros p Hp. eapply bytes_cmp_trans; [exact Le2|exact Hp].
      * constructor; assumption.
      * intros n [H|H]; [exfalso; apply H; reflexivity|]. cbn [map pair_name].
        destruct (bytes_beq (t_name e2) n) eqn:E.
        -- apply bytes_beq_spec in E. left. exact E.
        -- right. apply Hd. right. unfold find in *. cbn [List.find] in H. rewrite E in H. exact H.
    + inversion S1 as [|? ? F1 S1']; subst. inversion L1 as [|? ? Le1 L1']; subst.
      destruct (IH r1 [] (t_name e1) S1' S2 ltac:(cbn [length] in *; lia) F1 ltac:(constructor)) as (Ha & Hb & Hc & Hd).
      repeat split.
      * constructor.
        -- unfold pair_ok; cbn [fst snd pair_name]. rewrite find_head. repeat split; try reflexivity; (left; discriminate) || (right; discriminate).
        -- eapply pair_ok_weaken; [|exact Ha].
           eapply Forall_impl; [|exact Hb]. intros p Hp. split; [|reflexivity]. apply find_tail. apply lt_neq. exact Hp.
      * constructor; [exact Le1|]. eapply Forall_impl; [|exact Hb]. intros p Hp. eapply bytes_cmp_trans; [exact Le1|exact Hp].
      * constructor; assumption.
      * intros n [H|H]; [|exfalso; apply H; reflexivity]. cbn [map pair_name].
        destruct (bytes_beq (t_name e1) n) eqn:E.
        -- apply bytes_beq_spec in E. left. exact E.
        -- right. apply Hd. left. unfold find in *. cbn [List.find] in H. rewrite E in H. exact H.
    + inversion S1 as [|? ? F1 S1']; subst. inversion L1 as [|? ? Le1 L1']; subst.
      inversion S2 as [|? ? F2 S2']; subst. inversion L2 as [|? ? Le2 L2']; subst.
      destruct (bytes_cmp (t_name e1) (t_name e2)) eqn:C.
      * (* e1 first *)
        assert (F2' : Forall (fun x => bytes_cmp (t_name e1) (t_name x) = OLt) (e2 :: r2)).
        { constructor; [exact C|]. eapply Forall_lt_trans; eauto. }
        destruct (IH r1 (e2 :: r2) (t_name e1) S1' S2 ltac:(cbn [length] in *; lia) F1 F2') as (Ha & Hb & Hc & Hd).
        repeat split.
        -- constructor.
           ++ unfold pair_ok; cbn [fst snd pair_name]. rewrite find_head. rewrite (find_none_lt _ _ F2'). repeat split; try reflexivity; (left; discriminate) || (right; discriminate).
           ++ eapply pair_ok_weaken; [|exact Ha].
              eapply Forall_impl; [|exact Hb]. intros p Hp. split; [|reflexivity]. apply find_tail. apply lt_neq. exact Hp.
        -- constructor; [exact Le1|]. eapply Forall_impl; [|exact Hb]. intros p Hp. eapply bytes_cmp_trans; [exact Le1|exact Hp].
        -- constructor; assumption.
        -- intros n Hn. cbn [map pair_name].
           destruct (bytes_beq (t_name e1) n) eqn:E.
           ++ apply bytes_beq_spec in E. left. exact E.
           ++ right. apply Hd. destruct Hn as [H|H]; [left|right; exact H]. unfold find in *. cbn [List.find] in H. rewrite E in H. exact H.
      * (* same name *)
        apply bytes_cmp_eq in C.
        assert (F2' : Forall (fun x => bytes_cmp (t_name e1) (t_name x) = OLt) r2) by (rewrite C; exact F2).
        destruct (IH r1 r2 (t_name e1) S1' S2' ltac:(cbn [length] in *; lia) F1 F2') as (Ha & Hb & Hc & Hd).
        repeat split.
        -- constructor.
           ++ unfold pair_ok; cbn [fst snd pair_name]. rewrite find_head. replace (find (t_name e1) (e2 :: r2)) with (Some e2) by (rewrite C; symmetry; apply find_head). repeat split; try reflexivity; (left; discriminate) || (right; discriminate).
           ++ eapply pair_ok_weaken; [|exact Ha].
              eapply Forall_impl; [|exact Hb]. intros p Hp. split; apply find_tail.
              ** apply lt_neq. exact Hp.
              ** rewrite <- C. apply lt_neq. exact Hp.
        -- constructor; [exact Le1|]. eapply Forall_impl; [|exact Hb]. intros p Hp. eapply bytes_cmp_trans; [exact Le1|exact Hp].
        -- constructor; assumption.
        -- intros n Hn. cbn [map pair_name].
           destruct (bytes_beq (t_name e1) n) eqn:E.
           ++ apply bytes_beq_spec in E. left. exact E.
           ++ right. apply Hd. unfold find in *. cbn [List.find] in Hn. rewrite <- C in Hn. rewrite E in Hn. exact Hn.
      * (* e2 first *)
        apply bytes_cmp_flip' in C.
        assert (F1' : Forall (fun x => bytes_cmp (t_name e2) (t_name x) = OLt) (e1 :: r1)).
        { constructor; [exact C|]. eapply Forall_lt_trans; eauto. }
        destruct (IH (e1 :: r1) r2 (t_name e2) S1 S2' ltac:(cbn [length] in *; lia) F1' F2) as (Ha & Hb & Hc & Hd).
        repeat split.
        -- constructor.
           ++ unfold pair_ok; cbn [fst snd pair_name]. rewrite find_head. rewrite (find_none_lt _ _ F1'). repeat split; try reflexivity; (left; discriminate) || (right; discriminate).
           ++ eapply pair_ok_weaken; [|exact Ha].
              eapply Forall_impl; [|exact Hb]. intros p Hp. split; [reflexivity|]. apply find_tail. apply lt_neq. exact Hp.
        -- constructor; [exact Le2|]. eapply Forall_impl; [|exact Hb]. intros p Hp. eapply bytes_cmp_trans; [exact Le2|exact Hp].
        -- constructor; assumption.
        -- intros n Hn. cbn [map pair_name].
           destruct (bytes_beq (t_name e2) n) eqn:E.
           ++ apply bytes_beq_spec in E. left. exact E.
           ++ right. apply Hd. destruct Hn as [H|H]; [left; exact H|right]. unfold find in *. cbn [List.find] in H. rewrite E in H. exact H.
Qed.
