(* Proofs/TreeDiffP.v — one directory level of the tree diff pairs every name exactly once *)
From Coq Require FinFun.
From DV Require Import Bytes RustTwins PackIdx PackIdxP TreeDiff.
Local Open Scope Z_scope.

(* strictly increasing names *)
Inductive sorted_ents : list tent -> Prop :=
| se_nil : sorted_ents []
| se_cons e r : Forall (fun x => bytes_cmp (t_name e) (t_name x) = OLt) r -> sorted_ents r -> sorted_ents (e :: r).

Lemma bytes_cmp_trans : forall a b c, bytes_cmp a b = OLt -> bytes_cmp b c = OLt -> bytes_cmp a c = OLt.
Proof.
  induction a as [|x a IH]; intros [|y b] [|z c] H1 H2; cbn [bytes_cmp] in *; try discriminate; try reflexivity.
  unfold zcmp in *.
  destruct (x <? y) eqn:E1.
  - destruct (y <? z) eqn:E2.
    + replace (x <? z) with true by lia. reflexivity.
    + destruct (z <? y) eqn:E3; [discriminate|]. assert (y = z) by lia. subst. rewrite E1. reflexivity.
  - destruct (y <? x) eqn:E1'; [discriminate|]. assert (x = y) by lia. subst.
    destruct (y <? z) eqn:E2; [reflexivity|]. destruct (z <? y) eqn:E3; [discriminate|]. eapply IH; eauto.
Qed.

Lemma find_none_lt n l : Forall (fun x => bytes_cmp n (t_name x) = OLt) l -> find n l = None.
Proof.
  induction 1 as [|x r Hx _ IH]; [reflexivity|]. unfold find in *. cbn [List.find].
  destruct (bytes_beq (t_name x) n) eqn:E; [|exact IH]. apply bytes_beq_spec in E. subst n. rewrite bytes_cmp_refl in Hx. discriminate.
Qed.

Lemma find_head e r : find (t_name e) (e :: r) = Some e.
Proof. unfold find. cbn [List.find]. rewrite bytes_beq_refl. reflexivity. Qed.

Lemma find_tail e r n : bytes_cmp (t_name e) n <> OEq -> find n (e :: r) = find n r.
Proof.
  intros H. unfold find. cbn [List.find]. destruct (bytes_beq (t_name e) n) eqn:E; [|reflexivity].
  apply bytes_beq_spec in E. subst n. rewrite bytes_cmp_refl in H. contradiction.
Qed.

Lemma bytes_cmp_flip' : forall a b, bytes_cmp a b = OGt -> bytes_cmp b a = OLt.
Proof.
  induction a as [|x a IH]; intros [|y b] H; cbn [bytes_cmp] in *; try discriminate; try reflexivity.
  unfold zcmp in *. destruct (x <? y) eqn:E1; [discriminate|]. destruct (y <? x) eqn:E2; [reflexivity|].
  apply IH. exact H.
Qed.

Lemma lt_neq a b : bytes_cmp a b = OLt -> bytes_cmp a b <> OEq.
Proof. intros H; rewrite H; discriminate. Qed.
Lemma gt_neq a b : bytes_cmp a b = OLt -> bytes_cmp b a <> OEq.
Proof. intros H; apply bytes_cmp_flip in H; rewrite H; discriminate. Qed.

Lemma Forall_lt_trans a b l : bytes_cmp a b = OLt -> Forall (fun x => bytes_cmp b (t_name x) = OLt) l ->
  Forall (fun x => bytes_cmp a (t_name x) = OLt) l.
Proof. intros H F. eapply Forall_impl; [|exact F]. intros x Hx. eapply bytes_cmp_trans; eauto. Qed.

Definition lb (lo : option bytes) (n : bytes) : Prop := match lo with Some b => bytes_cmp b n = OLt | None => True end.
Lemma lb_trans lo a b : lb lo a -> bytes_cmp a b = OLt -> lb lo b.
Proof. destruct lo as [l|]; cbn; [|trivial]. intros H1 H2. eapply bytes_cmp_trans; eauto. Qed.

(* what a correct pairing is *)
Definition pair_ok (l1 l2 : list tent) (p : pair) : Prop :=
  fst p = find (pair_name p) l1 /\ snd p = find (pair_name p) l2 /\ (fst p <> None \/ snd p <> None).

Inductive sorted_pairs : list (pair) -> Prop :=
| sp_nil : sorted_pairs []
| sp_cons p r : Forall (fun q => bytes_cmp (pair_name p) (pair_name q) = OLt) r -> sorted_pairs r -> sorted_pairs (p :: r).

(* pairs of a tail are pairs of the whole when the dropped heads sort before them *)
Lemma pair_ok_weaken l1 l2 l1' l2' ps :
  Forall (fun p => find (pair_name p) l1' = find (pair_name p) l1 /\ find (pair_name p) l2' = find (pair_name p) l2) ps ->
  Forall (pair_ok l1 l2) ps -> Forall (pair_ok l1' l2') ps.
Proof.
  intros Hf Hp. induction ps as [|p ps IH]; [constructor|].
  inversion Hf as [|? ? [Ha Hb] Hf']; subst. inversion Hp as [|? ? [H1 [H2 H3]] Hp']; subst.
  constructor; [|apply IH; assumption]. unfold pair_ok. rewrite Ha, Hb. auto.
Qed.

Lemma merge_spec : forall fuel l1 l2 lo,
  sorted_ents l1 -> sorted_ents l2 -> (length l1 + length l2 <= fuel)%nat ->
  Forall (fun x => lb lo (t_name x)) l1 -> Forall (fun x => lb lo (t_name x)) l2 ->
  Forall (pair_ok l1 l2) (merge_entries fuel l1 l2) /\
  Forall (fun p => lb lo (pair_name p)) (merge_entries fuel l1 l2) /\
  sorted_pairs (merge_entries fuel l1 l2) /\
  (forall n, (find n l1 <> None \/ find n l2 <> None) -> In n (map pair_name (merge_entries fuel l1 l2))).
Proof.
  induction fuel as [|f IH]; intros l1 l2 lo S1 S2 Hf L1 L2.
  - destruct l1; destruct l2; cbn [length] in Hf; try lia. cbn. repeat split; try constructor. intros n [H|H]; exfalso; apply H; reflexivity.
  - destruct l1 as [|e1 r1]; destruct l2 as [|e2 r2]; cbn [merge_entries].
    + repeat split; try constructor. intros n [H|H]; exfalso; apply H; reflexivity.
    + inversion S2 as [|? ? F2 S2']; subst. inversion L2 as [|? ? Le2 L2']; subst.
      destruct (IH [] r2 (Some (t_name e2)) S1 S2' ltac:(cbn [length] in *; lia) ltac:(constructor) F2) as (Ha & Hb & Hc & Hd).
      repeat split.
      * constructor.
        -- unfold pair_ok; cbn [fst snd pair_name]. rewrite find_head. repeat split; try reflexivity; (left; discriminate) || (right; discriminate).
        -- eapply pair_ok_weaken; [|exact Ha].
           eapply Forall_impl; [|exact Hb]. intros p Hp. split; [reflexivity|]. apply find_tail. apply lt_neq. exact Hp.
      * constructor; [exact Le2|]. eapply Forall_impl; [|exact Hb]. intros p Hp. eapply lb_trans; [exact Le2|exact Hp].
      * constructor; assumption.
      * intros n [H|H]; [exfalso; apply H; reflexivity|]. cbn [map pair_name].
        destruct (bytes_beq (t_name e2) n) eqn:E.
        -- apply bytes_beq_spec in E. left. exact E.
        -- right. apply Hd. right. unfold find in *. cbn [List.find] in H. rewrite E in H. exact H.
    + inversion S1 as [|? ? F1 S1']; subst. inversion L1 as [|? ? Le1 L1']; subst.
      destruct (IH r1 [] (Some (t_name e1)) S1' S2 ltac:(cbn [length] in *; lia) F1 ltac:(constructor)) as (Ha & Hb & Hc & Hd).
      repeat split.
      * constructor.
        -- unfold pair_ok; cbn [fst snd pair_name]. rewrite find_head. repeat split; try reflexivity; (left; discriminate) || (right; discriminate).
        -- eapply pair_ok_weaken; [|exact Ha].
           eapply Forall_impl; [|exact Hb]. intros p Hp. split; [|reflexivity]. apply find_tail. apply lt_neq. exact Hp.
      * constructor; [exact Le1|]. eapply Forall_impl; [|exact Hb]. intros p Hp. eapply lb_trans; [exact Le1|exact Hp].
      * constructor; assumption.
      * intros n [H|H]; [|exfalso; apply H; reflexivity]. cbn [map pair_name].
        destruct (bytes_beq (t_name e1) n) eqn:E.
        -- apply bytes_beq_spec in E. left. exact E.
        -- right. apply Hd. left. unfold find in *. cbn [List.find] in H. rewrite E in H. exact H.
    + inversion S1 as [|? ? F1 S1']; subst. inversion L1 as [|? ? Le1 L1']; subst.
      inversion S2 as [|? ? F2 S2']; subst. inversion L2 as [|? ? Le2 L2']; subst.
      destruct (bytes_cmp (t_name e1) (t_name e2)) eqn:C.
      * (* e1 first *)
        assert (F2' : Forall (fun x => bytes_cmp (t_name e1) (t_name x) = OLt) (e2 :: r2)).
        { constructor; [exact C|]. eapply Forall_lt_trans; eauto. }
        destruct (IH r1 (e2 :: r2) (Some (t_name e1)) S1' S2 ltac:(cbn [length] in *; lia) F1 F2') as (Ha & Hb & Hc & Hd).
        repeat split.
        -- constructor.
           ++ unfold pair_ok; cbn [fst snd pair_name]. rewrite find_head. rewrite (find_none_lt _ _ F2'). repeat split; try reflexivity; (left; discriminate) || (right; discriminate).
           ++ eapply pair_ok_weaken; [|exact Ha].
              eapply Forall_impl; [|exact Hb]. intros p Hp. split; [|reflexivity]. apply find_tail. apply lt_neq. exact Hp.
        -- constructor; [exact Le1|]. eapply Forall_impl; [|exact Hb]. intros p Hp. eapply lb_trans; [exact Le1|exact Hp].
        -- constructor; assumption.
        -- intros n Hn. cbn [map pair_name].
           destruct (bytes_beq (t_name e1) n) eqn:E.
           ++ apply bytes_beq_spec in E. left. exact E.
           ++ right. apply Hd. destruct Hn as [H|H]; [left|right; exact H]. unfold find in *. cbn [List.find] in H. rewrite E in H. exact H.
      * (* same name *)
        apply bytes_cmp_eq in C.
        assert (F2' : Forall (fun x => bytes_cmp (t_name e1) (t_name x) = OLt) r2) by (rewrite C; exact F2).
        destruct (IH r1 r2 (Some (t_name e1)) S1' S2' ltac:(cbn [length] in *; lia) F1 F2') as (Ha & Hb & Hc & Hd).
        repeat split.
        -- constructor.
           ++ unfold pair_ok; cbn [fst snd pair_name]. rewrite find_head. replace (find (t_name e1) (e2 :: r2)) with (Some e2) by (rewrite C; symmetry; apply find_head). repeat split; try reflexivity; (left; discriminate) || (right; discriminate).
           ++ eapply pair_ok_weaken; [|exact Ha].
              eapply Forall_impl; [|exact Hb]. intros p Hp. split; apply find_tail.
              ** apply lt_neq. exact Hp.
              ** rewrite <- C. apply lt_neq. exact Hp.
        -- constructor; [exact Le1|]. eapply Forall_impl; [|exact Hb]. intros p Hp. eapply lb_trans; [exact Le1|exact Hp].
        -- constructor; assumption.
        -- intros n Hn. cbn [map pair_name].
           destruct (bytes_beq (t_name e1) n) eqn:E.
           ++ apply bytes_beq_spec in E. left. exact E.
           ++ right. apply Hd. unfold find in *. cbn [List.find] in Hn. rewrite <- C in Hn. rewrite E in Hn. exact Hn.
      * (* e2 first *)
        apply bytes_cmp_flip' in C.
        assert (F1' : Forall (fun x => bytes_cmp (t_name e2) (t_name x) = OLt) (e1 :: r1)).
        { constructor; [exact C|]. eapply Forall_lt_trans; eauto. }
        destruct (IH (e1 :: r1) r2 (Some (t_name e2)) S1 S2' ltac:(cbn [length] in *; lia) F1' F2) as (Ha & Hb & Hc & Hd).
        repeat split.
        -- constructor.
           ++ unfold pair_ok; cbn [fst snd pair_name]. rewrite find_head. rewrite (find_none_lt _ _ F1'). repeat split; try reflexivity; (left; discriminate) || (right; discriminate).
           ++ eapply pair_ok_weaken; [|exact Ha].
              eapply Forall_impl; [|exact Hb]. intros p Hp. split; [reflexivity|]. apply find_tail. apply lt_neq. exact Hp.
        -- constructor; [exact Le2|]. eapply Forall_impl; [|exact Hb]. intros p Hp. eapply lb_trans; [exact Le2|exact Hp].
        -- constructor; assumption.
        -- intros n Hn. cbn [map pair_name].
           destruct (bytes_beq (t_name e2) n) eqn:E.
           ++ apply bytes_beq_spec in E. left. exact E.
           ++ right. apply Hd. destruct Hn as [H|H]; [left; exact H|right]. unfold find in *. cbn [List.find] in H. rewrite E in H. exact H.
Qed.

Lemma merge_ok l1 l2 : sorted_ents l1 -> sorted_ents l2 ->
  Forall (pair_ok l1 l2) (merge l1 l2) /\ sorted_pairs (merge l1 l2) /\
  (forall n, (find n l1 <> None \/ find n l2 <> None) -> In n (map pair_name (merge l1 l2))).
Proof.
  intros S1 S2. unfold merge.
  destruct (merge_spec (length l1 + length l2) l1 l2 None S1 S2 (le_n _)) as (A & _ & C & D).
  - apply Forall_forall; intros; exact I.
  - apply Forall_forall; intros; exact I.
  - auto.
Qed.

(* ---------- the recursive diff ---------- *)
Definition item := (path * option leaf * option leaf)%type.
Definition ipath (d : item) : path := fst (fst d).
Definition pfx (n : bytes) (d : item) : item := (n :: fst (fst d), snd (fst d), snd d).

Definition pruned (pr : pair) : bool := is_tree (fst pr) && is_tree (snd pr) && oeqb (fst pr) (snd pr).

Fixpoint delta (fuel : nat) (st : store) (pr : pair) : list item :=
  if pruned pr then []
  else own_delta pr ++
       match fuel with
       | O => []
       | S f => flat_map (fun c => map (pfx (pair_name c)) (delta f st c)) (merge (sub st (fst pr)) (sub st (snd pr)))
       end.

Lemma flat_map_map_comm {A B} (g : A -> list B) (h : A -> A) (k : B -> B) (l : list A) :
  (forall x, g (h x) = map k (g x)) -> flat_map g (map h l) = map k (flat_map g l).
Proof.
  intros H. induction l as [|x l IH]; [reflexivity|]. cbn [map flat_map]. rewrite map_app, H, IH. reflexivity.
Qed.

Lemma own_map_id (l : list item) : map (fun d : item => ([] ++ fst (fst d), snd (fst d), snd d)) l = l.
Proof. rewrite <- (map_id l) at 2. apply map_ext. intros [[q o] n]. reflexivity. Qed.

Lemma tree_delta_eq st : forall f pr, tree_delta f st pr = delta f st pr.
Proof.
  induction f as [|f IH]; intros pr; unfold tree_delta; cbn [walk delta]; unfold pruned; cbn [andb];
    destruct (is_tree (fst pr) && is_tree (snd pr) && oeqb (fst pr) (snd pr)); try reflexivity; cbn [flat_map fst snd].
  - f_equal. apply own_map_id.
  - f_equal; [apply own_map_id|].
    induction (merge (sub st (fst pr)) (sub st (snd pr))) as [|c cs IHc]; [reflexivity|].
    cbn [flat_map]. rewrite flat_map_app. rewrite IHc. f_equal.
    rewrite <- IH. unfold tree_delta.
    apply flat_map_map_comm. intros [q x]. cbn [fst snd]. rewrite map_map. apply map_ext. intros [[q' o] n]. reflexivity.
Qed.

(* ---------- facts about reading trees ---------- *)
Lemma look_none st q : look st None q = None.
Proof. induction q as [|n r IH]; [reflexivity|]. cbn [look sub]. exact IH. Qed.

Lemma find_nil n : find n [] = None. Proof. reflexivity. Qed.

Lemma find_some' n l e : find n l = Some e -> In e l /\ t_name e = n.
Proof. unfold find. intros H. apply find_some in H. destruct H as [H1 H2]. apply bytes_beq_spec in H2. auto. Qed.

Lemma find_in_sorted l : sorted_ents l -> forall c, In c l -> find (t_name c) l = Some c.
Proof.
  induction 1 as [|e r F _ IH]; intros c Hc; [contradiction|]. destruct Hc as [->|Hc]; [apply find_head|].
  rewrite find_tail; [apply IH; exact Hc|]. rewrite Forall_forall in F. apply lt_neq. apply F. exact Hc.
Qed.

Lemma tent_eqb_eq a b : tent_eqb a b = true -> a = b.
Proof.
  unfold tent_eqb. intros H. apply andb_prop in H. destruct H as [H H3]. apply andb_prop in H. destruct H as [H1 H2].
  apply bytes_beq_spec in H1. apply bytes_beq_spec in H3. apply Z.eqb_eq in H2. destruct a, b; cbn in *. subst. reflexivity.
Qed.
Lemma oeqb_eq e1 e2 : oeqb e1 e2 = true -> e1 = e2.
Proof. destruct e1, e2; cbn; intros H; try discriminate; [apply tent_eqb_eq in H; subst|]; reflexivity. Qed.
Lemma tent_eqb_refl a : tent_eqb a a = true.
Proof. unfold tent_eqb. rewrite !bytes_beq_refl, Z.eqb_refl. reflexivity. Qed.

Definition names_agree (pr : pair) : Prop :=
  match pr with (Some a, Some b) => t_name a = t_name b | _ => True end.

Lemma own_spec pr q o n : names_agree pr ->
  (In (q, o, n) (own_delta pr) <-> q = [] /\ o = as_leaf (fst pr) /\ n = as_leaf (snd pr) /\ o <> n).
Proof.
  intros NA. unfold own_delta. destruct (oeqb (fst pr) (snd pr)) eqn:E.
  - apply oeqb_eq in E. split; [contradiction|]. intros (_ & -> & -> & H). rewrite E in H. contradiction.
  - assert (D : as_leaf (fst pr) <> as_leaf (snd pr) \/ (as_leaf (fst pr) = None /\ as_leaf (snd pr) = None)).
    { destruct pr as [[a|] [b|]]; cbn [fst snd as_leaf oeqb names_agree] in *.
      - destruct (is_dir (t_mode a)), (is_dir (t_mode b)); try (left; discriminate); [right; auto|].
        left. intros H. inversion H as [[H1 H2]]. unfold tent_eqb in E. rewrite NA, H1, H2, !bytes_beq_refl, Z.eqb_refl in E. discriminate.
      - destruct (is_dir (t_mode a)); [right; auto|left; discriminate].
      - destruct (is_dir (t_mode b)); [right; auto|left; discriminate].
      - discriminate. }
    destruct (as_leaf (fst pr)) as [x|] eqn:E1; destruct (as_leaf (snd pr)) as [y|] eqn:E2.
    + split; [intros [H|[]]; inversion H; subst; repeat split; destruct D as [D|[D _]]; [exact D|discriminate]
             |intros (-> & -> & -> & _); left; reflexivity].
    + split; [intros [H|[]]; inversion H; subst; repeat split; discriminate|intros (-> & -> & -> & _); left; reflexivity].
    + split; [intros [H|[]]; inversion H; subst; repeat split; discriminate|intros (-> & -> & -> & _); left; reflexivity].
    + split; [contradiction|]. intros (_ & -> & -> & H). contradiction.
Qed.

(* ---------- well-formed trees: names strictly increasing, depth within the fuel ---------- *)
Fixpoint wft (fuel : nat) (st : store) (e : option tent) : Prop :=
  sorted_ents (sub st e) /\
  match fuel with
  | O => sub st e = []
  | S f => forall c, In c (sub st e) -> wft f st (Some c)
  end.

Lemma wft_none f st : wft f st None.
Proof. destruct f; cbn; split; try constructor; try reflexivity. intros c []. Qed.

Lemma sortedb_sorted l : sortedb l = true -> sorted_ents l.
Proof.
  induction l as [|a r IH]; intros H; [constructor|].
  destruct r as [|b r']; [constructor; [constructor|constructor]|].
  cbn [sortedb] in H. apply andb_prop in H. destruct H as [H1 H2].
  destruct (bytes_cmp (t_name a) (t_name b)) eqn:C; try discriminate.
  specialize (IH H2). constructor; [|exact IH].
  inversion IH as [|? ? F S']; subst. constructor; [exact C|].
  eapply Forall_impl; [|exact F]. intros x Hx. eapply bytes_cmp_trans; eauto.
Qed.

Lemma wfb_wft st : forall f e, wfb f st e = true -> wft f st e.
Proof.
  induction f as [|f IH]; intros e H; cbn [wfb wft] in *; apply andb_prop in H; destruct H as [H1 H2]; split; try (apply sortedb_sorted; exact H1).
  - destruct (sub st e); [reflexivity|discriminate].
  - intros c Hc. apply IH. rewrite forallb_forall in H2. apply H2. exact Hc.
Qed.

Definition spec_for (st : store) (pr : pair) (D : list item) : Prop :=
  (forall q o n, In (q, o, n) D -> o = look st (fst pr) q /\ n = look st (snd pr) q /\ o <> n) /\
  (forall q, look st (fst pr) q <> look st (snd pr) q -> In (q, look st (fst pr) q, look st (snd pr) q) D) /\
  NoDup (map ipath D).

Lemma NoDup_app_intro {A} (a b : list A) : NoDup a -> NoDup b -> (forall x, In x a -> ~ In x b) -> NoDup (a ++ b).
Proof.
  induction a as [|x a IH]; intros Ha Hb Hd; [exact Hb|]. inversion Ha as [|? ? Hx Ha']; subst.
  cbn. constructor.
  - rewrite in_app_iff. intros [H|H]; [contradiction|]. eapply Hd; [left; reflexivity|exact H].
  - apply IH; auto. intros y Hy. apply Hd. right. exact Hy.
Qed.

Lemma in_kids_path (D : pair -> list item) cs q :
  In q (map ipath (flat_map (fun c => map (pfx (pair_name c)) (D c)) cs)) ->
  exists c r, In c cs /\ q = pair_name c :: r /\ In r (map ipath (D c)).
Proof.
  induction cs as [|c cs IH]; cbn [flat_map map]; [contradiction|].
  rewrite map_app, in_app_iff. intros [H|H].
  - rewrite map_map in H. apply in_map_iff in H. destruct H as [d [<- Hd]]. exists c, (ipath d). split; [left; reflexivity|].
    split; [reflexivity|]. apply in_map. exact Hd.
  - destruct (IH H) as (c' & r & Hc & Hq & Hr). exists c', r. split; [right; exact Hc|auto].
Qed.

Lemma kids_spec st (D : pair -> list item) L1 L2 cs :
  Forall (pair_ok L1 L2) cs -> sorted_pairs cs ->
  (forall n, (find n L1 <> None \/ find n L2 <> None) -> In n (map pair_name cs)) ->
  (forall c, In c cs -> spec_for st c (D c)) ->
  let K := flat_map (fun c => map (pfx (pair_name c)) (D c)) cs in
  (forall q o n, In (q, o, n) K -> exists m r, q = m :: r /\ o = look st (find m L1) r /\ n = look st (find m L2) r /\ o <> n) /\
  (forall m r, look st (find m L1) r <> look st (find m L2) r -> In (m :: r, look st (find m L1) r, look st (find m L2) r) K) /\
  NoDup (map ipath K).
Proof.
  intros OK SP CO SPEC K. rewrite Forall_forall in OK. repeat split.
  - intros q o n H. unfold K in H. apply in_flat_map in H. destruct H as (c & Hc & H).
    apply in_map_iff in H. destruct H as ([[r o'] n'] & Heq & Hd). unfold pfx in Heq. cbn [fst snd] in Heq. inversion Heq; subst.
    destruct (SPEC c Hc) as (S1 & _ & _). destruct (S1 _ _ _ Hd) as (A & B & C).
    destruct (OK c Hc) as (P1 & P2 & _). exists (pair_name c), r. rewrite <- P1, <- P2. auto.
  - intros m r H.
    assert (Hm : find m L1 <> None \/ find m L2 <> None).
    { destruct (find m L1) eqn:E1; [left; discriminate|]. destruct (find m L2) eqn:E2; [right; discriminate|].
      exfalso. apply H. reflexivity. }
    apply CO in Hm. apply in_map_iff in Hm. destruct Hm as (c & Hn & Hc). subst m.
    destruct (OK c Hc) as (P1 & P2 & _). destruct (SPEC c Hc) as (_ & S2 & _).
    rewrite <- P1, <- P2 in *. specialize (S2 r H).
    unfold K. apply in_flat_map. exists c. split; [exact Hc|].
    apply in_map_iff. exists (r, look st (fst c) r, look st (snd c) r). split; [reflexivity|exact S2].
  - unfold K. clear K CO OK. induction SP as [|c cs F SP IH]; [constructor|].
    cbn [flat_map]. rewrite map_app. apply NoDup_app_intro.
    + destruct (SPEC c (or_introl eq_refl)) as (_ & _ & ND). rewrite map_map.
      replace (map (fun x => ipath (pfx (pair_name c) x)) (D c)) with (map (cons (pair_name c)) (map ipath (D c))) by (rewrite map_map; reflexivity).
      apply FinFun.Injective_map_NoDup; [|exact ND]. intros a b Hab. inversion Hab. reflexivity.
    + apply IH. intros c' Hc'. apply SPEC. right. exact Hc'.
    + intros q Hq Hq'. rewrite map_map in Hq. apply in_map_iff in Hq. destruct Hq as (d & <- & _).
      apply in_kids_path in Hq'. destruct Hq' as (c' & r & Hc' & Heq & _). unfold pfx, ipath in Heq. cbn [fst] in Heq.
      injection Heq as Hn _. rewrite Forall_forall in F. specialize (F c' Hc'). rewrite Hn, bytes_cmp_refl in F. discriminate.
Qed.

Lemma wft_children st f e1 e2 c :
  wft (S f) st e1 -> wft (S f) st e2 -> pair_ok (sub st e1) (sub st e2) c ->
  wft f st (fst c) /\ wft f st (snd c) /\ names_agree c.
Proof.
  intros [_ W1] [_ W2] (P1 & P2 & _). repeat split.
  - destruct (fst c) as [a|] eqn:E; [|apply wft_none]. symmetry in P1. apply find_some' in P1. apply W1. apply P1.
  - destruct (snd c) as [b|] eqn:E; [|apply wft_none]. symmetry in P2. apply find_some' in P2. apply W2. apply P2.
  - destruct c as [[a|] [b|]]; cbn [names_agree]; auto. cbn [fst snd pair_name] in *.
    symmetry in P2. apply find_some' in P2. symmetry. apply P2.
Qed.

Lemma delta_spec st : forall f pr, wft f st (fst pr) -> wft f st (snd pr) -> names_agree pr -> spec_for st pr (delta f st pr).
Proof.
  induction f as [|f IH]; intros pr W1 W2 NA.
  - cbn [delta]. destruct (pruned pr) eqn:P.
    + unfold pruned in P. apply andb_prop in P. destruct P as [_ P]. apply oeqb_eq in P.
      split; [intros q o n []|split; [|constructor]]. intros q H. rewrite P in H. contradiction.
    + rewrite app_nil_r. destruct W1 as [_ W1], W2 as [_ W2]. split; [|split].
      * intros q o n H. apply own_spec in H; [|exact NA]. destruct H as (-> & -> & -> & H). auto.
      * intros [|m r] H.
        -- apply own_spec; [exact NA|]. cbn [look] in *. auto.
        -- exfalso. apply H. cbn [look]. rewrite W1, W2. reflexivity.
      * unfold own_delta. destruct (oeqb (fst pr) (snd pr)); [constructor|].
        destruct (as_leaf (fst pr)), (as_leaf (snd pr)); cbn; repeat constructor; intros [].
  - cbn [delta]. destruct (pruned pr) eqn:P.
    + unfold pruned in P. apply andb_prop in P. destruct P as [_ P]. apply oeqb_eq in P.
      split; [intros q o n []|split; [|constructor]]. intros q H. rewrite P in H. contradiction.
    + destruct (merge_ok _ _ (proj1 W1) (proj1 W2)) as (OK & SP & CO).
      assert (SPEC : forall c, In c (merge (sub st (fst pr)) (sub st (snd pr))) -> spec_for st c (delta f st c)).
      { intros c Hc. rewrite Forall_forall in OK. destruct (wft_children st f _ _ c W1 W2 (OK c Hc)) as (A & B & C). apply IH; assumption. }
      destruct (kids_spec st (delta f st) _ _ _ OK SP CO SPEC) as (K1 & K2 & K3).
      split; [|split].
      * intros q o n H. apply in_app_iff in H. destruct H as [H|H].
        -- apply own_spec in H; [|exact NA]. destruct H as (-> & -> & -> & H). auto.
        -- destruct (K1 _ _ _ H) as (m & r & -> & -> & -> & Hne). auto.
      * intros [|m r] H; apply in_app_iff.
        -- left. apply own_spec; [exact NA|]. cbn [look] in *. auto.
        -- right. apply K2. exact H.
      * rewrite map_app. apply NoDup_app_intro; [| exact K3 |].
        -- unfold own_delta. destruct (oeqb (fst pr) (snd pr)); [constructor|].
           destruct (as_leaf (fst pr)), (as_leaf (snd pr)); cbn; repeat constructor; intros [].
        -- intros q Hq Hq'. apply in_map_iff in Hq. destruct Hq as ([[q0 o] n] & <- & Hd).
           apply own_spec in Hd; [|exact NA]. destruct Hd as (-> & _).
           apply in_kids_path in Hq'. destruct Hq' as (c & r & _ & Heq & _). discriminate.
Qed.

(* ---------- the statements about tree_changes ---------- *)
Definition oleaf_eq_dec : forall a b : option leaf, {a = b} + {a <> b}.
Proof. decide equality. decide equality; [apply (list_eq_dec Z.eq_dec)|apply Z.eq_dec]. Defined.

Lemma path_beq_spec : forall a b, path_beq a b = true <-> a = b.
Proof.
  induction a as [|x a IH]; intros [|y b]; cbn [path_beq]; split; intros H; try discriminate; try reflexivity.
  - apply andb_prop in H. destruct H as [H1 H2]. apply bytes_beq_spec in H1. apply IH in H2. subst. reflexivity.
  - inversion H; subst. rewrite bytes_beq_refl. cbn. apply IH. reflexivity.
Qed.

Section Diff.
  Variable st : store.
  Variable f : nat.
  Variable pr : pair.
  Hypothesis W1 : wfb f st (fst pr) = true.
  Hypothesis W2 : wfb f st (snd pr) = true.
  Hypothesis NA : names_agree pr.

  Lemma spec_tree_delta : spec_for st pr (tree_delta f st pr).
  Proof. rewrite tree_delta_eq. apply delta_spec; [apply wfb_wft; exact W1|apply wfb_wft; exact W2|exact NA]. Qed.

  (* sound and complete: exactly the paths whose file differs, with the old and the new file *)
  Lemma diff_exact_l q o n :
    In (q, o, n) (tree_delta f st pr) <-> (o = look st (fst pr) q /\ n = look st (snd pr) q /\ o <> n).
  Proof.
    destruct spec_tree_delta as (A & B & _). split; [apply A|]. intros (-> & -> & H). apply B. exact H.
  Qed.

  Lemma diff_paths_unique_l : NoDup (map ipath (tree_delta f st pr)).
  Proof. apply spec_tree_delta. Qed.

  (* the first listing with the change list applied is the second listing *)
  Lemma diff_applies_l q : patched f st pr q = look st (snd pr) q.
  Proof.
    unfold patched, find_delta.
    destruct (List.find (fun x => path_beq (fst (fst x)) q) (tree_delta f st pr)) as [[[q' o] n]|] eqn:E.
    - apply find_some in E. destruct E as [E1 E2]. cbn [fst snd] in *. apply path_beq_spec in E2. subst q'.
      apply diff_exact_l in E1. apply E1.
    - destruct (oleaf_eq_dec (look st (fst pr) q) (look st (snd pr) q)) as [H|H]; [exact H|].
      exfalso. assert (I : In (q, look st (fst pr) q, look st (snd pr) q) (tree_delta f st pr)) by (apply diff_exact_l; auto).
      eapply find_none in E; [|exact I]. cbn [fst] in E. assert (path_beq q q = true) by (apply path_beq_spec; reflexivity). congruence.
  Qed.
End Diff.

(* ---------- iter_tree_contents lists exactly what lookups find ---------- *)
Lemma flatten_spec st : forall f e, wft f st (Some e) ->
  forall q lf, In (q, lf) (flatten f st e) <-> look st (Some e) q = Some lf.
Proof.
  induction f as [|f IH]; intros e W q lf.
  - cbn [flatten]. destruct (is_dir (t_mode e)) eqn:D.
    + destruct W as [_ W]. split; [contradiction|]. destruct q as [|m r]; cbn [look as_leaf]; [rewrite D; discriminate|].
      rewrite W. cbn [find List.find]. rewrite look_none. discriminate.
    + split.
      * intros [H|[]]. inversion H; subst. cbn [look as_leaf]. rewrite D. reflexivity.
      * destruct q as [|m r]; cbn [look as_leaf sub]; rewrite D; [intros H; inversion H; left; reflexivity|].
        cbn [find List.find]. rewrite look_none. discriminate.
  - cbn [flatten]. destruct (is_dir (t_mode e)) eqn:D.
    + destruct W as [S W]. cbn [sub] in S, W. rewrite D in S, W. split.
      * intros H. apply in_flat_map in H. destruct H as (c & Hc & H). apply in_map_iff in H. destruct H as ([r lf'] & Heq & Hr).
        cbn [fst snd] in Heq. inversion Heq; subst. cbn [look sub]. rewrite D. rewrite (find_in_sorted _ S c Hc).
        apply IH; [apply W; exact Hc|exact Hr].
      * destruct q as [|m r]; cbn [look as_leaf sub]; rewrite D; [discriminate|].
        destruct (find m (st (t_id e))) as [c|] eqn:E; [|rewrite look_none; discriminate].
        apply find_some' in E. destruct E as [Hc Hn]. intros H. apply in_flat_map. exists c. split; [exact Hc|].
        apply in_map_iff. exists (r, lf). split; [cbn [fst snd]; rewrite Hn; reflexivity|]. apply IH; [apply W; exact Hc|exact H].
    + split.
      * intros [H|[]]. inversion H; subst. cbn [look as_leaf]. rewrite D. reflexivity.
      * destruct q as [|m r]; cbn [look as_leaf sub]; rewrite D; [intros H; inversion H; left; reflexivity|].
        cbn [find List.find]. rewrite look_none. discriminate.
Qed.
