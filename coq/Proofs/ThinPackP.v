From DV Require Import ThinPack.

Lemma mem_In x l : mem x l = true <-> In x l.
Proof.
  unfold mem. rewrite existsb_exists. split.
  - intros (y & Hy & E). apply Nat.eqb_eq in E. subst. exact Hy.
  - intros H. exists x. split; [exact H|apply Nat.eqb_refl].
Qed.

Lemma In_remove1 x y l : In x (remove1 y l) <-> In x l /\ x <> y.
Proof.
  unfold remove1. rewrite filter_In. split.
  - intros [H E]. split; [exact H|]. intros ->. rewrite Nat.eqb_refl in E. discriminate.
  - intros [H E]. split; [exact H|]. destruct (Nat.eqb_spec x y); [contradiction|reflexivity].
Qed.

Lemma NoDup_remove1 y l : NoDup l -> NoDup (remove1 y l).
Proof. intros H. unfold remove1. apply NoDup_filter. exact H. Qed.

Lemma In_others_key b x p : In x (map fst (others b p)) <-> In x (map fst p) /\ x <> b.
Proof.
  unfold others. rewrite !in_map_iff. split.
  - intros ([k v] & E & H). cbn in E. subst k. apply filter_In in H. destruct H as [H N]. cbn in N.
    split; [exists (x, v); auto|]. intros ->. rewrite Nat.eqb_refl in N. discriminate.
  - intros [([k v] & E & H) N]. cbn in E. subst k. exists (x, v). split; [reflexivity|].
    apply filter_In. split; [exact H|]. cbn. destruct (Nat.eqb_spec x b); [contradiction|reflexivity].
Qed.

Lemma NoDup_app_iff_dv (l1 l2 : list nat) :
  NoDup l1 -> NoDup l2 -> (forall x, In x l1 -> In x l2 -> False) -> NoDup (l1 ++ l2).
Proof.
  induction l1 as [|a l1 IH]; intros N1 N2 D; [exact N2|].
  inversion N1 as [|? ? Ha N1']; subst. cbn [app]. constructor.
  - intros H. apply in_app_or in H. destruct H as [H|H]; [exact (Ha H)|exact (D a (or_introl eq_refl) H)].
  - apply IH; [exact N1'|exact N2|]. intros x H1 H2. exact (D x (or_intror H1) H2).
Qed.

(* what holds between the three tables at every moment *)
Definition Inv (s : st) : Prop :=
  (forall x, In x (ext s) -> ~ In x (prod s)) /\
  NoDup (ext s) /\
  (forall b, In b (map fst (pend s)) -> ~ In b (prod s)) /\
  (forall x, In x (ext s) -> ~ In x (map fst (pend s))).

Lemma follow_inv : forall fuel todo s, Inv s -> Inv (follow true fuel todo s).
Proof.
  induction fuel as [|f IH]; intros todo s I; [exact I|]. cbn [follow]. destruct todo as [|n rest]; [exact I|].
  apply IH. destruct I as (I1 & I2 & I3 & I4). repeat split; cbn [ext prod pend].
  - intros x Hx [E|Hp]; apply In_remove1 in Hx; destruct Hx as [Hx Hn]; [congruence|exact (I1 x Hx Hp)].
  - apply NoDup_remove1. exact I2.
  - intros b Hb [E|Hp]; apply In_others_key in Hb; destruct Hb as [Hb Hn]; [congruence|exact (I3 b Hb Hp)].
  - intros x Hx Hk. apply In_remove1 in Hx. apply In_others_key in Hk. exact (I4 x (proj1 Hx) (proj1 Hk)).
Qed.

Lemma walk_refs_inv : forall bases fuel store s, Inv s -> Inv (walk_refs true fuel store bases s).
Proof.
  induction bases as [|b rest IH]; intros fuel store s I; [exact I|]. cbn [walk_refs].
  destruct (mem b (map fst (pend s)) && store b) eqn:E; [|apply IH; exact I].
  apply andb_true_iff in E. destruct E as [Ek _]. apply mem_In in Ek.
  apply IH. apply follow_inv. destruct I as (I1 & I2 & I3 & I4). repeat split; cbn [ext prod pend].
  - intros x [->|Hx]; [apply I3; exact Ek|apply I1; exact Hx].
  - constructor; [|exact I2]. intros Hx. exact (I4 b Hx Ek).
  - intros k Hk. apply In_others_key in Hk. apply I3. exact (proj1 Hk).
  - intros x [->|Hx] Hk; apply In_others_key in Hk; [exact (proj2 Hk eq_refl)|exact (I4 x Hx (proj1 Hk))].
Qed.

Lemma initial_inv es : Inv (initial es).
Proof. unfold initial. repeat split; cbn [ext prod pend]; try (intros ? []); try constructor; intros b _ []. Qed.

Lemma complete_inv store order es : Inv (complete true store order es).
Proof. unfold complete. apply walk_refs_inv. apply follow_inv. apply initial_inv. Qed.

(* a pack that was resolved completely (every entry produced) is completed without a second copy of anything *)
Theorem completed_pack_has_no_duplicates_lemma : forall store order es,
  NoDup (map fst es) ->
  let s := complete true store order es in
  (forall n, In n (map fst es) -> In n (prod s)) ->
  NoDup (completed_names es s).
Proof.
  intros store order es N s All. unfold completed_names.
  destruct (complete_inv store order es) as (I1 & I2 & _ & _). fold s in I1, I2.
  apply NoDup_app_iff_dv; [exact N|exact I2|]. intros x Hx He. exact (I1 x He (All x Hx)).
Qed.

(* without the repair: Q (= 1) is a delta on X (= 5), P (= 2) a delta on Q; the store has Q and X; Q sorts first *)
Definition ex_entries : list entry := [(1, KDelta 5); (2, KDelta 1)].
Definition ex_store (n : nat) : bool := Nat.eqb n 1 || Nat.eqb n 5.
Lemma without_the_repair_a_duplicate :
  let s := complete false ex_store [1; 5] ex_entries in
  (forall n, In n (map fst ex_entries) -> In n (prod s)) /\ completed_names ex_entries s = [1; 2; 5; 1].
Proof. vm_compute. split; [intros n [<-|[<-|[]]]; auto|reflexivity]. Qed.
Example with_the_repair :
  completed_names ex_entries (complete true ex_store [1; 5] ex_entries) = [1; 2; 5].
Proof. vm_compute. reflexivity. Qed.
