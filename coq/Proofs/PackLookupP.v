From DV Require Import PackLookup.

Section Proofs.
Variable content : nat -> list nat.
Variable o : nat.
Notation has := (has content o).
Notation exists_o := (exists_o content o).
Notation opack_present := (opack_present content o).
Notation env_legal := (env_legal content o).
Notation rstep := (rstep content o).
Notation sys_step := (sys_step content o).
Notation run := (run content o).

Lemma mem_In x l : mem x l = true <-> In x l.
Proof.
  unfold mem. rewrite existsb_exists. split.
  - intros (y & Hy & E). apply Nat.eqb_eq in E. subst. exact Hy.
  - intros H. exists x. split; [exact H|apply Nat.eqb_refl].
Qed.

Lemma mem_false x l : mem x l = false <-> ~ In x l.
Proof. rewrite <- mem_In. destruct (mem x l); split; congruence. Qed.

Lemma In_rem x y l : In x (rem y l) <-> In x l /\ x <> y.
Proof.
  unfold rem. rewrite filter_In. split.
  - intros [H E]. split; [exact H|]. intros ->. rewrite Nat.eqb_refl in E. discriminate.
  - intros [H E]. split; [exact H|]. destruct (Nat.eqb_spec x y); [contradiction|reflexivity].
Qed.

Lemma opack_present_spec d : opack_present d = true <-> exists w, In w (packs d) /\ has w = true.
Proof. unfold opack_present. apply existsb_exists. Qed.

Lemma opack_present_false d : opack_present d = false <-> forall w, In w (packs d) -> has w = false.
Proof.
  split.
  - intros H w Hw. destruct (has w) eqn:E; [|reflexivity].
    assert (opack_present d = true) by (apply opack_present_spec; eauto). congruence.
  - intros H. destruct (opack_present d) eqn:E; [|reflexivity].
    apply opack_present_spec in E. destruct E as (w & Hw & Hh). rewrite (H w Hw) in Hh. discriminate.
Qed.

Lemma order_ok_spec d order : order_ok d order = true ->
  (forall w, In w order -> In w (packs d)) /\ (forall w, In w (packs d) -> In w order).
Proof.
  unfold order_ok. rewrite andb_true_iff, !forallb_forall. intros [H1 H2]. split.
  - intros w Hw. apply mem_In. apply H1. exact Hw.
  - intros w Hw. apply mem_In. apply H2. exact Hw.
Qed.

Lemma has_new_false d r : has_new d r = false -> forall w, In w (packs d) -> In w (cache r).
Proof.
  unfold has_new. intros H w Hw. destruct (mem w (cache r)) eqn:E; [apply mem_In; exact E|].
  exfalso. assert (existsb (fun w0 => negb (mem w0 (cache r))) (packs d) = true).
  { apply existsb_exists. exists w. rewrite E. auto. }
  congruence.
Qed.

(* Q: the maintenance process is deleting and every pack present that holds o is still ahead in this attempt *)
Definition Q (d : disk) (todo : list nat) : Prop :=
  deleting d = true /\ forall w, In w (packs d) -> has w = true -> In w todo.

Definition InvScan (d : disk) (r : reader) (s : bool) (att : nat) (todo : list nat) (dis resc : bool) : Prop :=
  (s = false -> forall w, In w (cache r) -> ~ In w todo -> has w = false) /\
  (s = true -> loose d = false) /\
  ((s = true \/ 1 <= att) -> deleting d = false -> forall w, In w todo -> In w (packs d)) /\
  ((s = true \/ 1 <= att) -> dis = true -> deleting d = true) /\
  (1 <= att -> resc = true) /\
  (att = 2 -> Q d todo) /\
  att <= 2 /\
  (s = true -> dis = true \/ exists w, In w todo /\ has w = true).

Definition Inv (d : disk) (r : reader) : Prop :=
  exists_o d = true /\
  match ctl r with
  | Scan s att todo dis resc => InvScan d r s att todo dis resc
  | Loose => (forall w, In w (cache r) -> has w = false) \/
             (deleting d = true /\ loose d = true /\ opack_present d = false)
  | Rescan2 => (forall w, In w (cache r) -> has w = false) /\ loose d = false
  | Found => True
  | Missing => False
  end.

Lemma inv_start d c io do : exists_o d = true -> Inv d (start c io do).
Proof.
  intros X. split; [exact X|]. cbn [start ctl]. unfold InvScan. cbn [cache].
  repeat split; intros; try discriminate; try lia; try contradiction;
    repeat match goal with H : _ \/ _ |- _ => destruct H end; try discriminate; try lia.
Qed.

(* ---------- the maintenance process keeps the invariant ---------- *)
Lemma exists_env d e : exists_o d = true -> env_legal true d e = true -> exists_o (env_apply d e) = true.
Proof.
  intros X L. destruct e as [w|w|]; cbn [PackLookup.env_legal env_apply] in *.
  - unfold PackLookup.exists_o, PackLookup.opack_present in *. cbn [loose packs].
    rewrite existsb_app. rewrite orb_assoc. rewrite X. reflexivity.
  - apply andb_true_iff in L. destruct L as [_ L]. exact L.
  - apply andb_true_iff in L. destruct L as [_ L]. unfold PackLookup.exists_o. cbn [loose]. exact L.
Qed.

(* facts about one legal step of the maintenance process *)
Lemma env_facts d e : env_legal true d e = true ->
  (deleting d = true -> deleting (env_apply d e) = true) /\
  (deleting (env_apply d e) = false -> forall w, In w (packs d) -> In w (packs (env_apply d e))) /\
  (deleting d = true -> forall w, In w (packs (env_apply d e)) -> In w (packs d)) /\
  (loose d = false -> loose (env_apply d e) = false) /\
  (deleting d = true -> loose d = true -> opack_present d = false ->
     loose (env_apply d e) = true /\ opack_present (env_apply d e) = false).
Proof.
  intros L. destruct e as [w|w|]; cbn [PackLookup.env_legal env_apply deleting packs loose] in *.
  - apply andb_true_iff in L. destruct L as [L1 L2].
    split; [tauto|]. split; [intros _ x Hx; apply in_or_app; left; exact Hx|].
    split; [intros D; rewrite D in L1; discriminate|]. split; [tauto|].
    intros D; rewrite D in L1; discriminate.
  - split; [reflexivity|]. split; [discriminate|].
    split; [intros _ x Hx; apply In_rem in Hx; tauto|]. split; [tauto|].
    intros _ Lo H. split; [exact Lo|]. apply opack_present_false. intros x Hx. apply In_rem in Hx.
    rewrite opack_present_false in H. apply H. tauto.
  - apply andb_true_iff in L. destruct L as [L1 L2].
    split; [reflexivity|]. split; [discriminate|]. split; [tauto|]. split; [reflexivity|].
    intros _ _ H. rewrite H in L2. discriminate.
Qed.

Lemma inv_env d r e : Inv d r -> env_legal true d e = true -> Inv (env_apply d e) r.
Proof.
  intros [X I] L. split; [apply exists_env; assumption|].
  destruct (env_facts d e L) as (F1 & F2 & F3 & F4 & F5).
  destruct (ctl r) as [s att todo dis resc| | | |]; try exact I.
  - destruct I as (N & Lo & Fr & J1 & J2 & J3 & A3 & E).
    repeat split; try assumption.
    + intros Hs. apply F4. apply Lo. exact Hs.
    + intros Hf D w Hw. apply F2; [exact D|]. apply Fr; try assumption.
      destruct (deleting d) eqn:Dd; [|reflexivity]. rewrite F1 in D by reflexivity. discriminate.
    + intros Hf Hd. apply F1. apply J1; assumption.
    + apply F1. apply J3. exact H.
    + intros w Hw Hh. destruct (J3 H) as [D Qq]. apply Qq; [|exact Hh]. apply F3; assumption.
  - destruct I as [I|(D & Lo & P)]; [left; exact I|right].
    destruct (F5 D Lo P) as [A B]. repeat split; [apply F1; exact D|exact A|exact B].
  - destruct I as [I Lo]. split; [exact I|apply F4; exact Lo].
Qed.

(* ---------- the reader keeps the invariant ---------- *)
Lemma exists_no_loose d : exists_o d = true -> loose d = false -> exists w, In w (packs d) /\ has w = true.
Proof.
  unfold PackLookup.exists_o. intros X L. rewrite L in X. cbn in X. apply opack_present_spec. exact X.
Qed.

(* the state a new attempt starts in, right after the pack directory was read *)
Lemma inv_new_attempt d r order s att' resc' :
  exists_o d = true ->
  order_ok d order = true ->
  (s = true -> loose d = false) ->
  att' <= 2 -> (1 <= att' -> resc' = true) ->
  (att' = 2 -> deleting d = true) ->
  InvScan d (rescan d r order (Scan s att' order false resc')) s att' order false resc'.
Proof.
  intros X O Lo A3 J2 D2. destruct (order_ok_spec d order O) as [O1 O2].
  unfold InvScan, rescan. cbn [cache].
  split; [intros _ w Hw Hn; contradiction|].
  split; [exact Lo|].
  split; [intros _ _ w Hw; apply O1; exact Hw|].
  split; [discriminate|].
  split; [exact J2|].
  split; [intros E; split; [apply D2; exact E|intros w Hw _; apply O2; exact Hw]|].
  split; [exact A3|].
  intros Hs. right. destruct (exists_no_loose d X (Lo Hs)) as (w & Hw & Hh). exists w. split; [apply O2; exact Hw|exact Hh].
Qed.

Lemma inv_read d r order :
  Inv d r -> (needs_order d r = true -> order_ok d order = true) -> Inv d (rstep d r order).
Proof.
  intros [X I] HO. split; [exact X|]. unfold PackLookup.rstep. unfold needs_order in HO.
  destruct (ctl r) as [s att todo dis resc| | | |] eqn:C.
  - destruct I as (N & Lo & Fr & J1 & J2 & J3 & A3 & E).
    destruct todo as [|w todo].
    + (* the end of an attempt *)
      destruct dis.
      * (* something disappeared: read the directory, try again *)
        specialize (HO eq_refl). unfold next_attempt, max_attempts.
        destruct (S att <? 3) eqn:EA.
        -- apply Nat.ltb_lt in EA. cbn [rescan ctl].
           change (InvScan d (rescan d r order (Scan s (S att) order false true)) s (S att) order false true).
           apply inv_new_attempt; try assumption; try lia.
           intros E2. apply J1; [right; lia|reflexivity].
        -- apply Nat.ltb_ge in EA. assert (att = 2) by lia. subst att.
           destruct (J3 eq_refl) as [D Qq].
           assert (P : opack_present d = false).
           { apply opack_present_false. intros w Hw. destruct (has w) eqn:Hh; [|reflexivity]. destruct (Qq w Hw Hh). }
           destruct s; cbn [exit_miss rescan ctl].
           ++ (* second call: o is nowhere, which cannot be *)
              unfold PackLookup.exists_o in X. rewrite (Lo eq_refl), P in X. discriminate.
           ++ right. unfold PackLookup.exists_o in X. rewrite P in X. rewrite orb_false_r in X. auto.
      * destruct resc; cbn [negb].
        -- (* nothing disappeared and the directory was read before: give up this call *)
           destruct s; cbn [exit_miss with_ctl ctl].
           ++ destruct (E eq_refl) as [E1|(w & [] & _)]. discriminate.
           ++ left. cbn [cache]. intros w Hw. apply N; [reflexivity|exact Hw|intros []].
        -- specialize (HO eq_refl). destruct (has_new d r) eqn:HN.
           ++ unfold next_attempt, max_attempts.
              assert (att = 0) by (destruct att; [reflexivity|assert (false = true) by (apply J2; lia); discriminate]). subst att.
              cbn [Nat.ltb Nat.leb rescan ctl].
              change (InvScan d (rescan d r order (Scan s 1 order false true)) s 1 order false true).
              apply inv_new_attempt; try assumption; try lia; try (intros; first [assumption | reflexivity | discriminate]).
           ++ destruct s; cbn [exit_miss rescan ctl].
              ** destruct (E eq_refl) as [E1|(w & [] & _)]. discriminate.
              ** left. cbn [cache]. destruct (order_ok_spec d order HO) as [O1 _].
                 intros w Hw. apply N; [reflexivity| |intros []]. apply (has_new_false d r HN). apply O1. exact Hw.
    + (* one pack is probed *)
      assert (Gone : ~ In w (packs d) ->
                InvScan d (evict r w (Scan s att todo true resc)) s att todo true resc).
      { intros Pr. unfold InvScan, evict. cbn [cache].
        split; [intros Hs x Hx Hn; apply In_rem in Hx; destruct Hx as [Hx Hne]; apply N; [exact Hs|exact Hx|intros [Hw|Hw]; [congruence|contradiction]]|].
        split; [exact Lo|].
        split; [intros Hf D x Hx; apply Fr; [exact Hf|exact D|right; exact Hx]|].
        split; [intros Hf _; destruct (deleting d) eqn:D; [reflexivity|]; exfalso; apply Pr; apply Fr; [exact Hf|reflexivity|left; reflexivity]|].
        split; [exact J2|].
        split; [intros E2; destruct (J3 E2) as [D Qq]; split; [exact D|intros x Hx Hhx; destruct (Qq x Hx Hhx) as [Hw|Hw]; [subst; contradiction|exact Hw]]|].
        split; [exact A3|]. intros _. left. reflexivity. }
      assert (Next : has w = false -> forall r', cache r' = cache r -> InvScan d r' s att todo dis resc).
      { intros Hh r' Hc. unfold InvScan. rewrite Hc.
        split; [intros Hs x Hx Hn; destruct (Nat.eq_dec x w) as [->|Hne]; [exact Hh|apply N; [exact Hs|exact Hx|intros [Hw|Hw]; [congruence|contradiction]]]|].
        split; [exact Lo|].
        split; [intros Hf D x Hx; apply Fr; [exact Hf|exact D|right; exact Hx]|].
        split; [exact J1|]. split; [exact J2|].
        split; [intros E2; destruct (J3 E2) as [D Qq]; split; [exact D|intros x Hx Hhx; destruct (Qq x Hx Hhx) as [Hw|Hw]; [subst; congruence|exact Hw]]|].
        split; [exact A3|].
        intros Hs. destruct (E Hs) as [E1|(x & [Hx|Hx] & Hhx)]; [left; exact E1|subst; congruence|right; exists x; auto]. }
      cbv zeta. destruct (mem w (packs d)) eqn:Pr.
      * rewrite orb_true_r. cbn [negb]. destruct (has w) eqn:Hh; cbn [negb].
        -- rewrite orb_true_r. cbn [ctl]. exact Logic.I.
        -- cbn [ctl]. apply Next; reflexivity.
      * apply mem_false in Pr. rewrite !orb_false_r. destruct (mem w (iopen r)) eqn:Io; cbn [negb].
        -- destruct (has w) eqn:Hh; cbn [negb].
           ++ destruct (mem w (dopen r)); [cbn [ctl]; exact Logic.I|]. cbn [evict ctl]. apply Gone. exact Pr.
           ++ cbn [ctl]. apply Next; reflexivity.
        -- cbn [evict ctl]. apply Gone. exact Pr.
  - (* the loose file *)
    cbn [with_ctl ctl]. destruct (loose d) eqn:Lo; [exact Logic.I|]. cbn [cache].
    destruct I as [I|(_ & L2 & _)]; [split; [exact I|reflexivity]|discriminate].
  - (* the second look at the pack directory *)
    destruct I as [NC Lo]. specialize (HO eq_refl). destruct (order_ok_spec d order HO) as [O1 O2].
    destruct (exists_no_loose d X Lo) as (w & Hw & Hh).
    destruct (has_new d r) eqn:HN.
    + cbn [rescan ctl].
      change (InvScan d (rescan d r order (Scan true 0 order false false)) true 0 order false false).
      apply inv_new_attempt; try assumption; try lia; try (intros; first [assumption | reflexivity | discriminate]).
    + cbn [rescan ctl]. rewrite (NC w (has_new_false d r HN w Hw)) in Hh. discriminate.
  - rewrite C. exact I.
  - rewrite C. exact I.
Qed.

(* ---------- every interleaving ---------- *)
Lemma inv_sys d r bad ev : Inv d r ->
  let '(d', r', _) := sys_step true (d, r, bad) ev in Inv d' r'.
Proof.
  intros I. destruct ev as [e|order]; cbn [PackLookup.sys_step].
  - destruct (env_legal true d e) eqn:L; [apply inv_env; assumption|exact I].
  - destruct (needs_order d r && negb (order_ok d order)) eqn:B; [exact I|].
    apply inv_read; [exact I|]. intros Hn. rewrite Hn in B. cbn in B. destruct (order_ok d order); [reflexivity|discriminate].
Qed.

Lemma inv_run : forall evs d r bad, Inv d r ->
  let '(d', r', _) := fold_left (sys_step true) evs (d, r, bad) in Inv d' r'.
Proof.
  induction evs as [|ev evs IH]; intros d r bad I; [exact I|].
  cbn [fold_left]. pose proof (inv_sys d r bad ev I) as H.
  destruct (sys_step true (d, r, bad) ev) as [[d1 r1] b1]. apply IH. exact H.
Qed.

(* no interleaving of the lookup with the maintenance process ends in "missing", whatever the
   reader had cached and opened before *)
Theorem lookup_never_misses_lemma : forall d c io do evs,
  exists_o d = true ->
  let '(_, r', _) := run true d (start c io do) evs in ctl r' <> Missing.
Proof.
  intros d c io do evs X. unfold PackLookup.run.
  pose proof (inv_run evs d (start c io do) false (inv_start d c io do X)) as H.
  destruct (fold_left (sys_step true) evs (d, start c io do, false)) as [[d' r'] b'].
  destruct H as [_ H]. intros E. rewrite E in H. exact H.
Qed.

End Proofs.

(* ---------- what the phase discipline is needed for ---------- *)
(* packs: 1 holds o (= 0), 2 holds another object, 10 and 11 hold both; 9 is a pack the reader still has
   cached although it was deleted earlier.  Two repacks overlap one lookup: the first adds 10 and deletes
   1 and 2, the second adds 11 and deletes 10.  Every step keeps a copy of o, and the lookup answers "missing". *)
Definition ex_content (w : nat) : list nat :=
  match w with 1 => [0] | 2 => [5] | 10 => [0; 5] | 11 => [0; 5] | _ => [] end.
Definition ex_disk : disk := {| packs := [1; 2]; loose := false; deleting := false |}.
Definition ex_two_repacks : list event :=
  [EvRead []; EvRead [1; 2];
   EvEnv (EAdd 10); EvEnv (EDelPack 1); EvEnv (EDelPack 2);
   EvRead []; EvRead []; EvRead [10];
   EvEnv (EAdd 11); EvEnv (EDelPack 10);
   EvRead []; EvRead [11]; EvRead []; EvRead [11]].

Lemma two_repacks_starve_the_lookup :
  exists content o d c evs,
    exists_o content o d = true /\
    let '(_, r', bad) := run content o false d (start c [] []) evs in ctl r' = Missing /\ bad = false.
Proof. exists ex_content, 0, ex_disk, [9], ex_two_repacks. vm_compute. auto. Qed.

(* under the discipline the same lookup, overlapping the first repack, finds the object *)
Example ex_one_repack :
  let '(_, r', bad) := run ex_content 0 true ex_disk (start [9] [] [])
                           [EvRead []; EvRead [1; 2]; EvEnv (EAdd 10); EvEnv (EDelPack 1); EvEnv (EDelPack 2);
                            EvRead []; EvRead []; EvRead [10]; EvRead []] in
  ctl r' = Found /\ bad = false.
Proof. vm_compute. auto. Qed.
