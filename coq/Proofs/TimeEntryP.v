(* Proofs/TimeEntryP.v — author/committer/tagger lines survive formatting and parsing *)
From DV Require Import Bytes Objects.
From DV Require Import TimeEntry.

(* ---------- decimal numbers ---------- *)
Definition dv (l : bytes) (init : Z) : Z := fold_left (fun a c => a * 10 + (c - 48)) l init.
Lemma dec_value_dv l : dec_value l = dv l 0. Proof. reflexivity. Qed.

Lemma dec_digits_acc : forall fuel n acc, dec_digits fuel n acc = dec_digits fuel n [] ++ acc.
Proof.
  induction fuel as [|f IH]; intros n acc; cbn [dec_digits]; [reflexivity|].
  destruct (n <? 10); [reflexivity|]. rewrite IH. rewrite (IH (n / 10) [48 + n mod 10]). rewrite <- app_assoc. reflexivity.
Qed.

Lemma dec_digits_spec : forall fuel n, 0 <= n < 2 ^ Z.of_nat fuel -> (0 < fuel)%nat ->
  dv (dec_digits fuel n []) 0 = n /\ forallb is_digit (dec_digits fuel n []) = true /\ dec_digits fuel n [] <> [].
Proof.
  induction fuel as [|f IH]; intros n Hn Hf; [lia|]. cbn [dec_digits].
  destruct (n <? 10) eqn:E.
  - split; [unfold dv; cbn [fold_left]; lia|]. split; [cbn [forallb]; unfold is_digit; lia|discriminate].
  - rewrite dec_digits_acc.
    assert (Hp : 2 ^ Z.of_nat (S f) = 2 * 2 ^ Z.of_nat f) by (rewrite Nat2Z.inj_succ, Z.pow_succ_r by lia; reflexivity).
    assert (Hf0 : (0 < f)%nat).
    { destruct f; [|lia]. change (2 ^ Z.of_nat 1) with 2 in Hn. lia. }
    destruct (IH (n / 10) ltac:(lia) Hf0) as (V & O & N).
    unfold dv in *. rewrite fold_left_app, V. cbn [fold_left]. rewrite forallb_app, O. unfold is_digit. cbn [forallb].
    repeat split; try lia. intros Hnil. apply app_eq_nil in Hnil. destruct Hnil; discriminate.
Qed.

Lemma dec_nonneg_spec n : 0 <= n ->
  dv (dec n) 0 = n /\ forallb is_digit (dec n) = true /\ dec n <> [].
Proof.
  intros Hn. unfold dec. replace (n <? 0) with false by lia.
  apply dec_digits_spec; [|lia]. split; [lia|]. rewrite Nat2Z.inj_succ, Z2Nat.id by apply Z.log2_nonneg.
  destruct (Z.eq_dec n 0) as [->|Hz]; [cbn; lia|]. apply Z.log2_spec. lia.
Qed.

Lemma digits_head l : forallb is_digit l = true -> l <> [] -> exists x r, l = x :: r /\ is_digit x = true.
Proof. destruct l as [|x r]; [contradiction|]. cbn [forallb]. intros H _. apply andb_prop in H. destruct H. eauto. Qed.

Lemma parse_dec_cons x r : x <> 45 -> parse_dec (x :: r) = if forallb is_digit (x :: r) then Some (dec_value (x :: r)) else None.
Proof.
  intros H. unfold parse_dec. destruct x as [|p|p]; try reflexivity.
  do 6 (try (destruct p as [p|p|]; try reflexivity)). exfalso. apply H. reflexivity.
Qed.
Lemma parse_dec_digits l : forallb is_digit l = true -> l <> [] -> parse_dec l = Some (dec_value l).
Proof.
  intros F N. destruct (digits_head l F N) as (x & r & -> & Hx).
  rewrite parse_dec_cons by (unfold is_digit in Hx; lia). rewrite F. reflexivity.
Qed.

Lemma parse_dec_dec n : parse_dec (dec n) = Some n.
Proof.
  destruct (Z.ltb_spec n 0) as [Hn|Hn].
  - unfold dec. replace (n <? 0) with true by lia.
    destruct (dec_digits_spec (S (Z.to_nat (Z.log2 (- n)))) (- n)) as (V & D & NE).
    { split; [lia|]. rewrite Nat2Z.inj_succ, Z2Nat.id by apply Z.log2_nonneg. apply Z.log2_spec. lia. }
    { lia. }
    set (d := dec_digits _ _ _) in *. unfold parse_dec. rewrite D.
    destruct d; [contradiction|]. cbn [andb]. f_equal. rewrite dec_value_dv, V. lia.
  - destruct (dec_nonneg_spec n Hn) as (V & D & NE). rewrite parse_dec_digits by assumption. rewrite dec_value_dv, V. reflexivity.
Qed.

Lemma dv_app a b i : dv (a ++ b) i = dv b (dv a i).
Proof. unfold dv. apply fold_left_app. Qed.

(* ---------- "%02d" ---------- *)
Lemma pad2_spec n : 0 <= n -> forallb is_digit (pad2 n) = true /\ pad2 n <> [] /\ forall i, dv (pad2 n) i = (if n <? 100 then i * 100 + n else dv (dec n) i).
Proof.
  intros Hn. unfold pad2. destruct (Z.ltb_spec n 100) as [L|L].
  - replace ((0 <=? n) && true) with true by lia. split; [cbn [forallb]; unfold is_digit; lia|]. split; [discriminate|].
    intros i. unfold dv. cbn [fold_left]. lia.
  - replace ((0 <=? n) && false) with false by lia. destruct (dec_nonneg_spec n Hn) as (_ & D & NE). auto.
Qed.

Lemma dv_shift l : forall i, forallb is_digit l = true -> dv l i = i * 10 ^ Z.of_nat (length l) + dv l 0.
Proof.
  induction l as [|c l IH]; intros i F; [cbn; lia|]. cbn [forallb] in F. apply andb_prop in F. destruct F as [Hc F].
  unfold dv in *. cbn [fold_left length]. rewrite (IH (i * 10 + (c - 48)) F), (IH (0 * 10 + (c - 48)) F).
  rewrite Nat2Z.inj_succ, Z.pow_succ_r by lia. lia.
Qed.

(* hours then minutes read as one number: HH * 100 + MM *)
Lemma hhmm_value h m : 0 <= h -> 0 <= m < 100 ->
  parse_dec (pad2 h ++ pad2 m) = Some (h * 100 + m).
Proof.
  intros Hh Hm. destruct (pad2_spec h Hh) as (Dh & Nh & Vh). destruct (pad2_spec m ltac:(lia)) as (Dm & Nm & Vm).
  rewrite parse_dec_digits; [|rewrite forallb_app, Dh, Dm; reflexivity|intros E; apply app_eq_nil in E; destruct E; contradiction].
  f_equal. rewrite dec_value_dv, dv_app, Vm. replace (m <? 100) with true by lia.
  rewrite Vh. destruct (Z.ltb_spec h 100); [lia|]. destruct (dec_nonneg_spec h Hh) as (V & _ & _). rewrite V. reflexivity.
Qed.

(* ---------- time zones: the spellings git emits ---------- *)
Lemma timezone_roundtrip offset neg : offset mod 60 = 0 -> (neg = true -> offset = 0) ->
  exists t, format_timezone offset neg = Some t /\ parse_timezone t = Some (offset, neg) /\
            (exists s r, t = s :: r /\ (s = PLUS \/ s = MINUS) /\ forallb is_digit r = true).
Proof.
  intros M N. destruct neg.
  { rewrite (N eq_refl). exists [45; 48; 48; 48; 48]. split; [reflexivity|]. split; [reflexivity|].
    exists MINUS, [48; 48; 48; 48]. split; [reflexivity|]. split; [right; reflexivity|reflexivity]. }
  clear N. unfold format_timezone. replace (offset mod 60 =? 0) with true by lia. cbn [negb]. rewrite orb_false_r.
  destruct (Z.ltb_spec offset 0) as [Hneg|Hpos].
  - (* '-' *)
    set (off := - offset). assert (Ho : 0 < off) by (unfold off; lia).
    assert (Q : Z.quot off 3600 = off / 3600) by (apply Z.quot_div_nonneg; lia).
    eexists. split; [reflexivity|]. rewrite Q. split.
    + unfold parse_timezone. replace ((MINUS =? PLUS) || (MINUS =? MINUS)) with true by reflexivity.
      rewrite hhmm_value by (try apply Z.div_pos; try apply Z.mod_pos_bound; lia). rewrite Z.eqb_refl.
      set (v := off / 3600 * 100 + (off / 60) mod 60).
      assert (E : (v / 100) * 3600 + (v mod 100) * 60 = off /\ 0 < v) by (unfold v, off in *; lia). destruct E as [E Hv].
      f_equal. f_equal; [|lia]. replace (- v <? 0) with true by lia. rewrite Z.abs_opp, Z.abs_eq by lia. unfold off in E. lia.
    + eexists _, _. split; [reflexivity|]. split; [right; reflexivity|].
      destruct (pad2_spec (off / 3600)) as (A & _ & _); [apply Z.div_pos; lia|].
      destruct (pad2_spec ((off / 60) mod 60)) as (B & _ & _); [apply Z.mod_pos_bound; lia|]. rewrite forallb_app, A, B. reflexivity.
  - (* '+' *)
    assert (Q : Z.quot offset 3600 = offset / 3600) by (apply Z.quot_div_nonneg; lia).
    eexists. split; [reflexivity|]. rewrite Q. split.
    + unfold parse_timezone. replace ((PLUS =? PLUS) || (PLUS =? MINUS)) with true by reflexivity.
      rewrite hhmm_value by (try apply Z.div_pos; try apply Z.mod_pos_bound; lia).
      replace (PLUS =? MINUS) with false by reflexivity.
      set (v := offset / 3600 * 100 + (offset / 60) mod 60). assert (Hv : 0 <= v) by (unfold v; lia).
      rewrite andb_false_r. replace (v <? 0) with false by lia. rewrite Z.abs_eq by lia. f_equal. f_equal. unfold v. lia.
    + eexists _, _. split; [reflexivity|]. split; [left; reflexivity|].
      destruct (pad2_spec (offset / 3600)) as (A & _ & _); [apply Z.div_pos; lia|].
      destruct (pad2_spec ((offset / 60) mod 60)) as (B & _ & _); [apply Z.mod_pos_bound; lia|]. rewrite forallb_app, A, B. reflexivity.
Qed.

(* ---------- the whole line ---------- *)
Lemma zfirstn_app {A} (a b : list A) : zfirstn (zlen a) (a ++ b) = a.
Proof. unfold zfirstn, zlen. rewrite Nat2Z.id. rewrite firstn_app, Nat.sub_diag, firstn_all. cbn. apply app_nil_r. Qed.
Lemma zskipn_app {A} (a b : list A) : zskipn (zlen a) (a ++ b) = b.
Proof. unfold zskipn, zlen. rewrite Nat2Z.id. rewrite skipn_app, Nat.sub_diag, skipn_all. reflexivity. Qed.

Lemma rindex_none : forall l i f, ~ In GT l -> rindex_gt l i f = f.
Proof.
  induction l as [|a l IH]; intros i f N; [reflexivity|]. destruct l as [|b l]; [reflexivity|].
  cbn [rindex_gt]. replace (a =? GT) with false by (symmetry; apply Z.eqb_neq; intros ->; apply N; left; reflexivity).
  cbn [andb]. apply IH. intros H. apply N. right. exact H.
Qed.
Lemma rindex_last : forall l1 l2 i f, ~ In GT l2 -> rindex_gt (l1 ++ GT :: SPC :: l2) i f = Some (i + zlen l1).
Proof.
  induction l1 as [|x l1 IH]; intros l2 i f N.
  - cbn [app]. change (rindex_gt (GT :: SPC :: l2) i f) with (rindex_gt (SPC :: l2) (i + 1) (if (GT =? GT) && (SPC =? SPC) then Some i else f)).
    rewrite !Z.eqb_refl. cbn [andb]. rewrite rindex_none; [rewrite zlen_nil; f_equal; lia|].
    intros [H|H]; [discriminate|contradiction].
  - destruct l1 as [|y l1].
    + cbn [app]. change (rindex_gt (x :: GT :: SPC :: l2) i f) with (rindex_gt (GT :: SPC :: l2) (i + 1) (if (x =? GT) && (GT =? SPC) then Some i else f)).
      rewrite (IH l2 (i + 1) _ N). rewrite zlen_cons, !zlen_nil. f_equal. lia.
    + change (rindex_gt ((x :: y :: l1) ++ GT :: SPC :: l2) i f) with
        (rindex_gt ((y :: l1) ++ GT :: SPC :: l2) (i + 1) (if (x =? GT) && (y =? SPC) then Some i else f)).
      rewrite (IH l2 (i + 1) _ N). rewrite (zlen_cons x). f_equal. lia.
Qed.

Lemma last_space_none : forall l i f, ~ In SPC l -> last_space l i f = f.
Proof.
  induction l as [|a l IH]; intros i f N; [reflexivity|]. cbn [last_space].
  replace (a =? SPC) with false by (symmetry; apply Z.eqb_neq; intros ->; apply N; left; reflexivity).
  apply IH. intros H. apply N. right. exact H.
Qed.
Lemma last_space_last : forall a b i f, ~ In SPC b -> last_space (a ++ SPC :: b) i f = Some (i + zlen a).
Proof.
  induction a as [|x a IH]; intros b i f N.
  - cbn [app last_space]. rewrite Z.eqb_refl. rewrite last_space_none by exact N. rewrite zlen_nil. f_equal. lia.
  - cbn [app last_space]. rewrite IH by exact N. rewrite zlen_cons. f_equal. lia.
Qed.

Lemma digits_no c l : forallb is_digit l = true -> (c < 48 \/ 57 < c) -> ~ In c l.
Proof. intros F H I. rewrite forallb_forall in F. specialize (F c I). unfold is_digit in F. lia. Qed.

Lemma dec_chars n c : In c (dec n) -> c = 45 \/ (48 <= c <= 57).
Proof.
  unfold dec. destruct (Z.ltb_spec n 0) as [Hn|Hn].
  - intros [<-|I]; [left; reflexivity|]. right.
    destruct (dec_digits_spec (S (Z.to_nat (Z.log2 (- n)))) (- n)) as (_ & D & _).
    { split; [lia|]. rewrite Nat2Z.inj_succ, Z2Nat.id by apply Z.log2_nonneg. apply Z.log2_spec. lia. }
    { lia. }
    rewrite forallb_forall in D. specialize (D c I). unfold is_digit in D. lia.
  - intros I. right. destruct (dec_nonneg_spec n Hn) as (_ & D & _). unfold dec in D. replace (n <? 0) with false in D by lia.
    rewrite forallb_forall in D. specialize (D c I). unfold is_digit in D. lia.
Qed.

(* a line made from an identity that ends in '>', any time stamp and a time zone git emits reads back as its parts *)
Lemma time_entry_roundtrip p time tz neg : tz mod 60 = 0 -> (neg = true -> tz = 0) ->
  exists v, format_time_entry (p ++ [GT]) time tz neg = Some v /\ parse_time_entry v = TOk (p ++ [GT]) time tz neg.
Proof.
  intros M N. destruct (timezone_roundtrip tz neg M N) as (t & F & P & s & r & Et & Hs & Dr).
  unfold format_time_entry. rewrite F. eexists. split; [reflexivity|].
  assert (NG : ~ In GT (dec time ++ [SPC] ++ t)).
  { rewrite !in_app_iff. intros [H|[H|H]].
    - apply dec_chars in H. unfold GT in H. lia.
    - destruct H as [H|[]]. discriminate.
    - subst t. destruct H as [H|H]; [destruct Hs; subst; discriminate|]. revert H. apply digits_no; [exact Dr|unfold GT; lia]. }
  unfold parse_time_entry.
  replace ((p ++ [GT]) ++ [SPC] ++ dec time ++ [SPC] ++ t) with (p ++ GT :: SPC :: (dec time ++ [SPC] ++ t)) by (rewrite <- app_assoc; reflexivity).
  rewrite rindex_last by exact NG. rewrite Z.add_0_l.
  set (X := dec time ++ [SPC] ++ t) in *.
  assert (E1 : zfirstn (zlen p + 1) (p ++ GT :: SPC :: X) = p ++ [GT]).
  { replace (zlen p + 1) with (zlen (p ++ [GT])) by (rewrite zlen_app, zlen_cons, zlen_nil; lia).
    replace (p ++ GT :: SPC :: X) with ((p ++ [GT]) ++ SPC :: X) by (rewrite <- app_assoc; reflexivity). apply zfirstn_app. }
  assert (E2 : zskipn (zlen p + 2) (p ++ GT :: SPC :: X) = X).
  { replace (zlen p + 2) with (zlen (p ++ [GT; SPC])) by (rewrite zlen_app, !zlen_cons, zlen_nil; lia).
    replace (p ++ GT :: SPC :: X) with ((p ++ [GT; SPC]) ++ X) by (rewrite <- app_assoc; reflexivity). apply zskipn_app. }
  rewrite E1, E2. unfold X.
  assert (NS : ~ In SPC t).
  { subst t. intros [H|H]; [destruct Hs; subst; discriminate|]. revert H. apply digits_no; [exact Dr|unfold SPC; lia]. }
  change (dec time ++ [SPC] ++ t) with (dec time ++ SPC :: t). rewrite last_space_last by exact NS. rewrite Z.add_0_l.
  rewrite zfirstn_app.
  assert (E3 : zskipn (zlen (dec time) + 1) (dec time ++ SPC :: t) = t).
  { replace (zlen (dec time) + 1) with (zlen (dec time ++ [SPC])) by (rewrite zlen_app, zlen_cons, zlen_nil; lia).
    replace (dec time ++ SPC :: t) with ((dec time ++ [SPC]) ++ t) by (rewrite <- app_assoc; reflexivity). apply zskipn_app. }
  rewrite E3, parse_dec_dec, P. reflexivity.
Qed.
