(* Proofs/ObjectsP.v — lemmas about Model/Objects.v *)
From DV Require Import Bytes RustTwins Objects.
Local Open Scope Z_scope.

(* ---------- (a) the cache automaton ---------- *)
Definition cinv (c : cache) : Prop :=
  (needs_ser c = false -> chunked_ver c = ver c) /\
  (forall h, sha_ver c = Some h -> needs_ser c = false -> h = ver c).

Lemma cinv_init : cinv cache_init.
Proof. split; cbn; [discriminate|discriminate]. Qed.

Lemma as_raw_props c : cinv c -> cinv (as_raw c) /\ needs_ser (as_raw c) = false /\ ver (as_raw c) = ver c.
Proof.
  intros [H1 H2]. unfold as_raw. destruct (needs_ser c) eqn:E; cbn.
  - repeat split; auto. intros h Hh. discriminate.
  - repeat split; auto.
Qed.

Lemma cstep_inv c o : cinv c -> cinv (fst (cstep c o)) /\
  (forall v, snd (cstep c o) = Some v -> v = ver (fst (cstep c o))).
Proof.
  intros I. destruct o; cbn [cstep fst snd].
  - split; [split; cbn; [discriminate|discriminate]|discriminate].
  - destruct (as_raw_props c I) as ((A1 & A2) & A3 & A4). split; [split; assumption|].
    intros v Hv. inversion Hv; subst. apply A1. exact A3.
  - pose proof (as_raw_props c I) as ((A1 & A2) & A3 & A4).
    assert (Hre : cinv {| ver := ver (as_raw c); needs_ser := false; chunked_ver := chunked_ver (as_raw c);
                          sha_ver := Some (chunked_ver (as_raw c)) |} /\
                  chunked_ver (as_raw c) = ver (as_raw c)).
    { split; [|apply A1; exact A3]. split; cbn; [intros _; apply A1; exact A3|].
      intros h' Hh' _. inversion Hh'; subst. apply A1. exact A3. }
    destruct Hre as [Hre1 Hre2].
    destruct (sha_ver c) as [h|] eqn:Eh; [destruct (needs_ser c) eqn:En|].
    + cbn [fst snd]. split; [exact Hre1|]. intros v Hv. inversion Hv; subst. exact Hre2.
    + cbn [fst snd]. split; [exact I|]. intros v Hv. inversion Hv; subst. destruct I as [_ I2]. apply I2; assumption.
    + cbn [fst snd]. split; [exact Hre1|]. intros v Hv. inversion Hv; subst. exact Hre2.
  - destruct (as_raw_props c I) as ((A1 & A2) & A3 & A4). split; [split; assumption|].
    intros v Hv. inversion Hv; subst. apply A1. exact A3.
  - split; [split; cbn; [reflexivity|discriminate]|discriminate].
  - destruct I as [I1 I2]. split; [split; cbn; [reflexivity|discriminate]|discriminate].
Qed.

Lemma crun_exact : forall ops c, cinv c -> Forall (fun p => fst p = snd p) (crun c ops).
Proof.
  induction ops as [|o ops IH]; intros c I; cbn [crun]; [constructor|].
  pose proof (cstep_inv c o I) as [I' Hobs]. destruct (cstep c o) as [c' obs]. cbn [fst snd] in *.
  destruct obs as [v|]; [|apply IH; exact I'].
  constructor; [cbn; apply Hobs; reflexivity|apply IH; exact I'].
Qed.

Lemma id_is_hash_of_current_fields_lemma ops : Forall (fun p => fst p = snd p) (crun cache_init ops).
Proof. apply crun_exact. apply cinv_init. Qed.

Example ex_cache :
  crun cache_init [CSet; CId; CSet; CAsRaw; CId; CBlobChunked; CId; CSetRaw; CIdOther; CId] =
  [(1, 1); (2, 2); (2, 2); (3, 3); (4, 4); (4, 4)]%nat.
Proof. vm_compute. reflexivity. Qed.
