(* Proofs/ObjectsP.v — lemmas about Model/Objects.v *)
From DV Require Import Bytes RustTwins Objects.
Local Open Scope Z_scope.

(* ---------- (a) the cache automaton ---------- *)
Definition cinv (c : cache) : Prop :=
  (needs_ser c = false -> chunked_ver c = ver c) /\
  (forall h, sha_ver c = Some h -> needs_ser c = false -> h = ver c).

Lemma cinv_init : cinv cache_init.
Proof. split; cbn; [discriminate|discriminate]. Qed.

Lemma as_raw_props c : cinv c -> cinv (as_raw c) /\ needs_ser (as_raw c) = false /\ ver (as_raw c) = ver c.
Proof.
  intros [H1 H2]. unfold as_raw. destruct (needs_ser c) eqn:E; cbn.
  - repeat split; auto. intros h Hh. discriminate.
  - repeat split; auto.
Qed.

Lemma cstep_inv c o : cinv c -> cinv (fst (cstep c o)) /\
  (forall v, snd (cstep c o) = Some v -> v = ver (fst (cstep c o))).
Proof.
  intros I. destruct o; cbn [cstep fst snd].
  - split; [split; cbn; [discriminate|discriminate]|discriminate].
  - destruct (as_raw_props c I) as ((A1 & A2) & A3 & A4). split; [split; assumption|].
    intros v Hv. inversion Hv; subst. apply A1. exact A3.
  - pose proof (as_raw_props c I) as ((A1 & A2) & A3 & A4).
    assert (Hre : cinv {| ver := ver (as_raw c); needs_ser := false; chunked_ver := chunked_ver (as_raw c);
                          sha_ver := Some (chunked_ver (as_raw c)) |} /\
                  chunked_ver (as_raw c) = ver (as_raw c)).
    { split; [|apply A1; exact A3]. split; cbn; [intros _; apply A1; exact A3|].
      intros h' Hh' _. inversion Hh'; subst. apply A1. exact A3. }
    destruct Hre as [Hre1 Hre2].
    destruct (sha_ver c) as [h|] eqn:Eh; [destruct (needs_ser c) eqn:En|].
    + cbn [fst snd]. split; [exact Hre1|]. intros v Hv. inversion Hv; subst. exact Hre2.
    + cbn [fst snd]. split; [exact I|]. intros v Hv. inversion Hv; subst. destruct I as [_ I2]. apply I2; assumption.
    + cbn [fst snd]. split; [exact Hre1|]. intros v Hv. inversion Hv; subst. exact Hre2.
  - destruct (as_raw_props c I) as ((A1 & A2) & A3 & A4). split; [split; assumption|].
    intros v Hv. inversion Hv; subst. apply A1. exact A3.
  - split; [split; cbn; [reflexivity|discriminate]|discriminate].
  - destruct I as [I1 I2]. split; [split; cbn; [reflexivity|discriminate]|discriminate].
Qed.

Lemma crun_exact : forall ops c, cinv c -> Forall (fun p => fst p = snd p) (crun c ops).
Proof.
  induction ops as [|o ops IH]; intros c I; cbn [crun]; [constructor|].
  pose proof (cstep_inv c o I) as [I' Hobs]. destruct (cstep c o) as [c' obs]. cbn [fst snd] in *.
  destruct obs as [v|]; [|apply IH; exact I'].
  constructor; [cbn; apply Hobs; reflexivity|apply IH; exact I'].
Qed.

Lemma id_is_hash_of_current_fields_lemma ops : Forall (fun p => fst p = snd p) (crun cache_init ops).
Proof. apply crun_exact. apply cinv_init. Qed.

Example ex_cache :
  crun cache_init [CSet; CId; CSet; CAsRaw; CId; CBlobChunked; CId; CSetRaw; CIdOther; CId] =
  [(1, 1); (2, 2); (2, 2); (3, 3); (4, 4); (4, 4)]%nat.
Proof. vm_compute. reflexivity. Qed.

(* ---------- (b) header folding ---------- *)
Definition no_lf (l : bytes) : Prop := Forall (fun c => c <> LF) l.

Lemma split_lf_join : forall l cur,
  concat (map (fun x => x ++ [LF]) (split_lf l cur)) = rev cur ++ l ++ [LF].
Proof.
  induction l as [|c l IH]; intros cur; cbn [split_lf].
  - cbn. rewrite app_nil_r. reflexivity.
  - destruct (c =? LF) eqn:E.
    + assert (c = LF) by lia. subst. cbn [map concat]. rewrite IH. cbn [rev app]. rewrite <- app_assoc. reflexivity.
    + rewrite IH. cbn [rev]. rewrite <- app_assoc. reflexivity.
Qed.

Lemma split_lf_no_lf : forall l cur, no_lf cur -> Forall no_lf (split_lf l cur).
Proof.
  induction l as [|c l IH]; intros cur Hc; cbn [split_lf].
  - constructor; [|constructor]. unfold no_lf in *. apply Forall_rev. exact Hc.
  - destruct (c =? LF) eqn:E.
    + constructor; [unfold no_lf in *; apply Forall_rev; exact Hc|]. apply IH. constructor.
    + apply IH. constructor; [lia|exact Hc].
Qed.

Lemma split_lf_nonempty l cur : split_lf l cur <> [].
Proof. revert cur; induction l as [|c l IH]; intros cur; cbn [split_lf]; [discriminate|]. destruct (c =? LF); [discriminate|apply IH]. Qed.

(* a line: no LF inside, LF at the end *)
Lemma lines_line : forall x rest cur, no_lf x ->
  lines (x ++ LF :: rest) cur = (rev cur ++ x ++ [LF]) :: lines rest [].
Proof.
  induction x as [|c x IH]; intros rest cur Hx; cbn [app lines].
  - change (LF =? LF) with true. cbv iota. reflexivity.
  - inversion Hx; subst. replace (c =? LF) with false by lia. rewrite IH by assumption.
    cbn [rev]. rewrite <- app_assoc. reflexivity.
Qed.

Lemma lines_concat : forall l cur, concat (lines l cur) = rev cur ++ l.
Proof.
  induction l as [|c l IH]; intros cur; cbn [lines].
  - destruct cur; [reflexivity|]. cbn [concat]. rewrite !app_nil_r. reflexivity.
  - destruct (c =? LF) eqn:E.
    + cbn [concat]. rewrite IH. cbn [rev app]. rewrite <- app_assoc. reflexivity.
    + rewrite IH. cbn [rev]. rewrite <- app_assoc. reflexivity.
Qed.

Definition key_ok (k : bytes) : Prop := k <> [] /\ Forall (fun c => c <> SP /\ c <> LF) k.

Definition header_lines (h : bytes * bytes) : list bytes :=
  match split_lf (snd h) [] with
  | [] => []
  | first :: rest => (fst h ++ SP :: first ++ [LF]) :: map (fun l => SP :: l ++ [LF]) rest
  end.

Lemma format_header_lines h : format_header h = concat (header_lines h).
Proof.
  unfold format_header, header_lines. destruct (split_lf (snd h) []) as [|first rest]; [reflexivity|].
  cbn [concat]. rewrite flat_map_concat_map. rewrite <- !app_assoc. cbn [app]. rewrite <- !app_assoc. reflexivity.
Qed.

Lemma lines_of_lines : forall (ls : list bytes) rest,
  Forall (fun l => exists x, l = x ++ [LF] /\ no_lf x) ls ->
  lines (concat ls ++ rest) [] = ls ++ lines rest [].
Proof.
  induction ls as [|l ls IH]; intros rest H; [reflexivity|].
  inversion H as [|? ? (x & -> & Hx) Hls]; subst. cbn [concat]. rewrite <- !app_assoc. cbn [app].
  rewrite lines_line by exact Hx. cbn [rev app]. rewrite IH by exact Hls. reflexivity.
Qed.

Lemma header_lines_wf h : key_ok (fst h) ->
  Forall (fun l => exists x, l = x ++ [LF] /\ no_lf x) (header_lines h).
Proof.
  intros [Hne Hk]. unfold header_lines.
  pose proof (split_lf_no_lf (snd h) [] ltac:(constructor)) as Hs.
  destruct (split_lf (snd h) []) as [|first rest]; [constructor|].
  inversion Hs as [|? ? Hf Hr]; subst. constructor.
  - exists (fst h ++ SP :: first). split; [rewrite <- app_assoc; reflexivity|].
    unfold no_lf. apply Forall_app. split.
    + eapply Forall_impl; [|exact Hk]. intros c [_ H]. exact H.
    + constructor; [unfold SP, LF; lia|exact Hf].
  - clear -Hr. induction Hr as [|l rest Hl _ IH]; [constructor|]. constructor; [|exact IH].
    exists (SP :: l). split; [reflexivity|]. constructor; [unfold SP, LF; lia|exact Hl].
Qed.

Lemma split_sp_key k rest : Forall (fun c => c <> SP /\ c <> LF) k ->
  forall cur, split_sp (k ++ SP :: rest) cur = Some (rev cur ++ k, rest).
Proof.
  induction k as [|c k IH]; intros Hk cur; cbn [app split_sp].
  - change (SP =? SP) with true. cbv iota. rewrite app_nil_r. reflexivity.
  - inversion Hk as [|? ? [Hc _] Hk']; subst. replace (c =? SP) with false by lia.
    rewrite IH by exact Hk'. cbn [rev]. rewrite <- app_assoc. reflexivity.
Qed.

Lemma strip_last_lf_app v : strip_last_lf (v ++ [LF]) = v.
Proof.
  unfold strip_last_lf. rewrite rev_app_distr. cbn [rev app]. change (LF =? LF) with true. cbv iota.
  apply rev_involutive.
Qed.

(* continuation lines are absorbed into the value *)
Lemma parse_conts : forall (rest : list bytes) ls k v,
  parse_lines (map (fun l => SP :: l ++ [LF]) rest ++ ls) k v =
  parse_lines ls k (v ++ concat (map (fun l => l ++ [LF]) rest)).
Proof.
  induction rest as [|l rest IH]; intros ls k v; cbn [map app concat].
  - rewrite app_nil_r. reflexivity.
  - cbn [parse_lines]. change (SP =? SP) with true. cbv iota. rewrite IH. rewrite <- app_assoc. reflexivity.
Qed.

Definition flushk (k : option bytes) (v : bytes) : list pitem :=
  match k with Some key => [PHeader key (strip_last_lf v)] | None => [] end.

Lemma parse_one_header h ls k v : key_ok (fst h) ->
  parse_lines (header_lines h ++ ls) k v =
  flushk k v ++ parse_lines ls (Some (fst h)) (snd h ++ [LF]).
Proof.
  intros [Hne Hk]. unfold header_lines.
  pose proof (split_lf_join (snd h) []) as Hj. cbn [rev app] in Hj.
  destruct (split_lf (snd h) []) as [|first rest] eqn:Es; [exfalso; eapply split_lf_nonempty; eauto|].
  cbn [app]. destruct (fst h) as [|c kk] eqn:Ek; [contradiction|].
  inversion Hk as [|? ? [Hc1 Hc2] Hk']; subst.
  cbn [parse_lines app]. replace (c =? SP) with false by lia.
  replace ((c =? LF) && match kk ++ SP :: first ++ [LF] with [] => true | _ :: _ => false end) with false
    by (replace (c =? LF) with false by lia; reflexivity).
  change (c :: kk ++ SP :: first ++ [LF]) with ((c :: kk) ++ SP :: (first ++ [LF])).
  rewrite (split_sp_key (c :: kk) (first ++ [LF]) Hk []). cbn [rev app].
  fold (flushk k v). f_equal.
  rewrite parse_conts. f_equal. cbn [map concat] in Hj. rewrite <- app_assoc in Hj. rewrite <- ?app_assoc. exact Hj.
Qed.

Lemma parse_headers : forall hs ls k v,
  Forall (fun h => key_ok (fst h)) hs ->
  parse_lines (concat (map header_lines hs) ++ ls) k v =
  match hs with
  | [] => parse_lines ls k v
  | _ => flushk k v ++ map (fun h => PHeader (fst h) (snd h)) (removelast hs)
         ++ parse_lines ls (Some (fst (last hs ([], [])))) (snd (last hs ([], [])) ++ [LF])
  end.
Proof.
  induction hs as [|h hs IH]; intros ls k v Hall; [reflexivity|].
  inversion Hall as [|? ? Hh Hhs]; subst. cbn [map concat]. rewrite <- app_assoc.
  rewrite parse_one_header by exact Hh. rewrite IH by exact Hhs.
  destruct hs as [|h2 hs']; [reflexivity|].
  cbn [flushk]. rewrite strip_last_lf_app. cbn [removelast last map app]. destruct h as [hk hv]. reflexivity.
Qed.

Lemma message_roundtrip_lemma hs body :
  Forall (fun h => key_ok (fst h)) hs ->
  parse_message (format_message hs body) =
  map (fun h => PHeader (fst h) (snd h)) hs ++ [PBody (Some (match body with Some b => b | None => [] end))].
Proof.
  intros Hall. unfold parse_message, format_message.
  assert (Hgen : forall b : bytes,
    parse_lines (lines (flat_map format_header hs ++ [LF] ++ b) []) None [] =
    map (fun h => PHeader (fst h) (snd h)) hs ++ [PBody (Some b)]); [|destruct body; apply Hgen].
  intros b.
  assert (Hfl : flat_map format_header hs = concat (concat (map header_lines hs))).
  { clear. induction hs as [|h hs IH]; [reflexivity|]. cbn [flat_map map concat]. rewrite concat_app, IH, format_header_lines. reflexivity. }
  rewrite Hfl. rewrite lines_of_lines.
  2:{ clear -Hall. induction Hall as [|h hs Hh _ IH]; [constructor|]. cbn [map concat]. apply Forall_app. split; [apply header_lines_wf; exact Hh|exact IH]. }
  (* the blank line *)
  assert (Hbl : lines ([LF] ++ b) [] = [LF] :: lines b []) by reflexivity.
  rewrite Hbl. rewrite parse_headers by exact Hall.
  assert (Hblank : forall k v, parse_lines ([LF] :: lines b []) k v = flushk k v ++ [PBody (Some b)]).
  { intros k v. cbn [parse_lines]. change (LF =? SP) with false. change ((LF =? LF) && true) with true. cbv iota.
    rewrite lines_concat. reflexivity. }
  destruct hs as [|h hs']; [rewrite Hblank; reflexivity|].
  rewrite Hblank. cbn [flushk]. rewrite strip_last_lf_app. cbn [app].
  (* removelast ++ [last] = whole list *)
  assert (Hl : forall (l : list (bytes * bytes)) d, l <> [] ->
            map (fun h => PHeader (fst h) (snd h)) (removelast l) ++ [PHeader (fst (last l d)) (snd (last l d))]
            = map (fun h => PHeader (fst h) (snd h)) l).
  { intros l d Hne. pose proof (app_removelast_last d Hne) as E.
    replace (map (fun h => PHeader (fst h) (snd h)) l)
      with (map (fun h => PHeader (fst h) (snd h)) (removelast l ++ [last l d])) by (rewrite <- E; reflexivity).
    rewrite map_app. reflexivity. }
  rewrite <- (Hl (h :: hs') ([], []) ltac:(discriminate)). rewrite <- app_assoc. reflexivity.
Qed.

(* ---------- (c) trees ---------- *)
Definition ov (l : bytes) (init : Z) : Z := fold_left (fun a c => a * 8 + (c - 48)) l init.

Lemma octal_digits_acc : forall fuel n acc, octal_digits fuel n acc = octal_digits fuel n [] ++ acc.
Proof.
  induction fuel as [|f IH]; intros n acc; cbn [octal_digits]; [reflexivity|].
  destruct (n <? 8); [reflexivity|]. rewrite IH. rewrite (IH (n / 8) [48 + n mod 8]). rewrite <- app_assoc. reflexivity.
Qed.

Lemma octal_digits_spec : forall fuel n, 0 <= n < 2 ^ Z.of_nat fuel -> (0 < fuel)%nat ->
  ov (octal_digits fuel n []) 0 = n /\ forallb is_octal (octal_digits fuel n []) = true /\ octal_digits fuel n [] <> [].
Proof.
  induction fuel as [|f IH]; intros n Hn Hf; [lia|]. cbn [octal_digits].
  destruct (n <? 8) eqn:E.
  - split; [unfold ov; cbn [fold_left]; lia|]. split; [cbn [forallb]; unfold is_octal; lia|discriminate].
  - rewrite octal_digits_acc.
    assert (Hp : 2 ^ Z.of_nat (S f) = 2 * 2 ^ Z.of_nat f) by (rewrite Nat2Z.inj_succ, Z.pow_succ_r by lia; reflexivity).
    assert (Hf0 : (0 < f)%nat).
    { destruct f; [|lia]. change (2 ^ Z.of_nat 1) with 2 in Hn. lia. }
    destruct (IH (n / 8) ltac:(lia) Hf0) as (V & O & N).
    unfold ov in *. rewrite fold_left_app, V. cbn [fold_left]. rewrite forallb_app, O. unfold is_octal. cbn [forallb].
    repeat split; try lia. intros Hnil. apply app_eq_nil in Hnil. destruct Hnil; discriminate.
Qed.

Lemma ov_zeros k l : ov (repeat 48 k ++ l) 0 = ov l 0.
Proof. unfold ov. rewrite fold_left_app. induction k as [|k IH]; [reflexivity|]. cbn [repeat fold_left]. exact IH. Qed.

Lemma octal04_spec n : 0 <= n ->
  octal_value (octal04 n) = n /\ forallb is_octal (octal04 n) = true /\ octal04 n <> [].
Proof.
  intros Hn. unfold octal04, octal.
  destruct (octal_digits_spec (S (Z.to_nat (Z.log2 n))) n) as (V & O & N).
  { split; [lia|]. rewrite Nat2Z.inj_succ, Z2Nat.id by apply Z.log2_nonneg.
    destruct (Z.eq_dec n 0) as [->|Hz]; [cbn; lia|]. apply Z.log2_spec. lia. }
  { lia. }
  set (d := octal_digits (S (Z.to_nat (Z.log2 n))) n []) in *.
  split; [|split].
  - change (octal_value ?l) with (ov l 0). rewrite ov_zeros. exact V.
  - rewrite forallb_app, O, andb_true_r. clear. induction (4 - length d)%nat; [reflexivity|]. cbn. assumption.
  - intros H. apply app_eq_nil in H. destruct H. contradiction.
Qed.

Lemma find_byte_skip b : forall l rest, ~ In b l -> find_byte b (l ++ b :: rest) = Some (zlen l).
Proof.
  induction l as [|c l IH]; intros rest H; cbn [app find_byte].
  - rewrite Z.eqb_refl. reflexivity.
  - replace (c =? b) with false by (symmetry; apply Z.eqb_neq; intros ->; apply H; left; reflexivity).
    rewrite IH by (intros Hin; apply H; right; exact Hin). rewrite zlen_cons. f_equal. lia.
Qed.

Definition entry_ok (sha_len : Z) (e : tentry) : Prop :=
  let '(name, mode, sha) := e in ~ In 0 name /\ 0 <= mode <= 4294967295 /\ zlen sha = sha_len.

Lemma octal_no_space l : forallb is_octal l = true -> ~ In 32 l.
Proof.
  intros H Hin. rewrite forallb_forall in H. specialize (H 32 Hin). unfold is_octal in H. lia.
Qed.

Lemma entry_roundtrip_py sha_len e rest : entry_ok sha_len e ->
  py_entry sha_len false (serialize_entry e ++ rest) = Some (e, rest).
Proof.
  destruct e as [[name mode] sha]. intros (Hname & Hmode & Hsha). unfold serialize_entry.
  destruct (octal04_spec mode ltac:(lia)) as (V & O & N). set (m := octal04 mode) in *.
  unfold py_entry. rewrite <- !app_assoc. cbn [app].
  rewrite find_byte_skip by (apply octal_no_space; exact O).
  rewrite zfirstn_app_exact by reflexivity. cbn [andb].
  destruct m as [|m0 mm] eqn:Em; [contradiction|]. rewrite <- Em in *.
  replace (match m with [] => true | _ :: _ => false end) with false by (rewrite Em; reflexivity).
  rewrite O. cbn [negb orb]. rewrite V. replace (mode >? 4294967295) with false by lia.
  rewrite zskipn_app_exact by reflexivity.
  change (SP :: name ++ 0 :: sha ++ rest) with ((SP :: name) ++ 0 :: sha ++ rest).
  rewrite (find_byte_skip 0 (SP :: name) (sha ++ rest)) by (intros [H|H]; [discriminate|contradiction]).
  rewrite zlen_cons. replace (1 + zlen name - 1) with (zlen name) by lia.
  assert (Hs : slice ((SP :: name) ++ 0 :: sha ++ rest) 1 (zlen name) = name).
  { unfold slice. change (Z.to_nat 1) with 1%nat. cbn [skipn app]. apply (zfirstn_app_exact name). reflexivity. }
  rewrite Hs.
  assert (Hk : zskipn (1 + zlen name + 1) ((SP :: name) ++ 0 :: sha ++ rest) = sha ++ rest).
  { pose proof (zlen_nonneg name). unfold zskipn. replace (Z.to_nat (1 + zlen name + 1)) with (S (Z.to_nat (zlen name + 1))) by lia.
    cbn [app skipn]. change (name ++ 0 :: sha ++ rest) with (name ++ [0] ++ sha ++ rest). rewrite app_assoc.
    apply (zskipn_app_exact (name ++ [0])). rewrite zlen_app. reflexivity. }
  rewrite Hk. rewrite zlen_app. pose proof (zlen_nonneg rest).
  replace (zlen sha + zlen rest <? sha_len) with false by lia.
  rewrite <- Hsha. rewrite zfirstn_app_exact, zskipn_app_exact by reflexivity. reflexivity.
Qed.

Lemma serialize_entry_nonempty e : serialize_entry e <> [].
Proof.
  destruct e as [[name mode] sha]. unfold serialize_entry. intros H.
  apply app_eq_nil in H. destruct H as [_ H]. discriminate.
Qed.

Lemma tree_roundtrip_lemma sha_len : forall es fuel,
  Forall (entry_ok sha_len) es -> (length es < fuel)%nat ->
  py_parse_tree fuel sha_len false (serialize_tree es) = Some es.
Proof.
  induction es as [|e es IH]; intros fuel Hall Hf; destruct fuel as [|f]; try (cbn in Hf; lia).
  - reflexivity.
  - inversion Hall as [|? ? He Hes]; subst. cbn [py_parse_tree serialize_tree flat_map].
    destruct (serialize_entry e ++ flat_map serialize_entry es) as [|c t] eqn:E.
    { apply app_eq_nil in E. destruct E as [E _]. exfalso. eapply serialize_entry_nonempty; eauto. }
    rewrite <- E. rewrite entry_roundtrip_py by exact He.
    fold (serialize_tree es). rewrite IH; [reflexivity|exact Hes|cbn in Hf; lia].
Qed.
