(* Proofs/PackedRefsP.v — pack_refs never changes the value of a ref; updates stay compare-and-swap *)
From DV Require Import PackedRefs.

Definition pruner (p : pc) : option nat := match p with PkPruneLock v | PkPrune v => Some v | _ => None end.
Definition reg (p : pc) : option nat := match p with PkWrite v | PkPruneLock v | PkPrune v => Some v | _ => None end.
Definition unwritten (p : pc) : bool := match p with PStart | SCheck | SWrite => true | _ => false end.
Definition wf_pc (k : kind) (p : pc) : bool :=
  match p with
  | PStart | PEnd _ | PUnlock _ => true
  | PkRead | PkWrite _ | PkPruneLock _ | PkPrune _ => match k with KPack => true | _ => false end
  | SCheck | SWrite => match k with KCas _ _ | KSet _ => true | _ => false end
  | DCheck | DPacked | DRewrite | DLoose => match k with KDel _ => true | _ => false end
  end.

Record Inv (s : state) : Prop := {
  K_nodel : forall j, is_del (a_kind (acts s j)) = false;
  K_wf : forall j, wf_pc (a_kind (acts s j)) (a_pc (acts s j)) = true;
  K_dist : forall j k n, newval (a_kind (acts s j)) = Some n -> newval (a_kind (acts s k)) = Some n -> j = k;
  L_r : forall j, holds_rlock (a_pc (acts s j)) = true -> rlock s = Some j;
  L_r' : forall j, rlock s = Some j -> holds_rlock (a_pc (acts s j)) = true;
  L_p : forall j, holds_plock (a_pc (acts s j)) = true -> plock s = Some j;
  L_p' : forall j, plock s = Some j -> holds_plock (a_pc (acts s j)) = true;
  V1 : forall j v, a_pc (acts s j) = PkWrite v -> loose s = None -> packed s = Some v;
  V2 : forall j v, pruner (a_pc (acts s j)) = Some v -> loose s = Some v -> packed s = Some v;
  V5 : forall j k va vb, a_pc (acts s j) = PkWrite va -> pruner (a_pc (acts s k)) = Some vb -> loose s = Some vb -> va = vb;
  F_l : forall j n, newval (a_kind (acts s j)) = Some n -> unwritten (a_pc (acts s j)) = true -> loose s <> Some n /\ packed s <> Some n;
  F_r : forall j k n, newval (a_kind (acts s j)) = Some n -> unwritten (a_pc (acts s j)) = true -> reg (a_pc (acts s k)) <> Some n;
  C6 : forall j, a_pc (acts s j) = SWrite -> cond (a_kind (acts s j)) (visible s) = true
}.

Lemma at_pc_kind s i p j : a_kind (at_pc s i p j) = a_kind (acts s j).
Proof. unfold at_pc, upd. destruct (Nat.eqb_spec j i) as [->|]; reflexivity. Qed.
Lemma at_pc_same s i p : a_pc (at_pc s i p i) = p.
Proof. unfold at_pc, upd. rewrite Nat.eqb_refl. reflexivity. Qed.
Lemma at_pc_other s i p j : j <> i -> a_pc (at_pc s i p j) = a_pc (acts s j).
Proof. unfold at_pc, upd. destruct (Nat.eqb_spec j i); [contradiction|reflexivity]. Qed.

Lemma onat_eqb_eq a b : onat_eqb a b = true <-> a = b.
Proof.
  destruct a, b; cbn; split; intros H; try discriminate; try reflexivity.
  - apply Nat.eqb_eq in H. subst. reflexivity.
  - inversion H. apply Nat.eqb_refl.
Qed.

(* split every actor index against the stepping actor i, normalise the program counters *)
Ltac norm i :=
  repeat match goal with
  | H : context[a_kind (at_pc _ _ _ _)] |- _ => rewrite at_pc_kind in H
  | |- context[a_kind (at_pc _ _ _ _)] => rewrite at_pc_kind
  | H : context[a_pc (at_pc _ i _ i)] |- _ => rewrite at_pc_same in H
  | |- context[a_pc (at_pc _ i _ i)] => rewrite at_pc_same
  | H : context[a_pc (at_pc _ i _ ?j)] |- _ =>
      destruct (Nat.eq_dec j i) as [->|?]; [rewrite at_pc_same in H|rewrite (at_pc_other _ _ _ j) in H by assumption]
  | |- context[a_pc (at_pc _ i _ ?j)] =>
      destruct (Nat.eq_dec j i) as [->|?]; [rewrite at_pc_same|rewrite (at_pc_other _ _ _ j) by assumption]
  end.


Lemma visible_mk l p r q a : visible {| loose := l; packed := p; rlock := r; plock := q; acts := a |} = match l with Some v => Some v | None => p end.
Proof. reflexivity. Qed.

Ltac start I :=
  destruct I as [Knd Kwf Kd Lr Lr' Lp Lp' V1 V2 V5 Fl Fr C6];
  constructor; cbn [loose packed rlock plock acts]; rewrite ?visible_mk.

Ltac fwd :=
  repeat match goal with
  | Lr' : (forall j, rlock ?s = Some j -> holds_rlock (a_pc (acts ?s j)) = true), H : rlock ?s = Some ?j |- _ =>
      lazymatch goal with _ : holds_rlock (a_pc (acts s j)) = true |- _ => fail | _ => pose proof (Lr' j H) end
  | Lp' : (forall j, plock ?s = Some j -> holds_plock (a_pc (acts ?s j)) = true), H : plock ?s = Some ?j |- _ =>
      lazymatch goal with _ : holds_plock (a_pc (acts s j)) = true |- _ => fail | _ => pose proof (Lp' j H) end
  | Lr : (forall j, holds_rlock (a_pc (acts ?s j)) = true -> rlock ?s = Some j), H : holds_rlock (a_pc (acts ?s ?j)) = true |- _ =>
      lazymatch goal with _ : rlock s = Some j |- _ => fail | _ => pose proof (Lr j H) end
  | Lp : (forall j, holds_plock (a_pc (acts ?s j)) = true -> plock ?s = Some j), H : holds_plock (a_pc (acts ?s ?j)) = true |- _ =>
      lazymatch goal with _ : plock s = Some j |- _ => fail | _ => pose proof (Lp j H) end
  | Lr : (forall j, holds_rlock (a_pc (acts ?s j)) = true -> rlock ?s = Some j), H : a_pc (acts ?s ?j) = ?p |- _ =>
      lazymatch goal with _ : rlock s = Some j |- _ => fail | _ =>
        let X := fresh "X" in assert (X : holds_rlock (a_pc (acts s j)) = true) by (rewrite H; reflexivity); pose proof (Lr j X); clear X end
  | Lp : (forall j, holds_plock (a_pc (acts ?s j)) = true -> plock ?s = Some j), H : a_pc (acts ?s ?j) = ?p |- _ =>
      lazymatch goal with _ : plock s = Some j |- _ => fail | _ =>
        let X := fresh "X" in assert (X : holds_plock (a_pc (acts s j)) = true) by (rewrite H; reflexivity); pose proof (Lp j X); clear X end
  end.

Ltac simp E :=
  repeat match goal with H : context[a_pc (acts _ _)] |- _ => tryif constr_eq H E then fail else rewrite E in H end; rewrite ?E;
  cbn [holds_rlock holds_plock pruner reg unwritten wf_pc] in *.

Ltac inj := repeat match goal with
  | H : Some ?a = Some ?b |- _ => first [is_var a | is_var b]; injection H as H; try subst a; try subst b
  | H : PkWrite ?a = PkWrite ?b |- _ => injection H as H; try subst a; try subst b
  | H : PkPruneLock ?a = PkPruneLock ?b |- _ => injection H as H; try subst a; try subst b
  | H : PkPrune ?a = PkPrune ?b |- _ => injection H as H; try subst a; try subst b
  end.
(* facts about the value read: case split on the loose file *)
Ltac vis := unfold visible in *; destruct (loose _) eqn:?; try discriminate; try congruence.
Ltac basic := try discriminate; try congruence; eauto.
Ltac own E i :=
  match goal with
  | Lr : (forall j, holds_rlock (a_pc (acts ?s j)) = true -> rlock ?s = Some j),
    Lp : (forall j, holds_plock (a_pc (acts ?s j)) = true -> plock ?s = Some j) |- _ =>
    pose proof (Lr i) as HRi; pose proof (Lp i) as HPi; rewrite E in HRi, HPi; cbn [holds_rlock holds_plock] in HRi, HPi;
    try specialize (HRi eq_refl); try specialize (HPi eq_refl)
  end.
Ltac usek := repeat match goal with K : a_kind (acts ?s ?i) = _ |- context[a_kind (acts ?s ?i)] => rewrite K end.
Ltac side E := first [eassumption | rewrite E; cbn; reflexivity | rewrite E; cbn; eassumption | cbn; reflexivity | congruence].
Ltac fin E :=
  match goal with
  | Fl : (forall j n, newval _ = Some n -> unwritten _ = true -> _ /\ _) |- _ /\ _ => solve [eapply Fl; side E]
  | Fl : (forall j n, newval _ = Some n -> unwritten _ = true -> _ /\ _) |- _ <> _ => solve [eapply Fl; side E]
  | Fr : (forall j k n, newval _ = Some n -> unwritten _ = true -> reg _ <> Some n) |- _ <> _ => solve [eapply Fr; side E]
  | _ => idtac
  end.
Ltac go I E i := start I; own E i; intros; norm i; inj; simp E; usek; basic; fwd; inj; simp E; basic; fin E.

Lemma visible_cases s : (loose s = None /\ visible s = packed s) \/ (exists v, loose s = Some v /\ visible s = Some v).
Proof. unfold visible. destruct (loose s); [right; eauto|left; auto]. Qed.

Lemma pruner_reg p v : pruner p = Some v -> reg p = Some v.
Proof. destruct p; cbn; congruence. Qed.

Lemma step_inv s i : Inv s -> Inv (step s i).
Proof.
  intros I. pose proof (K_nodel _ I i) as ND. pose proof (K_wf _ I i) as WF.
  unfold step. destruct (a_pc (acts s i)) eqn:E.
  - destruct (a_kind (acts s i)) eqn:K; try discriminate ND.
    + destruct (plock s) eqn:PL; go I E i.
    + destruct (rlock s) eqn:RL; go I E i.
    + destruct (rlock s) eqn:RL; go I E i.
    + go I E i.
  - destruct (visible s) as [v|] eqn:VI.
    + go I E i.
      * vis.
      * vis.
      * match goal with Hn : newval _ = Some ?n, Hu : unwritten _ = true |- _ => destruct (Fl _ _ Hn Hu) as [A B] end. vis.
    + go I E i.
  - go I E i.
    + match goal with Hn : newval _ = Some ?n, Hu : unwritten _ = true |- _ =>
        destruct (Fl _ _ Hn Hu) as [A B]; pose proof (Fr _ i _ Hn Hu) as C; rewrite E in C; cbn in C end. split; assumption.
    + match goal with Hn : newval _ = Some ?n, Hu : unwritten _ = true |- _ =>
        pose proof (Fr _ i _ Hn Hu) as C; rewrite E in C; cbn in C end. assumption.
    + match goal with Hw : a_pc (acts s ?j) = SWrite |- _ => pose proof (C6 _ Hw) as C end.
      pose proof (V1 _ _ E) as D. unfold visible in C. destruct (loose s); [exact C|]. rewrite (D eq_refl) in C. exact C.
  - destruct (rlock s) eqn:RL.
    + go I E i.
    + go I E i.
      * eapply V2; [rewrite E; reflexivity|assumption].
      * eapply V5; [eassumption|rewrite E; reflexivity|assumption].
      * match goal with Hn : newval _ = Some ?n, Hu : unwritten _ = true |- _ =>
          pose proof (Fr _ i _ Hn Hu) as C; rewrite E in C; cbn in C end. assumption.
  - destruct (onat_eqb (loose s) (Some v)) eqn:Q.
    + apply onat_eqb_eq in Q. go I E i.
      * match goal with Hw : a_pc (acts s ?j) = PkWrite ?v0 |- _ =>
          assert (v0 = v) by (eapply V5; [exact Hw|rewrite E; reflexivity|exact Q]); subst v0 end.
        eapply V2; [rewrite E; reflexivity|exact Q].
      * match goal with Hn : newval _ = Some ?n, Hu : unwritten _ = true |- _ => destruct (Fl _ _ Hn Hu) as [A B] end.
        split; [discriminate|exact B].
    + go I E i.
  - destruct (cond (a_kind (acts s i)) (visible s)) eqn:CD; go I E i.
  - go I E i.
    + destruct (a_kind (acts s i)); discriminate.
    + exfalso. match goal with Hn : newval _ = Some ?v, Hp : pruner _ = Some ?v |- _ =>
        eapply (Fr i); [exact Hn|rewrite E; reflexivity|apply pruner_reg; exact Hp] end.
    + exfalso. match goal with Hn : newval _ = Some ?v, Hp : pruner _ = Some ?v |- _ =>
        eapply (Fr i); [exact Hn|rewrite E; reflexivity|apply pruner_reg; exact Hp] end.
    + match goal with Hn : newval (a_kind (acts s ?j)) = Some ?n, Hu : unwritten _ = true |- _ =>
        destruct (Fl _ _ Hn Hu) as [A B]; split; [intros X; pose proof (Kd _ _ _ X Hn); congruence|exact B] end.
  - destruct (a_kind (acts s i)); discriminate.
  - destruct (a_kind (acts s i)); discriminate.
  - destruct (a_kind (acts s i)); discriminate.
  - destruct (a_kind (acts s i)); discriminate.
  - go I E i.
  - exact I.
Qed.

Lemma run_inv sched : forall s, Inv s -> Inv (run s sched).
Proof. induction sched as [|i r IH]; intros s I; [exact I|]. apply IH. apply step_inv. exact I. Qed.

Definition fresh (l0 p0 : option nat) (l : list kind) : Prop :=
  forallb (fun k => negb (is_del k)) l = true /\ NoDup (news l) /\ (forall n, In n (news l) -> l0 <> Some n /\ p0 <> Some n).

Lemma nth_mk l i : (exists k, nth_error l i = Some k /\ nth i (map mk l) idle = mk k) \/ nth i (map mk l) idle = idle.
Proof.
  revert i. induction l as [|k l IH]; intros [|i]; cbn; auto.
  - left. exists k. auto.
Qed.

Lemma news_nth : forall l i k n, nth_error l i = Some k -> newval k = Some n -> In n (news l).
Proof.
  induction l as [|k0 l IH]; intros [|i] k n H N; cbn in H; try discriminate.
  - inversion H; subst. unfold news. cbn. rewrite N. left. reflexivity.
  - unfold news. cbn. apply in_or_app. right. eapply IH; eauto.
Qed.

Lemma NoDup_app_r {A} (a b : list A) : NoDup (a ++ b) -> NoDup b.
Proof. induction a as [|x a IH]; cbn; intros H; [exact H|]. inversion H; subst. auto. Qed.

Lemma news_dist : forall l i j ki kj n, NoDup (news l) -> nth_error l i = Some ki -> nth_error l j = Some kj ->
  newval ki = Some n -> newval kj = Some n -> i = j.
Proof.
  induction l as [|k0 l IH]; intros [|i] [|j] ki kj n ND Hi Hj Ni Nj; cbn in Hi, Hj; try discriminate; auto.
  - inversion Hi; subst. unfold news in ND. cbn in ND. rewrite Ni in ND. inversion ND as [|? ? X Y]; subst.
    exfalso. apply X. eapply news_nth; eauto.
  - inversion Hj; subst. unfold news in ND. cbn in ND. rewrite Nj in ND. inversion ND as [|? ? X Y]; subst.
    exfalso. apply X. eapply news_nth; eauto.
  - f_equal. eapply IH; eauto. unfold news in ND. cbn in ND. apply NoDup_app_r in ND. exact ND.
Qed.

Lemma init_inv l0 p0 l : fresh l0 p0 l -> Inv (init l0 p0 l).
Proof.
  intros (ND & NN & NF).
  assert (P : forall i, (exists k, nth_error l i = Some k /\ acts (init l0 p0 l) i = mk k) \/ acts (init l0 p0 l) i = idle) by (intros i; apply nth_mk).
  constructor; cbn [loose packed rlock plock].
  - intros j. destruct (P j) as [(k & H & A)|A]; rewrite A; cbn; [|reflexivity].
    rewrite forallb_forall in ND. apply nth_error_In in H. specialize (ND _ H). destruct (is_del k); [discriminate|reflexivity].
  - intros j. destruct (P j) as [(k & H & A)|A]; rewrite A; reflexivity.
  - intros j k n Hj Hk. destruct (P j) as [(kj & H1 & A1)|A1]; rewrite A1 in Hj; cbn in Hj; [|discriminate].
    destruct (P k) as [(kk & H2 & A2)|A2]; rewrite A2 in Hk; cbn in Hk; [|discriminate].
    eapply news_dist; eauto.
  - intros j H. destruct (P j) as [(k & _ & A)|A]; rewrite A in H; discriminate.
  - discriminate.
  - intros j H. destruct (P j) as [(k & _ & A)|A]; rewrite A in H; discriminate.
  - discriminate.
  - intros j v H. destruct (P j) as [(k & _ & A)|A]; rewrite A in H; discriminate.
  - intros j v H. destruct (P j) as [(k & _ & A)|A]; rewrite A in H; discriminate.
  - intros j k va vb H. destruct (P j) as [(k' & _ & A)|A]; rewrite A in H; discriminate.
  - intros j n H U. destruct (P j) as [(k & H1 & A)|A]; rewrite A in H; cbn in H; [|discriminate].
    apply NF. eapply news_nth; eauto.
  - intros j k n _ _ H. destruct (P k) as [(k' & _ & A)|A]; rewrite A in H; discriminate.
  - intros j H. destruct (P j) as [(k & _ & A)|A]; rewrite A in H; discriminate.
Qed.

Lemma pc_eq_SWrite p : p = SWrite \/ p <> SWrite.
Proof. destruct p; auto; right; discriminate. Qed.

(* every step except a writer's write leaves the value of the ref as it was *)
Lemma step_visible s i : Inv s -> a_pc (acts s i) <> SWrite -> visible (step s i) = visible s.
Proof.
  intros I NW. pose proof (K_nodel _ I i) as ND. pose proof (K_wf _ I i) as WF.
  unfold step. destruct (a_pc (acts s i)) eqn:E; try reflexivity; try contradiction.
  - destruct (a_kind (acts s i)); try reflexivity; try discriminate;
      try (destruct (plock s); reflexivity); destruct (rlock s); reflexivity.
  - destruct (visible s) eqn:VI; rewrite visible_mk; exact VI.
  - rewrite visible_mk. pose proof (V1 _ I _ _ E) as D. unfold visible. destruct (loose s); [reflexivity|]. rewrite D; reflexivity.
  - destruct (rlock s); reflexivity.
  - rewrite visible_mk. destruct (onat_eqb (loose s) (Some v)) eqn:Q; [|reflexivity].
    apply onat_eqb_eq in Q. unfold visible. rewrite Q. eapply (V2 _ I i); [rewrite E; reflexivity|exact Q].
  - destruct (cond _ _); reflexivity.
  - destruct (a_kind (acts s i)); discriminate.
  - destruct (a_kind (acts s i)); discriminate.
  - destruct (a_kind (acts s i)); discriminate.
  - destruct (a_kind (acts s i)); discriminate.
Qed.

Lemma change_is_cas s i : Inv s -> visible (step s i) <> visible s ->
  a_pc (acts s i) = SWrite /\ rlock s = Some i /\ cond (a_kind (acts s i)) (visible s) = true /\ visible (step s i) = newval (a_kind (acts s i)).
Proof.
  intros I H. destruct (pc_eq_SWrite (a_pc (acts s i))) as [E|E]; [|exfalso; apply H; apply step_visible; assumption].
  split; [exact E|]. split; [apply (L_r _ I); rewrite E; reflexivity|]. split; [apply (C6 _ I); exact E|].
  pose proof (K_wf _ I i) as WF. unfold step. rewrite E in *. rewrite visible_mk.
  destruct (a_kind (acts s i)); try discriminate; reflexivity.
Qed.
