(* Proofs/ConfigDictP.v — the _keyed cache of CaseInsensitiveOrderedMultiDict
   always agrees with the ordered list _real, for every operation sequence *)
From DV Require Import Bytes Config.
Local Open Scope Z_scope.

Lemma beq_sym a b : bytes_beq a b = bytes_beq b a.
Proof.
  destruct (bytes_beq a b) eqn:E.
  - apply bytes_beq_spec in E. subst. symmetry. apply bytes_beq_refl.
  - destruct (bytes_beq b a) eqn:E2; [|reflexivity]. apply bytes_beq_spec in E2. subst.
    rewrite bytes_beq_refl in E. discriminate.
Qed.

Lemma aget_aset k v l q : aget q (aset k v l) = if bytes_beq q k then Some v else aget q l.
Proof.
  induction l as [|[k' v'] r IH]; cbn [aset aget].
  - reflexivity.
  - destruct (bytes_beq k k') eqn:E.
    + apply bytes_beq_spec in E. subst k'. cbn [aget]. destruct (bytes_beq q k); reflexivity.
    + cbn [aget]. rewrite IH. destruct (bytes_beq q k') eqn:E2; [|reflexivity].
      apply bytes_beq_spec in E2. subst q. rewrite beq_sym, E. reflexivity.
Qed.

(* keys of the dict are unique, so deleting one occurrence deletes the key *)
Fixpoint akeys_nodup (l : list kv) : Prop :=
  match l with [] => True | (k, _) :: r => aget k r = None /\ akeys_nodup r end.

Lemma aget_adel k l q : akeys_nodup l -> aget q (adel k l) = if bytes_beq q k then None else aget q l.
Proof.
  induction l as [|[k' v'] r IH]; intros Hn; cbn [adel aget].
  - destruct (bytes_beq q k); reflexivity.
  - destruct Hn as [Hk Hr]. destruct (bytes_beq k k') eqn:E.
    + apply bytes_beq_spec in E. subst k'. destruct (bytes_beq q k) eqn:E2; [|reflexivity].
      apply bytes_beq_spec in E2. subst q. exact Hk.
    + cbn [aget]. rewrite IH by exact Hr. destruct (bytes_beq q k') eqn:E2; [|reflexivity].
      apply bytes_beq_spec in E2. subst q. rewrite beq_sym, E. reflexivity.
Qed.

Lemma nodup_aset k v l : akeys_nodup l -> akeys_nodup (aset k v l).
Proof.
  induction l as [|[k' v'] r IH]; intros Hn; cbn [aset akeys_nodup]; [auto|].
  destruct Hn as [Hk Hr]. destruct (bytes_beq k k') eqn:E; cbn [akeys_nodup]; [auto|].
  split; [|auto]. rewrite aget_aset. rewrite beq_sym, E. exact Hk.
Qed.

Lemma nodup_adel k l : akeys_nodup l -> akeys_nodup (adel k l).
Proof.
  induction l as [|[k' v'] r IH]; intros Hn; cbn [adel akeys_nodup]; [auto|].
  destruct Hn as [Hk Hr]. destruct (bytes_beq k k') eqn:E; cbn [akeys_nodup]; [auto|].
  split; [|auto]. rewrite aget_adel by exact Hr. rewrite Hk. destruct (bytes_beq k' k); reflexivity.
Qed.

Lemma last_val_app lk a b : last_val lk (a ++ b) =
  match last_val lk b with Some v => Some v | None => last_val lk a end.
Proof.
  induction a as [|e a IH]; cbn [app last_val].
  - destruct (last_val lk b); reflexivity.
  - rewrite IH. destruct (last_val lk b); reflexivity.
Qed.

Lemma last_val_filter lk lk0 real :
  last_val lk (filter (other_key lk0) real) = if bytes_beq lk lk0 then None else last_val lk real.
Proof.
  induction real as [|e r IH]; cbn [filter last_val].
  - destruct (bytes_beq lk lk0); reflexivity.
  - unfold other_key at 1. destruct (bytes_beq (lower (fst e)) lk0) eqn:E; cbn [negb].
    + rewrite IH. destruct (bytes_beq lk lk0) eqn:E2; [reflexivity|].
      destruct (last_val lk r); [reflexivity|].
      destruct (bytes_beq (lower (fst e)) lk) eqn:E3; [|reflexivity].
      apply bytes_beq_spec in E, E3. subst. rewrite bytes_beq_refl in E2. discriminate.
    + cbn [last_val]. rewrite IH. destruct (bytes_beq lk lk0) eqn:E2; [|reflexivity].
      apply bytes_beq_spec in E2. subst lk0. rewrite E. reflexivity.
Qed.

Definition md_inv (s : md) : Prop :=
  akeys_nodup (md_keyed s) /\ forall lk, aget lk (md_keyed s) = last_val lk (md_real s).

Lemma md_step_inv s o : md_inv s -> md_inv (fst (md_step s o)).
Proof.
  intros [Hn Hc]. destruct o as [k v|k v|k]; cbn [md_step fst].
  - split; cbn [md_real md_keyed]; [apply nodup_aset; exact Hn|].
    intros lk. rewrite aget_aset, last_val_app. cbn [last_val fst snd].
    rewrite (beq_sym (lower k) lk). destruct (bytes_beq lk (lower k)); [reflexivity|apply Hc].
  - split; cbn [md_real md_keyed]; [apply nodup_aset; exact Hn|].
    intros lk. rewrite aget_aset, last_val_app. cbn [last_val fst snd].
    rewrite (beq_sym (lower k) lk). destruct (bytes_beq lk (lower k)) eqn:E; [reflexivity|].
    rewrite last_val_filter, E. apply Hc.
  - destruct (aget (lower k) (md_keyed s)) eqn:E; cbn [fst]; [|split; assumption].
    split; cbn [md_real md_keyed]; [apply nodup_adel; exact Hn|].
    intros lk. rewrite aget_adel by exact Hn. rewrite last_val_filter.
    destruct (bytes_beq lk (lower k)); [reflexivity|apply Hc].
Qed.

Lemma md_run_inv_from : forall ops s, md_inv s -> md_inv (fold_left (fun s o => fst (md_step s o)) ops s).
Proof. induction ops as [|o ops IH]; intros s H; [exact H|]. cbn [fold_left]. apply IH. apply md_step_inv. exact H. Qed.

Lemma multidict_coherent_lemma ops k :
  md_getitem (md_run ops) k = last_val (lower k) (md_real (md_run ops)).
Proof.
  unfold md_getitem, md_run. apply (md_run_inv_from ops md_init). split; [exact I|]. intros lk. reflexivity.
Qed.

(* deleting a key removes every one of its values; other keys keep theirs in order *)
Lemma all_vals_filter lk lk0 real :
  all_vals lk (filter (other_key lk0) real) = if bytes_beq lk lk0 then [] else all_vals lk real.
Proof.
  unfold all_vals. induction real as [|e r IH]; cbn [filter map].
  - destruct (bytes_beq lk lk0); reflexivity.
  - unfold other_key at 1. destruct (bytes_beq (lower (fst e)) lk0) eqn:E; cbn [negb].
    + rewrite IH. destruct (bytes_beq lk lk0) eqn:E2; [reflexivity|].
      destruct (bytes_beq (lower (fst e)) lk) eqn:E3; [|reflexivity].
      apply bytes_beq_spec in E, E3. subst. rewrite bytes_beq_refl in E2. discriminate.
    + cbn [filter]. destruct (bytes_beq (lower (fst e)) lk) eqn:E3; cbn [map]; rewrite IH.
      * destruct (bytes_beq lk lk0) eqn:E2; [|reflexivity].
        apply bytes_beq_spec in E2, E3. subst. rewrite bytes_beq_refl in E. discriminate.
      * reflexivity.
Qed.

Lemma multidict_delete_lemma s k q :
  md_get_all (fst (md_step s (MDel k))) q =
  if snd (md_step s (MDel k)) then md_get_all s q
  else if bytes_beq (lower q) (lower k) then [] else md_get_all s q.
Proof.
  unfold md_get_all. cbn [md_step]. destruct (aget (lower k) (md_keyed s)); cbn [fst snd md_real]; [|reflexivity].
  apply all_vals_filter.
Qed.

Example ex_multidict :
  let s := md_run [MAdd [102] [49]; MAdd [70] [50]; MAdd [103] [51]; MDel [102]; MAdd [102] [52]] in
  md_real s = [([103], [51]); ([102], [52])] /\ md_getitem s [70] = Some [52] /\ md_len s = 2.
Proof. vm_compute. repeat split; reflexivity. Qed.
