(* Proofs/ReceiveP.v *)
From DV Require Import Bytes Receive.
Local Open Scope Z_scope.

Lemma beq_sym a b : bytes_beq a b = bytes_beq b a.
Proof.
  destruct (bytes_beq a b) eqn:E.
  - apply bytes_beq_spec in E. subst. symmetry. apply bytes_beq_refl.
  - destruct (bytes_beq b a) eqn:E2; [|reflexivity]. apply bytes_beq_spec in E2. subst.
    rewrite bytes_beq_refl in E. discriminate.
Qed.

Lemma rget_rset m r v q : rget q (rset r v m) = if bytes_beq q r then Some v else rget q m.
Proof.
  induction m as [|[k w] t IH]; cbn [rset rget]; [reflexivity|].
  destruct (bytes_beq r k) eqn:E.
  - apply bytes_beq_spec in E. subst k. cbn [rget]. destruct (bytes_beq q r); reflexivity.
  - cbn [rget]. rewrite IH. destruct (bytes_beq q k) eqn:E2; [|reflexivity].
    apply bytes_beq_spec in E2. subst q. rewrite beq_sym, E. reflexivity.
Qed.

Lemma rget_rdel m r q : rget q (rdel r m) = if bytes_beq q r then None else rget q m.
Proof.
  induction m as [|[k w] t IH]; cbn [rdel rget]; [destruct (bytes_beq q r); reflexivity|].
  destruct (bytes_beq r k) eqn:E.
  - apply bytes_beq_spec in E. subst k. rewrite IH. destruct (bytes_beq q r); reflexivity.
  - cbn [rget]. rewrite IH. destruct (bytes_beq q k) eqn:E2; [|reflexivity].
    apply bytes_beq_spec in E2. subst q. rewrite beq_sym, E. reflexivity.
Qed.

(* every stored value is an object we have *)
Definition valid (objs : list bytes) (m : refmap) : Prop :=
  forall r v, rget r m = Some v -> memb v objs = true.

(* effect of one compare-and-swap *)
Lemma apply_update_spec m c m' s : apply_update m c = (m', s) ->
  (s = SOk /\ cur m (c_ref c) = c_old c /\ requested c m' = true /\
   forall q, bytes_beq q (c_ref c) = false -> rget q m' = rget q m)
  \/ (s = SStale /\ m' = m /\ cur m (c_ref c) <> c_old c).
Proof.
  unfold apply_update. destruct (bytes_beq (cur m (c_ref c)) (c_old c)) eqn:E.
  - intros H. inversion H; subst; clear H. left. apply bytes_beq_spec in E. split; [reflexivity|]. split; [exact E|].
    unfold requested. destruct (bytes_beq (c_new c) ZERO) eqn:Ez.
    + split; [rewrite rget_rdel, bytes_beq_refl; reflexivity|]. intros q Hq. rewrite rget_rdel, Hq. reflexivity.
    + split; [rewrite rget_rset, bytes_beq_refl; apply bytes_beq_refl|]. intros q Hq. rewrite rget_rset, Hq. reflexivity.
  - intros H. inversion H; subst. right. repeat split. intros Hc. rewrite Hc, bytes_beq_refl in E. discriminate.
Qed.

Lemma apply_update_valid objs m c m' s :
  valid objs m -> check_update objs c = None -> apply_update m c = (m', s) -> valid objs m'.
Proof.
  intros Hv Hc H. unfold apply_update in H. destruct (bytes_beq (cur m (c_ref c)) (c_old c)); [|inversion H; subst; exact Hv].
  unfold check_update in Hc. destruct (bytes_beq (c_new c) ZERO) eqn:Ez.
  - inversion H; subst. intros r v Hr. rewrite rget_rdel in Hr. destruct (bytes_beq r (c_ref c)); [discriminate|]. eapply Hv; eauto.
  - destruct (memb (c_new c) objs) eqn:Em; [|discriminate]. inversion H; subst. intros r v Hr. rewrite rget_rset in Hr.
    destruct (bytes_beq r (c_ref c)); [inversion Hr; subst; exact Em|eapply Hv; eauto].
Qed.

(* ---------- plain (non-atomic) pushes ---------- *)
Lemma run_plain_spec objs : forall cs m m' ss,
  NoDup (map c_ref cs) -> run_plain objs m cs = (m', ss) ->
  length ss = length cs /\
  (forall q, ~ In q (map c_ref cs) -> rget q m' = rget q m) /\
  Forall2 (fun c s => (s = SOk -> requested c m' = true /\ cur m (c_ref c) = c_old c) /\
                      (s <> SOk -> rget (c_ref c) m' = rget (c_ref c) m)) cs ss.
Proof.
  induction cs as [|c cs IH]; intros m m' ss Hnd H; cbn [run_plain] in H.
  - inversion H; subst. split; [reflexivity|]. split; [reflexivity|constructor].
  - inversion Hnd as [|? ? Hnin Hnd']; subst.
    destruct (match check_update objs c with Some e => (m, e) | None => apply_update m c end) as [m1 s] eqn:E1.
    destruct (run_plain objs m1 cs) as [m2 ss2] eqn:E2. inversion H; subst; clear H.
    destruct (IH m1 m' ss2 Hnd' E2) as (L & U & F).
    assert (Hkeep : rget (c_ref c) m' = rget (c_ref c) m1) by (apply U; exact Hnin).
    (* what the first command did *)
    assert (Hfirst : (s = SOk /\ cur m (c_ref c) = c_old c /\ requested c m1 = true /\
                      forall q, bytes_beq q (c_ref c) = false -> rget q m1 = rget q m)
                     \/ (s <> SOk /\ m1 = m)).
    { destruct (check_update objs c) eqn:Ec.
      - inversion E1; subst. right. split; [|reflexivity]. unfold check_update in Ec.
        destruct (bytes_beq (c_new c) ZERO); [discriminate|]. destruct (memb (c_new c) objs); [discriminate|]. inversion Ec. discriminate.
      - apply apply_update_spec in E1. destruct E1 as [(-> & A & B & C)|(-> & -> & _)]; [left; auto|right; split; [discriminate|reflexivity]]. }
    split; [cbn; lia|]. split.
    + intros q Hq. cbn [map] in Hq. rewrite U by (intros Hin; apply Hq; right; exact Hin).
      destruct Hfirst as [(_ & _ & _ & C)|(_ & ->)]; [|reflexivity]. apply C.
      destruct (bytes_beq q (c_ref c)) eqn:Eq; [|reflexivity]. apply bytes_beq_spec in Eq. subst q. exfalso. apply Hq. left. reflexivity.
    + constructor.
      * split.
        -- intros ->. destruct Hfirst as [(_ & A & B & _)|(Hne & _)]; [|contradiction]. split; [|exact A].
           unfold requested in *. rewrite Hkeep. exact B.
        -- intros Hne. destruct Hfirst as [(-> & _)|(_ & ->)]; [contradiction|]. exact Hkeep.
      * (* the later commands: their facts are about m1 -> restate for m *)
        clear -F Hfirst Hnin. induction F as [|c2 s2 cs2 ss2 [F1 F2] _ IHF]; [constructor|].
        cbn [map] in Hnin. constructor; [|apply IHF; intros Hin; apply Hnin; right; exact Hin].
        assert (Hne : bytes_beq (c_ref c2) (c_ref c) = false).
        { destruct (bytes_beq (c_ref c2) (c_ref c)) eqn:E; [|reflexivity]. apply bytes_beq_spec in E. exfalso. apply Hnin. left. exact E. }
        assert (Hsame : rget (c_ref c2) m1 = rget (c_ref c2) m).
        { destruct Hfirst as [(_ & _ & _ & C)|(_ & ->)]; [apply C; exact Hne|reflexivity]. }
        split.
        -- intros Hs. destruct (F1 Hs) as [A B]. split; [exact A|]. unfold cur in *. rewrite <- Hsame. exact B.
        -- intros Hs. rewrite (F2 Hs). exact Hsame.
Qed.

Lemma run_plain_valid objs : forall cs m m' ss,
  valid objs m -> run_plain objs m cs = (m', ss) -> valid objs m'.
Proof.
  induction cs as [|c cs IH]; intros m m' ss Hv H; cbn [run_plain] in H; [inversion H; subst; exact Hv|].
  destruct (match check_update objs c with Some e => (m, e) | None => apply_update m c end) as [m1 s] eqn:E1.
  destruct (run_plain objs m1 cs) as [m2 ss2] eqn:E2. inversion H; subst; clear H.
  eapply IH; [|exact E2]. destruct (check_update objs c) eqn:Ec; [inversion E1; subst; exact Hv|].
  eapply apply_update_valid; eauto.
Qed.

(* ---------- atomic pushes ---------- *)
Lemma apply_all_nodup : forall cs m applied i,
  NoDup (map c_ref cs) -> (forall c, In c cs -> cur m (c_ref c) = c_old c) ->
  exists m', apply_all m cs applied i = (m', None) /\
             (forall c, In c cs -> requested c m' = true) /\
             (forall q, ~ In q (map c_ref cs) -> rget q m' = rget q m).
Proof.
  induction cs as [|c cs IH]; intros m applied i Hnd Hcur.
  - exists m. cbn. split; [reflexivity|]. split; [intros c []|reflexivity].
  - inversion Hnd as [|? ? Hnin Hnd']; subst. cbn [apply_all].
    destruct (apply_update m c) as [m1 s] eqn:E. apply apply_update_spec in E.
    destruct E as [(-> & A & B & C)|(_ & _ & Hne)]; [|exfalso; apply Hne; apply Hcur; left; reflexivity].
    cbn [is_ok].
    assert (Hcur1 : forall c', In c' cs -> cur m1 (c_ref c') = c_old c').
    { intros c' Hin. unfold cur. rewrite C; [apply Hcur; right; exact Hin|].
      destruct (bytes_beq (c_ref c') (c_ref c)) eqn:Eq; [|reflexivity]. apply bytes_beq_spec in Eq.
      exfalso. apply Hnin. rewrite <- Eq. apply in_map. exact Hin. }
    destruct (IH m1 (c :: applied) (S i) Hnd' Hcur1) as (m' & R & Q & U).
    exists m'. split; [exact R|]. split.
    + intros c' [<-|Hin]; [|apply Q; exact Hin]. unfold requested in *. rewrite (U (c_ref c) Hnin). exact B.
    + intros q Hq. cbn [map] in Hq. rewrite U by (intros Hin; apply Hq; right; exact Hin). apply C.
      destruct (bytes_beq q (c_ref c)) eqn:Eq; [|reflexivity]. apply bytes_beq_spec in Eq. exfalso. apply Hq. left. symmetry. exact Eq.
Qed.

Lemma validate_ok objs m c : validate objs m c = SOk -> check_update objs c = None /\ cur m (c_ref c) = c_old c.
Proof.
  unfold validate. destruct (check_update objs c) as [e|] eqn:Ec.
  - intros ->. unfold check_update in Ec. destruct (bytes_beq (c_new c) ZERO); [discriminate|].
    destruct (memb (c_new c) objs); discriminate.
  - destruct (bytes_beq (cur m (c_ref c)) (c_old c)) eqn:E; [|discriminate]. intros _. split; [reflexivity|]. apply bytes_beq_spec. exact E.
Qed.

Lemma atomic_all_or_none_lemma objs m cs m' ss :
  NoDup (map c_ref cs) -> run_atomic objs m cs = (m', ss) ->
  (Forall (fun s => s = SOk) ss /\ (forall c, In c cs -> requested c m' = true) /\ length ss = length cs)
  \/ (Forall (fun s => s <> SOk) ss /\ m' = m /\ length ss = length cs).
Proof.
  intros Hnd H. unfold run_atomic in H.
  destruct (forallb is_ok (map (validate objs m) cs)) eqn:Ev.
  - left. rewrite forallb_forall in Ev.
    assert (Hcur : forall c, In c cs -> cur m (c_ref c) = c_old c).
    { intros c Hc. apply (validate_ok objs). specialize (Ev (validate objs m c) (in_map _ _ _ Hc)).
      destruct (validate objs m c); try discriminate. reflexivity. }
    destruct (apply_all_nodup cs m [] 0%nat Hnd Hcur) as (m2 & R & Q & _). rewrite R in H. inversion H; subst.
    split; [|split; [exact Q|apply map_length]]. rewrite Forall_forall. intros s Hs. apply in_map_iff in Hs. destruct Hs as (? & <- & _). reflexivity.
  - right. inversion H; subst. split; [|split; [reflexivity|rewrite !map_length; reflexivity]].
    rewrite Forall_forall. intros s Hs. apply in_map_iff in Hs. destruct Hs as (v & <- & _). destruct (is_ok v) eqn:E; [discriminate|].
    destruct v; cbn in E; discriminate.
Qed.

Lemma apply_all_valid objs : forall cs m applied i m',
  valid objs m -> (forall c, In c cs -> check_update objs c = None) ->
  NoDup (map c_ref cs) -> (forall c, In c cs -> cur m (c_ref c) = c_old c) ->
  apply_all m cs applied i = (m', None) -> valid objs m'.
Proof.
  induction cs as [|c cs IH]; intros m applied i m' Hv Hc Hnd Hcur H; cbn [apply_all] in H; [inversion H; subst; exact Hv|].
  inversion Hnd as [|? ? Hnin Hnd']; subst.
  destruct (apply_update m c) as [m1 s] eqn:E. pose proof E as E'. apply apply_update_spec in E.
  destruct E as [(-> & A & B & C)|(_ & _ & Hne)]; [|exfalso; apply Hne; apply Hcur; left; reflexivity].
  cbn [is_ok] in H. eapply IH; [| | exact Hnd' | | exact H].
  - eapply apply_update_valid; [exact Hv|apply Hc; left; reflexivity|exact E'].
  - intros c' Hin. apply Hc. right. exact Hin.
  - intros c' Hin. unfold cur. rewrite C; [apply Hcur; right; exact Hin|].
    destruct (bytes_beq (c_ref c') (c_ref c)) eqn:Eq; [|reflexivity]. apply bytes_beq_spec in Eq.
    exfalso. apply Hnin. rewrite <- Eq. apply in_map. exact Hin.
Qed.

Lemma refs_stay_valid_lemma atomic objs m cs m' ss :
  NoDup (map c_ref cs) -> valid objs m -> apply_pack atomic objs m cs = (m', ss) -> valid objs m'.
Proof.
  intros Hnd Hv H. unfold apply_pack in H. destruct atomic; [|eapply run_plain_valid; eauto].
  unfold run_atomic in H. destruct (forallb is_ok (map (validate objs m) cs)) eqn:Ev; [|inversion H; subst; exact Hv].
  rewrite forallb_forall in Ev.
  assert (Hall : forall c, In c cs -> check_update objs c = None /\ cur m (c_ref c) = c_old c).
  { intros c Hc. apply validate_ok. specialize (Ev (validate objs m c) (in_map _ _ _ Hc)). destruct (validate objs m c); try discriminate. reflexivity. }
  destruct (apply_all_nodup cs m [] 0%nat Hnd (fun c Hc => proj2 (Hall c Hc))) as (m2 & R & _ & _).
  rewrite R in H. inversion H; subst.
  eapply apply_all_valid; [exact Hv| |exact Hnd| |exact R]; intros c Hc; apply Hall; exact Hc.
Qed.

Example ex_receive :
  let a := repeat 97 40 in let b := repeat 98 40 in let c := repeat 99 40 in
  let m := [([1], a); ([2], a)] in
  let cs := [{| c_old := a; c_new := b; c_ref := [1] |}; {| c_old := b; c_new := c; c_ref := [2] |}] in
  snd (apply_pack false [a; b; c] m cs) = [SOk; SStale] /\
  fst (apply_pack false [a; b; c] m cs) = [([1], b); ([2], a)] /\
  apply_pack true [a; b; c] m cs = (m, [SAtomicFailed; SStale]) /\
  snd (apply_pack false [a; b] m [{| c_old := a; c_new := c; c_ref := [1] |}]) = [SMissing].
Proof. vm_compute. repeat split; reflexivity. Qed.
