(* Proofs/RefCasP.v — compare-and-swap under the ref lock; commits are never lost *)
From DV Require Import RefCas.

Lemma upd_same f i a : upd f i a i = a.
Proof. unfold upd. rewrite Nat.eqb_refl. reflexivity. Qed.

Ltac upd_cases j i :=
  unfold upd; destruct (Nat.eqb_spec j i) as [->|?]; cbn [a_pc a_kind a_tip set_pc].

Definition after_read (p : pc) : bool := match p with PReadTip => false | _ => true end.

Fixpoint linked (par : list (nat * option nat)) (h : list (option nat)) : Prop :=
  match h with
  | [] => True
  | a :: r => (match a, r with Some c, v :: _ => In (c, v) par | _, _ => True end) /\ linked par r
  end.

Definition commit_or_read (k : kind) : Prop := match k with KCommit _ | KRead => True | _ => False end.

Record Inv (s : state) : Prop := {
  I_lock : forall i, holds_lock (a_pc (acts s i)) = true -> lock s = Some i;
  I_own : forall i, lock s = Some i -> holds_lock (a_pc (acts s i)) = true;
  I_cond : forall i, a_pc (acts s i) = PWrite -> cond (acts s i) (ref s) = true;
  I_ref : ref s = hd None (hist s) /\ hist s <> [];
  I_par : forall i c, a_kind (acts s i) = KCommit c -> after_read (a_pc (acts s i)) = true -> In (c, a_tip (acts s i)) (parent s);
  I_done : forall i c, a_kind (acts s i) = KCommit c -> a_pc (acts s i) = PDone RTrue -> In (Some c) (hist s);
  I_unl : forall i, a_pc (acts s i) = PUnlock RTrue -> is_del (acts s i) = true
}.

Lemma init_inv r0 l : Inv (init r0 l).
Proof.
  assert (P : forall i, a_pc (nth i (map mk l) idle) = PReadTip \/ nth i (map mk l) idle = idle).
  { intros i. destruct (Nat.lt_ge_cases i (length (map mk l))) as [H|H].
    - left. rewrite map_length in H. rewrite (nth_indep _ idle (mk KRead)) by (rewrite map_length; exact H).
      rewrite map_nth. reflexivity.
    - right. apply nth_overflow. exact H. }
  constructor; cbn [init ref lock acts hist parent].
  - intros i H. destruct (P i) as [A|A]; rewrite A in H; discriminate.
  - discriminate.
  - intros i H. destruct (P i) as [A|A]; rewrite A in H; discriminate.
  - split; [reflexivity|discriminate].
  - intros i c K H. destruct (P i) as [A|A]; rewrite A in *; cbn in *; discriminate.
  - intros i c K H. destruct (P i) as [A|A]; rewrite A in *; cbn in *; discriminate.
  - intros i H. destruct (P i) as [A|A]; rewrite A in *; cbn in *; discriminate.
Qed.

Lemma onat_eqb_eq a b : onat_eqb a b = true -> a = b.
Proof. destruct a, b; cbn; intros H; try discriminate; try reflexivity. apply Nat.eqb_eq in H. subst. reflexivity. Qed.

Lemma with_pc_inv s i p : Inv s ->
  ((a_pc (acts s i) = PReadTip /\ forall c, a_kind (acts s i) <> KCommit c) \/ a_pc (acts s i) = PReadAdd) ->
  (p = PLock \/ p = PDone RFalse) -> Inv (with_pc s i p).
Proof.
  intros [L O C R P D U] E Hp.
  assert (NH : holds_lock (a_pc (acts s i)) = false) by (destruct E as [[E _]|E]; rewrite E; reflexivity).
  constructor; cbn [with_pc ref lock acts hist parent].
  - intros j; upd_cases j i; intros X; [destruct Hp; subst; discriminate|auto].
  - intros j X; upd_cases j i; [specialize (O _ X); congruence|auto].
  - intros j; upd_cases j i; intros X; [destruct Hp; subst; discriminate|auto].
  - exact R.
  - intros j c; upd_cases j i; intros X Y; [|eauto].
    destruct E as [[E NK]|E]; [exfalso; eapply NK; eauto|]. apply P; [exact X|rewrite E; reflexivity].
  - intros j c; upd_cases j i; intros X Y; [destruct Hp; subst; discriminate|eauto].
  - intros j; upd_cases j i; intros X; [destruct Hp; subst; discriminate|auto].
Qed.

Lemma step_inv s i : Inv s -> Inv (step s i).
Proof.
  intros I. unfold step. destruct (a_pc (acts s i)) eqn:E.
  - (* PReadTip *)
    destruct (a_kind (acts s i)) eqn:K.
    + apply with_pc_inv; auto. left. split; [exact E|intros c; rewrite K; discriminate].
    + destruct (ref s); apply with_pc_inv; auto; left; (split; [exact E|intros c; rewrite K; discriminate]).
    + apply with_pc_inv; auto. left. split; [exact E|intros c; rewrite K; discriminate].
    + apply with_pc_inv; auto. left. split; [exact E|intros c; rewrite K; discriminate].
    + destruct I as [L O C R P D U]. rewrite <- K.
      set (p0 := match ref s with None => PReadAdd | Some _ => PLock end).
      assert (F0 : holds_lock p0 = false /\ p0 <> PWrite /\ p0 <> PDone RTrue /\ p0 <> PUnlock RTrue)
        by (unfold p0; destruct (ref s); repeat split; discriminate).
      destruct F0 as (F1 & F2 & F3 & F4).
      constructor; cbn [ref lock acts hist parent].
      * intros j; upd_cases j i; intros X; [congruence|auto].
      * intros j X; upd_cases j i; [specialize (O _ X); rewrite E in O; discriminate|auto].
      * intros j; upd_cases j i; intros X; [contradiction|auto].
      * exact R.
      * intros j c0; upd_cases j i; intros X Y; [rewrite K in X; inversion X; subst; left; reflexivity|right; eauto].
      * intros j c0; upd_cases j i; intros X Y; [contradiction|eauto].
      * intros j; upd_cases j i; intros X; [contradiction|auto].
    + destruct I as [L O C R P D U].
      constructor; cbn [ref lock acts hist parent].
      * intros j; upd_cases j i; intros X; [discriminate|auto].
      * intros j X; upd_cases j i; [specialize (O _ X); rewrite E in O; discriminate|auto].
      * intros j; upd_cases j i; intros X; [discriminate|auto].
      * exact R.
      * intros j c0; upd_cases j i; intros X Y; [congruence|eauto].
      * intros j c0; upd_cases j i; intros X Y; [discriminate|eauto].
      * intros j; upd_cases j i; intros X; [discriminate|auto].
  - (* PReadAdd *)
    destruct (ref s); apply with_pc_inv; auto.
  - (* PLock *)
    destruct I as [L O C R P D U]. destruct (lock s) as [h|] eqn:LK.
    + constructor; cbn [with_pc ref lock acts hist parent].
      * intros j; upd_cases j i; intros X; [discriminate|rewrite LK; auto].
      * intros j X; rewrite LK in X; upd_cases j i; [specialize (O _ X); rewrite E in O; discriminate|auto].
      * intros j; upd_cases j i; intros X; [discriminate|auto].
      * exact R.
      * intros j c; upd_cases j i; intros X Y; [apply P; [exact X|rewrite E; reflexivity]|eauto].
      * intros j c; upd_cases j i; intros X Y; [discriminate|eauto].
      * intros j; upd_cases j i; intros X; [discriminate|auto].
    + constructor; cbn [ref lock acts hist parent].
      * intros j; upd_cases j i; intros X; [reflexivity|]. specialize (L _ X). congruence.
      * intros j X; inversion X; subst. rewrite upd_same. reflexivity.
      * intros j; upd_cases j i; intros X; [discriminate|auto].
      * exact R.
      * intros j c; upd_cases j i; intros X Y; [apply P; [exact X|rewrite E; reflexivity]|eauto].
      * intros j c; upd_cases j i; intros X Y; [discriminate|eauto].
      * intros j; upd_cases j i; intros X; [discriminate|auto].
  - (* PCheck *)
    destruct (cond (acts s i) (ref s)) eqn:CD; destruct I as [L O C R P D U];
      constructor; cbn [with_pc ref lock acts hist parent].
    + intros j; upd_cases j i; intros X; [apply L; rewrite E; reflexivity|auto].
    + intros j X; upd_cases j i; [reflexivity|auto].
    + intros j; upd_cases j i; intros X; [|auto]. unfold cond in *. cbn [a_kind set_pc a_tip]. exact CD.
    + exact R.
    + intros j c; upd_cases j i; intros X Y; [apply P; [exact X|rewrite E; reflexivity]|eauto].
    + intros j c; upd_cases j i; intros X Y; [discriminate|eauto].
    + intros j; upd_cases j i; intros X; [discriminate|auto].
    + intros j; upd_cases j i; intros X; [apply L; rewrite E; reflexivity|auto].
    + intros j X; upd_cases j i; [reflexivity|auto].
    + intros j; upd_cases j i; intros X; [discriminate|auto].
    + exact R.
    + intros j c; upd_cases j i; intros X Y; [apply P; [exact X|rewrite E; reflexivity]|eauto].
    + intros j c; upd_cases j i; intros X Y; [discriminate|eauto].
    + intros j; upd_cases j i; intros X; [discriminate|auto].
  - (* PWrite *)
    pose proof (I_lock _ I i) as Li. rewrite E in Li. specialize (Li eq_refl).
    destruct I as [L O C R P D U].
    assert (NW : forall j, j <> i -> holds_lock (a_pc (acts s j)) = false).
    { intros j N. destruct (holds_lock (a_pc (acts s j))) eqn:X; [|reflexivity]. specialize (L _ X). congruence. }
    destruct (is_del (acts s i)) eqn:DL; constructor; cbn [ref lock acts hist parent].
    + intros j; upd_cases j i; intros X; [exact Li|auto].
    + intros j X; upd_cases j i; [reflexivity|auto].
    + intros j; upd_cases j i; intros X; [discriminate|]. specialize (NW j n). rewrite X in NW. discriminate.
    + split; [reflexivity|discriminate].
    + intros j c; upd_cases j i; intros X Y; [apply P; [exact X|rewrite E; reflexivity]|eauto].
    + intros j c; upd_cases j i; intros X Y; [discriminate|right; eauto].
    + intros j; upd_cases j i; intros X; [exact DL|auto].
    + intros j; upd_cases j i; intros X; [discriminate|]. specialize (NW j n). rewrite X in NW. discriminate.
    + discriminate.
    + intros j; upd_cases j i; intros X; [discriminate|]. specialize (NW j n). rewrite X in NW. discriminate.
    + split; [reflexivity|discriminate].
    + intros j c; upd_cases j i; intros X Y; [apply P; [exact X|rewrite E; reflexivity]|eauto].
    + intros j c; upd_cases j i; intros X Y; [left; unfold newval; rewrite X; reflexivity|right; eauto].
    + intros j; upd_cases j i; intros X; [discriminate|auto].
  - (* PUnlock *)
    pose proof (I_lock _ I i) as Li. rewrite E in Li. specialize (Li eq_refl).
    destruct I as [L O C R P D U].
    assert (NW : forall j, j <> i -> holds_lock (a_pc (acts s j)) = false).
    { intros j N. destruct (holds_lock (a_pc (acts s j))) eqn:X; [|reflexivity]. specialize (L _ X). congruence. }
    constructor; cbn [ref lock acts hist parent].
    + intros j; upd_cases j i; intros X; [discriminate|]. specialize (NW j n). congruence.
    + discriminate.
    + intros j; upd_cases j i; intros X; [discriminate|auto].
    + exact R.
    + intros j c; upd_cases j i; intros X Y; [apply P; [exact X|rewrite E; reflexivity]|eauto].
    + intros j c; upd_cases j i; intros X Y; [|eauto].
      inversion Y; subst. specialize (U _ E). unfold is_del in U. rewrite X in U. discriminate.
    + intros j; upd_cases j i; intros X; [discriminate|auto].
  - exact I.
Qed.

Lemma run_inv sched : forall s, Inv s -> Inv (run s sched).
Proof. unfold run. induction sched as [|x r IH]; intros s I; [exact I|]. cbn [fold_left]. apply IH. apply step_inv. exact I. Qed.

(* the ref changes only in the write of an actor that holds the lock and whose
   condition holds of the value being replaced *)
Lemma write_is_atomic s i : Inv s ->
  ref (step s i) <> ref s \/ hist (step s i) <> hist s ->
  a_pc (acts s i) = PWrite /\ lock s = Some i /\ cond (acts s i) (ref s) = true.
Proof.
  intros I. unfold step. destruct (a_pc (acts s i)) eqn:E.
  - destruct (a_kind (acts s i)); [|destruct (ref s) eqn:RS| | | |]; cbn; intros [X|X]; try contradiction; exfalso; apply X; congruence.
  - destruct (ref s) eqn:RS; cbn; intros [X|X]; try contradiction; exfalso; apply X; congruence.
  - destruct (lock s); cbn; intros [X|X]; contradiction.
  - destruct (cond (acts s i) (ref s)); cbn; intros [X|X]; contradiction.
  - intros _. split; [reflexivity|]. split; [apply (I_lock _ I); rewrite E; reflexivity|apply (I_cond _ I); exact E].
  - cbn; intros [X|X]; contradiction.
  - intros [X|X]; contradiction.
Qed.

Lemma mutex_lemma s i j : Inv s -> holds_lock (a_pc (acts s i)) = true -> holds_lock (a_pc (acts s j)) = true -> i = j.
Proof. intros I A B. pose proof (I_lock _ I _ A). pose proof (I_lock _ I _ B). congruence. Qed.

(* ---------- commits ---------- *)
Lemma linked_weaken par x h : linked par h -> linked (x :: par) h.
Proof.
  induction h as [|a r IH]; [trivial|]. cbn [linked]. intros [A B]. split; [|auto].
  destruct a; [|exact I]. destruct r; [exact I|]. right. exact A.
Qed.

Definition Inv2 (s : state) : Prop :=
  (forall i, commit_or_read (a_kind (acts s i))) /\ linked (parent s) (hist s).

Lemma step_inv2 s i : Inv s -> Inv2 s -> Inv2 (step s i).
Proof.
  intros I [K LK]. unfold step. destruct (a_pc (acts s i)) eqn:E.
  - pose proof (K i) as Ki. destruct (a_kind (acts s i)) eqn:KK; cbn in Ki; try contradiction.
    + split; cbn [acts hist parent]; [|apply linked_weaken; exact LK].
      intros j. upd_cases j i; [cbn; rewrite ?KK; cbn; trivial|apply K].
    + split; cbn [acts hist parent]; [|exact LK].
      intros j. upd_cases j i; [cbn; rewrite ?KK; cbn; trivial|apply K].
  - destruct (ref s); split; cbn [with_pc acts hist parent]; try exact LK; intros j; upd_cases j i; apply K.
  - destruct (lock s); split; cbn [with_pc acts hist parent]; try exact LK; intros j; upd_cases j i; apply K.
  - destruct (cond (acts s i) (ref s)); split; cbn [with_pc acts hist parent]; try exact LK; intros j; upd_cases j i; apply K.
  - pose proof (K i) as Ki. pose proof (I_cond _ I _ E) as Ci. unfold cond in Ci.
    assert (ND : is_del (acts s i) = false) by (unfold is_del; destruct (a_kind (acts s i)); cbn in Ki; try contradiction; reflexivity).
    rewrite ND. split; cbn [acts hist parent]; [intros j; upd_cases j i; apply K|].
    destruct (a_kind (acts s i)) eqn:KK; cbn in Ki; try contradiction; [|discriminate].
    apply onat_eqb_eq in Ci. unfold newval. rewrite KK.
    destruct (I_ref _ I) as [R1 R2]. destruct (hist s) as [|v r] eqn:H; [contradiction|].
    cbn [linked]. split; [|exact LK]. cbn [hd] in R1.
    pose proof (I_par _ I i c KK) as Pi. rewrite E in Pi. specialize (Pi eq_refl). rewrite <- Ci, R1 in Pi. exact Pi.
  - split; cbn [acts hist parent]; [intros j; upd_cases j i; apply K|exact LK].
  - split; assumption.
Qed.

Lemma run_inv2 sched : forall s, Inv s -> Inv2 s -> Inv s /\ Inv2 (run s sched).
Proof.
  unfold run. induction sched as [|x r IH]; intros s I J; [auto|]. cbn [fold_left].
  destruct (IH (step s x) (step_inv _ _ I) (step_inv2 _ _ I J)) as [_ B]. auto.
Qed.

Lemma init_inv2 r0 l : Forall commit_or_read l -> Inv2 (init r0 l).
Proof.
  intros F. split; cbn [init acts hist parent linked]; [|destruct r0; auto].
  intros i. destruct (Nat.lt_ge_cases i (length l)) as [H|H].
  - rewrite (nth_indep _ idle (mk KRead)) by (rewrite map_length; exact H). rewrite map_nth. cbn.
    rewrite Forall_forall in F. apply F. apply nth_In. exact H.
  - rewrite nth_overflow by (rewrite map_length; exact H). exact I.
Qed.
