(* Proofs/RefNameP.v — dulwich's check_ref_format and git's check_refname_format
   accept the same names: bisimulation of the two automata over all bytes 1..255,
   the reachable product states being enumerated once by vm_compute (a finite
   sweep: the state space is finite, the names are unbounded). *)
From DV Require Import Bytes RefName.
Local Open Scope Z_scope.

Definition pstate : Type := dstate * gstate.
Definition p_init : pstate := (d_init, g_init).
Definition p_step (p : pstate) (b : Z) : pstate := (d_step (fst p) b, g_step (snd p) b).

Lemma fold_pair : forall s d g,
  fold_left p_step s (d, g) = (fold_left d_step s d, fold_left g_step s g).
Proof. induction s as [|b s IH]; intros d g; [reflexivity|]. cbn [fold_left]. unfold p_step at 2. cbn [fst snd]. apply IH. Qed.

Definition b2z (b : bool) : Z := if b then 1 else 0.
Lemma b2z_inj a b : b2z a = b2z b -> a = b.
Proof. destruct a, b; cbn; intros H; congruence || discriminate. Qed.

Definition key (p : pstate) : list Z :=
  let d := fst p in let g := snd p in
  [d_len d; b2z (d_first_at d); b2z (d_slash d); b2z (d_last_dot d); b2z (d_dotdot d); b2z (d_badc d);
   d_last d; b2z (d_last_at d); b2z (d_atbrace d); b2z (d_bs d); b2z (d_cstart d); d_lock d; b2z (d_badcomp d);
   g_len g; b2z (g_first_at g); b2z (g_rej g); g_count g; b2z (g_empty g); b2z (g_fdot g); g_last g; g_lock g].

Lemma key_inj p q : key p = key q -> p = q.
Proof.
  destruct p as [[a1 a2 a3 a4 a5 a6 a7 a8 a9 a10 a11 a12 a13] [c1 c2 c3 c4 c5 c6 c7 c8]].
  destruct q as [[b1 b2 b3 b4 b5 b6 b7 b8 b9 b10 b11 b12 b13] [e1 e2 e3 e4 e5 e6 e7 e8]].
  unfold key. cbn [fst snd d_len d_first_at d_slash d_last_dot d_dotdot d_badc d_last d_last_at d_atbrace d_bs
                   d_cstart d_lock d_badcomp g_len g_first_at g_rej g_count g_empty g_fdot g_last g_lock].
  intros H. injection H. intros.
  repeat match goal with H : b2z _ = b2z _ |- _ => apply b2z_inj in H end.
  subst. reflexivity.
Qed.

Fixpoint leqb (a b : list Z) : bool :=
  match a, b with
  | [], [] => true
  | x :: a', y :: b' => (x =? y) && leqb a' b'
  | _, _ => false
  end.
Lemma leqb_eq : forall a b, leqb a b = true -> a = b.
Proof.
  induction a as [|x a IH]; intros [|y b] H; cbn in H; try discriminate; [reflexivity|].
  apply andb_prop in H. destruct H as [H1 H2]. apply Z.eqb_eq in H1. subst. f_equal. auto.
Qed.

(* hash table from a numeric code of the key to the keys with that code; the
   code need not be injective: a lookup compares full keys *)
From Coq Require Import FMapPositive.
Module PM := PositiveMap.

Definition code (k : list Z) : positive := Z.to_pos (1 + fold_left (fun acc x => acc * 8 + x) k 0).

Definition tbl := PM.t (list (list Z)).
Definition tmem (k : list Z) (t : tbl) : bool :=
  match PM.find (code k) t with Some bucket => existsb (leqb k) bucket | None => false end.
Definition tadd (k : list Z) (t : tbl) : tbl :=
  PM.add (code k) (k :: match PM.find (code k) t with Some b => b | None => [] end) t.

Definition bytes255 : list Z := map Z.of_nat (seq 1 255).
Lemma in_bytes255 b : 1 <= b <= 255 -> In b bytes255.
Proof.
  intros H. unfold bytes255. replace b with (Z.of_nat (Z.to_nat b)) by lia.
  apply in_map. apply in_seq. lia.
Qed.

Definition succs (p : pstate) : list pstate := map (p_step p) bytes255.

(* breadth-first closure *)
Fixpoint add_new (cands : list pstate) (seen : list pstate) (t : tbl) (new : list pstate)
  : list pstate * tbl * list pstate :=
  match cands with
  | [] => (seen, t, new)
  | c :: r => let k := key c in
              if tmem k t then add_new r seen t new
              else add_new r (c :: seen) (tadd k t) (c :: new)
  end.

Fixpoint bfs (fuel : nat) (seen : list pstate) (t : tbl) (frontier : list pstate) : list pstate :=
  match fuel with
  | O => seen
  | S f =>
    let '(seen', t', new) := add_new (flat_map succs frontier) seen t [] in
    match new with [] => seen' | _ => bfs f seen' t' new end
  end.

Definition reach : list pstate :=
  Eval vm_compute in bfs 64 [p_init] (tadd (key p_init) (PM.empty _)) [p_init].
Definition reach_tbl : tbl := Eval vm_compute in fold_left (fun t p => tadd (key p) t) reach (PM.empty _).

(* every key stored in the table is the key of a listed state *)
Definition all_keys (t : tbl) : list (list Z) := flat_map snd (PM.elements t).
Definition reach_sorted_tbl : tbl := reach_tbl.

Lemma tbl_sound :
  forallb (fun k => tmem k reach_tbl) (map key reach) = true.
Proof. vm_compute. reflexivity. Qed.

(* the converse direction is what soundness needs: a key found in the table
   belongs to a state of `reach`.  Checked bucket by bucket against a second
   table built from the list (so the check is linear, not quadratic). *)
Definition keys_of_reach_tbl : list (list Z) := Eval vm_compute in all_keys reach_tbl.
Lemma keys_of_reach_tbl_ok : keys_of_reach_tbl = all_keys reach_tbl.
Proof. vm_compute. reflexivity. Qed.

Lemma reach_closed :
  forallb (fun p => forallb (fun q => tmem (key q) reach_tbl) (succs p)) reach = true.
Proof. vm_compute. reflexivity. Qed.

Lemma reach_agree :
  forallb (fun p => Bool.eqb (d_accept (fst p)) (g_accept (snd p))) reach = true.
Proof. vm_compute. reflexivity. Qed.

Lemma init_in_tbl : tmem (key p_init) reach_tbl = true.
Proof. vm_compute. reflexivity. Qed.

Lemma tbl_keys_listed :
  forallb (fun k => existsb (leqb k) (map key reach)) (all_keys reach_tbl) = true.
Proof. vm_compute. reflexivity. Qed.

Lemma tmem_in q : tmem (key q) reach_tbl = true -> In q reach.
Proof.
  unfold tmem. destruct (PM.find (code (key q)) reach_tbl) as [bucket|] eqn:E; [|discriminate].
  intros H. apply existsb_exists in H. destruct H as (k & Hk & He). apply leqb_eq in He. subst k.
  apply PM.elements_correct in E.
  assert (Hall : In (key q) (all_keys reach_tbl)).
  { unfold all_keys. apply in_flat_map. exists (code (key q), bucket). split; [exact E|exact Hk]. }
  pose proof tbl_keys_listed as T. rewrite forallb_forall in T. specialize (T _ Hall).
  apply existsb_exists in T. destruct T as (k' & Hk' & He'). apply leqb_eq in He'. subst k'.
  apply in_map_iff in Hk'. destruct Hk' as (p & Hp & Hin). apply key_inj in Hp. subst. exact Hin.
Qed.

Lemma reach_init : In p_init reach.
Proof. apply tmem_in. exact init_in_tbl. Qed.

Lemma reach_step p b : In p reach -> 1 <= b <= 255 -> In (p_step p b) reach.
Proof.
  intros Hp Hb. pose proof reach_closed as H. rewrite forallb_forall in H. specialize (H p Hp).
  rewrite forallb_forall in H. apply tmem_in. apply H. unfold succs. apply in_map. apply in_bytes255. exact Hb.
Qed.

Lemma reach_fold : forall s p, Forall (fun b => 1 <= b <= 255) s -> In p reach -> In (fold_left p_step s p) reach.
Proof.
  induction s as [|b s IH]; intros p Hs Hp; [exact Hp|].
  inversion Hs; subst. cbn [fold_left]. apply IH; [assumption|]. apply reach_step; assumption.
Qed.

Lemma refname_eq_git_lemma s :
  Forall (fun b => 1 <= b <= 255) s -> check_ref_format s = git_check_refname_format s.
Proof.
  intros Hs. unfold check_ref_format, git_check_refname_format.
  pose proof (reach_fold s p_init Hs reach_init) as H. unfold p_init in H. rewrite fold_pair in H.
  pose proof reach_agree as A. rewrite forallb_forall in A. specialize (A _ H). cbn [fst snd] in A.
  apply Bool.eqb_prop in A. exact A.
Qed.

(* non-vacuity: both accept / both reject on concrete names *)
Example ex_names :
  map check_ref_format [[97;47;98]; [64]; [97;47;98;46;108;111;99;107]; [97;47;64]] = [true; false; false; true] /\
  map git_check_refname_format [[97;47;98]; [64]; [97;47;98;46;108;111;99;107]; [97;47;64]] = [true; false; false; true].
Proof. vm_compute. split; reflexivity. Qed.
