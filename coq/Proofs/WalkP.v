(* Proofs/WalkP.v — the history walk yields every reachable commit exactly once; the topological reordering never
   puts a parent before one of its children *)
From DV Require Import Walk.

Lemma mem_In x l : mem x l = true <-> In x l.
Proof.
  unfold mem. rewrite existsb_exists. split.
  - intros (y & I & E). apply Nat.eqb_eq in E. subst. exact I.
  - intros I. exists x. split; [exact I|apply Nat.eqb_refl].
Qed.

Lemma remove_nth_spec {T} : forall i (l : list T) c, nth_error l i = Some c ->
  (forall x, In x l <-> x = c \/ In x (remove_nth i l)) /\ (NoDup l -> NoDup (remove_nth i l) /\ ~ In c (remove_nth i l)).
Proof.
  unfold remove_nth. induction i as [|i IH]; intros l c H; destruct l as [|y l]; cbn in H; try discriminate.
  - inversion H; subst. cbn. split; [intros x; split; intros [X|X]; auto|]. intros N. inversion N; subst. auto.
  - destruct (IH l c H) as [P Q]. cbn [firstn skipn app]. split.
    + intros x. cbn [In]. rewrite (P x). tauto.
    + intros N. inversion N as [|? ? Ny Nl]; subst. destruct (Q Nl) as [Q1 Q2]. split.
      * constructor; [|exact Q1]. intros X. apply Ny. apply P. right. exact X.
      * intros [X|X]; [|contradiction]. subst. apply Ny. eapply nth_error_In. exact H.
Qed.

Lemma NoDup_app_parts {T} (a b : list T) : NoDup (a ++ b) -> NoDup a /\ NoDup b /\ forall x, In x a -> ~ In x b.
Proof.
  induction a as [|x a IH]; cbn; intros N; [repeat split; [constructor|exact N|intros x []]|].
  inversion N as [|? ? Nx Na]; subst. destruct (IH Na) as (P & Q & D). repeat split; auto.
  - constructor; [|exact P]. intros X. apply Nx. apply in_app_iff. left. exact X.
  - intros y [<- |Y] Z; [apply Nx; apply in_app_iff; right; exact Z|exact (D y Y Z)].
Qed.

Lemma NoDup_app_build {T} (a b : list T) : NoDup a -> NoDup b -> (forall x, In x a -> ~ In x b) -> NoDup (a ++ b).
Proof.
  induction a as [|x a IH]; intros Ha Hb Hd; [exact Hb|]. inversion Ha as [|? ? Hx Ha']; subst.
  cbn. constructor.
  - rewrite in_app_iff. intros [H|H]; [contradiction|]. eapply Hd; [left; reflexivity|exact H].
  - apply IH; auto. intros y Hy. apply Hd. right. exact Hy.
Qed.

Section W.
  Variable parents : nat -> list nat.
  Variable pick : list nat -> nat.
  Variable include : list nat.

  Record WInv (s : wst) : Prop := {
    W_out : out s = done s;
    W_nodup : NoDup (pq s ++ done s);
    W_reach : forall c, In c (pq s ++ done s) -> reach parents include c
  }.
  Definition WClosed (s : wst) : Prop := forall c, In c (done s) -> forall p, In p (parents c) -> In p (pq s ++ done s).

  Lemma push_inv s c : WInv s -> reach parents include c -> WInv (push s c).
  Proof.
    intros [O N R] Hc. unfold push. destruct (mem c (pq s) || mem c (done s)) eqn:M; [constructor; assumption|].
    apply orb_false_elim in M. destruct M as [M1 M2].
    assert (N1 : ~ In c (pq s)) by (intros X; apply mem_In in X; congruence).
    assert (N2 : ~ In c (done s)) by (intros X; apply mem_In in X; congruence).
    constructor; cbn [pq done out app].
    - exact O.
    - constructor; [|exact N]. rewrite in_app_iff. tauto.
    - intros x [<- |X]; [exact Hc|apply R; exact X].
  Qed.

  Lemma push_grows s c x : In x (pq s ++ done s) \/ x = c -> In x (pq (push s c) ++ done (push s c)).
  Proof.
    intros H. unfold push. destruct (mem c (pq s) || mem c (done s)) eqn:M.
    - destruct H as [H| ->]; [exact H|]. apply orb_prop in M. rewrite in_app_iff. destruct M as [M|M]; apply mem_In in M; tauto.
    - cbn [pq done app]. destruct H as [H| ->]; [right; exact H|left; reflexivity].
  Qed.

  Lemma push_done s c : done (push s c) = done s.
  Proof. unfold push. destruct (mem c (pq s) || mem c (done s)); reflexivity. Qed.

  Lemma pushes_inv : forall l s, WInv s -> (forall c, In c l -> reach parents include c) ->
    WInv (fold_left push l s) /\ done (fold_left push l s) = done s /\
    (forall x, In x (pq s ++ done s) \/ In x l -> In x (pq (fold_left push l s) ++ done (fold_left push l s))).
  Proof.
    induction l as [|c r IH]; intros s I H; cbn [fold_left].
    - split; [exact I|]. split; [reflexivity|]. intros x [X|[]]. exact X.
    - destruct (IH (push s c)) as (I' & D & G).
      + apply push_inv; [exact I|apply H; left; reflexivity].
      + intros x Hx. apply H. right. exact Hx.
      + split; [exact I'|]. split; [rewrite D; apply push_done|].
        intros x [X|[<- |X]]; apply G; [left; apply push_grows; left; exact X|left; apply push_grows; right; reflexivity|right; exact X].
  Qed.

  Lemma wstep_inv s : WInv s -> WClosed s -> pq s <> [] ->
    WInv (wstep parents pick s) /\ WClosed (wstep parents pick s) /\ length (done (wstep parents pick s)) = S (length (done s)) /\
    (forall x, In x (pq s ++ done s) -> In x (pq (wstep parents pick s) ++ done (wstep parents pick s))).
  Proof.
    intros I CL NE. unfold wstep.
    assert (L : pick (pq s) mod length (pq s) < length (pq s)) by (apply Nat.mod_upper_bound; destruct (pq s); [contradiction|discriminate]).
    destruct (nth_error (pq s) (pick (pq s) mod length (pq s))) as [c|] eqn:E; [|apply nth_error_None in E; lia].
    set (i := pick (pq s) mod length (pq s)) in *.
    destruct I as [O N R]. destruct (remove_nth_spec i (pq s) c E) as [S1 S2].
    destruct (NoDup_app_parts _ _ N) as (Npq & Ndone & Disj).
    destruct (S2 Npq) as [S3 S4].
    assert (Cpq : In c (pq s)) by (apply S1; left; reflexivity).
    assert (Cd : ~ In c (done s)) by (apply Disj; exact Cpq).
    set (s1 := {| pq := remove_nth i (pq s); done := c :: done s; out := c :: out s |}).
    assert (Eq1 : forall x, In x (pq s1 ++ done s1) <-> In x (pq s ++ done s)).
    { intros x. cbn [pq done s1]. rewrite !in_app_iff. cbn [In]. rewrite (S1 x). split; intros H; intuition (subst; auto). }
    assert (I1 : WInv s1).
    { constructor; cbn [pq done out s1].
      - rewrite O. reflexivity.
      - apply NoDup_app_build; [exact S3|constructor; assumption|].
        intros x X [<- |Y]; [contradiction|]. apply (Disj x); [apply S1; right; exact X|exact Y].
      - intros x X. apply R. apply Eq1. exact X. }
    destruct (pushes_inv (parents c) s1 I1) as (I2 & D2 & G2).
    { intros p Hp. eapply w_step; [apply R; apply in_app_iff; left; exact Cpq|exact Hp]. }
    split; [exact I2|]. split; [|split].
    - intros x X p Hp. rewrite D2 in X. cbn [done s1] in X. apply G2. destruct X as [<- |X]; [right; exact Hp|].
      left. apply Eq1. apply CL with (c := x); assumption.
    - rewrite D2. reflexivity.
    - intros x X. apply G2. left. apply Eq1. exact X.
  Qed.

  Lemma winit_inv : WInv (winit include) /\ WClosed (winit include) /\ forall c, In c include -> In c (pq (winit include) ++ done (winit include)).
  Proof.
    unfold winit. set (s0 := {| pq := []; done := []; out := [] |}).
    assert (I0 : WInv s0) by (constructor; cbn; [reflexivity|constructor|intros c []]).
    destruct (pushes_inv include s0 I0) as (I & D & G); [intros c Hc; apply w_root; exact Hc|].
    split; [exact I|]. split; [|intros c Hc; apply G; right; exact Hc].
    intros c X. rewrite D in X. destruct X.
  Qed.

  Lemma wrun_spec : forall fuel s s', WInv s -> WClosed s -> wrun parents pick fuel s = Some s' ->
    WInv s' /\ WClosed s' /\ pq s' = [] /\ forall x, In x (pq s ++ done s) -> In x (done s').
  Proof.
    induction fuel as [|f IH]; intros s s' I C H; cbn [wrun] in H; destruct (pq s) as [|x r] eqn:P; try discriminate.
    - inversion H; subst. split; [exact I|split; [exact C|split; [exact P|]]]. intros y Y. exact Y.
    - inversion H; subst. split; [exact I|split; [exact C|split; [exact P|]]]. intros y Y. exact Y.
    - destruct (wstep_inv s I C) as (I1 & C1 & _ & G1); [rewrite P; discriminate|].
      destruct (IH _ _ I1 C1 H) as (I2 & C2 & P2 & G2). split; [exact I2|split; [exact C2|split; [exact P2|]]]. intros y Y. apply G2. apply G1. rewrite P. exact Y.
  Qed.

  Lemma walk_exact_lemma fuel l : walk parents pick fuel include = Some l ->
    NoDup l /\ forall c, In c l <-> reach parents include c.
  Proof.
    unfold walk. destruct (wrun parents pick fuel (winit include)) as [s|] eqn:R; [|discriminate]. intros H. inversion H; subst l.
    destruct winit_inv as (I0 & C0 & G0). destruct (wrun_spec _ _ _ I0 C0 R) as (I & C & P & G).
    destruct I as [O N Rc]. rewrite P in N, Rc. cbn [app] in N, Rc. rewrite O. split.
    - apply NoDup_rev. exact N.
    - intros c. rewrite <- in_rev. split; [apply Rc|].
      intros H'. induction H' as [c Hc|c p _ IH Hp].
      + apply G. apply G0. exact Hc.
      + specialize (C c IH p Hp). rewrite P in C. exact C.
  Qed.
End W.
