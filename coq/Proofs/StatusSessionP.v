From DV Require Import Status StatusP StatusSession.

(* the stat-cache discipline as an invariant of the session: an index entry whose
   recorded signature equals what lstat gives now describes the content that is there *)
Definition Faithful (s : st) : Prop :=
  forall p x y, ix s p = Some x -> wt s p = Some y -> sig_faithful x y.

(* what the invariant asks of an operation ("no racy writes"): a write that leaves
   the signature recorded in the index unchanged left the content unchanged, and
   the synthetic signature unstage records is not the one the file has unless the
   file holds HEAD's content *)
Definition ok_op (s : st) (o : op) : Prop :=
  match o with
  | OWrite p e sg => forall x, ix s p = Some x -> sg = i_sig x -> e_id e = e_id (i_entry x)
  | OUnstage p sg => forall e y, hd s p = Some e -> wt s p = Some y -> w_isdir y = false -> w_sig y = sg ->
                                 e_id (w_entry y) = e_id e
  | _ => True
  end.

Fixpoint ok_run (fm : bool) (s : st) (ops : list op) : Prop :=
  match ops with
  | [] => True
  | o :: r => ok_op s o /\ ok_run fm (step fm s o) r
  end.

Lemma upd_same {A} (f : path -> option A) p v : upd f p v p = v.
Proof. unfold upd. rewrite Nat.eqb_refl. reflexivity. Qed.

Lemma upd_other {A} (f : path -> option A) p v q : q <> p -> upd f p v q = f q.
Proof. intros H. unfold upd. destruct (Nat.eqb_spec q p); [contradiction|reflexivity]. Qed.

Lemma faithful_stage1 i w hd0 p :
  Faithful {| hd := hd0; ix := i; wt := w |} -> Faithful {| hd := hd0; ix := stage1 i w p; wt := w |}.
Proof.
  intros F q x y Hx Hy. cbn [ix wt] in *. unfold stage1 in Hx.
  destruct (Nat.eq_dec q p) as [->|Hne].
  - destruct (w p) as [z|] eqn:Ew.
    + destruct (w_isdir z) eqn:Ed.
      * rewrite upd_same in Hx. discriminate.
      * rewrite upd_same in Hx. inversion Hx; subst. inversion Hy; subst. intros _ _. reflexivity.
    + rewrite upd_same in Hx. discriminate.
  - assert (Hx' : i q = Some x).
    { destruct (w p) as [z|]; [destruct (w_isdir z)|]; rewrite upd_other in Hx by exact Hne; exact Hx. }
    exact (F q x y Hx' Hy).
Qed.

Lemma faithful_stage_all fm w hd0 : forall ps i,
  Faithful {| hd := hd0; ix := i; wt := w |} ->
  Faithful {| hd := hd0; ix := fold_left (stage_dirty fm w) ps i; wt := w |}.
Proof.
  induction ps as [|p ps IH]; intros i F; [exact F|].
  cbn [fold_left]. apply IH. unfold stage_dirty. destruct (dirty fm i w p); [apply faithful_stage1|]; exact F.
Qed.

Lemma step_faithful fm s o : Faithful s -> ok_op s o -> Faithful (step fm s o).
Proof.
  intros F Hok. destruct s as [h i w]. destruct o as [p e sg|p|p|p|ps|p|p sg]; cbn [step hd ix wt] in *.
  - intros q x y Hx Hy. cbn [ix wt] in *. destruct (Nat.eq_dec q p) as [->|Hne].
    + rewrite upd_same in Hy. inversion Hy; subst. intros _ Hs. cbn in *. apply Hok; [exact Hx|exact Hs].
    + rewrite upd_other in Hy by exact Hne. exact (F q x y Hx Hy).
  - intros q x y Hx Hy. cbn [ix wt] in *. destruct (Nat.eq_dec q p) as [->|Hne].
    + rewrite upd_same in Hy. inversion Hy; subst. intros Hd. discriminate.
    + rewrite upd_other in Hy by exact Hne. exact (F q x y Hx Hy).
  - intros q x y Hx Hy. cbn [ix wt] in *. destruct (Nat.eq_dec q p) as [->|Hne].
    + rewrite upd_same in Hy. discriminate.
    + rewrite upd_other in Hy by exact Hne. exact (F q x y Hx Hy).
  - apply faithful_stage1. exact F.
  - apply faithful_stage_all. exact F.
  - intros q x y Hx Hy. cbn [ix wt] in *. destruct (Nat.eq_dec q p) as [->|Hne].
    + rewrite upd_same in Hx. discriminate.
    + rewrite upd_other in Hx by exact Hne. exact (F q x y Hx Hy).
  - intros q x y Hx Hy. cbn [ix wt] in *. destruct (Nat.eq_dec q p) as [->|Hne].
    + rewrite upd_same in Hx. destruct (h p) as [e|] eqn:Eh; [|discriminate]. inversion Hx; subst.
      intros Hd Hs. cbn in *. exact (Hok e y Eh Hy Hd Hs).
    + rewrite upd_other in Hx by exact Hne. exact (F q x y Hx Hy).
Qed.

Lemma run_faithful fm : forall ops s, Faithful s -> ok_run fm s ops -> Faithful (run fm s ops).
Proof.
  induction ops as [|o ops IH]; intros s F H; [exact F|].
  destruct H as [H1 H2]. unfold run. cbn [fold_left]. apply IH; [apply step_faithful; assumption|exact H2].
Qed.

Lemma checkout_faithful t sigs : Faithful (after_checkout t sigs).
Proof.
  intros p x y Hx Hy. unfold after_checkout, checkout in *. cbn in *.
  destruct (t p) as [e|]; [|discriminate]. inversion Hx; subst. inversion Hy; subst. intros _ _. reflexivity.
Qed.

(* ---------- the staged listing is exact in every state ---------- *)
Lemma entry_eqb_spec a b : entry_eqb a b = true <-> a = b.
Proof.
  unfold entry_eqb. destruct a as [m1 i1], b as [m2 i2]. cbn. rewrite andb_true_iff, !Z.eqb_eq.
  split; [intros [-> ->]; reflexivity|intros H; inversion H; auto].
Qed.

Lemma staged_exact s p : staged s p = true <-> hd s p <> index_tree (ix s) p.
Proof.
  unfold staged, staged_add, staged_delete, staged_modify, index_tree.
  destruct (hd s p) as [a|], (ix s p) as [b|]; cbn.
  - destruct (entry_eqb a (i_entry b)) eqn:E; cbn.
    + apply entry_eqb_spec in E. subst. split; [discriminate|intros H; exfalso; apply H; reflexivity].
    + split; [intros _ H; inversion H; subst|reflexivity].
      assert (entry_eqb (i_entry b) (i_entry b) = true) by (apply entry_eqb_spec; reflexivity). congruence.
  - split; [discriminate|reflexivity].
  - split; [discriminate|reflexivity].
  - split; [discriminate|intros H; exfalso; apply H; reflexivity].
Qed.

(* ---------- status after any session ---------- *)
Lemma status_exact_lemma fm ops s0 :
  Faithful s0 -> ok_run fm s0 ops ->
  let s := run fm s0 ops in
  forall p,
    (staged s p = true <-> hd s p <> index_tree (ix s) p) /\
    st_unstaged fm s p = match ix s p with Some x => differs fm x (wt s p) | None => false end /\
    (st_untracked s p = true <-> ix s p = None /\ exists y, wt s p = Some y /\ w_isdir y = false).
Proof.
  intros F H s p. pose proof (run_faithful fm ops s0 F H) as Fs. fold s in Fs. split; [apply staged_exact|]. split.
  - unfold st_unstaged, unstaged. destruct (ix s p) as [x|] eqn:Ex; [|reflexivity].
    apply check_entry_exact. intros y Hy. exact (Fs p x y Ex Hy).
  - unfold st_untracked, untracked. destruct (ix s p) as [x|], (wt s p) as [y|]; split; try discriminate.
    + intros [E _]; discriminate.
    + intros [E _]; discriminate.
    + intros Hn. split; [reflexivity|]. exists y. split; [reflexivity|]. destruct (w_isdir y); [discriminate|reflexivity].
    + intros [_ (y' & E & D)]. inversion E; subst. rewrite D. reflexivity.
    + intros [_ (y' & E & _)]. discriminate.
Qed.

(* staging a path makes it clean *)
Lemma stage_cleans fm s p :
  let s' := step fm s (OStage p) in st_unstaged fm s' p = false /\ st_untracked s' p = false.
Proof.
  destruct s as [h i w]. cbn [step]. unfold st_unstaged, st_untracked, unstaged, untracked, stage1. cbn [ix wt hd].
  destruct (w p) as [x|] eqn:Ew.
  - destruct (w_isdir x) eqn:Ed.
    + rewrite upd_same. cbn. auto.
    + rewrite upd_same. unfold check_entry. rewrite ?Ed. cbn. rewrite !Z.eqb_refl. cbn. rewrite andb_false_r. auto.
  - rewrite upd_same. auto.
Qed.

(* a concrete session: modify, stage, modify again, unstage *)
Example ex_session :
  let t : tree := fun p => match p with O => Some {| e_mode := 33188; e_id := 1 |} | _ => None end in
  let s0 := after_checkout t (fun _ => 7) in
  let ops := [OWrite 0%nat {| e_mode := 33188; e_id := 2 |} 8; OStage 0%nat; OWrite 1%nat {| e_mode := 33188; e_id := 5 |} 9; OUnstage 0%nat 3] in
  ok_run true s0 ops /\
  let s := run true s0 ops in
  staged s 0%nat = false /\ st_unstaged true s 0%nat = true /\ st_untracked s 1%nat = true /\ st_untracked s 0%nat = false.
Proof.
  cbn. repeat split; try reflexivity; intros; try discriminate.
  - inversion H; subst. cbn in *. discriminate.
  - inversion H; subst. inversion H0; subst. cbn in *. discriminate.
Qed.
