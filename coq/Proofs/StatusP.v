From DV Require Import Status.

(* the stat-cache hypothesis ("racy git"): an unchanged stat signature means unchanged content
   (the mode is part of what lstat returns and is compared directly) *)
Definition sig_faithful (i : ientry) (x : wentry) : Prop :=
  w_isdir x = false -> w_sig x = i_sig i -> e_id (w_entry x) = e_id (i_entry i).

Lemma check_entry_exact fm i w :
  (forall x, w = Some x -> sig_faithful i x) ->
  check_entry fm i w = differs fm i w.
Proof.
  intros H. destruct w as [x|]; [|reflexivity]. pose proof (H x eq_refl) as F. unfold check_entry, differs.
  destruct (w_isdir x) eqn:D; [reflexivity|]. cbn [orb].
  destruct (w_sig x =? i_sig i) eqn:E; [|reflexivity]. apply Z.eqb_eq in E. rewrite (F D E), Z.eqb_refl. reflexivity.
Qed.

Lemma clean_after_checkout_lemma fm t sigs p :
  let '(i, w) := checkout t sigs in
  staged_add t i p = false /\ staged_delete t i p = false /\ staged_modify t i p = false /\
  unstaged fm i w p = false /\ untracked i w p = false.
Proof.
  unfold checkout, staged_add, staged_delete, staged_modify, unstaged, untracked, check_entry, entry_eqb.
  destruct (t p) as [e|]; cbn; [|auto]. rewrite !Z.eqb_refl. cbn. rewrite andb_false_r. auto.
Qed.

Lemma restage_same_tree t sigs p : index_tree (add_all (snd (checkout t sigs))) p = t p.
Proof. unfold index_tree, add_all, checkout. cbn. destruct (t p); reflexivity. Qed.
