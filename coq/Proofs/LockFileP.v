(* Proofs/LockFileP.v — mutual exclusion, no foreign unlock, whole-file replacement *)
From DV Require Import LockFile.

Definition flushed (p : pc) : bool := match p with PFsync | PCloseFd | PReplace => true | _ => false end.

Record Inv (t0 : option Z) (s : state) : Prop := {
  I_crit : forall i, critical (a_pc (acts s i)) = true -> exists c, lockf s = Some (i, c);
  I_own : forall i c, lockf s = Some (i, c) -> critical (a_pc (acts s i)) = true;
  I_flushed : forall i, flushed (a_pc (acts s i)) = true -> lockf s = Some (i, Some (a_data (acts s i)));
  I_target : target s = hd None (history s) /\ history s <> [];
  I_hist : forall v, In v (history s) -> v = t0 \/ exists j, a_pc (acts s j) = PDone Committed /\ v = Some (a_data (acts s j));
  I_seen : forall i v, In v (a_seen (acts s i)) -> In v (history s)
}.

Lemma upd_same f i a : upd f i a i = a.
Proof. unfold upd. rewrite Nat.eqb_refl. reflexivity. Qed.

Definition fresh (a : actor) : Prop := a_seen a = [] /\ (a_pc a = POpen \/ a_pc a = PRead).

Lemma init_inv t0 l : Forall fresh l -> Inv t0 (init t0 l).
Proof.
  intros F.
  assert (P : forall i, a_seen (nth i l idle) = [] /\ critical (a_pc (nth i l idle)) = false /\ flushed (a_pc (nth i l idle)) = false).
  { intros i. destruct (Nat.lt_ge_cases i (length l)) as [H|H].
    - rewrite Forall_forall in F. destruct (F (nth i l idle) (nth_In _ _ H)) as [A [B|B]]; rewrite B; auto.
    - rewrite (nth_overflow _ _ H). auto. }
  constructor; cbn [init target lockf acts history].
  - intros i H. destruct (P i) as (_ & A & _). congruence.
  - intros i c H. discriminate.
  - intros i H. destruct (P i) as (_ & _ & A). congruence.
  - split; [reflexivity|discriminate].
  - intros v [<-|[]]. left. reflexivity.
  - intros i v H. destruct (P i) as (A & _). rewrite A in H. contradiction.
Qed.

Ltac upd_cases j i :=
  unfold upd; destruct (Nat.eqb_spec j i) as [->|?]; cbn [a_pc a_data a_seen a_aborts set_pc].

(* a step that only moves actor i's program counter *)
Lemma with_pc_inv t0 s i p :
  Inv t0 s ->
  a_pc (acts s i) <> PDone Committed ->
  critical p = critical (a_pc (acts s i)) ->
  (flushed p = true -> flushed (a_pc (acts s i)) = true) ->
  Inv t0 (with_pc s i p).
Proof.
  intros [C O F T H S] Hnd Hc Hf. constructor; cbn [with_pc target lockf acts history].
  - intros j. upd_cases j i; intros X; [rewrite Hc in X|]; auto.
  - intros j c X. upd_cases j i; [rewrite Hc|]; eauto.
  - intros j. upd_cases j i; intros X; auto.
  - exact T.
  - intros v Hv. destruct (H v Hv) as [A|[j [A B]]]; [left; exact A|right]. exists j.
    upd_cases j i; [contradiction|auto].
  - intros j v. upd_cases j i; apply S.
Qed.

Lemma step_inv t0 s i f : Inv t0 s -> Inv t0 (step s i f).
Proof.
  intros I. unfold step. destruct (a_pc (acts s i)) eqn:E.
  - (* POpen *)
    destruct f; [apply with_pc_inv; rewrite ?E; cbn; auto; discriminate|].
    destruct (lockf s) as [[o c]|] eqn:L; [apply with_pc_inv; rewrite ?E; cbn; auto; discriminate|].
    destruct I as [C O F T H S]. constructor; cbn [target lockf acts history].
    + intros j. upd_cases j i; intros X; [eauto|]. destruct (C j X) as [c Hc]. congruence.
    + intros j c X. inversion X; subst. rewrite upd_same. reflexivity.
    + intros j. upd_cases j i; intros X; [discriminate|]. specialize (F j X). congruence.
    + exact T.
    + intros v Hv. destruct (H v Hv) as [A|[j [A B]]]; [left; exact A|right]. exists j.
      upd_cases j i; [congruence|auto].
    + intros j v. upd_cases j i; apply S.
  - (* PWrite *)
    destruct f; [|destruct (a_aborts (acts s i))]; apply with_pc_inv; rewrite ?E; cbn; auto; discriminate.
  - (* PFlush *)
    destruct f; [apply with_pc_inv; rewrite ?E; cbn; auto; discriminate|].
    destruct I as [C O F T H S]. constructor; cbn [target lockf acts history].
    + intros j. upd_cases j i; intros X; [eauto|].
      destruct (C j X) as [c Hc]. destruct (C i) as [c2 Hc2]; [rewrite E; reflexivity|]. congruence.
    + intros j c X. inversion X; subst. rewrite upd_same. reflexivity.
    + intros j. upd_cases j i; intros X; [reflexivity|].
      specialize (F j X). destruct (C i) as [c2 Hc2]; [rewrite E; reflexivity|]. congruence.
    + exact T.
    + intros v Hv. destruct (H v Hv) as [A|[j [A B]]]; [left; exact A|right]. exists j.
      upd_cases j i; [congruence|auto].
    + intros j v. upd_cases j i; apply S.
  - (* PFsync *)
    destruct f; apply with_pc_inv; rewrite ?E; cbn; auto; discriminate.
  - (* PCloseFd *)
    destruct f; apply with_pc_inv; rewrite ?E; cbn; auto; discriminate.
  - (* PReplace *)
    destruct f; [apply with_pc_inv; rewrite ?E; cbn; auto; discriminate|].
    pose proof (I_flushed _ _ I i) as Fi. rewrite E in Fi. specialize (Fi eq_refl). rewrite Fi.
    destruct I as [C O F T H S]. constructor; cbn [target lockf acts history].
    + intros j. upd_cases j i; intros X; [discriminate|]. destruct (C j X) as [c Hc]. congruence.
    + intros j c X. discriminate.
    + intros j. upd_cases j i; intros X; [discriminate|]. specialize (F j X). congruence.
    + split; [reflexivity|discriminate].
    + intros v [<-|Hv].
      * right. exists i. rewrite upd_same. cbn. auto.
      * destruct (H v Hv) as [A|[j [A B]]]; [left; exact A|right]. exists j.
        upd_cases j i; [congruence|auto].
    + intros j v. upd_cases j i; intros X; right; eapply S; eauto.
  - (* PAbortClose *)
    apply with_pc_inv; rewrite ?E; cbn; auto; discriminate.
  - (* PRemove *)
    destruct I as [C O F T H S]. constructor; cbn [target lockf acts history].
    + intros j. upd_cases j i; intros X; [discriminate|].
      destruct (C j X) as [c Hc]. destruct (C i) as [c2 Hc2]; [rewrite E; reflexivity|]. congruence.
    + intros j c X. discriminate.
    + intros j. upd_cases j i; intros X; [discriminate|].
      specialize (F j X). destruct (C i) as [c2 Hc2]; [rewrite E; reflexivity|]. congruence.
    + exact T.
    + intros v Hv. destruct (H v Hv) as [A|[j [A B]]]; [left; exact A|right]. exists j.
      upd_cases j i; [congruence|auto].
    + intros j v. upd_cases j i; apply S.
  - (* PRead *)
    destruct f; [apply with_pc_inv; rewrite ?E; cbn; auto; discriminate|].
    destruct I as [C O F T H S]. constructor; cbn [target lockf acts history].
    + intros j. upd_cases j i; intros X; [discriminate|auto].
    + intros j c X. upd_cases j i; [|eauto]. specialize (O _ _ X). rewrite E in O. discriminate.
    + intros j. upd_cases j i; intros X; [discriminate|auto].
    + exact T.
    + intros v Hv. destruct (H v Hv) as [A|[j [A B]]]; [left; exact A|right]. exists j.
      upd_cases j i; [congruence|auto].
    + intros j v. upd_cases j i; [|apply S]. intros [<-|X]; [|eapply S; eauto].
      destruct T as [T1 T2]. rewrite T1. destruct (history s); [contradiction|left; reflexivity].
  - exact I.
Qed.

Lemma run_inv t0 sched : forall s, Inv t0 s -> Inv t0 (run s sched).
Proof.
  unfold run. induction sched as [|x r IH]; intros s I; [exact I|]. cbn [fold_left]. apply IH. apply step_inv. exact I.
Qed.

(* ---------- consequences ---------- *)
Lemma mutex_lemma t0 s i j : Inv t0 s ->
  critical (a_pc (acts s i)) = true -> critical (a_pc (acts s j)) = true -> i = j.
Proof.
  intros I A B. destruct (I_crit _ _ I i A) as [c Hc]. destruct (I_crit _ _ I j B) as [c2 Hc2]. congruence.
Qed.

(* a call by i never touches a lock file that j created *)
Lemma no_foreign_unlock_lemma t0 s i f j c : Inv t0 s -> lockf s = Some (j, c) -> i <> j ->
  lockf (step s i f) = Some (j, c).
Proof.
  intros I L N.
  assert (NC : critical (a_pc (acts s i)) = false).
  { destruct (critical (a_pc (acts s i))) eqn:X; [|reflexivity]. destruct (I_crit _ _ I i X) as [c2 Hc2]. congruence. }
  unfold step. destruct (a_pc (acts s i)) eqn:E; cbn in NC; try discriminate; cbn [with_pc lockf]; try exact L.
  - destruct f; cbn [with_pc lockf]; [exact L|]. rewrite L. exact L.
  - destruct f; cbn [with_pc lockf]; exact L.
Qed.

(* the protected file changes only in the call that makes its caller Committed,
   and then to that caller's complete data *)
Lemma target_changes_only_on_commit t0 s i f : Inv t0 s ->
  target (step s i f) <> target s \/ history (step s i f) <> history s ->
  a_pc (acts (step s i f) i) = PDone Committed /\ a_pc (acts s i) = PReplace /\
  target (step s i f) = Some (a_data (acts s i)).
Proof.
  intros I. unfold step. destruct (a_pc (acts s i)) eqn:E.
  all: try (destruct f; cbn [with_pc target history]; intros [X|X]; contradiction).
  all: try (cbn; intros [X|X]; contradiction).
  all: try (intros [X|X]; contradiction).
  - destruct f; [cbn; intros [X|X]; contradiction|]. destruct (lockf s); cbn; intros [X|X]; contradiction.
  - destruct f; [|destruct (a_aborts (acts s i))]; cbn; intros [X|X]; contradiction.
  - destruct f; [cbn; intros [X|X]; contradiction|].
    pose proof (I_flushed _ _ I i) as Fi. rewrite E in Fi. specialize (Fi eq_refl). rewrite Fi.
    cbn [target history acts]. intros _. rewrite upd_same. cbn. auto.
Qed.

(* a finished actor holds no lock *)
Lemma done_holds_no_lock t0 s i o c : Inv t0 s -> a_pc (acts s i) = PDone o -> lockf s <> Some (i, c).
Proof. intros I E L. pose proof (I_own _ _ I _ _ L) as X. rewrite E in X. discriminate. Qed.
