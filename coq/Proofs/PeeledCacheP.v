From DV Require Import PeeledCache.

Section Proofs.
Variable peel : Z -> Z.
Notation step := (step peel).
Notation run := (run peel).

(* what the file says is true: a ^ line carries the peeled value of its entry, an entry without one is not a tag *)
Definition PeelOK (s : pstate) : Prop :=
  forall r v, pk s r = Some v -> match pl s r with Some p => p = peel v | None => peel v = v end.

(* what dulwich may put into packed-refs without peeling anything: values that are not tags, under names that
   carry no ^ line (branches, lightweight tags) *)
Definition entry_plain (s : pstate) (x : nat * option Z) : Prop :=
  match snd x with Some v => peel v = v /\ pl s (fst x) = None | None => True end.
Definition op_plain (s : pstate) (o : op) : Prop :=
  match o with
  | OSet _ _ | ODelete _ | OGitPack _ => True
  | OAddPacked news => Forall (fun x => entry_plain s (fst x, Some (snd x))) news
  | OPackRefs which => Forall (entry_plain s) (loose_news s which)
  end.
Fixpoint run_plain (s : pstate) (ops : list op) : Prop :=
  match ops with
  | [] => True
  | o :: r => op_plain s o /\ run_plain (step s o) r
  end.

Lemma upd_same (m : rmap) r v : upd m r v r = v.
Proof. unfold upd. rewrite Nat.eqb_refl. reflexivity. Qed.
Lemma upd_other (m : rmap) r v q : q <> r -> upd m r v q = m q.
Proof. intros H. unfold upd. destruct (Nat.eqb_spec q r); [contradiction|reflexivity]. Qed.

(* after applying plain entries, every entry of the table is an old one or a plain new one *)
Lemma apply_news_cases (plm : rmap) : forall news m r v,
  Forall (fun x => match snd x with Some w => peel w = w /\ plm (fst x) = None | None => True end) news ->
  apply_news m news r = Some v -> m r = Some v \/ (peel v = v /\ plm r = None).
Proof.
  induction news as [|[q w] news IH]; intros m r v F H; cbn [apply_news fold_left] in H; [left; exact H|].
  inversion F as [|? ? Hq F']; subst. cbn [fst snd] in *.
  destruct (IH _ r v F' H) as [E|E]; [|right; exact E].
  destruct (Nat.eq_dec r q) as [->|Hne].
  - rewrite upd_same in E. subst w. right. exact Hq.
  - rewrite upd_other in E by exact Hne. left. exact E.
Qed.

Lemma write_packed_ok s news : PeelOK s -> Forall (entry_plain s) news -> PeelOK (write_packed s news).
Proof.
  intros P F r v Hr. unfold write_packed in *. cbn [pk pl] in *. rewrite Hr.
  destruct (apply_news_cases (pl s) news (pk s) r v F Hr) as [E|[E1 E2]].
  - exact (P r v E).
  - rewrite E2. exact E1.
Qed.

Lemma step_ok s o : PeelOK s -> op_plain s o -> PeelOK (step s o).
Proof.
  intros P O. destruct o as [r v|r|news|which|which]; cbn [PeeledCache.step op_plain] in *.
  - exact P.
  - destruct (pk s r) eqn:E; [|exact P].
    pose proof (write_packed_ok s [(r, None)] P ltac:(repeat constructor)) as P'. exact P'.
  - apply (write_packed_ok s (map (fun x => (fst x, Some (snd x))) news) P).
    rewrite Forall_map. exact O.
  - exact (write_packed_ok s (loose_news s which) P O).
  - intros r v Hr. cbn [pk pl] in *. rewrite Hr.
    destruct (pk s r) as [w|] eqn:Ew.
    + destruct (w =? v) eqn:E.
      * apply Z.eqb_eq in E. subst w. exact (P r v Ew).
      * destruct (peel v =? v) eqn:E2; [apply Z.eqb_eq in E2; exact E2|reflexivity].
    + destruct (peel v =? v) eqn:E2; [apply Z.eqb_eq in E2; exact E2|reflexivity].
Qed.

Lemma run_ok : forall ops s, PeelOK s -> run_plain s ops -> PeelOK (run s ops).
Proof.
  induction ops as [|o ops IH]; intros s P H; [exact P|]. destruct H as [H1 H2].
  unfold PeeledCache.run. cbn [fold_left]. apply IH; [apply step_ok; assumption|exact H2].
Qed.

(* what get_peeled answers is the peeled value of what the ref currently is *)
Lemma get_peeled_sound s r p : PeelOK s -> get_peeled s r = Some p ->
  exists v, current s r = Some v /\ p = peel v.
Proof.
  intros P H. unfold get_peeled in H. destruct (pk s r) as [v|] eqn:Ev; [|discriminate].
  specialize (P r v Ev). unfold current.
  destruct (ls s r) as [l|] eqn:El.
  - destruct (l =? v) eqn:E; cbn [negb] in H; [|discriminate]. apply Z.eqb_eq in E. subst l.
    exists v. split; [reflexivity|]. destruct (pl s r) as [q|]; inversion H; subst; congruence.
  - exists v. split; [exact Ev|]. destruct (pl s r) as [q|]; inversion H; subst; congruence.
Qed.

Lemma empty_ok : PeelOK empty_state.
Proof. intros r v H. discriminate. Qed.

Theorem peeled_cache_sound_lemma : forall ops r p,
  run_plain empty_state ops -> get_peeled (run empty_state ops) r = Some p ->
  exists v, current (run empty_state ops) r = Some v /\ p = peel v.
Proof.
  intros ops r p F H. pose proof (run_ok ops empty_state empty_ok F) as P. eapply get_peeled_sound; eauto.
Qed.
End Proofs.

(* ---------- why "plain" is needed ---------- *)
(* ids: 1 = commit c0, 2 = commit c1, 11 = tag on c0, 12 = tag on c1; ref 0 = refs/tags/t *)
Definition ex_peel (v : Z) : Z := if v =? 11 then 1 else if v =? 12 then 2 else v.
(* git packs the tag 11 with ^1; the ref is moved to the tag 12 (a loose file); pack_refs packs it again *)
Definition ex_moved : list op := [OSet 0 11; OGitPack [0%nat]; OSet 0 12; OPackRefs [0%nat]].
(* a newly created annotated tag is packed by pack_refs *)
Definition ex_new : list op := [OSet 0 11; OPackRefs [0%nat]].
Lemma packing_a_tag_value_breaks_the_cache :
  (current (run ex_peel empty_state ex_moved) 0%nat = Some 12 /\ get_peeled (run ex_peel empty_state ex_moved) 0%nat = Some 1 /\ ex_peel 12 = 2) /\
  (current (run ex_peel empty_state ex_new) 0%nat = Some 11 /\ get_peeled (run ex_peel empty_state ex_new) 0%nat = Some 11 /\ ex_peel 11 = 1).
Proof. vm_compute. auto. Qed.
Example ex_plain :
  run_plain ex_peel empty_state [OSet 0 11; OSet 1 2; OGitPack [0%nat; 1%nat]; OSet 1 1; OSet 2 2; OPackRefs [1%nat; 2%nat]; ODelete 1] /\
  get_peeled (run ex_peel empty_state [OSet 0 11; OSet 1 2; OGitPack [0%nat; 1%nat]; OSet 1 1; OSet 2 2; OPackRefs [1%nat; 2%nat]; ODelete 1]) 0%nat = Some 1.
Proof. vm_compute. repeat split; repeat constructor. Qed.
