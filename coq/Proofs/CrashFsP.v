(* Proofs/CrashFsP.v — every prefix of an operation's steps leaves a consistent repository *)
From DV Require Import CrashFs.

Lemma lookup_remove_same r (m : list (nat * obj)) : lookup r (remove_key r m) = None.
Proof.
  induction m as [|[k v] t IH]; [reflexivity|]. cbn [remove_key filter fst].
  destruct (Nat.eqb_spec k r); cbn [negb]; [exact IH|]. cbn [lookup]. destruct (Nat.eqb_spec k r); [contradiction|exact IH].
Qed.
Lemma lookup_remove_other r r' (m : list (nat * obj)) : r' <> r -> lookup r' (remove_key r m) = lookup r' m.
Proof.
  intros N. induction m as [|[k v] t IH]; [reflexivity|]. cbn [remove_key filter fst lookup].
  destruct (Nat.eqb_spec k r); cbn [negb lookup].
  - subst. destruct (Nat.eqb_spec r r'); [congruence|exact IH].
  - destruct (Nat.eqb k r'); [reflexivity|exact IH].
Qed.
Lemma lookup_set_same r v m : lookup r (set_key r v m) = Some v.
Proof. unfold set_key. cbn [lookup]. rewrite Nat.eqb_refl. reflexivity. Qed.
Lemma lookup_set_other r r' v m : r' <> r -> lookup r' (set_key r v m) = lookup r' m.
Proof. intros N. unfold set_key. cbn [lookup]. destruct (Nat.eqb_spec r r'); [congruence|]. apply lookup_remove_other. exact N. Qed.

Lemma firstn_app_last {A} (a : list A) x k : firstn k (a ++ [x]) = firstn k a \/ firstn k (a ++ [x]) = a ++ [x].
Proof.
  destruct (Nat.le_gt_cases k (length a)) as [H|H].
  - left. rewrite firstn_app. replace (k - length a) with 0 by lia. cbn. apply app_nil_r.
  - right. apply firstn_all2. rewrite app_length. cbn. lia.
Qed.

Lemma run_app s a b : run s (a ++ b) = run (run s a) b.
Proof. unfold run. apply fold_left_app. Qed.

Lemma in_remove_key {A} d (m : list (nat * A)) x : In x (remove_key d m) <-> In x m /\ fst x <> d.
Proof.
  unfold remove_key. rewrite filter_In. split; intros [H1 H2]; split; auto.
  - destruct (Nat.eqb_spec (fst x) d); [discriminate|assumption].
  - destruct (Nat.eqb_spec (fst x) d); [contradiction|reflexivity].
Qed.


Local Opaque remove_key lookup set_key.

(* ---------- deleting a ref ---------- *)
Lemma delete_prefixes s0 r k :
  let s := run s0 (firstn k (p_delete r)) in
  (resolve s r = resolve s0 r \/ resolve s r = None) /\
  (forall r', r' <> r -> resolve s r' = resolve s0 r') /\ conts s = conts s0.
Proof.
  destruct k as [|[|k]]; cbn [p_delete firstn run fold_left apply]; unfold resolve; cbn.
  - auto.
  - split; [|split; [|reflexivity]].
    + destruct (lookup r (loose s0)); [left; reflexivity|right; apply lookup_remove_same].
    + intros r' N. rewrite (lookup_remove_other r r' (packed s0) N). reflexivity.
  - rewrite ?firstn_nil. cbn. split; [|split; [|reflexivity]].
    + right. rewrite !lookup_remove_same. reflexivity.
    + intros r' N. rewrite (lookup_remove_other r r' (loose s0) N), (lookup_remove_other r r' (packed s0) N). reflexivity.
Qed.

(* ---------- pack_refs ---------- *)
Lemma lookup_fold_set_in rs : NoDup (map fst rs) -> forall m r v, In (r, v) rs ->
  lookup r (fold_right (fun kv m => set_key (fst kv) (snd kv) m) m rs) = Some v.
Proof.
  induction rs as [|[k w] t IH]; intros ND m r v H; [contradiction|]. cbn [fold_right fst snd].
  inversion ND as [|? ? NI ND']; subst. destruct H as [H|H].
  - inversion H; subst. apply lookup_set_same.
  - rewrite lookup_set_other; [apply IH; assumption|]. intros ->. apply NI. change k with (fst (k, v)). apply in_map. exact H.
Qed.
Lemma lookup_fold_set_out rs : forall m r, ~ In r (map fst rs) ->
  lookup r (fold_right (fun kv m => set_key (fst kv) (snd kv) m) m rs) = lookup r m.
Proof.
  induction rs as [|[k w] t IH]; intros m r H; [reflexivity|]. cbn [fold_right fst snd].
  rewrite lookup_set_other; [apply IH; intros X; apply H; right; exact X|]. intros ->. apply H. left. reflexivity.
Qed.

Section PackRefs.
  Variable s0 : fs.
  Variable rs : list (refname * obj).
  Hypothesis ND : NoDup (map fst rs).
  Hypothesis CUR : forall r v, In (r, v) rs -> lookup r (loose s0) = Some v.   (* the values read are the loose values *)

  Definition K (s : fs) : Prop :=
    conts s = conts s0 /\
    (forall r v, In (r, v) rs -> lookup r (packed s) = Some v /\ (lookup r (loose s) = Some v \/ lookup r (loose s) = None)) /\
    (forall r, ~ In r (map fst rs) -> lookup r (loose s) = lookup r (loose s0) /\ lookup r (packed s) = lookup r (packed s0)).

  Lemma K_resolve s : K s -> forall r, resolve s r = resolve s0 r.
  Proof.
    intros (_ & A & B) r. unfold resolve.
    destruct (in_dec Nat.eq_dec r (map fst rs)) as [I|I].
    - apply in_map_iff in I. destruct I as ([r1 v] & E & I). cbn in E. subst r1.
      destruct (A _ _ I) as (P & [L|L]); rewrite L, (CUR _ _ I); [reflexivity|exact P].
    - destruct (B r I) as [L P]. rewrite L, P. reflexivity.
  Qed.

  Lemma K_first : K (apply s0 (SSetPacked rs)).
  Proof.
    split; [reflexivity|]. split; cbn [apply loose packed].
    - intros r v I. split; [apply lookup_fold_set_in; assumption|left; apply CUR; exact I].
    - intros r I. split; [reflexivity|apply lookup_fold_set_out; exact I].
  Qed.

  Lemma K_prune s r v : In (r, v) rs -> K s -> K (apply s (SDelLoose r)).
  Proof.
    intros I (C & A & B). split; [exact C|]. split; cbn [apply loose packed].
    - intros r1 v1 I1. destruct (A _ _ I1) as [P L]. split; [exact P|].
      destruct (Nat.eq_dec r1 r) as [->|N]; [right; apply lookup_remove_same|]. rewrite lookup_remove_other; assumption.
    - intros r1 I1. destruct (B _ I1) as [L P]. split; [|exact P].
      rewrite lookup_remove_other; [exact L|]. intros ->. apply I1. change r with (fst (r, v)). apply in_map. exact I.
  Qed.

  Lemma pack_refs_prefixes k : let s := run s0 (firstn k (p_pack_refs rs)) in
    (forall r, resolve s r = resolve s0 r) /\ conts s = conts s0.
  Proof.
    destruct k as [|k]; [cbn; auto|]. cbn [p_pack_refs firstn run fold_left].
    assert (G : forall l s, (forall kv, In kv l -> In kv rs) -> K s -> forall j, K (fold_left apply (firstn j (map (fun kv => SDelLoose (fst kv)) l)) s)).
    { induction l as [|[r v] t IH]; intros s Hl Ks j; [rewrite firstn_nil; exact Ks|].
      destruct j as [|j]; [exact Ks|]. cbn [map firstn fold_left fst]. apply IH; [intros kv X; apply Hl; right; exact X|].
      apply (K_prune s r v); [apply Hl; left; reflexivity|exact Ks]. }
    pose proof (G rs _ (fun kv X => X) K_first k) as Kk. split; [apply K_resolve; exact Kk|apply Kk].
  Qed.
End PackRefs.

(* ---------- repack ---------- *)
Lemma has_add s c os o : has (apply s (SAddC c os)) o = existsb (Nat.eqb o) os || has s o.
Proof. reflexivity. Qed.

Lemma has_in s o : has s o = true <-> exists c os, In (c, os) (conts s) /\ In o os.
Proof.
  unfold has. rewrite existsb_exists. split.
  - intros ([c os] & I & E). cbn in E. apply existsb_exists in E. destruct E as (x & Ix & Ex). apply Nat.eqb_eq in Ex. subst. eauto.
  - intros (c & os & I & Io). exists (c, os). split; [exact I|]. cbn. apply existsb_exists. exists o. split; [exact Io|apply Nat.eqb_refl].
Qed.

Section Repack.
  Variable s0 : fs.
  Variable c : cid.
  Variable keep : list obj.
  Variable old : list cid.
  Hypothesis FRESH : ~ In c old.
  Hypothesis KEEP : forall o, In o keep -> has s0 o = true.                      (* the new pack holds existing objects *)
  Hypothesis OLD : forall d os o, In d old -> In (d, os) (conts s0) -> In o os -> In o keep.   (* all of what is removed *)

  Definition M (s : fs) : Prop :=
    In (c, keep) (conts s) /\
    (forall d os, In (d, os) (conts s) -> In (d, os) (conts s0) \/ (d = c /\ os = keep)) /\
    (forall o, has s0 o = true -> has s o = true) /\
    loose s = loose s0 /\ packed s = packed s0.

  Lemma M_has s : M s -> forall o, has s o = has s0 o.
  Proof.
    intros (A & B & C & _) o. destruct (has s0 o) eqn:E; [apply C; exact E|].
    destruct (has s o) eqn:E2; [|reflexivity]. apply has_in in E2. destruct E2 as (d & os & I & Io).
    destruct (B _ _ I) as [X|[-> ->]].
    - assert (has s0 o = true) by (apply has_in; eauto). congruence.
    - rewrite KEEP in E; [discriminate|exact Io].
  Qed.

  Lemma M_first : M (apply s0 (SAddC c keep)).
  Proof.
    split; [left; reflexivity|]. split; [|split; [|split; reflexivity]].
    - intros d os [X|X]; [inversion X; subst; right; auto|left; exact X].
    - intros o H. rewrite has_add, H. apply orb_true_r.
  Qed.

  Lemma M_del s d : In d old -> M s -> M (apply s (SDelC d)).
  Proof.
    intros Id (A & B & C & L & P). assert (N : c <> d) by (intros ->; contradiction).
    split; [|split; [|split; [|split; assumption]]]; cbn [apply conts].
    - apply in_remove_key. split; [exact A|exact N].
    - intros e os I. apply in_remove_key in I. apply B. apply I.
    - intros o H. specialize (C o H). apply has_in in C. destruct C as (e & os & I & Io).
      destruct (Nat.eq_dec e d) as [->|Ne].
      + (* the container being removed: its objects are in the new pack *)
        destruct (B _ _ I) as [X|[E _]]; [|congruence].
        apply has_in. exists c, keep. split; [apply in_remove_key; split; [exact A|exact N]|]. eapply OLD; eauto.
      + apply has_in. exists e, os. split; [apply in_remove_key; split; [exact I|exact Ne]|exact Io].
  Qed.

  Lemma repack_prefixes k : let s := run s0 (firstn k (p_repack c keep old)) in
    (forall o, has s o = has s0 o) /\ loose s = loose s0 /\ packed s = packed s0.
  Proof.
    destruct k as [|k]; [cbn; auto|]. cbn [p_repack firstn run fold_left].
    assert (G : forall l s, (forall d, In d l -> In d old) -> M s -> forall j, M (fold_left apply (firstn j (map SDelC l)) s)).
    { induction l as [|d t IH]; intros s Hl Ms j; [rewrite firstn_nil; exact Ms|].
      destruct j as [|j]; [exact Ms|]. cbn [map firstn fold_left]. apply IH; [intros e X; apply Hl; right; exact X|].
      apply M_del; [apply Hl; left; reflexivity|exact Ms]. }
    pose proof (G old _ (fun d X => X) M_first k) as Mk. split; [apply M_has; exact Mk|]. destruct Mk as (_ & _ & _ & L & P). auto.
  Qed.
End Repack.

(* ---------- adding objects, then moving a ref (commit, fetch, receive-pack) ---------- *)
Section Update.
  Variable deps : obj -> list obj.
  Variable s0 : fs.
  Variable news : list (cid * list obj).
  Variable r : refname.
  Variable v : obj.
  Let adds := map (fun c : cid * list obj => SAddC (fst c) (snd c)) news.
  Hypothesis CONS : consistent deps s0.
  Hypothesis ORD : ordered deps s0 news.
  Hypothesis VIN : has (run s0 adds) v = true.

  Definition A (s : fs) : Prop :=
    closed deps s /\ loose s = loose s0 /\ packed s = packed s0 /\ (forall o, has s0 o = true -> has s o = true).

  Lemma A_add s c os : A s -> (forall o, In o os -> forall d, In d (deps o) -> has (apply s (SAddC c os)) d = true) ->
    A (apply s (SAddC c os)).
  Proof.
    intros (C & L & P & Mo) H. split; [|split; [exact L|split; [exact P|]]].
    - intros o Ho d Hd. rewrite has_add in Ho. apply orb_prop in Ho. destruct Ho as [Ho|Ho].
      + apply existsb_exists in Ho. destruct Ho as (x & Ix & Ex). apply Nat.eqb_eq in Ex. subst x. eapply H; eauto.
      + rewrite has_add. rewrite (C o Ho d Hd). apply orb_true_r.
    - intros o Ho. rewrite has_add, (Mo o Ho). apply orb_true_r.
  Qed.

  Lemma A_adds : forall l s, A s -> ordered deps s l -> forall j,
    A (fold_left apply (firstn j (map (fun c : cid * list obj => SAddC (fst c) (snd c)) l)) s).
  Proof.
    induction l as [|c t IH]; intros s As O j; [rewrite firstn_nil; exact As|].
    destruct j as [|j]; [exact As|]. cbn [map firstn fold_left]. destruct O as [O1 O2].
    apply IH; [apply A_add; assumption|exact O2].
  Qed.

  Lemma A_init : A s0.
  Proof. split; [apply CONS|]. auto. Qed.

  Lemma A_consistent s : A s -> consistent deps s /\ (forall r', resolve s r' = resolve s0 r').
  Proof.
    intros (C & L & P & Mo). assert (R : forall r', resolve s r' = resolve s0 r') by (intros r'; unfold resolve; rewrite L, P; reflexivity).
    split; [split; [exact C|]|exact R]. intros r' w H. rewrite R in H. apply Mo. apply (proj2 CONS _ _ H).
  Qed.

  Lemma update_prefixes k : let s := run s0 (firstn k (p_update news r v)) in
    consistent deps s /\ (resolve s r = resolve s0 r \/ resolve s r = Some v) /\
    (forall r', r' <> r -> resolve s r' = resolve s0 r') /\ (forall o, has s0 o = true -> has s o = true).
  Proof.
    unfold p_update. fold adds. destruct (firstn_app_last adds (SSetLoose r v) k) as [E|E]; rewrite E.
    - pose proof (A_adds news s0 A_init ORD k) as Ak. fold adds in Ak. change (fold_left apply (firstn k adds) s0) with (run s0 (firstn k adds)) in Ak.
      destruct (A_consistent _ Ak) as [Co R]. split; [exact Co|]. split; [left; apply R|]. split; [intros; apply R|apply Ak].
    - rewrite run_app.
      pose proof (A_adds news s0 A_init ORD (length adds)) as Aall. fold adds in Aall. rewrite firstn_all in Aall.
      change (fold_left apply adds s0) with (run s0 adds) in Aall. destruct Aall as (C & L & P & Mo).
      set (s1 := run s0 adds) in *. cbn [run fold_left apply].
      assert (Rr : resolve {| conts := conts s1; loose := set_key r v (loose s1); packed := packed s1 |} r = Some v)
        by (unfold resolve; cbn; rewrite lookup_set_same; reflexivity).
      assert (Ro : forall r', r' <> r -> resolve {| conts := conts s1; loose := set_key r v (loose s1); packed := packed s1 |} r' = resolve s0 r')
        by (intros r' N; unfold resolve; cbn; rewrite lookup_set_other by exact N; rewrite L, P; reflexivity).
      split; [split|].
      + exact C.
      + intros r' w H. destruct (Nat.eq_dec r' r) as [->|N].
        * rewrite Rr in H. inversion H; subst. exact VIN.
        * rewrite (Ro r' N) in H. apply Mo. apply (proj2 CONS _ _ H).
      + split; [right; exact Rr|]. split; [exact Ro|exact Mo].
  Qed.
End Update.
