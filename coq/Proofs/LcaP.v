(* Proofs/LcaP.v — _find_lcas returns exactly the maximal common ancestors, for
   every DAG, every query and every order in which the work list is popped *)
From DV Require Import Lca.
From Coq Require Import Classical.

Section Proofs.
Variable parents : node -> list node.
Variable pick : list node -> nat.
Hypothesis parents_lt : forall v p, In p (parents v) -> p < v.

(* a is an ancestor of (or equal to) v *)
Inductive Anc : node -> node -> Prop :=
| anc_refl v : Anc v v
| anc_step a p v : In p (parents v) -> Anc a p -> Anc a v.

Lemma anc_le a v : Anc a v -> a <= v.
Proof. induction 1 as [|a p v Hp _ IH]; [lia|]. apply parents_lt in Hp. lia. Qed.

Lemma anc_trans a b c : Anc a b -> Anc b c -> Anc a c.
Proof. intros H1 H2. induction H2 as [|b p v Hp _ IH]; [exact H1|]. eapply anc_step; eauto. Qed.

Lemma anc_parent p v : In p (parents v) -> Anc p v.
Proof. intros H. eapply anc_step; [exact H|apply anc_refl]. Qed.

Lemma anc_antisym a b : Anc a b -> Anc b a -> a = b.
Proof. intros H1 H2. apply anc_le in H1. apply anc_le in H2. lia. Qed.

(* ---------- the three flag maps, uniformly ---------- *)
Definition F (k : nat) (s : st) : node -> bool := match k with 0 => A1 s | 1 => A2 s | _ => DN s end.
Definition P (k : nat) (p1 p2 pd : bool) : bool := match k with 0 => p1 | 1 => p2 | _ => pd end.

Lemma upd_same f v : upd f v v = true.
Proof. unfold upd. rewrite Nat.eqb_refl. reflexivity. Qed.
Lemma upd_true f v u : f u = true -> upd f v u = true.
Proof. unfold upd. intros H. destruct (Nat.eqb u v); auto. Qed.
Lemma upd_inv f v u : upd f v u = true -> f u = true \/ u = v.
Proof. unfold upd. destruct (Nat.eqb u v) eqn:E; [apply Nat.eqb_eq in E; auto|auto]. Qed.

Lemma push_F k p1 p2 pd s p :
  (F k (push_parent p1 p2 pd s p) = F k s /\ wl (push_parent p1 p2 pd s p) = wl s /\
   forall j, P j p1 p2 pd = true -> F j s p = true)
  \/ (wl (push_parent p1 p2 pd s p) = p :: wl s /\
      forall j, F j (push_parent p1 p2 pd s p) = if P j p1 p2 pd then upd (F j s) p else F j s).
Proof.
  unfold push_parent.
  destruct (implb p1 (A1 s p) && implb p2 (A2 s p) && implb pd (DN s p)) eqn:G.
  - left. split; [reflexivity|]. split; [reflexivity|].
    apply andb_prop in G. destruct G as [G G3]. apply andb_prop in G. destruct G as [G1 G2].
    intros j Hj. destruct j as [|[|j]]; cbn [P F] in *; subst; cbn in *; assumption.
  - right. split; [reflexivity|]. intros j. destruct j as [|[|j]]; reflexivity.
Qed.

Record PushRel (p1 p2 pd : bool) (ps : list node) (s s' : st) : Prop := {
  pr_mono : forall k u, F k s u = true -> F k s' u = true;
  pr_new : forall k u, F k s' u = true -> F k s u = true \/ (P k p1 p2 pd = true /\ In u ps);
  pr_wl_keep : forall u, In u (wl s) -> In u (wl s');
  pr_wl_new : forall u, In u (wl s') -> In u (wl s) \/ In u ps;
  pr_changed : forall k u, F k s' u <> F k s u -> In u (wl s');
  pr_done : forall p k, In p ps -> P k p1 p2 pd = true -> F k s' p = true;
  pr_cands : cands s' = cands s
}.

Lemma push_cands p1 p2 pd s p : cands (push_parent p1 p2 pd s p) = cands s.
Proof. unfold push_parent. destruct (_ && _); reflexivity. Qed.

Lemma push_fold_rel p1 p2 pd : forall ps s, PushRel p1 p2 pd ps s (fold_left (push_parent p1 p2 pd) ps s).
Proof.
  induction ps as [|p ps IH]; intros s.
  - cbn. constructor; auto; try tauto.
  - cbn [fold_left]. specialize (IH (push_parent p1 p2 pd s p)). destruct IH.
    set (s1 := push_parent p1 p2 pd s p) in *.
    pose proof (push_F 0 p1 p2 pd s p) as H0. fold s1 in H0.
    assert (Hstep : (forall k, F k s1 = F k s) /\ wl s1 = wl s /\ (forall j, P j p1 p2 pd = true -> F j s p = true)
                    \/ (wl s1 = p :: wl s /\ forall j, F j s1 = if P j p1 p2 pd then upd (F j s) p else F j s)).
    { destruct H0 as [(Ha & Hb & Hc)|(Ha & Hb)]; [left|right; auto].
      split; [|auto]. intros k. destruct (push_F k p1 p2 pd s p) as [(Hk & _ & _)|(Hw & _)]; [exact Hk|].
      fold s1 in Hw. rewrite Hb in Hw. exfalso. clear -Hw. induction (wl s); inversion Hw; auto. }
    clear H0.
    constructor.
    + intros k u H. apply pr_mono0. destruct Hstep as [(Hf & _ & _)|(_ & Hf)]; rewrite Hf; [exact H|].
      destruct (P k p1 p2 pd); [apply upd_true; exact H|exact H].
    + intros k u H. apply pr_new0 in H. destruct H as [H|[Hp Hin]]; [|right; split; [exact Hp|right; exact Hin]].
      destruct Hstep as [(Hf & _ & _)|(_ & Hf)]; rewrite Hf in H; [left; exact H|].
      destruct (P k p1 p2 pd) eqn:EP; [|left; exact H].
      apply upd_inv in H. destruct H as [H| ->]; [left; exact H|right; split; [reflexivity|left; reflexivity]].
    + intros u H. apply pr_wl_keep0. destruct Hstep as [(_ & Hw & _)|(Hw & _)]; rewrite Hw; [exact H|right; exact H].
    + intros u H. apply pr_wl_new0 in H. destruct H as [H|H]; [|right; right; exact H].
      destruct Hstep as [(_ & Hw & _)|(Hw & _)]; rewrite Hw in H; [left; exact H|].
      destruct H as [<- |H]; [right; left; reflexivity|left; exact H].
    + intros k u H.
      destruct (Bool.bool_dec (F k s1 u) (F k s u)) as [E|E].
      * apply (pr_changed0 k u). rewrite E. exact H.
      * apply pr_wl_keep0. destruct Hstep as [(Hf & _ & _)|(Hw & Hf)]; [rewrite Hf in E; contradiction|].
        rewrite Hw. rewrite Hf in E. destruct (P k p1 p2 pd); [|contradiction].
        unfold upd in E. destruct (Nat.eqb u p) eqn:Eu; [apply Nat.eqb_eq in Eu; left; auto|contradiction].
    + intros q k [<- |Hin] Hp; [|apply pr_done0; assumption].
      apply pr_mono0. destruct Hstep as [(Hf & _ & Hc)|(_ & Hf)]; rewrite Hf; [apply Hc; exact Hp|].
      rewrite Hp. apply upd_same.
    + rewrite pr_cands0. apply push_cands.
Qed.

(* ---------- invariants of the loop ---------- *)
Variable c1 : node.
Variable c2s : list node.

Definition CA (x : node) : Prop := Anc x c1 /\ exists c, In c c2s /\ Anc x c.
Definition MaxCA (x : node) : Prop := CA x /\ forall y, CA y -> Anc x y -> y = x.

Record Inv (s : st) : Prop := {
  i_a1 : forall v, A1 s v = true -> Anc v c1;
  i_a2 : forall v, A2 s v = true -> exists c, In c c2s /\ Anc v c;
  i_dn : forall v, DN s v = true -> exists x, CA x /\ Anc v x /\ v <> x;
  i_prop : forall v, ~ In v (wl s) -> forall p, In p (parents v) ->
            (A1 s v = true -> A1 s p = true) /\ (A2 s v = true -> A2 s p = true) /\
            (DN s v = true \/ (A1 s v = true /\ A2 s v = true) -> DN s p = true);
  i_cand : forall v, ~ In v (wl s) -> A1 s v = true -> A2 s v = true -> DN s v = false -> In v (cands s);
  i_cands : forall v, In v (cands s) -> A1 s v = true /\ A2 s v = true;
  i_start : A1 s c1 = true /\ forall c, In c c2s -> A2 s c = true;
  i_nodup : NoDup (cands s)
}.

Lemma memb_in v l : memb v l = true <-> In v l.
Proof.
  unfold memb. rewrite existsb_exists. split.
  - intros (x & Hx & E). apply Nat.eqb_eq in E. subst. exact Hx.
  - intros H. exists v. split; [exact H|apply Nat.eqb_refl].
Qed.

Lemma inv_init : Inv (init c1 c2s).
Proof.
  constructor; cbn [init A1 A2 DN wl cands].
  - intros v H. apply upd_inv in H. destruct H as [H| ->]; [discriminate|apply anc_refl].
  - intros v H. apply memb_in in H. exists v. split; [exact H|apply anc_refl].
  - discriminate.
  - intros v Hv p Hp.
    assert (N1 : A1 (init c1 c2s) v = false).
    { cbn. unfold upd. destruct (Nat.eqb v c1) eqn:E; [|reflexivity]. apply Nat.eqb_eq in E. subst.
      exfalso. apply Hv. apply in_or_app. right. left. reflexivity. }
    assert (N2 : memb v c2s = false).
    { destruct (memb v c2s) eqn:E; [|reflexivity]. apply memb_in in E. exfalso. apply Hv.
      apply in_or_app. left. rewrite <- in_rev. exact E. }
    cbn in N1. rewrite N1, N2. repeat split; try discriminate. intros [H|[H _]]; discriminate.
  - intros v Hv H1 _ _. apply upd_inv in H1. destruct H1 as [H1| ->]; [discriminate|].
    exfalso. apply Hv. apply in_or_app. right. left. reflexivity.
  - intros v [].
  - split; [apply upd_same|]. intros c Hc. apply memb_in. exact Hc.
  - constructor.
Qed.

Lemma in_skipn_l {A} n (l : list A) x : In x (skipn n l) -> In x l.
Proof.
  revert l; induction n as [|n IH]; intros l H; [exact H|].
  destruct l as [|y l]; [exact H|]. right; apply IH; exact H.
Qed.
Lemma in_firstn_l {A} n (l : list A) x : In x (firstn n l) -> In x l.
Proof.
  revert l; induction n as [|n IH]; intros l H; [destruct H|].
  destruct l as [|y l]; [exact H|]. destruct H as [H|H]; [left; exact H|right; apply IH; exact H].
Qed.

Lemma in_remove_nth {A} i (l : list A) u : In u (remove_nth i l) -> In u l.
Proof.
  unfold remove_nth. intros H. apply in_app_or in H. destruct H as [H|H];
    [eapply in_firstn_l; eauto|eapply in_skipn_l; eauto].
Qed.

Lemma in_split_nth {A} i (l : list A) v u : nth_error l i = Some v -> In u l -> u = v \/ In u (remove_nth i l).
Proof.
  revert l. induction i as [|i IH]; intros l Hn Hu; destruct l as [|x l]; cbn in Hn; try discriminate.
  - inversion Hn; subst. destruct Hu as [->|Hu]; [left; reflexivity|right; exact Hu].
  - destruct Hu as [->|Hu].
    + right. left. reflexivity.
    + destruct (IH l Hn Hu) as [->|H]; [left; reflexivity|right; right; exact H].
Qed.

Lemma inv_step s : Inv s -> Inv (step parents pick s).
Proof.
  intros I. unfold step. destruct (nth_error (wl s) (pick (wl s) mod length (wl s))) as [v|] eqn:En; [|exact I].
  set (i := pick (wl s) mod length (wl s)) in *.
  set (is_ca := A1 s v && A2 s v && negb (DN s v)).
  set (s1 := {| A1 := A1 s; A2 := A2 s; DN := DN s; wl := remove_nth i (wl s);
                cands := if is_ca && negb (memb v (cands s)) then v :: cands s else cands s |}).
  set (p1 := A1 s v). set (p2 := A2 s v). set (pd := DN s v || is_ca).
  pose proof (push_fold_rel p1 p2 pd (parents v) s1) as R.
  set (s' := fold_left (push_parent p1 p2 pd) (parents v) s1) in *.
  destruct R as [pr_mono0 pr_new0 pr_wl_keep0 pr_wl_new0 pr_changed0 pr_done0 pr_cands0].
  destruct I as [Ia1 Ia2 i_dn0 i_prop0 i_cand0 i_cands0 i_start0 i_nodup0].
  assert (Hcands1 : forall u, In u (cands s) -> In u (cands s1)).
  { intros u H. cbn [cands s1]. destruct (is_ca && negb (memb v (cands s))); [right|]; exact H. }
  assert (Hsame : forall k u, ~ In u (wl s') -> F k s' u = F k s u).
  { intros k u H. destruct (Bool.bool_dec (F k s' u) (F k s1 u)) as [E|E]; [rewrite E; destruct k as [|[|k]]; reflexivity|].
    exfalso. apply H. eapply pr_changed0. exact E. }
  assert (Hca : is_ca = true -> CA v).
  { unfold is_ca. intros H. apply andb_prop in H. destruct H as [H _]. apply andb_prop in H. destruct H as [H1 H2].
    split; [apply Ia1; exact H1|apply Ia2; exact H2]. }
  constructor.
  - intros u H. destruct (pr_new0 0 u H) as [H0|[Hp Hin]]; [apply Ia1; exact H0|].
    eapply anc_trans; [apply anc_parent; exact Hin|]. apply Ia1. exact Hp.
  - intros u H. destruct (pr_new0 1 u H) as [H0|[Hp Hin]]; [apply Ia2; exact H0|].
    destruct (Ia2 v Hp) as (c & Hc & Ha). exists c. split; [exact Hc|].
    eapply anc_trans; [apply anc_parent; exact Hin|exact Ha].
  - intros u H. destruct (pr_new0 2 u H) as [H0|[Hp Hin]]; [apply i_dn0; exact H0|].
    cbn [P] in Hp. unfold pd in Hp. apply orb_prop in Hp. pose proof (parents_lt _ _ Hin) as Hlt.
    destruct Hp as [Hp|Hp].
    + destruct (i_dn0 v Hp) as (x & Hx & Ha & Hne). exists x. split; [exact Hx|]. split.
      * eapply anc_trans; [apply anc_parent; exact Hin|exact Ha].
      * apply anc_le in Ha. lia.
    + exists v. split; [apply Hca; exact Hp|]. split; [apply anc_parent; exact Hin|lia].
  - intros u Hu p Hp.
    pose proof (Hsame 0 u Hu) as E0. pose proof (Hsame 1 u Hu) as E1. pose proof (Hsame 2 u Hu) as E2. cbn [F] in E0, E1, E2.
    rewrite E0, E1, E2.
    destruct (Nat.eq_dec u v) as [->|Hne].
    + repeat split.
      * intros H. apply (pr_done0 p 0 Hp). exact H.
      * intros H. apply (pr_done0 p 1 Hp). exact H.
      * intros H. apply (pr_done0 p 2 Hp). cbn [P]. unfold pd, is_ca.
        destruct H as [H|[H1 H2]]; [rewrite H; reflexivity|rewrite H1, H2; destruct (DN s v); reflexivity].
    + assert (Hnot : ~ In u (wl s)).
      { intros Hin. destruct (in_split_nth i (wl s) v u En Hin) as [->|H]; [contradiction|].
        apply Hu. apply pr_wl_keep0. exact H. }
      destruct (i_prop0 u Hnot p Hp) as (Q1 & Q2 & Q3). repeat split.
      * intros H. apply (pr_mono0 0). apply Q1. exact H.
      * intros H. apply (pr_mono0 1). apply Q2. exact H.
      * intros H. apply (pr_mono0 2). apply Q3. exact H.
  - intros u Hu H1 H2 H3.
    pose proof (Hsame 0 u Hu) as E0. pose proof (Hsame 1 u Hu) as E1. pose proof (Hsame 2 u Hu) as E2. cbn [F] in E0, E1, E2.
    rewrite E0 in H1. rewrite E1 in H2. rewrite E2 in H3. rewrite pr_cands0.
    destruct (Nat.eq_dec u v) as [->|Hne].
    + cbn [cands s1]. assert (Eca : is_ca = true) by (unfold is_ca; rewrite H1, H2, H3; reflexivity). rewrite Eca.
      destruct (memb v (cands s)) eqn:Em; cbn [negb andb]; [apply memb_in; exact Em|left; reflexivity].
    + apply Hcands1. apply i_cand0; try assumption.
      intros Hin. destruct (in_split_nth i (wl s) v u En Hin) as [->|H]; [contradiction|].
      apply Hu. apply pr_wl_keep0. exact H.
  - intros u Hu. rewrite pr_cands0 in Hu. cbn [cands s1] in Hu.
    assert (Hold : In u (cands s) -> A1 s' u = true /\ A2 s' u = true).
    { intros H. destruct (i_cands0 u H) as [Q1 Q2]. split; [apply (pr_mono0 0)|apply (pr_mono0 1)]; assumption. }
    destruct (is_ca && negb (memb v (cands s))) eqn:E; [|apply Hold; exact Hu].
    destruct Hu as [<-|Hu]; [|apply Hold; exact Hu].
    apply andb_prop in E. destruct E as [E _]. unfold is_ca in E. apply andb_prop in E. destruct E as [E _].
    apply andb_prop in E. destruct E as [Q1 Q2]. split; [apply (pr_mono0 0)|apply (pr_mono0 1)]; assumption.
  - destruct i_start0 as [Q1 Q2]. split; [apply (pr_mono0 0); exact Q1|]. intros c Hc. apply (pr_mono0 1). apply Q2. exact Hc.
  - rewrite pr_cands0. cbn [cands s1]. destruct (memb v (cands s)) eqn:Em.
    + rewrite andb_false_r. exact i_nodup0.
    + destruct is_ca; cbn [andb negb]; [|exact i_nodup0]. constructor; [|exact i_nodup0].
      intros Hin. apply memb_in in Hin. congruence.
Qed.

Lemma inv_run : forall fuel s s', run parents pick fuel s = Some s' -> Inv s -> Inv s' /\ has_candidates s' = false.
Proof.
  induction fuel as [|f IH]; intros s s' H I; cbn [run] in H.
  - destruct (has_candidates s) eqn:E; [discriminate|]. inversion H; subst. auto.
  - destruct (has_candidates s) eqn:E; [|inversion H; subst; auto].
    apply IH in H; [exact H|]. apply inv_step. exact I.
Qed.

(* ---------- the ancestor table used by the redundancy filter ---------- *)
Lemma anc_tbl_length n : length (anc_tbl parents n) = n.
Proof. induction n as [|n IH]; [reflexivity|]. cbn [anc_tbl]. rewrite app_length, IH. cbn. lia. Qed.

Definition row (v : node) : list node := v :: flat_map (fun p => nth p (anc_tbl parents v) []) (parents v).

Lemma anc_tbl_nth : forall n v, v < n -> nth v (anc_tbl parents n) [] = row v.
Proof.
  induction n as [|n IH]; intros v Hv; [lia|].
  cbn [anc_tbl]. destruct (Nat.eq_dec v n) as [->|Hne].
  - rewrite app_nth2 by (rewrite anc_tbl_length; lia). rewrite anc_tbl_length, Nat.sub_diag. reflexivity.
  - rewrite app_nth1 by (rewrite anc_tbl_length; lia). apply IH. lia.
Qed.

Lemma row_spec : forall v a, In a (row v) <-> Anc a v.
Proof.
  intros v. induction v as [v IH] using lt_wf_ind. intros a. unfold row. split.
  - intros [<-|H]; [apply anc_refl|]. apply in_flat_map in H. destruct H as (p & Hp & Hin).
    pose proof (parents_lt _ _ Hp) as Hlt. rewrite anc_tbl_nth in Hin by exact Hlt.
    apply (IH p Hlt) in Hin. eapply anc_step; eauto.
  - intros H. inversion H as [|a' p v' Hp Ha]; subst; [left; reflexivity|]. right.
    apply in_flat_map. exists p. split; [exact Hp|]. pose proof (parents_lt _ _ Hp) as Hlt.
    rewrite anc_tbl_nth by exact Hlt. apply (IH p Hlt). exact Ha.
Qed.

Lemma ancb_spec n a v : v < n -> (ancb parents n a v = true <-> Anc a v).
Proof. intros Hv. unfold ancb. rewrite memb_in, anc_tbl_nth by exact Hv. apply row_spec. Qed.

(* ---------- at the end of the loop ---------- *)
Lemma max_above : forall y, CA y -> exists M, MaxCA M /\ Anc y M.
Proof.
  intros y Hy. assert (Hle : y <= c1) by (apply anc_le; apply Hy).
  remember (c1 - y) as d eqn:Ed. revert y Hy Hle Ed.
  induction d as [d IH] using lt_wf_ind. intros y Hy Hle Ed.
  destruct (classic (exists z, CA z /\ Anc y z /\ z <> y)) as [(z & Hz & Hyz & Hne)|Hno].
  - pose proof (anc_le _ _ Hyz) as H1. assert (Hz1 : z <= c1) by (apply anc_le; apply Hz).
    destruct (IH (c1 - z) ltac:(lia) z Hz Hz1 eq_refl) as (M & HM & HzM).
    exists M. split; [exact HM|]. eapply anc_trans; eauto.
  - exists y. split; [|apply anc_refl]. split; [exact Hy|].
    intros z Hz Hyz. destruct (Nat.eq_dec z y) as [->|Hne]; [reflexivity|].
    exfalso. apply Hno. exists z. auto.
Qed.

Section Final.
Variable s : st.
Hypothesis I : Inv s.
Hypothesis Hterm : has_candidates s = false.

Lemma wl_all_dn u : In u (wl s) -> DN s u = true.
Proof.
  intros H. unfold has_candidates in Hterm.
  destruct (DN s u) eqn:E; [reflexivity|]. exfalso.
  assert (existsb (fun v => negb (DN s v)) (wl s) = true).
  { apply existsb_exists. exists u. split; [exact H|]. rewrite E. reflexivity. }
  congruence.
Qed.

Lemma above_max_not_dn M u : MaxCA M -> Anc M u -> DN s u = false.
Proof.
  intros [HM Hmax] Hu. destruct (DN s u) eqn:E; [|reflexivity]. exfalso.
  destruct (i_dn s I u E) as (x & Hx & Hux & Hne).
  assert (x = M) by (apply Hmax; [exact Hx|eapply anc_trans; eauto]). subst x.
  apply Hne. apply anc_antisym; assumption.
Qed.

Lemma flag_reaches_max M (k : nat) : MaxCA M -> forall b, Anc M b ->
  (k = 0 \/ k = 1) -> F k s b = true -> F k s M = true.
Proof.
  intros HM b Hb Hk. induction Hb as [|a p v Hp Ha IH]; [auto|].
  intros Hv. apply IH; [exact HM|].
  assert (Hdn : DN s v = false) by (eapply above_max_not_dn; [exact HM|eapply anc_step; eauto]).
  assert (Hnot : ~ In v (wl s)) by (intros Hin; apply wl_all_dn in Hin; congruence).
  destruct (i_prop s I v Hnot p Hp) as (Q1 & Q2 & _).
  destruct Hk as [-> | ->]; cbn [F] in *; auto.
Qed.

Lemma max_in_cands M : MaxCA M -> In M (cands s) /\ DN s M = false.
Proof.
  intros HM. pose proof HM as [[Hc1 (c & Hc & Hc2)] _].
  destruct (i_start s I) as [S1 S2].
  assert (H1 : A1 s M = true) by (apply (flag_reaches_max M 0 HM c1 Hc1); [auto|exact S1]).
  assert (H2 : A2 s M = true) by (apply (flag_reaches_max M 1 HM c Hc2); [auto|apply S2; exact Hc]).
  assert (Hd : DN s M = false) by (eapply above_max_not_dn; [exact HM|apply anc_refl]).
  split; [|exact Hd]. apply (i_cand s I); try assumption.
  intros Hin. apply wl_all_dn in Hin. congruence.
Qed.

Lemma cand_is_ca x : In x (cands s) -> CA x.
Proof. intros H. destruct (i_cands s I x H) as [H1 H2]. split; [apply (i_a1 s I); exact H1|apply (i_a2 s I); exact H2]. Qed.

Lemma finish_exact n : c1 < n -> (forall x, In x (finish parents n s) <-> MaxCA x).
Proof.
  intros Hn x. unfold finish.
  set (results := filter (fun c => negb (DN s c)) (cands s)).
  assert (Hres : forall c, In c results <-> In c (cands s) /\ DN s c = false).
  { intros c. unfold results. rewrite filter_In. split; intros [H1 H2]; split; auto; destruct (DN s c); auto; discriminate. }
  assert (Hlt : forall c, In c results -> c < n).
  { intros c Hc. apply Hres in Hc. destruct Hc as [Hc _]. apply cand_is_ca in Hc. destruct Hc as [Hc _]. apply anc_le in Hc. lia. }
  rewrite filter_In. split.
  - intros [Hx Hf]. apply Hres in Hx as Hx'. destruct Hx' as [Hxc Hxd].
    pose proof (cand_is_ca x Hxc) as Hca. split; [exact Hca|].
    intros y Hy Hxy. destruct (Nat.eq_dec y x) as [->|Hne]; [reflexivity|]. exfalso.
    destruct (max_above y Hy) as (M & HM & HyM).
    destruct (max_in_cands M HM) as [HMc HMd].
    assert (HMr : In M results) by (apply Hres; auto).
    assert (HxM : Anc x M) by (eapply anc_trans; eauto).
    assert (HneM : x <> M).
    { intros ->. apply Hne. apply anc_antisym; assumption. }
    assert (E : existsb (fun c' => negb (Nat.eqb x c') && ancb parents n x c') results = true).
    { apply existsb_exists. exists M. split; [exact HMr|].
      replace (Nat.eqb x M) with false by (symmetry; apply Nat.eqb_neq; exact HneM). cbn [negb andb].
      apply ancb_spec; [apply Hlt; exact HMr|exact HxM]. }
    rewrite E in Hf. discriminate.
  - intros HM. destruct (max_in_cands x HM) as [Hc Hd]. split; [apply Hres; auto|].
    destruct (existsb (fun c' => negb (Nat.eqb x c') && ancb parents n x c') results) eqn:E; [|reflexivity].
    exfalso. apply existsb_exists in E. destruct E as (c' & Hc' & E). apply andb_prop in E. destruct E as [E1 E2].
    apply ancb_spec in E2; [|apply Hlt; exact Hc'].
    apply Hres in Hc'. destruct Hc' as [Hcc _]. apply cand_is_ca in Hcc.
    destruct HM as [_ Hmax]. specialize (Hmax c' Hcc E2). subst c'. rewrite Nat.eqb_refl in E1. discriminate.
Qed.
End Final.

Theorem find_lcas_exact n fuel l :
  c1 < n -> find_lcas parents pick n fuel c1 c2s = Some l -> forall x, In x l <-> MaxCA x.
Proof.
  intros Hn H. unfold find_lcas in H.
  destruct (run parents pick fuel (init c1 c2s)) as [s|] eqn:E; [|discriminate]. inversion H; subst.
  destruct (inv_run fuel _ _ E inv_init) as [I T]. apply finish_exact; assumption.
Qed.
End Proofs.

(* can_fast_forward is the ancestor test *)
Lemma can_ff_exact parents pick (parents_lt : forall v p, In p (parents v) -> p < v) n fuel c1 c2 b :
  c1 < n -> can_fast_forward parents pick n fuel c1 c2 = Some b -> (b = true <-> Anc parents c1 c2).
Proof.
  intros Hn H. unfold can_fast_forward in H. destruct (Nat.eqb c1 c2) eqn:E.
  - apply Nat.eqb_eq in E. subst. inversion H; subst. split; [intros _; apply anc_refl|reflexivity].
  - destruct (find_lcas parents pick n fuel c1 [c2]) as [l|] eqn:El; [|discriminate].
    pose proof (find_lcas_exact parents pick parents_lt c1 [c2] n fuel l Hn El) as X.
    assert (Hmax : Anc parents c1 c2 -> MaxCA parents c1 [c2] c1).
    { intros Ha. split; [split; [apply anc_refl|exists c2; split; [left; reflexivity|exact Ha]]|].
      intros y [Hy _] Hcy. apply (anc_antisym parents parents_lt); assumption. }
    assert (Hconv : MaxCA parents c1 [c2] c1 -> Anc parents c1 c2).
    { intros [[_ (c & [<-|[]] & Hc)] _]. exact Hc. }
    destruct l as [|x [|y l']].
    + inversion H; subst. split; [discriminate|]. intros Ha. apply Hmax in Ha. apply X in Ha. destruct Ha.
    + inversion H; subst. split.
      * intros Hx. apply Nat.eqb_eq in Hx. subst. apply Hconv. apply X. left. reflexivity.
      * intros Ha. apply Hmax in Ha. apply X in Ha. destruct Ha as [->|[]]. apply Nat.eqb_refl.
    + inversion H; subst. split; [discriminate|]. intros Ha. exfalso.
      (* with c1 an ancestor of c2 the only maximal common ancestor is c1, but l has two distinct... *)
      assert (Hx : MaxCA parents c1 [c2] x) by (apply X; left; reflexivity).
      assert (Hy : MaxCA parents c1 [c2] y) by (apply X; right; left; reflexivity).
      pose proof (Hmax Ha) as Hc.
      assert (x = c1). { destruct Hx as [[Hx1 _] Hxm]. symmetry. apply Hxm; [apply Hc|exact Hx1]. }
      assert (y = c1). { destruct Hy as [[Hy1 _] Hym]. symmetry. apply Hym; [apply Hc|exact Hy1]. }
      subst.
      (* the result list is duplicate-free *)
      unfold find_lcas in El. destruct (run parents pick fuel (init c1 [c2])) as [s|] eqn:Er; [|discriminate].
      destruct (inv_run parents pick parents_lt c1 [c2] fuel _ _ Er (inv_init parents c1 [c2])) as [I _].
      assert (Hnd : NoDup (finish parents n s)).
      { unfold finish. apply NoDup_filter. apply NoDup_filter. apply (i_nodup parents c1 [c2] s I). }
      inversion El as [El']. rewrite El' in Hnd. inversion Hnd as [|? ? Hnin _]; subst. apply Hnin. left. reflexivity.
Qed.

(* non-vacuity: the design-time counter-example of the unrepaired code (history
   0<-2<-3, 1 a second root, 4 a merge of 0 and 3) now yields {3}, and the run
   finishes within lca_fuel for a non-trivial pop order *)
Definition ex_parents (v : node) : list node :=
  match v with 2 => [0] | 3 => [2] | 4 => [0; 3] | _ => [] end.
Example ex_lca :
  find_lcas ex_parents (fun l => length l) 5 (lca_fuel 5 [4]) 3 [4] = Some [3] /\
  find_lcas ex_parents (fun _ => 0) 5 (lca_fuel 5 [4]) 3 [4] = Some [3] /\
  can_fast_forward ex_parents (fun _ => 0) 5 (lca_fuel 5 [4]) 3 4 = Some true /\
  can_fast_forward ex_parents (fun _ => 0) 5 (lca_fuel 5 [3]) 4 3 = Some false.
Proof. vm_compute. repeat split; reflexivity. Qed.
