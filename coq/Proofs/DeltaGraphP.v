(* Proofs/DeltaGraphP.v — delta resolution terminates and resolves exactly the entries whose base chain ends in a full object *)
From DV Require Import DeltaGraph.

Lemma positions_spec f es : forall k i,
  In i (positions f es k) <-> (k <= i /\ exists e, nth_error es (i - k) = Some e /\ f e = true).
Proof.
  induction es as [|e r IH]; intros k i; cbn [positions].
  - split; [contradiction|]. intros (_ & e & H & _). destruct (i - k); discriminate.
  - assert (R : In i (positions f r (S k)) <-> (S k <= i /\ exists e0, nth_error r (i - S k) = Some e0 /\ f e0 = true)) by apply IH.
    destruct (f e) eqn:F; cbn [In]; rewrite R; split.
    + intros [<-|(L & e0 & H & G)].
      * split; [lia|]. exists e. rewrite Nat.sub_diag. auto.
      * split; [lia|]. exists e0. replace (i - k) with (S (i - S k)) by lia. auto.
    + intros (L & e0 & H & G). destruct (Nat.eq_dec k i) as [->|N]; [left; reflexivity|right].
      split; [lia|]. exists e0. replace (i - k) with (S (i - S k)) in H by lia. auto.
    + intros (L & e0 & H & G). split; [lia|]. exists e0. replace (i - k) with (S (i - S k)) by lia. auto.
    + intros (L & e0 & H & G). destruct (Nat.eq_dec k i) as [->|N].
      * rewrite Nat.sub_diag in H. cbn in H. inversion H; subst. congruence.
      * split; [lia|]. exists e0. replace (i - k) with (S (i - S k)) in H by lia. auto.
Qed.

Lemma positions_nodup f es : forall k, NoDup (positions f es k).
Proof.
  induction es as [|e r IH]; intros k; cbn [positions]; [constructor|].
  destruct (f e); [|apply IH]. constructor; [|apply IH]. intros H. apply positions_spec in H. lia.
Qed.

Lemma NoDup_app_intro {A} (a b : list A) : NoDup a -> NoDup b -> (forall x, In x a -> ~ In x b) -> NoDup (a ++ b).
Proof.
  induction a as [|x a IH]; intros Ha Hb Hd; [exact Hb|]. inversion Ha as [|? ? Hx Ha']; subst.
  cbn. constructor.
  - rewrite in_app_iff. intros [H|H]; [contradiction|]. eapply Hd; [left; reflexivity|exact H].
  - apply IH; auto. intros y Hy. apply Hd. right. exact Hy.
Qed.

Section G.
  Variable es : list entry.
  Let n := length es.

  Record Inv (s : st) : Prop := {
    I_nodup : NoDup (todo s ++ out s);
    I_bound : forall i, In i (todo s ++ out s) -> i < n;
    I_pend : forall b i, In i (pending s b) -> nth_error es i = Some (EDelta b) /\ ~ In i (todo s ++ out s);
    I_pnodup : forall b, NoDup (pending s b);
    I_delta : forall i b, nth_error es i = Some (EDelta b) -> In i (pending s b) \/ In i (todo s ++ out s);
    I_full : forall i, nth_error es i = Some EFull -> In i (todo s ++ out s);
    I_popped : forall b, In b (out s) -> pending s b = [];
    I_sound : forall i, In i (todo s ++ out s) -> exists k, reaches es k i = true
  }.

  Lemma init_inv : Inv (init es).
  Proof.
    constructor; cbn [init todo pending out]; rewrite ?app_nil_r.
    - apply positions_nodup.
    - intros i H. apply positions_spec in H. destruct H as (_ & e & H & _). rewrite Nat.sub_0_r in H.
      apply nth_error_Some. congruence.
    - intros b i H. unfold waiting in H. apply positions_spec in H. destruct H as (_ & e & H & F). rewrite Nat.sub_0_r in H.
      destruct e as [|b']; [discriminate|]. apply Nat.eqb_eq in F. subst b'. split; [exact H|].
      intros X. apply positions_spec in X. destruct X as (_ & e' & H' & F'). rewrite Nat.sub_0_r in H'. rewrite H in H'. inversion H'; subst. discriminate.
    - intros b. apply positions_nodup.
    - intros i b H. left. unfold waiting. apply positions_spec. split; [lia|]. exists (EDelta b). rewrite Nat.sub_0_r. split; [exact H|apply Nat.eqb_refl].
    - intros i H. apply positions_spec. split; [lia|]. exists EFull. rewrite Nat.sub_0_r. auto.
    - intros b [].
    - intros i H. apply positions_spec in H. destruct H as (_ & e & H & F). rewrite Nat.sub_0_r in H. destruct e; [|discriminate].
      exists 1. cbn. rewrite H. reflexivity.
  Qed.

  Lemma step_inv s : Inv s -> Inv (step s).
  Proof.
    intros I. unfold step. destruct (todo s) as [|x rest] eqn:T; [exact I|].
    destruct I as [ND BD PE PN DE FU PO SO]. rewrite T in *.
    assert (Xn : ~ In x (rest ++ out s)) by (cbn [app] in ND; inversion ND; assumption).
    assert (Eq : forall i, In i ((pending s x ++ rest) ++ x :: out s) <-> In i (pending s x) \/ In i ((x :: rest) ++ out s)).
    { intros i. repeat rewrite in_app_iff. cbn [In]. repeat rewrite in_app_iff. tauto. }
    constructor; cbn [todo pending out].
    - (* NoDup *)
      rewrite <- app_assoc. apply NoDup_app_intro.
      + apply PN.
      + cbn [app] in ND. inversion ND as [|? ? Nx ND']; subst.
        apply (NoDup_Add (Add_app x rest (out s))). split; assumption.
      + intros i Hi Hi'. destruct (PE x i Hi) as [_ N]. apply N. cbn [app In]. rewrite in_app_iff in Hi'. cbn [In] in Hi'. rewrite in_app_iff. tauto.
    - intros i H. apply Eq in H. destruct H as [H|H]; [|apply BD; exact H].
      destruct (PE x i H) as [E _]. apply nth_error_Some. congruence.
    - intros b i H. destruct (Nat.eqb_spec b x) as [->|N]; [contradiction|].
      destruct (PE b i H) as [E Ni]. split; [exact E|]. intros X. apply Eq in X. destruct X as [X|X]; [|contradiction].
      destruct (PE x i X) as [E' _]. congruence.
    - intros b. destruct (Nat.eqb b x); [constructor|apply PN].
    - intros i b H. destruct (DE i b H) as [X|X].
      + destruct (Nat.eqb_spec b x) as [->|N]; [right; apply Eq; left; exact X|left; exact X].
      + right. apply Eq. right. exact X.
    - intros i H. apply Eq. right. apply FU. exact H.
    - intros b [<-|H]; [rewrite Nat.eqb_refl; reflexivity|]. destruct (Nat.eqb b x); [reflexivity|apply PO; exact H].
    - intros i H. apply Eq in H. destruct H as [H|H]; [|apply SO; exact H].
      destruct (PE x i H) as [E _]. destruct (SO x) as [k Hk]; [left; reflexivity|]. exists (S k). cbn [reaches]. rewrite E. exact Hk.
  Qed.

  (* termination: [length es] iterations always suffice *)
  Lemma run_terminates : forall f s, Inv s -> n <= f + length (out s) -> run f s <> None.
  Proof.
    induction f as [|f IH]; intros s I H.
    - cbn [run]. destruct (todo s) as [|x r] eqn:T; [discriminate|]. exfalso.
      assert (L : length (todo s ++ out s) <= n).
      { rewrite <- (seq_length n 0). apply NoDup_incl_length; [apply (I_nodup _ I)|].
        intros i Hi. apply in_seq. split; [lia|]. cbn. apply (I_bound _ I). exact Hi. }
      rewrite T, app_length in L. cbn [length] in L. lia.
    - cbn [run]. destruct (todo s) as [|x r] eqn:T; [discriminate|]. apply IH; [apply step_inv; exact I|].
      unfold step. rewrite T. cbn [out length]. lia.
  Qed.

  Lemma run_inv : forall f s s', Inv s -> run f s = Some s' -> Inv s' /\ todo s' = [].
  Proof.
    induction f as [|f IH]; intros s s' I H; cbn [run] in H; destruct (todo s) as [|x r] eqn:T; try discriminate.
    - inversion H; subst. auto.
    - inversion H; subst. auto.
    - eapply IH; [apply step_inv; exact I|exact H].
  Qed.

  (* at the end exactly the entries whose base chain reaches a full object are resolved *)
  Lemma final_exact s : Inv s -> todo s = [] -> forall i, In i (out s) <-> exists k, reaches es k i = true.
  Proof.
    intros I T i. split.
    - intros H. apply (I_sound _ I). rewrite T. exact H.
    - intros [k Hk]. revert i Hk. induction k as [|k IH]; intros i Hk; [discriminate|].
      cbn [reaches] in Hk. destruct (nth_error es i) as [[|b]|] eqn:E; try discriminate.
      + pose proof (I_full _ I i E) as X. rewrite T in X. exact X.
      + specialize (IH b Hk). destruct (I_delta _ I i b E) as [X|X].
        * rewrite (I_popped _ I b IH) in X. contradiction.
        * rewrite T in X. exact X.
  Qed.
End G.

Lemma resolve_total es : resolve es <> None.
Proof.
  unfold resolve. destruct (run (length es) (init es)) eqn:R; [discriminate|].
  exfalso. apply (run_terminates es (length es) (init es)); [apply init_inv| |exact R]. cbn. lia.
Qed.

Lemma resolve_exact es :
  (forall r, resolve es = Some (Some r) ->
     (forall i, i < length es -> exists k, reaches es k i = true) /\ (forall i, In i r <-> i < length es)) /\
  (resolve es = Some None -> exists i, i < length es /\ forall k, reaches es k i = false).
Proof.
  unfold resolve. destruct (run (length es) (init es)) as [s|] eqn:R.
  2: { split; [intros r H|intros H]; discriminate. }
  destruct (run_inv es _ _ _ (init_inv es) R) as [I T]. pose proof (final_exact es s I T) as F.
  assert (U : forall i, In i (unresolved es s) <-> i < length es /\ ~ In i (out s)).
  { intros i. unfold unresolved. rewrite filter_In, in_seq. split.
    - intros [A B]. split; [lia|]. intros X. apply negb_true_iff in B. rewrite <- not_true_iff_false in B. apply B.
      apply existsb_exists. exists i. split; [exact X|apply Nat.eqb_refl].
    - intros [A B]. split; [lia|]. apply negb_true_iff. apply not_true_iff_false. intros X. apply existsb_exists in X.
      destruct X as (y & Y1 & Y2). apply Nat.eqb_eq in Y2. subst. contradiction. }
  split.
  - intros r H. destruct (unresolved es s) as [|u us] eqn:E; [|discriminate]. inversion H; subst r.
    assert (A : forall i, i < length es -> In i (out s)).
    { intros i L. destruct (in_dec Nat.eq_dec i (out s)) as [X|X]; [exact X|]. exfalso. assert (In i []) by (apply U; auto). contradiction. }
    split; [intros i L; apply F; apply A; exact L|]. intros i. split; [|apply A].
    intros X. apply (I_bound _ _ I). rewrite T. exact X.
  - intros H. destruct (unresolved es s) as [|u us] eqn:E; [discriminate|].
    assert (X : In u (u :: us)) by (left; reflexivity). apply U in X. destruct X as [L N].
    exists u. split; [exact L|]. intros k. destruct (reaches es k u) eqn:Rk; [|reflexivity]. exfalso. apply N. apply F. exists k. exact Rk.
Qed.

Lemma existsb_eqb_In b l : existsb (Nat.eqb b) l = true <-> In b l.
Proof.
  rewrite existsb_exists. split.
  - intros (y & Hy & E). apply Nat.eqb_eq in E. subst. exact Hy.
  - intros H. exists b. split; [exact H|apply Nat.eqb_refl].
Qed.

Lemma bounded_nodup_length n (l : list nat) : NoDup l -> (forall x, In x l -> x < n) -> length l <= n.
Proof.
  intros N B. rewrite <- (seq_length n 0). apply NoDup_incl_length; [exact N|].
  intros x Hx. apply in_seq. specialize (B x Hx). lia.
Qed.

Lemma chase_total es : forall fuel rest i, NoDup (i :: rest) -> (forall x, In x rest -> x < length es) ->
  length es + 1 <= fuel + length rest -> chase es fuel (i :: rest) i <> None.
Proof.
  induction fuel as [|f IH]; intros rest i N B L.
  - exfalso. inversion N as [|? ? _ N']; subst. pose proof (bounded_nodup_length _ _ N' B). lia.
  - cbn [chase]. destruct (nth_error es i) as [[|b]|] eqn:E; try discriminate.
    destruct (existsb (Nat.eqb b) (i :: rest)) eqn:X; [discriminate|].
    apply IH.
    + constructor; [|exact N]. intros H. apply existsb_eqb_In in H. congruence.
    + intros x [<- |Hx]; [|apply B; exact Hx]. apply nth_error_Some. congruence.
    + cbn [length]. lia.
Qed.

Lemma read_entry_total es i : read_entry es i <> None.
Proof.
  unfold read_entry. apply chase_total; [constructor; [intros []|constructor]|intros x []|cbn; lia].
Qed.

Lemma chase_sound es : forall fuel seen i d, chase es fuel seen i = Some (Some d) -> exists k, reaches es k i = true.
Proof.
  induction fuel as [|f IH]; intros seen i d H; cbn [chase] in H; [discriminate|].
  destruct (nth_error es i) as [[|b]|] eqn:E; try discriminate.
  - exists 1. cbn. rewrite E. reflexivity.
  - destruct (existsb (Nat.eqb b) seen); [discriminate|]. destruct (IH _ _ _ H) as [k Hk].
    exists (S k). cbn. rewrite E. exact Hk.
Qed.

Lemma reaches_mono es : forall k i, reaches es k i = true -> reaches es (S k) i = true.
Proof.
  induction k as [|k IH]; intros i H; [discriminate|].
  cbn [reaches] in H |- *. destruct (nth_error es i) as [[|b]|]; try exact H. apply IH. exact H.
Qed.

Lemma reaches_min es : forall k i, reaches es k i = true -> exists m, reaches es (S m) i = true /\ reaches es m i = false.
Proof.
  induction k as [|k IH]; intros i H; [discriminate|].
  destruct (reaches es k i) eqn:R; [apply IH; exact R|]. exists k. split; assumption.
Qed.

Lemma chase_complete es : forall fuel k rest i,
  reaches es (S k) i = true -> reaches es k i = false -> (forall x, In x rest -> reaches es (S k) x = false) ->
  chase es fuel (i :: rest) i = None \/ exists d, chase es fuel (i :: rest) i = Some (Some d).
Proof.
  induction fuel as [|f IH]; intros k rest i R1 R0 B; [left; reflexivity|].
  cbn [chase]. cbn [reaches] in R1. destruct (nth_error es i) as [[|b]|] eqn:E; try discriminate.
  - right. eexists. reflexivity.
  - destruct k as [|k]; [discriminate|].
    assert (Rb0 : reaches es k b = false) by (cbn [reaches] in R0; rewrite E in R0; exact R0).
    destruct (existsb (Nat.eqb b) (i :: rest)) eqn:X.
    + exfalso. apply existsb_eqb_In in X. destruct X as [<- |X]; [congruence|].
      specialize (B b X). apply reaches_mono in R1. congruence.
    + apply (IH k); [exact R1|exact Rb0|].
      intros x [<- |Hx]; [exact R0|]. specialize (B x Hx).
      destruct (reaches es (S k) x) eqn:Y; [apply reaches_mono in Y; congruence|reflexivity].
Qed.

Lemma read_entry_exact es i : (exists d, read_entry es i = Some (Some d)) <-> exists k, reaches es k i = true.
Proof.
  split.
  - intros [d H]. eapply chase_sound. exact H.
  - intros [k H]. destruct (reaches_min _ _ _ H) as (m & R1 & R0).
    destruct (chase_complete es (S (length es)) m [] i R1 R0) as [N|D]; [intros x []| |exact D].
    exfalso. exact (read_entry_total es i N).
Qed.
