(* Proofs/TreeBuildP.v — the trees commit_tree builds answer lookups exactly as the listing does *)
From DV Require Import Bytes RustTwins PackIdx PackIdxP TreeDiff TreeDiffP.
From DV Require Import TreeBuild.
Local Open Scope nat_scope.

Definition prefix_free (L : listing) : Prop :=
  forall q1 v1 q2 v2, In (q1, v1) L -> In (q2, v2) L -> is_prefix q1 q2 = true -> (q1, v1) = (q2, v2).
Definition okL (L : listing) : Prop := prefix_free L /\ forall q v, In (q, v) L -> is_dir (fst v) = false.

Lemma under_in n : forall L r v, In (r, v) (under n L) <-> In (n :: r, v) L.
Proof.
  induction L as [|[[|c q] w] L IH]; intros r v; cbn [under].
  - split; intros [].
  - rewrite IH. split; [intros H; right; exact H|intros [H|H]; [discriminate|exact H]].
  - destruct (bytes_beq c n) eqn:E.
    + apply bytes_beq_spec in E. subst c. cbn [In]. rewrite IH. split; (intros [X|X]; [left; inversion X; subst; reflexivity|right; exact X]).
    + rewrite IH. split; [intros X; right; exact X|intros [X|X]; [|exact X]].
      inversion X; subst. rewrite bytes_beq_refl in E. discriminate.
Qed.

Lemma lookupL_under n : forall L r, lookupL (n :: r) L = lookupL r (under n L).
Proof.
  unfold lookupL. induction L as [|[[|c q] w] L IH]; intros r; cbn [under List.find fst path_beq]; [reflexivity|apply IH|].
  destruct (bytes_beq c n) eqn:E; cbn [andb].
  - cbn [List.find fst]. destruct (path_beq q r); [reflexivity|apply IH].
  - apply IH.
Qed.

Lemma lookupL_some q : forall L v, lookupL q L = Some v -> In (q, v) L.
Proof.
  unfold lookupL. intros L v H. destruct (List.find _ L) as [[q' v']|] eqn:E; [|discriminate].
  apply find_some in E. destruct E as [I P]. cbn in P. apply path_beq_spec in P. subst. inversion H; subst. exact I.
Qed.
Lemma lookupL_none q : forall L, lookupL q L = None -> forall v, ~ In (q, v) L.
Proof.
  unfold lookupL. intros L H v I. destruct (List.find _ L) eqn:E; [discriminate|].
  eapply find_none in E; [|exact I]. cbn in E. assert (path_beq q q = true) by (apply path_beq_spec; reflexivity). congruence.
Qed.

Lemma is_prefix_refl q : is_prefix q q = true.
Proof. induction q as [|x q IH]; cbn; [reflexivity|]. rewrite bytes_beq_refl. exact IH. Qed.

Lemma prefix_free_under n L : prefix_free L -> prefix_free (under n L).
Proof.
  intros P q1 v1 q2 v2 I1 I2 X. apply under_in in I1. apply under_in in I2.
  assert (Y : is_prefix (n :: q1) (n :: q2) = true) by (cbn; rewrite bytes_beq_refl; exact X).
  specialize (P _ _ _ _ I1 I2 Y). inversion P; subst. reflexivity.
Qed.
Lemma okL_under n L : okL L -> okL (under n L).
Proof. intros [P D]. split; [apply prefix_free_under; exact P|]. intros q v I. apply under_in in I. eapply D; eauto. Qed.

(* a name that is a file has nothing below it *)
Lemma file_has_no_children L lf : prefix_free L -> lookupL [] L = Some lf -> forall r, r <> [] -> lookupL r L = None.
Proof.
  intros P F r NE. destruct (lookupL r L) as [v|] eqn:E; [|reflexivity]. exfalso.
  apply lookupL_some in F. apply lookupL_some in E. specialize (P _ _ _ _ F E eq_refl). inversion P; subst. contradiction.
Qed.

(* the names of a level *)
Lemma ins_in n : forall l x, In x (ins n l) <-> x = n \/ In x l.
Proof.
  induction l as [|y l IH]; intros x; cbn [ins].
  - cbn. intuition.
  - destruct (bytes_cmp n y) eqn:C; cbn [In].
    + intuition.
    + apply bytes_cmp_eq in C. subst. intuition.
    + rewrite IH. intuition.
Qed.
Lemma heads_in : forall L n, In n (heads L) <-> exists r v, In (n :: r, v) L.
Proof.
  induction L as [|[[|c q] w] L IH]; intros n; cbn [heads fold_right fst].
  - split; [intros []|intros (r & v & [])].
  - fold (heads L). rewrite IH. split; intros (r & v & X); exists r, v; [right; exact X|destruct X as [X|X]; [discriminate|exact X]].
  - fold (heads L). rewrite ins_in, IH. split.
    + intros [->|(r & v & X)]; [exists q, w; left; reflexivity|exists r, v; right; exact X].
    + intros (r & v & [X|X]); [inversion X; subst; left; reflexivity|right; eauto].
Qed.

Lemma find_map_name (g : bytes -> tent) (Hg : forall n, t_name (g n) = n) n : forall l,
  find n (map g l) = if existsb (fun m => bytes_beq m n) l then Some (g n) else None.
Proof.
  unfold find. induction l as [|m l IH]; cbn [map List.find existsb]; [reflexivity|].
  rewrite Hg. destruct (bytes_beq m n) eqn:E; cbn [orb]; [apply bytes_beq_spec in E; subst; reflexivity|exact IH].
Qed.

Lemma existsb_in n l : existsb (fun m => bytes_beq m n) l = true <-> In n l.
Proof.
  rewrite existsb_exists. split.
  - intros (m & I & E). apply bytes_beq_spec in E. subst. exact I.
  - intros I. exists n. split; [exact I|apply bytes_beq_refl].
Qed.

(* names of a level come out strictly increasing *)
Inductive sorted_names : list bytes -> Prop :=
| sn_nil : sorted_names []
| sn_cons a r : Forall (fun x => bytes_cmp a x = OLt) r -> sorted_names r -> sorted_names (a :: r).

Lemma ins_sorted n : forall l, sorted_names l -> sorted_names (ins n l).
Proof.
  induction l as [|y l IH]; intros S; cbn [ins]; [constructor; [constructor|constructor]|].
  inversion S as [|? ? F S']; subst. destruct (bytes_cmp n y) eqn:C.
  - constructor; [|exact S]. constructor; [exact C|]. eapply Forall_impl; [|exact F]. intros x Hx. eapply bytes_cmp_trans; eauto.
  - exact S.
  - constructor; [|apply IH; exact S']. apply Forall_forall. intros x Hx. apply ins_in in Hx. destruct Hx as [->|Hx].
    + apply bytes_cmp_flip'. exact C.
    + rewrite Forall_forall in F. apply F. exact Hx.
Qed.
Lemma heads_sorted : forall L, sorted_names (heads L).
Proof.
  induction L as [|[[|c q] w] L IH]; cbn [heads fold_right fst]; [constructor|exact IH|]. apply ins_sorted. exact IH.
Qed.
Lemma sorted_map (g : bytes -> tent) (Hg : forall n, t_name (g n) = n) : forall l, sorted_names l -> sorted_ents (map g l).
Proof.
  induction 1 as [|a r F S IH]; cbn [map]; constructor; [|exact IH].
  apply Forall_forall. intros x Hx. apply in_map_iff in Hx. destruct Hx as (m & <- & Hm). rewrite !Hg.
  rewrite Forall_forall in F. apply F. exact Hm.
Qed.

Lemma lookupL_in_iff L q lf : prefix_free L -> (lookupL q L = Some lf <-> In (q, lf) L).
Proof.
  intros P. split; [apply lookupL_some|]. intros I. destruct (lookupL q L) as [v|] eqn:E.
  - apply lookupL_some in E. specialize (P _ _ _ _ E I (is_prefix_refl q)). inversion P; subst. reflexivity.
  - exfalso. eapply lookupL_none; eauto.
Qed.

(* the decidable domain *)
Lemma validb_ok : forall L, validb L = true -> okL L /\ forall q v, In (q, v) L -> q <> [].
Proof.
  induction L as [|[p w] L IH]; intros V.
  - split; [split|]; [intros ? ? ? ? []|intros ? ? []|intros ? ? []].
  - cbn [validb fst snd] in V. apply andb_prop in V. destruct V as [V V3]. apply andb_prop in V. destruct V as [V V2].
    apply andb_prop in V. destruct V as [V0 V1]. destruct (IH V3) as [[PF DM] NE]. rewrite forallb_forall in V2.
    assert (X : forall q v, In (q, v) L -> is_prefix p q = false /\ is_prefix q p = false).
    { intros q v I. specialize (V2 _ I). cbn [fst] in V2. apply andb_prop in V2. destruct V2 as [A B].
      split; [destruct (is_prefix p q); [discriminate|reflexivity]|destruct (is_prefix q p); [discriminate|reflexivity]]. }
    split; [split|].
    + intros q1 v1 q2 v2 [I1|I1] [I2|I2] Y.
      * congruence.
      * inversion I1; subst. destruct (X _ _ I2). congruence.
      * inversion I2; subst. destruct (X _ _ I1). congruence.
      * eapply PF; eauto.
    + intros q v [I|I]; [inversion I; subst; destruct (is_dir (fst v)); [discriminate|reflexivity]|eapply DM; eauto].
    + intros q v [I|I]; [inversion I; subst; destruct q; [discriminate|discriminate]|eapply NE; eauto].
Qed.
Lemma depth_bound : forall L q v, In (q, v) L -> length q <= depth L.
Proof.
  induction L as [|[p w] L IH]; intros q v []; cbn [depth fold_right fst].
  - inversion H; subst. apply Nat.le_max_l.
  - etransitivity; [eapply IH; eauto|apply Nat.le_max_r].
Qed.

Section B.
  Variable H : list tent -> bytes.
  Hypothesis H_inj : forall a b, H a = H b -> a = b.

  Definition entry (f : nat) (L : listing) (n : bytes) : tent :=
    match lookupL [] (under n L) with
    | Some lf => {| t_name := n; t_mode := fst lf; t_id := snd lf |}
    | None => {| t_name := n; t_mode := 16384; t_id := H (ents H f (under n L)) |}
    end.
  Lemma ents_S f L : ents H (S f) L = map (entry f L) (heads L).
  Proof. reflexivity. Qed.
  Lemma entry_name f L n : t_name (entry f L n) = n.
  Proof. unfold entry. destruct (lookupL [] (under n L)); reflexivity. Qed.

  Lemma ents_in_trees : forall f L, In (ents H f L) (trees H f L).
  Proof. intros [|f] L; cbn [trees]; [left; reflexivity|]. apply in_or_app. right. left. reflexivity. Qed.

  Lemma trees_sub f L n : In n (heads L) -> lookupL [] (under n L) = None ->
    forall t, In t (trees H f (under n L)) -> In t (trees H (S f) L).
  Proof.
    intros I N t T. cbn [trees]. apply in_or_app. left. apply in_flat_map. exists n. split; [exact I|]. rewrite N. exact T.
  Qed.

  Lemma store_hit st ts : (forall t, In t ts -> st (H t) = t) -> forall t, In t ts -> st (H t) = t.
  Proof. auto. Qed.

  Lemma store_of_hit ts t : In t ts -> store_of H ts (H t) = t.
  Proof.
    intros I. unfold store_of. destruct (List.find _ ts) as [t'|] eqn:E.
    - apply find_some in E. destruct E as [_ E]. apply bytes_beq_spec in E. apply H_inj in E. exact E.
    - eapply find_none in E; [|exact I]. cbn in E. rewrite bytes_beq_refl in E. discriminate.
  Qed.

  Definition dir_entry (n : bytes) (id : bytes) : tent := {| t_name := n; t_mode := 16384; t_id := id |}.

  Lemma is_dir_16384 : is_dir 16384 = true.
  Proof. reflexivity. Qed.

  Lemma build_lookup : forall f L, okL L -> (forall q v, In (q, v) L -> q <> [] /\ length q <= f) ->
    forall st, (forall t, In t (trees H f L) -> st (H t) = t) ->
    forall nm q, q <> [] -> look st (Some (dir_entry nm (H (ents H f L)))) q = lookupL q L.
  Proof.
    induction f as [|f IH]; intros L OK D st ST nm q NE.
    - (* no fuel: the listing is empty *)
      assert (E : L = []).
      { destruct L as [|[p v] L]; [reflexivity|]. destruct (D p v (or_introl eq_refl)) as [A B]. destruct p; [contradiction|cbn in B; lia]. }
      subst L. destruct q as [|n r]; [contradiction|]. cbn [look sub dir_entry t_mode t_id ents]. rewrite is_dir_16384.
      rewrite (ST []) by (left; reflexivity). cbn. rewrite look_none. reflexivity.
    - destruct q as [|n r]; [contradiction|].
      cbn [look sub dir_entry t_mode t_id]. rewrite is_dir_16384.
      rewrite (ST (ents H (S f) L)) by apply ents_in_trees.
      rewrite ents_S. rewrite (find_map_name (entry f L) (entry_name f L)).
      rewrite lookupL_under.
      destruct (existsb (fun m => bytes_beq m n) (heads L)) eqn:X.
      + apply existsb_in in X. unfold entry. destruct (lookupL [] (under n L)) as [lf|] eqn:F.
        * (* a file *)
          assert (IN : In ([n], lf) L) by (apply under_in; apply lookupL_some; exact F).
          destruct OK as [PF DM]. pose proof (DM _ _ IN) as ND.
          destruct r as [|m r].
          -- cbn [look as_leaf t_mode t_id]. rewrite F, ND. destruct lf; reflexivity.
          -- cbn [look sub t_mode t_id]. rewrite ND. cbn. rewrite look_none. symmetry.
             eapply file_has_no_children; [apply prefix_free_under; exact PF|exact F|discriminate].
        * (* a directory *)
          change {| t_name := n; t_mode := 16384; t_id := H (ents H f (under n L)) |} with (dir_entry n (H (ents H f (under n L)))).
          destruct r as [|m r].
          -- cbn [look as_leaf dir_entry t_mode]. rewrite is_dir_16384. symmetry. exact F.
          -- apply IH.
             ++ apply okL_under. exact OK.
             ++ intros q v I. split.
                ** intros ->. eapply lookupL_none; [exact F|exact I].
                ** apply under_in in I. destruct (D _ _ I) as [_ LE]. cbn in LE. lia.
             ++ intros t T. apply ST. eapply trees_sub; eauto.
             ++ discriminate.
      + rewrite look_none. destruct (lookupL r (under n L)) as [v|] eqn:E; [|reflexivity]. exfalso.
        apply lookupL_some in E. apply under_in in E.
        assert (In n (heads L)) by (apply heads_in; eauto). apply existsb_in in H0. congruence.
  Qed.

  (* what commit_tree writes, read back through the store it fills *)
  Lemma commit_tree_lookup fuel L : okL L -> (forall q v, In (q, v) L -> q <> [] /\ length q <= fuel) ->
    forall q, q <> [] -> look (store_of H (snd (commit_tree H fuel L))) (root (fst (commit_tree H fuel L))) q = lookupL q L.
  Proof.
    intros OK D q NE. unfold commit_tree, root. cbn [fst snd].
    apply (build_lookup fuel L OK D (store_of H (trees H fuel L)) (fun t T => store_of_hit _ t T) [] q NE).
  Qed.

  Lemma build_wft : forall f L, okL L -> (forall q v, In (q, v) L -> q <> [] /\ length q <= f) ->
    forall st, (forall t, In t (trees H f L) -> st (H t) = t) ->
    forall nm, wft f st (Some (dir_entry nm (H (ents H f L)))).
  Proof.
    induction f as [|f IH]; intros L OK D st ST nm.
    - cbn [wft sub dir_entry t_mode t_id ents]. rewrite is_dir_16384. rewrite (ST []) by (left; reflexivity). split; [constructor|reflexivity].
    - cbn [wft sub dir_entry t_mode t_id]. rewrite is_dir_16384. rewrite (ST (ents H (S f) L)) by apply ents_in_trees.
      rewrite ents_S. split; [apply sorted_map; [apply entry_name|apply heads_sorted]|].
      intros c Hc. apply in_map_iff in Hc. destruct Hc as (n & <- & Hn). unfold entry.
      destruct (lookupL [] (under n L)) as [lf|] eqn:F.
      + assert (IN : In ([n], lf) L) by (apply under_in; apply lookupL_some; exact F).
        destruct OK as [PF DM]. pose proof (DM _ _ IN) as ND.
        destruct f; cbn [wft sub t_mode]; rewrite ND; split; try constructor; try reflexivity. intros c [].
      + change {| t_name := n; t_mode := 16384; t_id := H (ents H f (under n L)) |} with (dir_entry n (H (ents H f (under n L)))).
        apply IH.
        * apply okL_under. exact OK.
        * intros q v I. split.
          -- intros ->. eapply lookupL_none; [exact F|exact I].
          -- apply under_in in I. destruct (D _ _ I) as [_ LE]. cbn in LE. lia.
        * intros t T. apply ST. eapply trees_sub; eauto.
  Qed.

  (* flattening the tree commit_tree built gives the listing back, as a set *)
  Lemma commit_tree_flatten L : validb L = true ->
    let r := commit_tree H (depth L) L in
    forall q lf, In (q, lf) (flatten (depth L) (store_of H (snd r)) {| t_name := []; t_mode := 16384; t_id := fst r |}) <-> In (q, lf) L.
  Proof.
    intros V r q lf. destruct (validb_ok L V) as [OK NE].
    assert (D : forall q v, In (q, v) L -> q <> [] /\ length q <= depth L) by (intros q0 v I; split; [eapply NE; eauto|eapply depth_bound; eauto]).
    assert (ST : forall t, In t (trees H (depth L) L) -> store_of H (trees H (depth L) L) (H t) = t) by (intros t T; apply store_of_hit; exact T).
    unfold r, commit_tree. cbn [fst snd].
    change {| t_name := []; t_mode := 16384; t_id := H (ents H (depth L) L) |} with (dir_entry [] (H (ents H (depth L) L))).
    rewrite (flatten_spec _ _ _ (build_wft _ L OK D _ ST [])).
    rewrite <- (lookupL_in_iff L q lf (proj1 OK)).
    destruct q as [|n q'].
    - cbn [look as_leaf dir_entry t_mode]. rewrite is_dir_16384. split; [discriminate|]. intros X. apply lookupL_some in X. exfalso. eapply NE; eauto.
    - rewrite (build_lookup _ L OK D _ ST [] (n :: q')) by discriminate. reflexivity.
  Qed.
End B.
