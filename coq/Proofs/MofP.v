(* Proofs/MofP.v — what the sender selects is enough for the receiver and lies within what was asked for *)
From DV Require Import Gc GcP Mof.

Section P.
  Variable kind_of : nat -> option kind.
  Variable parents : nat -> list nat.
  Variable cdeps : nat -> list nat.

  (* ---------- _collect_ancestors ---------- *)
  Definition CInv (heads common queue commits bases : list nat) : Prop :=
    (forall e, In e heads -> In e commits \/ In e bases \/ In e queue) /\
    (forall e, In e commits -> forall p, In p (parents e) -> In p commits \/ In p bases \/ In p queue) /\
    (forall e, In e bases -> In e common) /\
    (forall e, In e commits -> ~ In e common).

  Ltac ins := cbn [In] in *; repeat rewrite in_app_iff in *; cbn [In] in *.

  Lemma collect_spec heads common : forall fuel queue commits bases missing bs,
    CInv heads common queue commits bases ->
    collect parents fuel queue commits bases common = Some (missing, bs) ->
    (forall e, In e heads -> In e missing \/ In e bs) /\
    (forall e, In e missing -> forall p, In p (parents e) -> In p missing \/ In p bs) /\
    (forall e, In e bs -> In e common) /\ (forall e, In e missing -> ~ In e common).
  Proof.
    assert (Base : forall commits bases, CInv heads common [] commits bases ->
      (forall e, In e heads -> In e commits \/ In e bases) /\
      (forall e, In e commits -> forall p, In p (parents e) -> In p commits \/ In p bases) /\
      (forall e, In e bases -> In e common) /\ (forall e, In e commits -> ~ In e common)).
    { intros commits bases (A & B & C & D). repeat split; auto.
      - intros e He. specialize (A e He). ins. tauto.
      - intros e He p Hp. specialize (B e He p Hp). ins. tauto. }
    induction fuel as [|f IH]; intros queue commits bases missing bs I H.
    - destruct queue; [|discriminate]. inversion H; subst. apply Base. exact I.
    - destruct queue as [|e q]; [inversion H; subst; apply Base; exact I|].
      destruct I as (A & B & C & D). cbn [collect] in H. destruct (mem e common) eqn:Mc.
      + apply mem_In in Mc. eapply IH; [|exact H]. repeat split.
        * intros x Hx. specialize (A x Hx). ins. tauto.
        * intros x Hx p Hp. specialize (B x Hx p Hp). ins. tauto.
        * intros x Hx. ins. destruct Hx as [<-|X]; auto.
        * exact D.
      + assert (Nc : ~ In e common) by (intros X; apply mem_In in X; congruence).
        destruct (mem e commits) eqn:Mm.
        * apply mem_In in Mm. eapply IH; [|exact H]. repeat split; auto.
          -- intros x Hx. specialize (A x Hx). ins. destruct A as [X|[X|[<-|X]]]; auto.
          -- intros x Hx p Hp. specialize (B x Hx p Hp). ins. destruct B as [X|[X|[<-|X]]]; auto.
        * eapply IH; [|exact H]. repeat split.
          -- intros x Hx. specialize (A x Hx). ins. tauto.
          -- intros x Hx p Hp. ins. destruct Hx as [<-|Hx]; [tauto|]. specialize (B x Hx p Hp). ins. tauto.
          -- exact C.
          -- intros x Hx. ins. destruct Hx as [<-|X]; auto.
  Qed.

  (* ---------- the sending walk ---------- *)
  Definition SInv (roots has todo done sent : list nat) : Prop :=
    (forall x, In x done <-> In x sent \/ In x has) /\
    (forall x, In x sent -> ~ In x has) /\
    (forall x, In x roots -> In x done \/ In x todo) /\
    (forall x, In x sent -> forall d, In d (cdeps x) -> In d done \/ In d todo).

  Lemma send_spec roots has : forall fuel todo done sent r,
    SInv roots has todo done sent -> send cdeps fuel todo done sent = Some r ->
    (forall x, In x r -> ~ In x has) /\
    (forall x, In x roots -> In x r \/ In x has) /\
    (forall x, In x r -> forall d, In d (cdeps x) -> In d r \/ In d has) /\
    (forall x, In x sent -> In x r).
  Proof.
    assert (Base : forall done sent, SInv roots has [] done sent ->
      (forall x, In x sent -> ~ In x has) /\ (forall x, In x roots -> In x sent \/ In x has) /\
      (forall x, In x sent -> forall d, In d (cdeps x) -> In d sent \/ In d has) /\ (forall x, In x sent -> In x sent)).
    { intros done sent (A & B & C & D). repeat split; auto.
      - intros x Hx. destruct (C x Hx) as [X|[]]. apply A. exact X.
      - intros x Hx d Hd. destruct (D x Hx d Hd) as [X|[]]. apply A. exact X. }
    induction fuel as [|f IH]; intros todo done sent r I H.
    - destruct todo; [|discriminate]. inversion H; subst. eapply Base. exact I.
    - destruct todo as [|x rest]; [inversion H; subst; eapply Base; exact I|].
      destruct I as (A & B & C & D). cbn [send] in H. destruct (mem x done) eqn:M.
      + apply mem_In in M. eapply IH; [|exact H]. repeat split; auto; try apply A.
        * intros y Hy. specialize (C y Hy). ins. destruct C as [X|[<-|X]]; auto.
        * intros y Hy d Hd. specialize (D y Hy d Hd). ins. destruct D as [X|[<-|X]]; auto.
      + assert (N : ~ In x done) by (intros X; apply mem_In in X; congruence).
        assert (I' : SInv roots has (filter (fun d => negb (mem d done)) (cdeps x) ++ rest) (x :: done) (x :: sent)).
        { repeat split.
          - intros X. ins. destruct X as [<-|X]; [tauto|]. apply A in X. tauto.
          - intros X. ins. destruct X as [[<-|X]|X]; [tauto| |]; right; apply A; tauto.
          - intros y Hy. ins. destruct Hy as [<-|Hy]; [|apply B; exact Hy]. intros X. apply N. apply A. tauto.
          - intros y Hy. specialize (C y Hy). ins. tauto.
          - intros y Hy d Hd. ins. destruct Hy as [<-|Hy].
            + destruct (mem d done) eqn:Md; [left; right; apply mem_In; exact Md|].
              right. left. apply filter_In. split; [exact Hd|]. rewrite Md. reflexivity.
            + specialize (D y Hy d Hd). ins. tauto. }
        destruct (IH _ _ _ _ I' H) as (R1 & R2 & R3 & R4).
        repeat split; auto. intros y Hy. apply R4. right. exact Hy.
  Qed.

  (* whatever holds of the heads and is inherited by parents holds of every collected commit *)
  Lemma collect_pred (Q : nat -> Prop) common :
    (forall e p, Q e -> In p (parents e) -> Q p) ->
    forall fuel queue commits bases missing bs,
    (forall e, In e queue -> Q e) -> (forall e, In e commits -> Q e) ->
    collect parents fuel queue commits bases common = Some (missing, bs) -> forall e, In e missing -> Q e.
  Proof.
    intros HQ. induction fuel as [|f IH]; intros queue commits bases missing bs Hq Hc H.
    - destruct queue; [|discriminate]. inversion H; subst. exact Hc.
    - destruct queue as [|e q]; [inversion H; subst; exact Hc|]. cbn [collect] in H.
      destruct (mem e common); [eapply IH; [| |exact H]; auto; intros x Hx; apply Hq; right; exact Hx|].
      destruct (mem e commits); [eapply IH; [| |exact H]; auto; intros x Hx; apply Hq; right; exact Hx|].
      eapply IH; [| |exact H].
      + intros x Hx. apply in_app_iff in Hx. destruct Hx as [Hx|Hx]; [apply Hq; right; exact Hx|].
        eapply HQ; [apply Hq; left; reflexivity|exact Hx].
      + intros x [<-|Hx]; [apply Hq; left; reflexivity|apply Hc; exact Hx].
  Qed.

  (* whatever holds of the roots and is inherited along content references holds of everything sent *)
  Lemma send_pred (Q : nat -> Prop) :
    (forall x d, Q x -> In d (cdeps x) -> Q d) ->
    forall fuel todo done sent r,
    (forall x, In x todo -> Q x) -> (forall x, In x sent -> Q x) ->
    send cdeps fuel todo done sent = Some r -> forall x, In x r -> Q x.
  Proof.
    intros HQ. induction fuel as [|f IH]; intros todo done sent r Ht Hs H.
    - destruct todo; [|discriminate]. inversion H; subst. exact Hs.
    - destruct todo as [|x rest]; [inversion H; subst; exact Hs|]. cbn [send] in H.
      destruct (mem x done); [eapply IH; [| |exact H]; auto; intros y Hy; apply Ht; right; exact Hy|].
      eapply IH; [| |exact H].
      + intros y Hy. apply in_app_iff in Hy. destruct Hy as [Hy|Hy]; [|apply Ht; right; exact Hy].
        apply filter_In in Hy. eapply HQ; [apply Ht; left; reflexivity|apply Hy].
      + intros y [<-|Hy]; [apply Ht; left; reflexivity|apply Hs; exact Hy].
  Qed.

  (* ---------- the whole selection, for wants that are commits ---------- *)
  Lemma split_commits fuel l : (forall w, In w l -> kind_of w = Some KCommit) -> split kind_of fuel l = (l, [], []).
  Proof.
    induction l as [|w r IH]; intros H; [reflexivity|].
    change (split kind_of fuel (w :: r)) with
      (let '(c, t, o) := split1 kind_of fuel w in let '(c', t', o') := split kind_of fuel r in (c ++ c', t ++ t', o ++ o')).
    rewrite IH by (intros x Hx; apply H; right; exact Hx).
    assert (K : kind_of w = Some KCommit) by (apply H; left; reflexivity).
    destruct fuel; cbn [split1]; rewrite K; reflexivity.
  Qed.

  Definition tagreach (e x : nat) : Prop := reachable cdeps [e] x.

  Lemma split1_reach : (forall t x, kind_of t = Some (KTag x) -> In x (cdeps t)) ->
    forall fuel e c t o, split1 kind_of fuel e = (c, t, o) -> forall x, In x (c ++ t ++ o) -> tagreach e x.
  Proof.
    intros HT. assert (Self : forall e, tagreach e e) by (intros e; apply r_root; left; reflexivity).
    induction fuel as [|f IH]; intros e c t o H x Hx; cbn [split1] in H; destruct (kind_of e) as [[|y|]|] eqn:K.
    - inversion H; subst. cbn [app In] in Hx. destruct Hx as [<-|[]]. apply Self.
    - inversion H; subst. cbn [app In] in Hx. destruct Hx as [<-|[]]. apply Self.
    - inversion H; subst. cbn [app In] in Hx. destruct Hx as [<-|[]]. apply Self.
    - inversion H; subst. contradiction.
    - inversion H; subst. cbn [app In] in Hx. destruct Hx as [<-|[]]. apply Self.
    - destruct (split1 kind_of f y) as [[c' t'] o'] eqn:E. inversion H; subst.
      assert (Y : tagreach e y) by (eapply r_step; [apply Self|apply HT; exact K]).
      assert (G : forall z, tagreach y z -> tagreach e z).
      { intros z Hz. induction Hz as [z [<-|[]]|z d _ IHz Hd]; [exact Y|eapply r_step; eauto]. }
      apply in_app_iff in Hx. destruct Hx as [Hx|Hx]; [apply G; eapply IH; [exact E|apply in_app_iff; left; exact Hx]|].
      cbn [app In] in Hx. destruct Hx as [<-|Hx]; [apply Self|].
      apply G. eapply IH; [exact E|]. apply in_app_iff. right. exact Hx.
    - inversion H; subst. cbn [app In] in Hx. destruct Hx as [<-|[]]. apply Self.
    - inversion H; subst. contradiction.
  Qed.

  Lemma split_reach : (forall t x, kind_of t = Some (KTag x) -> In x (cdeps t)) ->
    forall fuel l c t o, split kind_of fuel l = (c, t, o) ->
    forall x, In x (c ++ t ++ o) -> exists e, In e l /\ kind_of e <> None /\ tagreach e x.
  Proof.
    intros HT fuel. induction l as [|e r IH]; intros c t o H x Hx.
    - inversion H; subst. contradiction.
    - change (split kind_of fuel (e :: r)) with
        (let '(c, t, o) := split1 kind_of fuel e in let '(c', t', o') := split kind_of fuel r in (c ++ c', t ++ t', o ++ o')) in H.
      destruct (split1 kind_of fuel e) as [[c1 t1] o1] eqn:E1. destruct (split kind_of fuel r) as [[c2 t2] o2] eqn:E2.
      inversion H; subst.
      assert (D : In x (c1 ++ t1 ++ o1) \/ In x (c2 ++ t2 ++ o2)).
      { repeat rewrite in_app_iff in Hx. repeat rewrite in_app_iff. tauto. }
      destruct D as [D|D].
      + exists e. split; [left; reflexivity|]. split; [|eapply split1_reach; eauto].
        intros K. destruct fuel; cbn [split1] in E1; rewrite K in E1; inversion E1; subst; contradiction.
      + destruct (IH _ _ _ eq_refl x D) as (e' & I & K & T). exists e'. split; [right; exact I|auto].
  Qed.

  Section Complete.
    Definition fd (o : nat) : list nat := cdeps o ++ parents o.
    Hypothesis HT : forall t x, kind_of t = Some (KTag x) -> In x (cdeps t).
    Hypothesis Hpar_commit : forall o, parents o <> [] -> kind_of o = Some KCommit.
    Hypothesis Hpar_kind : forall o p x, In p (parents o) -> kind_of p <> Some (KTag x).
    Hypothesis Hc : forall o d, In d (cdeps o) -> kind_of d = Some KCommit -> exists x, kind_of o = Some (KTag x).
    Hypothesis Hg : forall o d x, In d (cdeps o) -> kind_of d = Some (KTag x) -> exists y, kind_of o = Some (KTag y).

    Variable R : nat -> Prop.
    Hypothesis Rclosed : forall o, R o -> forall d, In d (fd o) -> R d.

    Lemma R_creach e x : R e -> reachable cdeps [e] x -> R x.
    Proof.
      intros Re H. induction H as [x [<-|[]]|x d _ IH Hd]; [exact Re|].
      eapply Rclosed; [exact IH|]. unfold fd. apply in_app_iff. left. exact Hd.
    Qed.

    Lemma select_complete fuel haves wants sent :
      (forall w, In w wants -> kind_of w = Some KCommit) ->
      select kind_of parents cdeps fuel haves wants = Some sent ->
      (forall h, In h haves -> kind_of h <> None -> R h) ->
      forall w, In w wants -> forall o, reachable fd [w] o -> R o \/ In o sent.
    Proof.
      intros Hw SEL Hh. unfold select in SEL.
      destruct (split kind_of fuel haves) as [[hc ht] ho] eqn:SH. rewrite (split_commits fuel wants Hw) in SEL.
      destruct (find_reachable parents fuel hc) as [anc|] eqn:FA; [|discriminate].
      destruct (collect parents fuel wants [] [] anc) as [[missing common]|] eqn:CO; [|discriminate].
      destruct (find_reachable cdeps fuel (flat_map cdeps (flat_map (tree_of cdeps) common))) as [trees|] eqn:FT; [|discriminate].
      cbn [filter app] in SEL. rewrite app_nil_r in SEL.
      (* the haves after splitting are with the receiver *)
      assert (Hsplit : forall x, In x (hc ++ ht ++ ho) -> R x).
      { intros x Hx. destruct (split_reach HT _ _ _ _ _ SH x Hx) as (e & Ie & Ke & Te). eapply R_creach; [apply Hh; eauto|exact Te]. }
      assert (Ranc : forall a, In a anc -> R a).
      { intros a Ha. apply (find_reachable_exact _ _ _ _ FA) in Ha. induction Ha as [a Ha|a d _ IH Hd].
        - apply Hsplit. apply in_app_iff. left. exact Ha.
        - eapply Rclosed; [exact IH|]. unfold fd. apply in_app_iff. right. exact Hd. }
      destruct (collect_spec wants anc fuel wants [] [] missing common) as (C1 & C2 & C3 & C4); [|exact CO|].
      { repeat split; try (intros e []); auto. }
      assert (Rcommon : forall c, In c common -> R c) by (intros c Hc'; apply Ranc; apply C3; exact Hc').
      assert (Rtrees : forall t, In t trees -> R t).
      { intros t Ht. apply (find_reachable_exact _ _ _ _ FT) in Ht. induction Ht as [t Ht|t d _ IH Hd].
        - apply in_flat_map in Ht. destruct Ht as (tr & Htr & Hd). apply in_flat_map in Htr. destruct Htr as (c & Hc' & Htc).
          unfold tree_of in Htc. eapply Rclosed; [eapply Rclosed; [apply Rcommon; exact Hc'|]|]; unfold fd; apply in_app_iff; left; eauto.
        - eapply Rclosed; [exact IH|]. unfold fd. apply in_app_iff. left. exact Hd. }
      assert (Rhas : forall x, In x (common ++ trees ++ ht) -> R x).
      { intros x Hx. repeat rewrite in_app_iff in Hx. destruct Hx as [X|[X|X]]; auto. apply Hsplit. repeat rewrite in_app_iff. tauto. }
      destruct (send_spec missing (common ++ trees ++ ht) fuel missing (common ++ trees ++ ht) [] sent) as (S1 & S2 & S3 & _); [|exact SEL|].
      { repeat split; auto; try (intros x []); try tauto. intros [[]|X]; exact X. }
      (* nothing collected or sent is a tag, and every commit sent was collected *)
      assert (Mnotag : forall e, In e missing -> forall x, kind_of e <> Some (KTag x)).
      { intros e He. eapply (collect_pred (fun e => forall x, kind_of e <> Some (KTag x))); [| | |exact CO|exact He].
        - intros e0 p _ Hp x. eapply Hpar_kind. exact Hp.
        - intros e0 He0 x. rewrite (Hw e0 He0). discriminate.
        - intros e0 []. }
      assert (Sq : forall x, In x sent -> (forall y, kind_of x <> Some (KTag y)) /\ (kind_of x = Some KCommit -> In x missing)).
      { eapply (send_pred (fun x => (forall y, kind_of x <> Some (KTag y)) /\ (kind_of x = Some KCommit -> In x missing))); [| | |exact SEL].
        - intros x d [Nt _] Hd. split.
          + intros y Ky. destruct (Hg x d y Hd Ky) as [z Kz]. exact (Nt z Kz).
          + intros Kd. destruct (Hc x d Hd Kd) as [z Kz]. exfalso. exact (Nt z Kz).
        - intros x Hx. split; [apply Mnotag; exact Hx|intros _; exact Hx].
        - intros x []. }
      intros w Iw o Ho. induction Ho as [o [<-|[]]|o d _ IH Hd].
      - destruct (C1 w Iw) as [X|X]; [|left; apply Rcommon; exact X].
        destruct (S2 w X) as [Y|Y]; [right; exact Y|left; apply Rhas; exact Y].
      - destruct IH as [Ro|So]; [left; eapply Rclosed; eauto|].
        unfold fd in Hd. apply in_app_iff in Hd. destruct Hd as [Hd|Hd].
        + destruct (S3 o So d Hd) as [Y|Y]; [right; exact Y|left; apply Rhas; exact Y].
        + assert (Ko : kind_of o = Some KCommit) by (apply Hpar_commit; intros E; rewrite E in Hd; contradiction).
          destruct (Sq o So) as [_ Mo]. specialize (Mo Ko).
          destruct (C2 o Mo d Hd) as [X|X]; [|left; apply Rcommon; exact X].
          destruct (S2 d X) as [Y|Y]; [right; exact Y|left; apply Rhas; exact Y].
    Qed.

    (* nothing is sent that is not reachable from what was asked for *)
    Lemma select_minimal fuel haves wants sent :
      select kind_of parents cdeps fuel haves wants = Some sent ->
      forall x, In x sent -> exists w, In w wants /\ reachable fd [w] x.
    Proof.
      intros SEL. unfold select in SEL.
      destruct (split kind_of fuel haves) as [[hc ht] ho] eqn:SH. destruct (split kind_of fuel wants) as [[wc wt] wo] eqn:SW.
      destruct (find_reachable parents fuel hc) as [anc|] eqn:FA; [|discriminate].
      destruct (collect parents fuel wc [] [] anc) as [[missing common]|] eqn:CO; [|discriminate].
      destruct (find_reachable cdeps fuel (flat_map cdeps (flat_map (tree_of cdeps) common))) as [trees|] eqn:FT; [|discriminate].
      set (Q := fun x => exists w, In w wants /\ reachable fd [w] x).
      assert (Lift : forall e x, reachable cdeps [e] x -> reachable fd [e] x).
      { intros e x H. induction H as [x Hx|x d _ IH Hd]; [apply r_root; exact Hx|]. eapply r_step; [exact IH|]. unfold fd. apply in_app_iff. left. exact Hd. }
      assert (Qsplit : forall x, In x (wc ++ wt ++ wo) -> Q x).
      { intros x Hx. destruct (split_reach HT _ _ _ _ _ SW x Hx) as (e & Ie & _ & Te). exists e. split; [exact Ie|apply Lift; exact Te]. }
      assert (Qstep : forall x d, Q x -> In d (fd x) -> Q d).
      { intros x d (w & Iw & Rw) Hd. exists w. split; [exact Iw|eapply r_step; eauto]. }
      eapply (send_pred Q); [| | |exact SEL].
      - intros x d Qx Hd. apply (Qstep x d Qx). unfold fd. apply in_app_iff. left. exact Hd.
      - intros x Hx. repeat rewrite in_app_iff in Hx. destruct Hx as [Hx|[Hx|Hx]].
        + eapply (collect_pred Q); [| | |exact CO|exact Hx].
          * intros e p Qe Hp. apply (Qstep e p Qe). unfold fd. apply in_app_iff. right. exact Hp.
          * intros e He. apply Qsplit. apply in_app_iff. left. exact He.
          * intros e [].
        + apply filter_In in Hx. apply Qsplit. repeat rewrite in_app_iff. tauto.
        + apply filter_In in Hx. apply Qsplit. repeat rewrite in_app_iff. tauto.
      - intros x [].
    Qed.
  End Complete.
End P.
