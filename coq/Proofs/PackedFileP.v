(* Proofs/PackedFileP.v — what write_packed_refs writes, get_packed_refs reads back *)
From DV Require Import Bytes RefName.
From DV Require Import PackedFile.

(* ---------- names and ids contain no separators ---------- *)
Lemma badc_fold : forall l s, d_badc (fold_left d_step l s) = d_badc s || existsb d_bad l.
Proof.
  induction l as [|b l IH]; intros s; cbn [fold_left existsb]; [rewrite orb_false_r; reflexivity|].
  rewrite IH. cbn [d_step d_badc]. rewrite orb_assoc. reflexivity.
Qed.
Lemma slash_fold : forall l s, d_slash (fold_left d_step l s) = d_slash s || existsb (fun b => b =? SLASH) l.
Proof.
  induction l as [|b l IH]; intros s; cbn [fold_left existsb]; [rewrite orb_false_r; reflexivity|].
  rewrite IH. cbn [d_step d_slash]. rewrite orb_assoc. reflexivity.
Qed.

Lemma name_clean n : check_ref_format n = true -> forallb (fun b => negb (d_bad b)) n = true /\ n <> [].
Proof.
  unfold check_ref_format, d_accept. intros H.
  repeat (apply andb_prop in H; destruct H as [H ?]).
  split.
  - match goal with X : negb (d_badc _) = true |- _ => rewrite badc_fold in X; cbn in X; apply negb_true_iff in X end.
    apply forallb_forall. intros b Hb. apply negb_true_iff. destruct (d_bad b) eqn:E; [|reflexivity].
    assert (existsb d_bad n = true) by (apply existsb_exists; exists b; auto). congruence.
  - intros ->. match goal with X : d_slash _ = true |- _ => cbn in X; discriminate end.
Qed.

Definition sep (b : Z) : bool := (b =? SP) || (b =? LF) || (b =? CR).
Lemma bad_sep b : d_bad b = false -> sep b = false.
Proof. unfold d_bad, sep, SP, LF, CR. intros H. lia. Qed.
Lemma hex_sep b : is_hex b = true -> sep b = false /\ (b =? HASH) = false /\ (b =? CARET) = false.
Proof. unfold is_hex, sep, SP, LF, CR, HASH, CARET. intros H. lia. Qed.

Definition nosep (l : bytes) : Prop := Forall (fun b => sep b = false) l.
Lemma name_nosep n : check_ref_format n = true -> nosep n /\ n <> [].
Proof.
  intros H. destruct (name_clean n H) as [C NE]. split; [|exact NE].
  apply Forall_forall. intros b Hb. rewrite forallb_forall in C. specialize (C b Hb). apply negb_true_iff in C. apply bad_sep. exact C.
Qed.
Lemma sha_facts s : valid_hexsha s = true -> nosep s /\ (exists x r, s = x :: r /\ is_hex x = true).
Proof.
  unfold valid_hexsha. intros H. apply andb_prop in H. destruct H as [L F]. rewrite forallb_forall in F. split.
  - apply Forall_forall. intros b Hb. apply (hex_sep b). apply F. exact Hb.
  - destruct s as [|x r]; [cbn in L; discriminate|]. exists x, r. split; [reflexivity|apply F; left; reflexivity].
Qed.

(* ---------- lines ---------- *)
Lemma split_lines_f_line : forall c rest cur, Forall (fun b => (b =? LF) = false) c ->
  split_lines_f (c ++ LF :: rest) cur = (rev cur ++ c ++ [LF]) :: split_lines_f rest [].
Proof.
  induction c as [|x c IH]; intros rest cur F; cbn [app split_lines_f].
  - unfold LF at 1. cbn [Z.eqb Pos.eqb]. reflexivity.
  - inversion F; subst. rewrite H1. rewrite IH by assumption. cbn [rev]. rewrite <- app_assoc. reflexivity.
Qed.

Definition is_line (l : bytes) : Prop := exists c, l = c ++ [LF] /\ Forall (fun b => (b =? LF) = false) c.
Lemma split_lines_concat : forall ls, Forall is_line ls -> split_lines (concat ls) = ls.
Proof.
  unfold split_lines. induction ls as [|l ls IH]; intros F; [reflexivity|].
  inversion F as [|? ? (c & -> & Hc) F']; subst. cbn [concat]. rewrite <- app_assoc. cbn [app].
  rewrite split_lines_f_line by exact Hc. cbn [rev app]. rewrite IH by exact F'. reflexivity.
Qed.

Lemma nosep_nolf l : nosep l -> Forall (fun b => (b =? LF) = false) l.
Proof. apply Forall_impl. intros b H. unfold sep in H. lia. Qed.
Lemma nosep_app a b : nosep a -> nosep b -> nosep (a ++ b).
Proof. intros. apply Forall_app. auto. Qed.

(* ---------- rstrip ---------- *)
Lemma rstrip_crlf_keep c : (forall x r, rev c = x :: r -> is_crlf x = false) -> rstrip_crlf c = c.
Proof.
  unfold rstrip_crlf. intros H. destruct (rev c) as [|x r] eqn:E.
  - cbn. apply (f_equal (@rev Z)) in E. rewrite rev_involutive in E. cbn in E. congruence.
  - cbn [drop_while]. rewrite (H x r eq_refl). rewrite <- E. apply rev_involutive.
Qed.
Lemma rstrip_crlf_line c : (forall x r, rev c = x :: r -> is_crlf x = false) -> rstrip_crlf (c ++ [LF]) = c.
Proof.
  intros H. unfold rstrip_crlf. rewrite rev_app_distr. cbn [rev app drop_while]. unfold is_crlf at 1. unfold LF at 1 2. cbn [Z.eqb orb].
  fold (rstrip_crlf c). apply rstrip_crlf_keep. exact H.
Qed.
Lemma nosep_last c : nosep c -> forall x r, rev c = x :: r -> is_crlf x = false.
Proof.
  intros N x r E. assert (In x c) by (apply in_rev; rewrite E; left; reflexivity).
  unfold nosep in N. rewrite Forall_forall in N. specialize (N x H). unfold sep, is_crlf in *. lia.
Qed.

(* ---------- fields ---------- *)
Lemma split_sp_f_run : forall a rest cur, Forall (fun b => (b =? SP) = false) a -> split_sp_f (a ++ rest) cur = split_sp_f rest (rev a ++ cur).
Proof.
  induction a as [|x a IH]; intros rest cur F; [reflexivity|].
  inversion F; subst. cbn [app split_sp_f]. rewrite H1. rewrite IH by assumption. cbn [rev]. rewrite <- app_assoc. reflexivity.
Qed.
Lemma nosep_nosp l : nosep l -> Forall (fun b => (b =? SP) = false) l.
Proof. apply Forall_impl. intros b H. unfold sep in H. lia. Qed.
Lemma split_sp_two a b : nosep a -> nosep b -> split_sp (a ++ [SP] ++ b) = [a; b].
Proof.
  intros A B. unfold split_sp. rewrite split_sp_f_run by (apply nosep_nosp; exact A).
  cbn [app split_sp_f]. unfold SP at 1. cbn [Z.eqb]. rewrite app_nil_r, rev_involutive.
  rewrite <- (app_nil_r b) at 1. rewrite split_sp_f_run by (apply nosep_nosp; exact B). cbn [split_sp_f]. rewrite app_nil_r, rev_involutive. reflexivity.
Qed.

(* ---------- one ref ---------- *)
Definition content (r : pref) : bytes := p_sha r ++ [SP] ++ p_name r.

Section One.
  Variable r : pref.
  Hypothesis V : valid_pref r = true.

  Lemma v_sha : valid_hexsha (p_sha r) = true.
  Proof. unfold valid_pref in V. apply andb_prop in V. destruct V as [X _]. apply andb_prop in X. tauto. Qed.
  Lemma v_name : check_ref_format (p_name r) = true.
  Proof. unfold valid_pref in V. apply andb_prop in V. destruct V as [X _]. apply andb_prop in X. tauto. Qed.
  Lemma v_peeled q : p_peeled r = Some q -> valid_hexsha q = true.
  Proof. intros E. unfold valid_pref in V. apply andb_prop in V. destruct V as [_ X]. rewrite E in X. exact X. Qed.

  Lemma content_last : forall x t, rev (content r) = x :: t -> is_crlf x = false.
  Proof.
    intros x t E. unfold content in E. rewrite !rev_app_distr in E.
    destruct (name_nosep _ v_name) as [N NE]. destruct (rev (p_name r)) as [|y t'] eqn:R.
    - apply (f_equal (@rev Z)) in R. rewrite rev_involutive in R. cbn in R. contradiction.
    - cbn in E. inversion E; subst. eapply nosep_last; eauto.
  Qed.

  Lemma content_split : split_ref_line (content r) = Some (p_sha r, p_name r).
  Proof.
    unfold split_ref_line. rewrite (rstrip_crlf_keep _ content_last). unfold content.
    rewrite split_sp_two; [|apply (sha_facts _ v_sha)|apply (name_nosep _ v_name)].
    rewrite v_sha, v_name. reflexivity.
  Qed.
  Lemma line_split : split_ref_line (content r ++ [LF]) = Some (p_sha r, p_name r).
  Proof.
    unfold split_ref_line. rewrite (rstrip_crlf_line _ content_last). unfold content.
    rewrite split_sp_two; [|apply (sha_facts _ v_sha)|apply (name_nosep _ v_name)].
    rewrite v_sha, v_name. reflexivity.
  Qed.

  Lemma content_head : exists x t, content r = x :: t /\ is_hex x = true.
  Proof. destruct (sha_facts _ v_sha) as [_ (x & t & E & Hx)]. unfold content. rewrite E. cbn. eauto. Qed.
  Lemma content_nonempty : content r <> [].
  Proof. destruct content_head as (x & t & E & _). rewrite E. discriminate. Qed.
  Lemma content_starts c : c = HASH \/ c = CARET -> starts c (content r) = false /\ starts c (content r ++ [LF]) = false.
  Proof.
    intros Hc. destruct content_head as (x & t & E & Hx). rewrite E. cbn [starts app].
    destruct (hex_sep x Hx) as (_ & A & B). destruct Hc; subst; auto.
  Qed.
  Lemma content_is_line : is_line (content r ++ [LF]).
  Proof.
    exists (content r). split; [reflexivity|]. unfold content.
    apply Forall_app. split; [apply nosep_nolf; apply (sha_facts _ v_sha)|].
    apply Forall_app. split; [constructor; [reflexivity|constructor]|apply nosep_nolf; apply (name_nosep _ v_name)].
  Qed.
End One.

(* the "^<peeled>" line *)
Lemma peeled_line q : valid_hexsha q = true ->
  starts HASH ([CARET] ++ q ++ [LF]) = false /\ rstrip_crlf ([CARET] ++ q ++ [LF]) = CARET :: q /\ is_line ([CARET] ++ q ++ [LF]).
Proof.
  intros H. destruct (sha_facts _ H) as [N _]. split; [reflexivity|]. split.
  - change ([CARET] ++ q ++ [LF]) with ((CARET :: q) ++ [LF]). apply rstrip_crlf_line.
    intros x t E. cbn [rev] in E. destruct (rev q) as [|y t'] eqn:R.
    + cbn in E. inversion E; subst. reflexivity.
    + cbn in E. inversion E; subst. eapply nosep_last; eauto.
  - exists (CARET :: q). split; [reflexivity|]. constructor; [reflexivity|apply nosep_nolf; exact N].
Qed.

Definition all_valid (l : list pref) : Prop := Forall (fun r => valid_pref r = true) l.

Lemma pref_eta r : {| p_name := p_name r; p_sha := p_sha r; p_peeled := p_peeled r |} = r.
Proof. destruct r; reflexivity. Qed.

Lemma pref_ext r p : p_peeled r = p -> {| p_name := p_name r; p_sha := p_sha r; p_peeled := p |} = r.
Proof. intros <-. apply pref_eta. Qed.

Definition tail_lines (r : pref) : list bytes := match p_peeled r with Some q => [[CARET] ++ q ++ [LF]] | None => [] end.
Lemma ref_lines_true r : ref_lines true r = (content r ++ [LF]) :: tail_lines r.
Proof. unfold ref_lines, tail_lines, content. rewrite <- !app_assoc. destruct (p_peeled r); reflexivity. Qed.

(* with a ref line pending, the rest of the file yields that ref first *)
Lemma read_pending : forall l, all_valid l -> forall r, valid_pref r = true ->
  read_peeled (tail_lines r ++ flat_map (ref_lines true) l) (content r) = Some (r :: l).
Proof.
  induction l as [|r' l IH]; intros AV r V.
  - cbn [flat_map]. rewrite app_nil_r. unfold tail_lines. destruct (p_peeled r) as [q|] eqn:P.
    + pose proof (v_peeled r V q P) as VQ. destruct (peeled_line q VQ) as (A & B & _).
      cbn [read_peeled]. rewrite A, B. cbn [starts tl]. rewrite Z.eqb_refl.
      destruct (content r) eqn:C; [exfalso; exact (content_nonempty r V C)|]. rewrite <- C.
      rewrite VQ, (content_split r V). do 2 f_equal; clear - P; destruct r; cbn in *; subst; reflexivity.
    + cbn [read_peeled]. destruct (content r) eqn:C; [exfalso; exact (content_nonempty r V C)|]. rewrite <- C.
      rewrite (content_split r V). do 2 f_equal; clear - P; destruct r; cbn in *; subst; reflexivity.
  - inversion AV as [|? ? V' AV']; subst.
    assert (NXT : read_peeled (flat_map (ref_lines true) (r' :: l)) [] = Some (r' :: l)).
    { cbn [flat_map]. rewrite ref_lines_true. cbn [app read_peeled].
      destruct (content_starts r' V' HASH (or_introl eq_refl)) as [_ A]. rewrite A.
      rewrite (rstrip_crlf_line _ (content_last r' V')).
      destruct (content_starts r' V' CARET (or_intror eq_refl)) as [B _]. rewrite B.
      apply IH; assumption. }
    unfold tail_lines. destruct (p_peeled r) as [q|] eqn:P.
    + pose proof (v_peeled r V q P) as VQ. destruct (peeled_line q VQ) as (A & B & _).
      set (pl := [CARET] ++ q ++ [LF]) in *. cbn [app read_peeled]. rewrite A, B. cbn [starts tl]. rewrite Z.eqb_refl.
      destruct (content r) eqn:C; [exfalso; exact (content_nonempty r V C)|]. rewrite <- C.
      rewrite VQ, (content_split r V). rewrite NXT. do 2 f_equal; clear - P; destruct r; cbn in *; subst; reflexivity.
    + cbn [app flat_map]. rewrite ref_lines_true. cbn [app read_peeled].
      destruct (content_starts r' V' HASH (or_introl eq_refl)) as [_ A]. rewrite A.
      rewrite (rstrip_crlf_line _ (content_last r' V')).
      destruct (content_starts r' V' CARET (or_intror eq_refl)) as [B _]. rewrite B.
      destruct (content r) eqn:C; [exfalso; exact (content_nonempty r V C)|]. rewrite <- C.
      rewrite (content_split r V). rewrite (IH AV' r' V'). do 2 f_equal; clear - P; destruct r; cbn in *; subst; reflexivity.
Qed.

Lemma read_all : forall l, all_valid l -> read_peeled (flat_map (ref_lines true) l) [] = Some l.
Proof.
  intros [|r l] AV; [reflexivity|]. inversion AV as [|? ? V AV']; subst.
  cbn [flat_map]. rewrite ref_lines_true. cbn [app read_peeled].
  destruct (content_starts r V HASH (or_introl eq_refl)) as [_ A]. rewrite A.
  rewrite (rstrip_crlf_line _ (content_last r V)).
  destruct (content_starts r V CARET (or_intror eq_refl)) as [B _]. rewrite B.
  apply read_pending; assumption.
Qed.

Lemma lines_are_lines b : forall l, all_valid l -> Forall is_line (flat_map (ref_lines b) l).
Proof.
  induction l as [|r l IH]; intros AV; [constructor|]. inversion AV as [|? ? V AV']; subst.
  cbn [flat_map]. apply Forall_app. split; [|apply IH; exact AV'].
  unfold ref_lines. constructor.
  - pose proof (content_is_line r V) as L. unfold content in L. rewrite <- !app_assoc in L. exact L.
  - destruct (p_peeled r) as [q|] eqn:P; [|constructor]. destruct b; [|constructor].
    constructor; [|constructor]. apply (peeled_line q (v_peeled r V q P)).
Qed.

Lemma header_split rest : split_lines (HEADER ++ rest) = HEADER :: split_lines rest.
Proof. reflexivity. Qed.

(* what the object store writes (always with the header) reads back unchanged *)
Lemma roundtrip_peeled l : all_valid l -> read_packed (write_packed true l) = Some l.
Proof.
  intros AV. unfold read_packed, write_packed. rewrite header_split.
  replace (is_prefix_b PACKREFS (rstrip HEADER) && contains SP_PEELED (rstrip HEADER)) with true by (vm_compute; reflexivity).
  rewrite split_lines_concat by (apply lines_are_lines; exact AV). apply read_all. exact AV.
Qed.

(* ---------- written without peeled values: no header ---------- *)
Lemma drop_while_suffix f : forall m, exists pre, m = pre ++ drop_while f m.
Proof.
  induction m as [|x m [pre IH]]; [exists []; reflexivity|]. cbn [drop_while]. destruct (f x).
  - exists (x :: pre). cbn. f_equal. exact IH.
  - exists []. reflexivity.
Qed.
Lemma rstrip_prefix l : exists t, l = rstrip l ++ t.
Proof.
  unfold rstrip. destruct (drop_while_suffix is_space (rev l)) as [pre E].
  exists (rev pre). rewrite <- rev_app_distr, <- E. symmetry. apply rev_involutive.
Qed.
Lemma not_header l x t : l = x :: t -> (x =? HASH) = false -> is_prefix_b PACKREFS (rstrip l) = false.
Proof.
  intros E H. destruct (rstrip_prefix l) as [u U]. destruct (rstrip l) as [|y w] eqn:R; [reflexivity|].
  rewrite E in U. cbn in U. inversion U; subst. cbn [PACKREFS is_prefix_b]. unfold HASH in H. rewrite Z.eqb_sym in H. rewrite H. reflexivity.
Qed.

Lemma ref_lines_false r : ref_lines false r = [content r ++ [LF]].
Proof. unfold ref_lines, content. rewrite <- !app_assoc. destruct (p_peeled r); reflexivity. Qed.

Lemma read_plain_all : forall l, all_valid l -> read_plain (flat_map (ref_lines false) l) = Some (map drop_peeled l).
Proof.
  induction l as [|r l IH]; intros AV; [reflexivity|]. inversion AV as [|? ? V AV']; subst.
  cbn [flat_map map]. rewrite ref_lines_false. cbn [app read_plain].
  destruct (content_starts r V HASH (or_introl eq_refl)) as [_ A]. rewrite A.
  destruct (content_starts r V CARET (or_intror eq_refl)) as [_ B]. rewrite B.
  rewrite (line_split r V). rewrite (IH AV'). reflexivity.
Qed.

Lemma roundtrip_plain l : all_valid l -> l <> [] -> read_packed (write_packed false l) = Some (map drop_peeled l).
Proof.
  intros AV NE. unfold read_packed, write_packed. cbn [app].
  rewrite split_lines_concat by (apply lines_are_lines; exact AV).
  destruct l as [|r l]; [contradiction|]. inversion AV as [|? ? V AV']; subst.
  cbn [flat_map]. rewrite ref_lines_false. cbn [app].
  destruct (content_head r V) as (x & t & E & Hx). destruct (hex_sep x Hx) as (_ & NH & _).
  rewrite (not_header (content r ++ [LF]) x (t ++ [LF])) by (rewrite ?E; auto). cbn [andb].
  rewrite <- (read_plain_all (r :: l) AV). cbn [flat_map]. rewrite ref_lines_false. reflexivity.
Qed.
