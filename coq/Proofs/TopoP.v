From DV Require Import Walk WalkP.

Ltac insolve := cbn [app In] in *; repeat rewrite in_app_iff in *; cbn [In] in *; repeat rewrite in_app_iff in *; tauto.

Section T.
  Variable parents : nat -> list nat.

  Definition occ (p : nat) (l : list nat) : nat := count_occ Nat.eq_dec l p.
  Definition tot (l : list nat) (p : nat) : nat := occ p (flat_map parents l).

  Lemma tot_cons e l p : tot (e :: l) p = occ p (parents e) + tot l p.
  Proof. unfold tot, occ. cbn [flat_map]. apply count_occ_app. Qed.

  Lemma tot_app a b p : tot (a ++ b) p = tot a p + tot b p.
  Proof. unfold tot, occ. rewrite flat_map_app. apply count_occ_app. Qed.

  Lemma tot_remove1 x l p : NoDup l -> In x l -> tot l p = occ p (parents x) + tot (remove1 x l) p.
  Proof.
    induction l as [|y l IH]; intros N I; [contradiction|]. inversion N as [|? ? Ny Nl]; subst.
    unfold remove1 in *. cbn [filter]. destruct (Nat.eqb_spec y x) as [->|Ne]; cbn [negb].
    - rewrite tot_cons. f_equal. f_equal.
      clear -Ny. induction l as [|z l IH]; [reflexivity|]. cbn [filter].
      destruct (Nat.eqb_spec z x) as [->|Nz]; cbn [negb]; [exfalso; apply Ny; left; reflexivity|].
      f_equal. apply IH. intros X. apply Ny. right. exact X.
    - destruct I as [->|I]; [contradiction|]. rewrite !tot_cons, (IH Nl I). lia.
  Qed.

  (* the loop invariant *)
  Record TInv (entries : list nat) (s : tst) : Prop := {
    T_nodup : NoDup (todo s ++ pending s ++ tout s);
    T_sub : forall e, In e (todo s ++ pending s ++ tout s) -> In e entries;
    T_cnt : forall p, cnt s p = tot (todo s) p + tot (pending s) p;
    (* nothing already yielded is a parent of something still waiting *)
    T_free : forall c p, In c (todo s ++ pending s) -> In p (tout s) -> ~ In p (parents c);
    (* the output so far: no commit comes after one of its parents (newest first: a parent is never deeper in the list) *)
    T_ord : forall a c b, tout s = a ++ c :: b -> forall p, In p b -> ~ In p (parents c)
  }.

  Lemma occ_zero_notin p l : occ p l = 0 -> ~ In p l.
  Proof. unfold occ. intros H X. apply (count_occ_In Nat.eq_dec) in X. lia. Qed.

  Lemma tot_zero_notin l p : tot l p = 0 -> forall c, In c l -> ~ In p (parents c).
  Proof.
    intros H c Hc X. unfold tot in H. apply occ_zero_notin in H. apply H. apply in_flat_map. exists c. auto.
  Qed.

  Lemma nodup_move {T} (x : T) a b : NoDup (x :: a ++ b) <-> NoDup (a ++ x :: b).
  Proof.
    split; intros H.
    - inversion H; subst. apply (NoDup_Add (Add_app x a b)). auto.
    - apply (NoDup_Add (Add_app x a b)) in H. destruct H. constructor; assumption.
  Qed.

  Lemma in_remove1 x l y : In y (remove1 x l) <-> In y l /\ y <> x.
  Proof.
    unfold remove1. rewrite filter_In. split; intros [A B]; split; auto.
    - destruct (Nat.eqb_spec y x); [discriminate|assumption].
    - destruct (Nat.eqb_spec y x); [contradiction|reflexivity].
  Qed.

  Lemma nodup_remove1 x l : NoDup l -> NoDup (remove1 x l).
  Proof. intros N. unfold remove1. apply NoDup_filter. exact N. Qed.

  (* the inner loop over the parents of the commit just yielded *)
  Record RInv (entries : list nat) (rem : list nat) (s : tst) : Prop := {
    R_nodup : NoDup (todo s ++ pending s ++ tout s);
    R_sub : forall e, In e (todo s ++ pending s ++ tout s) -> In e entries;
    R_cnt : forall p, cnt s p = tot (todo s) p + tot (pending s) p + occ p rem;
    R_free : forall c p, In c (todo s ++ pending s) -> In p (tout s) -> ~ In p (parents c);
    R_ord : forall a c b, tout s = a ++ c :: b -> forall p, In p b -> ~ In p (parents c)
  }.

  Lemma release_inv entries q rem s : RInv entries (q :: rem) s -> RInv entries rem (release s q).
  Proof.
    intros [N Sb C F O]. unfold release.
    assert (Cq : dec (cnt s) q q = cnt s q - 1) by (unfold dec; rewrite Nat.eqb_refl; reflexivity).
    assert (Co : forall p, p <> q -> dec (cnt s) q p = cnt s p) by (intros p Hp; unfold dec; destruct (Nat.eqb_spec p q); [contradiction|reflexivity]).
    assert (Oq : occ q (q :: rem) = S (occ q rem)) by (unfold occ; cbn; destruct (Nat.eq_dec q q); [reflexivity|contradiction]).
    assert (Oo : forall p, p <> q -> occ p (q :: rem) = occ p rem) by (intros p Hp; unfold occ; cbn; destruct (Nat.eq_dec q p); [congruence|reflexivity]).
    destruct ((dec (cnt s) q q =? 0) && mem q (pending s)) eqn:B.
    - apply andb_prop in B. destruct B as [_ Mq]. apply mem_In in Mq.
      destruct (NoDup_app_parts _ _ N) as (Nt & Npt & D1). destruct (NoDup_app_parts _ _ Npt) as (Np & No & D2).
      assert (Eq : forall x, In x ((q :: todo s) ++ remove1 q (pending s) ++ tout s) <-> In x (todo s ++ pending s ++ tout s)).
      { intros x. cbn [app In]. rewrite !in_app_iff, in_remove1. destruct (Nat.eq_dec x q) as [->|Nx]; [tauto|]. split; intros H; intuition congruence. }
      constructor; cbn [todo pending cnt tout].
      + cbn [app]. constructor.
        * rewrite !in_app_iff, in_remove1. intros [X|[[_ X]|X]]; [exact (D1 q X (proj2 (in_app_iff _ _ _) (or_introl Mq)))|congruence|exact (D2 q Mq X)].
        * apply NoDup_app_build; [exact Nt|apply NoDup_app_build; [apply nodup_remove1; exact Np|exact No|]|].
          -- intros x X. apply in_remove1 in X. apply D2. apply X.
          -- intros x X Y. apply (D1 x X). rewrite in_app_iff in *. rewrite in_remove1 in Y. tauto.
      + intros e He. apply Sb. apply Eq. exact He.
      + intros p. rewrite tot_cons. pose proof (tot_remove1 q (pending s) p Np Mq) as TR.
        destruct (Nat.eq_dec p q) as [->|Np']; [rewrite Cq, (C q), Oq|rewrite (Co p Np'), (C p), (Oo p Np')]; lia.
      + intros c p Hc Hp. apply F; [|exact Hp]. cbn [app In] in Hc. rewrite in_app_iff, in_remove1 in Hc. rewrite in_app_iff.
        destruct Hc as [<- |[X|[X _]]]; tauto.
      + exact O.
    - constructor; cbn [todo pending cnt tout]; auto.
      intros p. destruct (Nat.eq_dec p q) as [->|Np']; [rewrite Cq, (C q), Oq|rewrite (Co p Np'), (C p), (Oo p Np')]; lia.
  Qed.

  Lemma releases_inv entries : forall ps s, RInv entries ps s -> RInv entries [] (fold_left release ps s).
  Proof. induction ps as [|q r IH]; intros s I; [exact I|]. cbn [fold_left]. apply IH. apply release_inv. exact I. Qed.

  Lemma tstep_inv entries s : TInv entries s -> TInv entries (tstep parents s).
  Proof.
    intros [N Sb C F O]. unfold tstep. destruct (todo s) as [|e rest] eqn:T; [constructor; rewrite ?T; assumption|].
    destruct (cnt s e =? 0) eqn:Z.
    - apply Nat.eqb_eq in Z.
      assert (Ze : tot rest e = 0 /\ tot (pending s) e = 0 /\ occ e (parents e) = 0).
      { pose proof (C e) as Ce. rewrite tot_cons in Ce. lia. }
      destruct Ze as (Z1 & Z2 & Z3).
      assert (R0 : RInv entries (parents e) {| todo := rest; pending := pending s; cnt := cnt s; tout := e :: tout s |}).
      { constructor; cbn [todo pending cnt tout].
        - cbn [app] in N. rewrite app_assoc. apply nodup_move. rewrite <- app_assoc. exact N.
        - intros x X. apply Sb. insolve.
        - intros p. rewrite (C p), tot_cons. lia.
        - intros c p Hc [<- |Hp].
          + apply in_app_iff in Hc. destruct Hc as [Hc|Hc]; [exact (tot_zero_notin _ _ Z1 c Hc)|exact (tot_zero_notin _ _ Z2 c Hc)].
          + apply F; [|exact Hp]. cbn [app In]. right. exact Hc.
        - intros a c b E p Hp. destruct a as [|x a]; cbn [app] in E; inversion E; subst.
          + apply F; [left; reflexivity|exact Hp].
          + eapply O; eauto. }
      destruct (releases_inv entries _ _ R0) as [N' S' C' F' O'].
      constructor; auto. intros p. rewrite (C' p). unfold occ. cbn. lia.
    - constructor; cbn [todo pending cnt tout].
      + cbn [app] in N. apply nodup_move. exact N.
      + intros x X. apply Sb. insolve.
      + intros p. rewrite (C p), !tot_cons. lia.
      + intros c p Hc Hp. apply F; [|exact Hp]. insolve.
      + exact O.
  Qed.

  Lemma fold_inc_count : forall l f p, fold_left inc l f p = f p + occ p l.
  Proof.
    induction l as [|x l IH]; intros f p; cbn [fold_left]; [unfold occ; cbn; lia|].
    rewrite IH. unfold inc, occ. cbn [count_occ]. destruct (Nat.eqb_spec p x) as [E|N]; destruct (Nat.eq_dec x p); try congruence; lia.
  Qed.

  Lemma tinit_inv entries : NoDup entries -> TInv entries (tinit parents entries).
  Proof.
    intros N. constructor; cbn [tinit todo pending cnt tout].
    - rewrite app_nil_r. exact N.
    - intros e H. rewrite app_nil_r in H. exact H.
    - intros p. rewrite fold_inc_count. unfold tot at 2. unfold occ at 2. cbn. unfold tot. lia.
    - intros c p _ [].
    - intros a c b E. destruct a; discriminate.
  Qed.

  Lemma trun_inv entries : forall fuel s s', TInv entries s -> trun parents fuel s = Some s' -> TInv entries s'.
  Proof.
    induction fuel as [|f IH]; intros s s' I H; cbn [trun] in H; destruct (todo s) eqn:T; try discriminate.
    - inversion H; subst. exact I.
    - inversion H; subst. exact I.
    - eapply IH; [|exact H]. apply tstep_inv. exact I.
  Qed.

  Lemma topo_order_lemma fuel entries l : NoDup entries -> topo parents fuel entries = Some l ->
    NoDup l /\ (forall e, In e l -> In e entries) /\
    forall l1 c l2, l = l1 ++ c :: l2 -> forall p, In p l1 -> ~ In p (parents c).
  Proof.
    intros N H. unfold topo in H. destruct (trun parents fuel (tinit parents entries)) as [s|] eqn:R; [|discriminate]. inversion H; subst l.
    destruct (trun_inv entries _ _ _ (tinit_inv entries N) R) as [N' S' _ _ O'].
    destruct (NoDup_app_parts _ _ N') as (_ & Npt & _). destruct (NoDup_app_parts _ _ Npt) as (_ & No & _).
    split; [apply NoDup_rev; exact No|]. split.
    - intros e He. apply S'. rewrite !in_app_iff. right. right. apply in_rev. exact He.
    - intros l1 c l2 E p Hp. apply (O' (rev l2) c (rev l1)); [|apply (proj1 (in_rev _ _)); exact Hp].
      rewrite <- (rev_involutive (tout s)), E, rev_app_distr. cbn [rev]. rewrite <- app_assoc. reflexivity.
  Qed.
End T.
