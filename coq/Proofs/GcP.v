(* Proofs/GcP.v — the worklist computes exactly the reachable set; gc removes only unreachable objects *)
From DV Require Import Gc.

Lemma mem_In x l : mem x l = true <-> In x l.
Proof.
  unfold mem. rewrite existsb_exists. split.
  - intros (y & I & E). apply Nat.eqb_eq in E. subst. exact I.
  - intros I. exists x. split; [exact I|apply Nat.eqb_refl].
Qed.

Section P.
  Variable deps : nat -> list nat.
  Variable roots : list nat.

  (* invariant of the loop *)
  Definition Inv (pending reach : list nat) : Prop :=
    (forall o, In o reach -> reachable deps roots o) /\
    (forall o, In o pending -> In o reach) /\
    (forall o, In o reach -> In o pending \/ forall d, In d (deps o) -> In d reach).

  Lemma visit_spec pending reach d :
    let '(p', r') := visit (pending, reach) d in
    (forall o, In o r' <-> o = d \/ In o reach) /\ (forall o, In o p' <-> In o pending \/ (o = d /\ ~ In d reach)).
  Proof.
    unfold visit. destruct (mem d reach) eqn:E.
    - apply mem_In in E. split; intros o; split; intros H; auto.
      + destruct H as [->|H]; assumption.
      + destruct H as [H|[-> N]]; [exact H|contradiction].
    - assert (N : ~ In d reach) by (intros X; apply mem_In in X; congruence).
      split; intros o; split; intros H.
      + destruct H as [<-|H]; auto.
      + destruct H as [->|H]; [left; reflexivity|right; exact H].
      + apply in_app_iff in H. destruct H as [H|[<-|[]]]; auto.
      + apply in_app_iff. destruct H as [H|[-> _]]; [left; exact H|right; left; reflexivity].
  Qed.

  (* folding visit over a list of references *)
  Lemma visits_spec ds : forall pending reach,
    let '(p', r') := fold_left visit ds (pending, reach) in
    (forall o, In o r' <-> In o ds \/ In o reach) /\
    (forall o, In o p' -> In o pending \/ In o ds) /\
    (forall o, In o pending -> In o p') /\
    (forall o, In o ds -> ~ In o reach -> In o p').
  Proof.
    induction ds as [|d t IH]; intros pending reach; cbn [fold_left].
    - repeat split; auto; intros; try tauto; try contradiction. destruct H; [contradiction|assumption].
    - pose proof (visit_spec pending reach d) as V. destruct (visit (pending, reach) d) as [p1 r1]. destruct V as [V1 V2].
      specialize (IH p1 r1). destruct (fold_left visit t (p1, r1)) as [p' r']. destruct IH as (A & B & C & D).
      split; [|split; [|split]].
      + intros o. rewrite A, V1. cbn [In]. split; intros H; intuition (subst; auto).
      + intros o H. destruct (B o H) as [X|X]; [apply V2 in X; destruct X as [X|[-> _]]; [left; exact X|right; left; reflexivity]|right; right; exact X].
      + intros o H. apply C. apply V2. left. exact H.
      + intros o [<-|H] N.
        * apply C. apply V2. right. auto.
        * destruct (in_dec Nat.eq_dec o (d :: nil)) as [[<-|[]]|N2].
          -- apply C. apply V2. right. auto.
          -- apply D; [exact H|]. intros X. apply V1 in X. destruct X as [X|X]; [apply N2; left; auto|contradiction].
  Qed.

  Lemma walk_sound_complete : forall fuel pending reach R,
    Inv pending reach -> walk deps fuel pending reach = Some R ->
    (forall o, In o R -> reachable deps roots o) /\
    (forall o, In o reach -> In o R) /\
    (forall o, In o R -> forall d, In d (deps o) -> In d R).
  Proof.
    induction fuel as [|f IH]; intros pending reach R (S & P & C) H.
    - destruct pending as [|x rest]; [|discriminate]. inversion H; subst. repeat split; auto.
      intros o Ho d Hd. destruct (C o Ho) as [[]|X]. apply X. exact Hd.
    - destruct pending as [|x rest].
      + inversion H; subst. repeat split; auto. intros o Ho d Hd. destruct (C o Ho) as [[]|X]. apply X. exact Hd.
      + cbn [walk] in H. pose proof (visits_spec (deps x) rest reach) as V.
        destruct (fold_left visit (deps x) (rest, reach)) as [p' r']. destruct V as (A & B & Cc & D).
        assert (I' : Inv p' r').
        { split; [|split].
          - intros o Ho. apply A in Ho. destruct Ho as [Ho|Ho]; [|apply S; exact Ho].
            eapply r_step; [apply S; apply P; left; reflexivity|exact Ho].
          - intros o Ho. apply A. destruct (B o Ho) as [X|X]; [right; apply P; right; exact X|left; exact X].
          - intros o Ho. apply A in Ho. destruct Ho as [Ho|Ho].
            + destruct (in_dec Nat.eq_dec o reach) as [I|N].
              * (* already marked: handled below like any marked object *)
                destruct (C o I) as [[<-|X]|X].
                -- right. intros d Hd. apply A. left. exact Hd.
                -- left. apply Cc. exact X.
                -- right. intros d Hd. apply A. right. apply X. exact Hd.
              * left. apply D; assumption.
            + destruct (C o Ho) as [[<-|X]|X].
              * right. intros d Hd. apply A. left. exact Hd.
              * left. apply Cc. exact X.
              * right. intros d Hd. apply A. right. apply X. exact Hd. }
        destruct (IH _ _ _ I' H) as (R1 & R2 & R3). split; [exact R1|]. split; [|exact R3].
        intros o Ho. apply R2. apply A. right. exact Ho.
  Qed.

  Lemma find_reachable_exact fuel R : find_reachable deps fuel roots = Some R ->
    forall o, In o R <-> reachable deps roots o.
  Proof.
    unfold find_reachable. pose proof (visits_spec roots [] []) as V.
    destruct (fold_left visit roots ([], [])) as [p r]. destruct V as (A & B & C & D). intros H.
    assert (I : Inv p r).
    { split; [|split].
      - intros o Ho. apply A in Ho. destruct Ho as [Ho|[]]. apply r_root. exact Ho.
      - intros o Ho. apply A. destruct (B o Ho) as [[]|X]. left. exact X.
      - intros o Ho. apply A in Ho. destruct Ho as [Ho|[]]. left. apply D; [exact Ho|intros []]. }
    destruct (walk_sound_complete _ _ _ _ I H) as (S1 & S2 & S3). intros o. split; [apply S1|].
    induction 1 as [o Ho|o d _ IH Hd].
    - apply S2. apply A. left. exact Ho.
    - eapply S3; eauto.
  Qed.

  (* gc: nothing reachable is removed; only unreachable, old enough objects go *)
  Lemma gc_removes_only_unreachable fuel R stored old_enough to_prune :
    find_reachable deps fuel roots = Some R ->
    (forall o, In o to_prune -> In o (prunable stored R old_enough)) ->
    (forall o, In o stored -> reachable deps roots o -> In o (after_gc stored to_prune)) /\
    (forall o, In o stored -> ~ In o (after_gc stored to_prune) -> ~ reachable deps roots o /\ old_enough o = true).
  Proof.
    intros H Sub. pose proof (find_reachable_exact _ _ H) as E. split.
    - intros o So Ro. unfold after_gc. apply filter_In. split; [exact So|].
      destruct (mem o to_prune) eqn:M; [|reflexivity]. apply mem_In in M. apply Sub in M.
      unfold prunable in M. apply filter_In in M. destruct M as [_ M]. apply andb_prop in M. destruct M as [M _].
      apply E in Ro. apply mem_In in Ro. rewrite Ro in M. discriminate.
    - intros o So N. unfold after_gc in N. rewrite filter_In in N.
      destruct (mem o to_prune) eqn:M; [|exfalso; apply N; auto].
      apply mem_In in M. apply Sub in M. unfold prunable in M. apply filter_In in M. destruct M as [_ M].
      apply andb_prop in M. destruct M as [M1 M2]. split; [|exact M2].
      intros Ro. apply E in Ro. apply mem_In in Ro. rewrite Ro in M1. discriminate.
  Qed.
End P.
