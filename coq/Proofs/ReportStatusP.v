From DV Require Import Bytes PackedFile Caps CapsP.
From DV Require Import ReportStatus.

Lemma split1_f_run : forall a rest cur, Forall (fun b => (b =? SP) = false) a ->
  split1_f (a ++ SP :: rest) cur = Some (rev cur ++ a, rest).
Proof.
  induction a as [|x a IH]; intros rest cur F; cbn [app split1_f].
  - rewrite Z.eqb_refl. rewrite app_nil_r. reflexivity.
  - inversion F as [|? ? Hx F']; subst. rewrite Hx. rewrite IH by exact F'. cbn [rev]. rewrite <- app_assoc. reflexivity.
Qed.

Lemma split1_at a rest : Forall (fun b => (b =? SP) = false) a -> split1 (a ++ SP :: rest) = Some (a, rest).
Proof. intros F. unfold split1. rewrite split1_f_run by exact F. reflexivity. Qed.

Lemma split1_none : forall a cur, Forall (fun b => (b =? SP) = false) a -> split1_f a cur = None.
Proof. induction a as [|x a IH]; intros cur F; cbn [split1_f]; [reflexivity|]. inversion F as [|? ? Hx F']; subst. rewrite Hx. apply IH. exact F'. Qed.

Lemma bytes_eqb_refl a : bytes_eqb a a = true.
Proof. induction a as [|x a IH]; cbn; [reflexivity|]. rewrite Z.eqb_refl. exact IH. Qed.

(* strip() of a line whose first and last byte (before the line feed) are not white space *)
Lemma strip_line (body : bytes) x t :
  body = x :: t -> is_space x = false ->
  (forall y r, rev body = y :: r -> is_space y = false) ->
  strip (body ++ [LF]) = body.
Proof.
  intros E Hx Hl. unfold strip. rewrite rstrip_lf. rewrite rstrip_keep by exact Hl.
  subst body. cbn [drop_while]. rewrite Hx. reflexivity.
Qed.

Lemma rstrip_sp_lf (a : bytes) : rstrip (a ++ [SP; LF]) = rstrip a.
Proof. unfold rstrip. rewrite rev_app_distr. reflexivity. Qed.

Lemma msg_ok_spec m : msg_ok m = true ->
  (exists x t, m = x :: t /\ is_space x = false) /\ (forall y r, rev m = y :: r -> is_space y = false) /\ m <> [].
Proof.
  unfold msg_ok. destruct m as [|x t]; [discriminate|]. destruct (rev (x :: t)) as [|y r] eqn:R; [discriminate|].
  intros H. apply andb_true_iff in H. destruct H as [H _]. apply andb_true_iff in H. destruct H as [H1 H2].
  split; [exists x, t; split; [reflexivity|destruct (is_space x); [discriminate|reflexivity]]|].
  split; [|discriminate]. intros y' r' E. inversion E; subst. destruct (is_space y'); [discriminate|reflexivity].
Qed.

Section OneLine.
  Variable ref : bytes.
  Hypothesis Href : clean ref /\ ref <> [].

  Lemma ref_no_sp : Forall (fun b => (b =? SP) = false) ref.
  Proof. apply clean_no; [apply Href|left; reflexivity]. Qed.

  Lemma ok_line_parses : parse_status (status_line ref None) = PEntry ref None.
  Proof.
    destruct Href as [C NE]. unfold parse_status, status_line.
    assert (S : strip ((OK_ ++ [SP] ++ ref) ++ [LF]) = OK_ ++ [SP] ++ ref).
    { apply (strip_line _ 111 ([107] ++ [SP] ++ ref)); [reflexivity|reflexivity|].
      intros y r E. change (OK_ ++ [SP] ++ ref) with ((OK_ ++ [SP]) ++ ref) in E.
      destruct (last_of_app _ _ _ _ NE E) as [r' E']. eapply clean_last; eauto. }
    replace (OK_ ++ [SP] ++ ref ++ [LF]) with ((OK_ ++ [SP] ++ ref) ++ [LF]) by (rewrite <- !app_assoc; reflexivity).
    rewrite S. change (OK_ ++ [SP] ++ ref) with (OK_ ++ SP :: ref).
    rewrite split1_at by (repeat constructor). reflexivity.
  Qed.

  Lemma ng_line_parses msg : msg_ok msg = true -> parse_status (status_line ref (Some msg)) = PEntry ref (Some msg).
  Proof.
    intros M. destruct Href as [C NE]. destruct (msg_ok_spec msg M) as ((x & t & Em & Hx) & Hl & NM).
    unfold parse_status, status_line.
    assert (S : strip ((NG_ ++ [SP] ++ ref ++ [SP] ++ msg) ++ [LF]) = NG_ ++ [SP] ++ ref ++ [SP] ++ msg).
    { apply (strip_line _ 110 ([103] ++ [SP] ++ ref ++ [SP] ++ msg)); [reflexivity|reflexivity|].
      intros y r E. replace (NG_ ++ [SP] ++ ref ++ [SP] ++ msg) with ((NG_ ++ [SP] ++ ref ++ [SP]) ++ msg) in E by (rewrite <- !app_assoc; reflexivity).
      destruct (last_of_app _ _ _ _ NM E) as [r' E']. eapply Hl; eauto. }
    replace (NG_ ++ [SP] ++ ref ++ [SP] ++ msg ++ [LF]) with ((NG_ ++ [SP] ++ ref ++ [SP] ++ msg) ++ [LF]) by (rewrite <- !app_assoc; reflexivity).
    rewrite S. change (NG_ ++ [SP] ++ ref ++ [SP] ++ msg) with (NG_ ++ SP :: (ref ++ SP :: msg)).
    rewrite split1_at by (repeat constructor). cbn [bytes_eqb NG_ Z.eqb Pos.eqb andb].
    rewrite split1_at by apply ref_no_sp. reflexivity.
  Qed.

  (* an "ng" line without a message is not survived by check() *)
  Lemma ng_without_message_crashes : parse_status (status_line ref (Some [])) = PCrash.
  Proof.
    destruct Href as [C NE]. unfold parse_status, status_line.
    (* "ng ref \n" strips to "ng ref" *)
    assert (S : strip (NG_ ++ [SP] ++ ref ++ [SP] ++ [] ++ [LF]) = NG_ ++ [SP] ++ ref).
    { replace (NG_ ++ [SP] ++ ref ++ [SP] ++ [] ++ [LF]) with ((NG_ ++ [SP] ++ ref) ++ [SP; LF]) by (rewrite <- !app_assoc; reflexivity).
      unfold strip. rewrite rstrip_sp_lf. rewrite rstrip_keep; [reflexivity|].
      intros y r E. change (NG_ ++ [SP] ++ ref) with ((NG_ ++ [SP]) ++ ref) in E.
      destruct (last_of_app _ _ _ _ NE E) as [r' E']. eapply clean_last; eauto. }
    rewrite S. change (NG_ ++ [SP] ++ ref) with (NG_ ++ SP :: ref).
    rewrite split1_at by (repeat constructor). cbn [bytes_eqb NG_ Z.eqb Pos.eqb andb].
    unfold split1. rewrite split1_none by apply ref_no_sp. reflexivity.
  Qed.
End OneLine.

Definition entry_ok (x : bytes * option bytes) : Prop :=
  (clean (fst x) /\ fst x <> []) /\ match snd x with Some m => msg_ok m = true | None => True end.

Lemma entries_roundtrip : forall refs, Forall entry_ok refs ->
  parse_entries (map (fun x => status_line (fst x) (snd x)) refs) = Some refs.
Proof.
  induction refs as [|[ref st] refs IH]; intros F; [reflexivity|].
  inversion F as [|? ? [Hr Hs] F']; subst. cbn [map parse_entries fst snd] in *.
  rewrite IH by exact F'. destruct st as [m|].
  - rewrite ng_line_parses by assumption. reflexivity.
  - rewrite ok_line_parses by assumption. reflexivity.
Qed.

Lemma report_roundtrip_lemma unpack refs :
  msg_ok unpack = true -> Forall entry_ok refs ->
  parse_report (report unpack refs) = Some (UNPACK_ ++ [SP] ++ unpack, refs).
Proof.
  intros M F. unfold parse_report, report. rewrite entries_roundtrip by exact F.
  destruct (msg_ok_spec unpack M) as ((x & t & Em & Hx) & Hl & NM).
  unfold unpack_line.
  replace (UNPACK_ ++ [SP] ++ unpack ++ [LF]) with ((UNPACK_ ++ [SP] ++ unpack) ++ [LF]) by (rewrite <- !app_assoc; reflexivity).
  rewrite (strip_line _ 117 ([110; 112; 97; 99; 107] ++ [SP] ++ unpack)); [reflexivity|reflexivity|reflexivity|].
  intros y r E. change (UNPACK_ ++ [SP] ++ unpack) with ((UNPACK_ ++ [SP]) ++ unpack) in E.
  destruct (last_of_app _ _ _ _ NM E) as [r' E']. eapply Hl; eauto.
Qed.

Example ex_report :
  parse_report (report [111;107] [([114], None); ([115], Some [110;111])]) =
    Some ([117;110;112;97;99;107;32;111;107], [([114], None); ([115], Some [110;111])]) /\
  entry_ok ([115], Some [110;111]).
Proof. split; [vm_compute; reflexivity|]. unfold entry_ok, clean. cbn. repeat split; try discriminate. repeat constructor. Qed.
