(* Proofs/PktLineP.v — lemmas about Model/PktLine.v *)
From DV Require Import Bytes PktLine.
Local Open Scope Z_scope.

(* ---------- length prefix ---------- *)
Lemma hexval_hexdigit d : 0 <= d < 16 -> hexval (hexdigit d) = Some d.
Proof.
  intros H. unfold hexdigit, hexval. destruct (d <? 10) eqn:E.
  - replace ((48 <=? 48 + d) && (48 + d <=? 57)) with true by lia. f_equal; lia.
  - replace ((48 <=? 87 + d) && (87 + d <=? 57)) with false by lia.
    replace ((97 <=? 87 + d) && (87 + d <=? 102)) with true by lia. f_equal; lia.
Qed.

Lemma parse_len_hex4_lemma n : 0 <= n < 65536 -> parse_len (hex4 n) = Some n.
Proof.
  intros H. unfold parse_len, hex4.
  rewrite !hexval_hexdigit by lia. f_equal. lia.
Qed.

Lemma zlen_hex4 n : zlen (hex4 n) = 4.
Proof. reflexivity. Qed.

Lemma zfirstn_hex4 n r : zfirstn 4 (hex4 n ++ r) = hex4 n.
Proof. reflexivity. Qed.

Lemma zskipn_hex4 n r : zskipn 4 (hex4 n ++ r) = r.
Proof. reflexivity. Qed.

(* ---------- one frame ---------- *)
Lemma pkt_line_ok p f : pkt_line (Some p) = WOk f ->
  zlen p <= MAX_DATA /\ f = hex4 (zlen p + 4) ++ p.
Proof.
  unfold pkt_line. destruct (zlen p >? MAX_DATA) eqn:E; [discriminate|].
  intros H; inversion H; subst. split; [lia|reflexivity].
Qed.

Lemma read_frame p rest : zlen p <= MAX_DATA ->
  read_pkt_line (hex4 (zlen p + 4) ++ p ++ rest) = (RFrame p, rest).
Proof.
  intros Hl. unfold MAX_DATA in Hl. pose proof (zlen_nonneg p) as H0.
  unfold read_pkt_line. rewrite zfirstn_hex4, zskipn_hex4.
  rewrite parse_len_hex4_lemma by lia.
  change (match hex4 (zlen p + 4) with [] => (RHangup, p ++ rest) | _ :: _ => ?x end) with x.
  replace ((zlen p + 4 =? 0) || (zlen p + 4 =? 1)) with false by lia.
  replace (zlen p + 4 <? 4) with false by lia.
  destruct (zlen p + 4 >? 4) eqn:E.
  - replace (zlen p + 4 - 4) with (zlen p) by lia.
    rewrite zfirstn_app_exact, zskipn_app_exact by reflexivity.
    rewrite Z.eqb_refl. reflexivity.
  - assert (zlen p = 0) by lia. destruct p; [|rewrite zlen_cons in *; pose proof (zlen_nonneg p); lia].
    reflexivity.
Qed.

Lemma read_flush rest : read_pkt_line ([48; 48; 48; 48] ++ rest) = (RNone, rest).
Proof. reflexivity. Qed.

Lemma frame_roundtrip_lemma p f rest :
  pkt_line (Some p) = WOk f -> read_pkt_line (f ++ rest) = (RFrame p, rest).
Proof.
  intros H. apply pkt_line_ok in H. destruct H as [Hl ->]. rewrite <- app_assoc. apply read_frame. exact Hl.
Qed.

Lemma frame_wellformed_lemma p :
  (pkt_line (Some p) = WValueError <-> zlen p > MAX_DATA) /\
  (forall f, pkt_line (Some p) = WOk f ->
     zlen f = zlen p + 4 /\ zlen f <= 65520 /\ parse_len (zfirstn 4 f) = Some (zlen f)).
Proof.
  split.
  - unfold pkt_line. destruct (zlen p >? MAX_DATA) eqn:E; split; intros H; try discriminate; try reflexivity; lia.
  - intros f H. apply pkt_line_ok in H. destruct H as [Hl ->]. unfold MAX_DATA in Hl.
    pose proof (zlen_nonneg p). rewrite zlen_app, zlen_hex4, zfirstn_hex4.
    repeat split; try lia. rewrite parse_len_hex4_lemma by lia. f_equal; lia.
Qed.

(* ---------- sequences ---------- *)
Lemma frames_roundtrip_lemma : forall ps s rest fuel,
  pkt_seq ps = WOk s -> (length ps < fuel)%nat ->
  read_pkt_seq fuel (s ++ rest) = (ps, SEnd, rest).
Proof.
  induction ps as [|p ps IH]; intros s rest fuel H Hf.
  - cbn in H. inversion H; subst. destruct fuel; [cbn in Hf; lia|].
    cbn [read_pkt_seq]. rewrite read_flush. reflexivity.
  - cbn [pkt_seq] in H. destruct (pkt_line (Some p)) as [a|] eqn:Ea; [|discriminate].
    destruct (pkt_seq ps) as [b|] eqn:Eb; [|discriminate]. inversion H; subst.
    destruct fuel; [cbn in Hf; lia|]. cbn [read_pkt_seq]. rewrite <- app_assoc.
    rewrite (frame_roundtrip_lemma _ _ _ Ea). rewrite (IH b rest fuel eq_refl); [reflexivity|cbn in Hf; lia].
Qed.

Lemma pkt_seq_length : forall ps s, pkt_seq ps = WOk s -> (length ps < length s)%nat.
Proof.
  induction ps as [|p ps IH]; intros s H.
  - cbn in H. inversion H; subst. cbn. lia.
  - cbn [pkt_seq] in H. destruct (pkt_line (Some p)) as [a|] eqn:Ea; [|discriminate].
    destruct (pkt_seq ps) as [b|] eqn:Eb; [|discriminate]. inversion H; subst.
    apply pkt_line_ok in Ea. destruct Ea as [_ ->]. specialize (IH b eq_refl).
    rewrite !app_length. cbn [length hex4]. lia.
Qed.

Lemma frames_roundtrip_top ps s rest :
  pkt_seq ps = WOk s -> read_pkt_seq (seq_fuel (s ++ rest)) (s ++ rest) = (ps, SEnd, rest).
Proof.
  intros H. apply frames_roundtrip_lemma; [exact H|]. apply pkt_seq_length in H.
  unfold seq_fuel. rewrite app_length. lia.
Qed.

(* ---------- the decoder is total and consumes a prefix ---------- *)
Lemma read_pkt_line_prefix s r tail : read_pkt_line s = (r, tail) -> exists c, s = c ++ tail.
Proof.
  unfold read_pkt_line. intros H.
  assert (A : exists c, s = c ++ zskipn 4 s) by (exists (zfirstn 4 s); symmetry; apply zfirstn_zskipn).
  assert (B : forall n, exists c, s = c ++ zskipn n (zskipn 4 s)).
  { intros n. exists (zfirstn 4 s ++ zfirstn n (zskipn 4 s)). rewrite <- app_assoc, zfirstn_zskipn, zfirstn_zskipn. reflexivity. }
  destruct (zfirstn 4 s) eqn:E4; [inversion H; subst; exact A|]. rewrite <- E4 in *. clear E4.
  destruct (parse_len (zfirstn 4 s)) as [size|]; [|inversion H; subst; exact A].
  destruct ((size =? 0) || (size =? 1)); [inversion H; subst; exact A|].
  destruct (size <? 4); [inversion H; subst; exact A|].
  destruct (size >? 4); destruct (_ =? size); inversion H; subst; auto.
Qed.

(* ---------- ReceivableProtocol.read under any recv schedule ---------- *)
Definition stream (st : rstate) : bytes := rbuf st ++ wire st.

Lemma split_by_length {A} (out w total : list A) n :
  out ++ w = total -> zlen out = Z.min n (zlen total) -> 0 <= n ->
  out = zfirstn n total /\ w = zskipn n total.
Proof.
  intros H Hl Hn. subst total. rewrite zlen_app in Hl. pose proof (zlen_nonneg w).
  unfold zfirstn, zskipn.
  destruct (Z_le_gt_dec n (zlen out)) as [Hle|Hgt].
  - assert (zlen out = n) by lia. subst n. unfold zlen. rewrite Nat2Z.id.
    rewrite firstn_app, Nat.sub_diag, firstn_all. cbn. rewrite app_nil_r.
    rewrite skipn_app, Nat.sub_diag, skipn_all. auto.
  - assert (zlen w = 0) by lia. destruct w; [|rewrite zlen_cons in *; pose proof (zlen_nonneg w); lia].
    rewrite app_nil_r. rewrite firstn_all2, skipn_all2 by (unfold zlen in *; lia). auto.
Qed.

Lemma recv_spec k w sc data w' sc' :
  1 <= k -> recv k w sc = (data, w', sc') ->
  data ++ w' = w /\ zlen data <= k /\ (data = [] -> w = []).
Proof.
  unfold recv. intros Hk H. inversion H; subst; clear H.
  set (want := match sc with [] => k | n :: _ => Z.max 1 (Z.min n k) end).
  assert (Hw : 1 <= want <= k) by (unfold want; destruct sc; lia).
  pose proof (zlen_nonneg w) as H0.
  split; [apply zfirstn_zskipn|]. split.
  - rewrite zlen_firstn by lia. lia.
  - intros E. assert (zlen (zfirstn (Z.min want (zlen w)) w) = 0) by (rewrite E; reflexivity).
    rewrite zlen_firstn in H by lia. destruct w; [reflexivity|rewrite zlen_cons in *; pose proof (zlen_nonneg w); lia].
Qed.

Lemma rp_loop_spec : forall fuel size acc w sc out w' sc',
  zlen acc < size -> size - zlen acc <= Z.of_nat fuel ->
  rp_loop fuel size acc w sc = (out, w', sc') ->
  out ++ w' = acc ++ w /\ zlen out = Z.min size (zlen (acc ++ w)).
Proof.
  induction fuel as [|f IH]; intros size acc w sc out w' sc' Ha Hf H; [lia|].
  cbn [rp_loop] in H. destruct (recv (size - zlen acc) w sc) as [[data w1] sc1] eqn:ER.
  apply recv_spec in ER; [|lia]. destruct ER as (Hd & Hl & He).
  pose proof (zlen_nonneg acc) as Ha0. pose proof (zlen_nonneg data) as Hd0. pose proof (zlen_nonneg w1) as Hw0.
  subst w. rewrite !zlen_app.
  destruct data as [|x data'].
  - inversion H; subst. specialize (He eq_refl). cbn [app] in *. subst w'.
    split; [reflexivity|]. change (zlen (@nil Z)) with 0. lia.
  - set (data := x :: data') in *.
    assert (1 <= zlen data) by (unfold data; rewrite zlen_cons; pose proof (zlen_nonneg data'); lia).
    destruct ((zlen data =? size) && (zlen acc =? 0)) eqn:E1.
    + inversion H; subst. assert (zlen acc = 0) by lia.
      destruct acc; [|rewrite zlen_cons in *; pose proof (zlen_nonneg acc); lia].
      split; [reflexivity|]. rewrite zlen_nil. lia.
    + destruct (zlen data =? size - zlen acc) eqn:E2.
      * inversion H; subst. split; [rewrite <- app_assoc; reflexivity|]. rewrite zlen_app. lia.
      * apply IH in H; [| rewrite zlen_app; lia | rewrite zlen_app; lia ].
        destruct H as [H1 H2]. split; [rewrite H1, <- app_assoc; reflexivity|].
        rewrite H2. rewrite !zlen_app. lia.
Qed.

Lemma rp_read_spec size st out st' :
  0 < size -> rp_read size st = (out, st') ->
  out = zfirstn size (stream st) /\ stream st' = zskipn size (stream st).
Proof.
  intros Hs H. unfold rp_read in H. unfold stream.
  destruct (zlen (rbuf st) >=? size) eqn:E.
  - inversion H; subst; clear H. cbn [rbuf wire].
    apply split_by_length; [|rewrite zlen_firstn by lia; rewrite zlen_app; pose proof (zlen_nonneg (wire st)); lia|lia].
    rewrite app_assoc, zfirstn_zskipn. reflexivity.
  - destruct (rp_loop (S (Z.to_nat size)) size (rbuf st) (wire st) (sched st)) as [[o w] sc] eqn:EL.
    inversion H; subst; clear H. cbn [rbuf wire app].
    pose proof (zlen_nonneg (rbuf st)).
    apply rp_loop_spec in EL; [|lia|rewrite Nat2Z.inj_succ, Z2Nat.id by lia; lia].
    destruct EL as [H1 H2]. apply split_by_length; [exact H1|exact H2|lia].
Qed.

Lemma rp_read_pkt_line_spec st r st' :
  rp_read_pkt_line st = (r, st') -> read_pkt_line (stream st) = (r, stream st').
Proof.
  unfold rp_read_pkt_line, read_pkt_line. intros H.
  destruct (rp_read 4 st) as [sizestr st1] eqn:E4.
  apply rp_read_spec in E4; [|lia]. destruct E4 as [-> E4]. rewrite <- E4.
  destruct (zfirstn 4 (stream st)) eqn:Ez; [inversion H; subst; reflexivity|]. rewrite <- Ez in *. clear Ez.
  destruct (parse_len (zfirstn 4 (stream st))) as [size|]; [|inversion H; subst; reflexivity].
  destruct ((size =? 0) || (size =? 1)); [inversion H; subst; reflexivity|].
  destruct (size <? 4) eqn:E; [inversion H; subst; reflexivity|].
  destruct (size >? 4) eqn:E5.
  - destruct (rp_read (size - 4) st1) as [p st2] eqn:Ep.
    apply rp_read_spec in Ep; [|lia]. destruct Ep as [-> Ep]. rewrite <- Ep.
    destruct (_ =? size); inversion H; subst; reflexivity.
  - destruct (_ =? size); inversion H; subst; reflexivity.
Qed.

(* ---------- side-band ---------- *)
Lemma zlen_zskipn_le {A} n (l : list A) : 0 <= n -> zlen (zskipn n l) = Z.max 0 (zlen l - n).
Proof. intros; unfold zlen, zskipn. rewrite skipn_length. lia. Qed.

Lemma zlen_zfirstn_le {A} n (l : list A) : 0 <= n -> zlen (zfirstn n l) = Z.min n (zlen l).
Proof. intros; unfold zlen, zfirstn. rewrite firstn_length. lia. Qed.

Lemma sideband_lemma : forall fuel ch blob,
  zlen blob <= 65515 * Z.of_nat fuel ->
  let fs := write_sideband fuel ch blob in
  concat (map (@tl Z) fs) = blob /\
  Forall (fun f => 1 <= zlen f <= MAX_DATA /\ hd 0 f = ch) fs /\
  sb_demux fs = Some (map (fun f => (ch, tl f)) fs).
Proof.
  induction fuel as [|f IH]; intros ch blob Hl; pose proof (zlen_nonneg blob) as H0.
  - assert (zlen blob = 0) by lia. destruct blob; [|rewrite zlen_cons in *; pose proof (zlen_nonneg blob); lia].
    cbn. auto.
  - cbn [write_sideband]. destruct blob as [|b blob']; [cbn; auto|].
    set (blob := b :: blob') in *.
    specialize (IH ch (zskipn 65515 blob)). rewrite zlen_zskipn_le in IH by lia.
    destruct IH as (I1 & I2 & I3); [lia|].
    cbn zeta. cbn [map concat tl]. split; [|split].
    + rewrite I1. apply zfirstn_zskipn.
    + constructor; [|exact I2]. cbn [hd]. rewrite zlen_cons, zlen_zfirstn_le by lia. unfold MAX_DATA. lia.
    + unfold sb_demux in *. cbn [fold_right]. rewrite I3. reflexivity.
Qed.

Lemma sb_fuel_ok blob : zlen blob <= 65515 * Z.of_nat (sb_fuel blob).
Proof. unfold sb_fuel. pose proof (zlen_nonneg blob). rewrite Nat2Z.inj_succ, Z2Nat.id by lia. lia. Qed.

(* ---------- buffered writer ---------- *)
Lemma bw_write_concat bufsize wbuf bl line wbuf' bl' outs :
  bw_write bufsize (wbuf, bl) line = ((wbuf', bl'), outs) -> concat outs ++ wbuf' = wbuf ++ line.
Proof.
  unfold bw_write. destruct (_ >=? 0).
  - set (cut := if _ <? 0 then _ else _). intros H. inversion H; subst; clear H.
    assert (E : concat (match wbuf ++ zfirstn cut line with [] => [] | _ :: _ => [wbuf ++ zfirstn cut line] end)
                = wbuf ++ zfirstn cut line).
    { destruct (wbuf ++ zfirstn cut line); [reflexivity|]. cbn. rewrite app_nil_r. reflexivity. }
    rewrite E, <- app_assoc, zfirstn_zskipn. reflexivity.
  - intros H. inversion H; subst. reflexivity.
Qed.

Fixpoint lines_of (ps : list bytes) : option bytes :=
  match ps with
  | [] => Some []
  | p :: r => match pkt_line (Some p), lines_of r with
              | WOk a, Some b => Some (a ++ b)
              | _, _ => None
              end
  end.

Lemma bw_run_concat bufsize : forall ps wbuf bl wbuf' bl' outs,
  bw_run bufsize (wbuf, bl) ps = Some ((wbuf', bl'), outs) ->
  exists ls, lines_of ps = Some ls /\ concat outs ++ wbuf' = wbuf ++ ls.
Proof.
  induction ps as [|p ps IH]; intros wbuf bl wbuf' bl' outs H.
  - cbn in H. inversion H; subst. exists []. cbn. rewrite app_nil_r. auto.
  - cbn [bw_run lines_of] in *. destruct (pkt_line (Some p)) as [line|]; [|discriminate].
    destruct (bw_write bufsize (wbuf, bl) line) as [[w1 b1] o1] eqn:E1.
    destruct (bw_run bufsize (w1, b1) ps) as [[[w2 b2] o2]|] eqn:E2; [|discriminate].
    inversion H; subst; clear H.
    apply bw_write_concat in E1. apply IH in E2. destruct E2 as (ls & -> & E2).
    exists (line ++ ls). split; [reflexivity|].
    rewrite concat_app, <- app_assoc, E2, app_assoc, E1, <- app_assoc. reflexivity.
Qed.

(* ---------- PktLineParser: the result does not depend on the fragmentation ---------- *)
Lemma zskipn_shorter {A} n (l : list A) : 0 < n -> n <= zlen l -> (length (zskipn n l) < length l)%nat.
Proof. intros. unfold zskipn, zlen in *. rewrite skipn_length. lia. Qed.

Lemma pp_drain_fuel : forall f1 f2 buf, (length buf < f1)%nat -> (f1 <= f2)%nat ->
  pp_drain f1 buf = pp_drain f2 buf.
Proof.
  induction f1 as [|f1 IH]; intros f2 buf H1 H2; [lia|]. destruct f2 as [|f2]; [lia|].
  cbn [pp_drain]. destruct (zlen buf <? 4) eqn:E4; [reflexivity|].
  destruct (parse_len (zfirstn 4 buf)) as [size|]; [|reflexivity].
  destruct (size =? 0) eqn:E0.
  - rewrite (IH f2); [reflexivity| |lia]. pose proof (zskipn_shorter 4 buf ltac:(lia) ltac:(lia)). lia.
  - destruct (size <? 4) eqn:Es; [reflexivity|]. destruct (size <=? zlen buf) eqn:El; [|reflexivity].
    rewrite (IH f2); [reflexivity| |lia]. pose proof (zskipn_shorter size buf ltac:(lia) ltac:(lia)). lia.
Qed.

Definition D (buf : bytes) := pp_drain (S (length buf)) buf.

Lemma D_unfold buf :
  D buf =
    if zlen buf <? 4 then ([], buf, false)
    else match parse_len (zfirstn 4 buf) with
         | None => ([], buf, true)
         | Some size =>
           if size =? 0 then let '(ev, b, e) := D (zskipn 4 buf) in (PFlush :: ev, b, e)
           else if size <? 4 then ([], buf, true)
           else if size <=? zlen buf then
             let '(ev, b, e) := D (zskipn size buf) in (PFrame (slice buf 4 (size - 4)) :: ev, b, e)
           else ([], buf, false)
         end.
Proof.
  unfold D at 1. cbn [pp_drain]. destruct (zlen buf <? 4) eqn:E4; [reflexivity|].
  destruct (parse_len (zfirstn 4 buf)) as [size|]; [|reflexivity].
  destruct (size =? 0) eqn:E0.
  - unfold D. rewrite (pp_drain_fuel (S (length (zskipn 4 buf))) (length buf)); [reflexivity|lia|].
    pose proof (zskipn_shorter 4 buf ltac:(lia) ltac:(lia)). lia.
  - destruct (size <? 4) eqn:Es; [reflexivity|]. destruct (size <=? zlen buf) eqn:El; [|reflexivity].
    unfold D. rewrite (pp_drain_fuel (S (length (zskipn size buf))) (length buf)); [reflexivity|lia|].
    pose proof (zskipn_shorter size buf ltac:(lia) ltac:(lia)). lia.
Qed.

Lemma zfirstn_app_le {A} n (b d : list A) : 0 <= n <= zlen b -> zfirstn n (b ++ d) = zfirstn n b.
Proof.
  intros H. unfold zfirstn, zlen in *. rewrite firstn_app.
  replace (Z.to_nat n - length b)%nat with 0%nat by lia. cbn. apply app_nil_r.
Qed.

Lemma zskipn_app_le {A} n (b d : list A) : 0 <= n <= zlen b -> zskipn n (b ++ d) = zskipn n b ++ d.
Proof.
  intros H. unfold zskipn, zlen in *. rewrite skipn_app.
  replace (Z.to_nat n - length b)%nat with 0%nat by lia. reflexivity.
Qed.

Lemma slice_app_le {A} (b d : list A) a n : 0 <= a -> 0 <= n -> a + n <= zlen b -> slice (b ++ d) a n = slice b a n.
Proof.
  intros Ha Hn H. unfold slice. change (skipn (Z.to_nat a)) with (@zskipn A a).
  rewrite zskipn_app_le by lia. change (firstn (Z.to_nat n)) with (@zfirstn A n).
  apply zfirstn_app_le. rewrite zlen_skipn by lia. lia.
Qed.

(* strong induction on the buffer length *)
Lemma drain_ind (P : bytes -> Prop) :
  (forall buf, (forall b', (length b' < length buf)%nat -> P b') -> P buf) -> forall buf, P buf.
Proof.
  intros H buf. remember (length buf) as n eqn:E. revert buf E.
  induction n as [n IH] using lt_wf_ind. intros buf ->. apply H. intros b' Hb. eapply IH; eauto.
Qed.

Lemma drain_app_ok d : forall b ev1 t1,
  D b = (ev1, t1, false) ->
  D (b ++ d) = let '(ev2, t2, e2) := D (t1 ++ d) in (ev1 ++ ev2, t2, e2).
Proof.
  intros b. induction b as [b IH] using drain_ind. intros ev1 t1 H.
  rewrite D_unfold in H. pose proof (zlen_nonneg d) as Hd0.
  destruct (zlen b <? 4) eqn:E4.
  { inversion H; subst. destruct (D (t1 ++ d)) as [[? ?] ?]. reflexivity. }
  destruct (parse_len (zfirstn 4 b)) as [size|] eqn:Ep; [|discriminate].
  rewrite (D_unfold (b ++ d)). rewrite zlen_app. replace (zlen b + zlen d <? 4) with false by lia.
  rewrite zfirstn_app_le by lia. rewrite Ep.
  destruct (size =? 0) eqn:E0.
  - destruct (D (zskipn 4 b)) as [[ev b2] e] eqn:ED. inversion H; subst.
    rewrite zskipn_app_le by lia.
    rewrite (IH (zskipn 4 b) (zskipn_shorter 4 b ltac:(lia) ltac:(lia)) ev t1 ED).
    destruct (D (t1 ++ d)) as [[? ?] ?]. reflexivity.
  - destruct (size <? 4) eqn:Es; [discriminate|].
    destruct (size <=? zlen b) eqn:El.
    + destruct (D (zskipn size b)) as [[ev b2] e] eqn:ED. inversion H; subst.
      replace (size <=? zlen b + zlen d) with true by lia.
      rewrite zskipn_app_le, slice_app_le by lia.
      rewrite (IH (zskipn size b) (zskipn_shorter size b ltac:(lia) ltac:(lia)) ev t1 ED).
      destruct (D (t1 ++ d)) as [[? ?] ?]. reflexivity.
    + inversion H; subst.
      rewrite (D_unfold (t1 ++ d)). rewrite zlen_app. replace (zlen t1 + zlen d <? 4) with false by lia.
      rewrite zfirstn_app_le by lia. rewrite Ep, E0, Es.
      destruct (size <=? zlen t1 + zlen d); [|reflexivity].
      destruct (D (zskipn size (t1 ++ d))) as [[? ?] ?]. reflexivity.
Qed.

Lemma drain_app_err d : forall b ev1 t1,
  D b = (ev1, t1, true) -> exists t', D (b ++ d) = (ev1, t', true).
Proof.
  intros b. induction b as [b IH] using drain_ind. intros ev1 t1 H.
  rewrite D_unfold in H. pose proof (zlen_nonneg d) as Hd0.
  destruct (zlen b <? 4) eqn:E4; [discriminate|].
  rewrite (D_unfold (b ++ d)). rewrite zlen_app. replace (zlen b + zlen d <? 4) with false by lia.
  rewrite zfirstn_app_le by lia.
  destruct (parse_len (zfirstn 4 b)) as [size|] eqn:Ep; [|inversion H; subst; eauto].
  destruct (size =? 0) eqn:E0.
  - destruct (D (zskipn 4 b)) as [[ev b2] e] eqn:ED. inversion H; subst.
    rewrite zskipn_app_le by lia.
    destruct (IH (zskipn 4 b) (zskipn_shorter 4 b ltac:(lia) ltac:(lia)) ev t1 ED) as [t' ->]. eauto.
  - destruct (size <? 4) eqn:Es; [inversion H; subst; eauto|].
    destruct (size <=? zlen b) eqn:El; [|discriminate].
    destruct (D (zskipn size b)) as [[ev b2] e] eqn:ED. inversion H; subst.
    replace (size <=? zlen b + zlen d) with true by lia.
    rewrite zskipn_app_le, slice_app_le by lia.
    destruct (IH (zskipn size b) (zskipn_shorter size b ltac:(lia) ltac:(lia)) ev t1 ED) as [t' ->]. eauto.
Qed.

Lemma drain_tail_drained : forall b ev t, D b = (ev, t, false) -> D t = ([], t, false).
Proof.
  intros b. induction b as [b IH] using drain_ind. intros ev t H.
  pose proof H as H'. rewrite D_unfold in H.
  destruct (zlen b <? 4) eqn:E4; [inversion H; subst; exact H'|].
  destruct (parse_len (zfirstn 4 b)) as [size|] eqn:Ep; [|discriminate].
  destruct (size =? 0) eqn:E0.
  - destruct (D (zskipn 4 b)) as [[ev2 b2] e] eqn:ED. inversion H; subst.
    eapply IH; [|exact ED]. apply zskipn_shorter; lia.
  - destruct (size <? 4) eqn:Es; [discriminate|].
    destruct (size <=? zlen b) eqn:El.
    + destruct (D (zskipn size b)) as [[ev2 b2] e] eqn:ED. inversion H; subst.
      eapply IH; [|exact ED]. apply zskipn_shorter; lia.
    + inversion H; subst. exact H'.
Qed.

Lemma pp_parse_D buf d : pp_parse buf d =
  let '(ev, t, e) := D (buf ++ d) in if e then (ev, buf ++ d, true) else (ev, t, false).
Proof. reflexivity. Qed.

Lemma parser_partition_lemma : forall frags buf,
  D buf = ([], buf, false) ->
  let '(ev, t, e) := pp_feed buf frags in
  let '(ev', t', e') := D (buf ++ concat frags) in
  ev = ev' /\ e = e' /\ (e = false -> t = t').
Proof.
  induction frags as [|d r IH]; intros buf Hb.
  - cbn [pp_feed concat]. rewrite app_nil_r, Hb. auto.
  - cbn [pp_feed concat]. rewrite pp_parse_D.
    destruct (D (buf ++ d)) as [[ev1 t1] e1] eqn:E1. destruct e1.
    + destruct (drain_app_err (concat r) _ _ _ E1) as [t' E2].
      rewrite app_assoc, E2. split; [reflexivity|]. split; [reflexivity|discriminate].
    + pose proof (drain_app_ok (concat r) _ _ _ E1) as E2. rewrite <- app_assoc in E2.
      specialize (IH t1 (drain_tail_drained _ _ _ E1)).
      destruct (pp_feed t1 r) as [[ev2 b2] e2]. rewrite E2.
      destruct (D (t1 ++ concat r)) as [[ev3 t3] e3]. destruct IH as (-> & -> & Ht).
      split; [reflexivity|]. split; [reflexivity|exact Ht].
Qed.

(* ---------- non-vacuity ---------- *)
Example ex_roundtrip :
  exists s, pkt_seq [[97]; []; [98; 99]] = WOk s /\
            read_pkt_seq (seq_fuel (s ++ [1;2])) (s ++ [1;2]) = ([[97]; []; [98; 99]], SEnd, [1;2]).
Proof. eexists. split; [reflexivity|]. vm_compute. reflexivity. Qed.

Example ex_schedule :
  let st := {| rbuf := []; wire := [48;48;48;53;97;48;48;48;48]; sched := [1;2;1;3] |} in
  fst (rp_read_pkt_line st) = RFrame [97].
Proof. vm_compute. reflexivity. Qed.

Example ex_parser : pp_feed [] [[48;48]; [48;53;97;48]; [48;48;48]] = ([PFrame [97]; PFlush], [], false).
Proof. vm_compute. reflexivity. Qed.
