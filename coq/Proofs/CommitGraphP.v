From DV Require Import CommitGraph.
Local Open Scope Z_scope.

Lemma enc_rows_length : forall cs off, length (fst (enc cs off)) = length cs.
Proof.
  induction cs as [|ps r IH]; intros off; cbn [enc]; [reflexivity|].
  destruct (encode_commit ps off) as [[p1 p2] e]. specialize (IH (off + Z.of_nat (length e))).
  destruct (enc r (off + Z.of_nat (length e))) as [rows es]. cbn [fst length] in *. congruence.
Qed.

(* the entries one commit appends read back as its parents after the first *)
Lemma take_mark_last n : forall l tail, l <> [] -> (forall x, In x l -> 0 <= x < n) -> n <= NONE ->
  take_edges (mark_last l ++ tail) n = l.
Proof.
  induction l as [|x l IH]; intros tail NE B N; [contradiction|].
  assert (Bx : 0 <= x < n) by (apply B; left; reflexivity).
  destruct l as [|y l].
  - cbn [mark_last app take_edges]. unfold NONE, FLAG in *.
    replace (2147483648 <=? x + 2147483648) with true by lia. replace (x + 2147483648 - 2147483648) with x by lia.
    replace (x <? n) with true by lia. reflexivity.
  - change (mark_last (x :: y :: l)) with (x :: mark_last (y :: l)). cbn [app take_edges]. unfold NONE, FLAG in *.
    replace (2147483648 <=? x) with false by lia. replace (x <? n) with true by lia. f_equal.
    apply IH; [discriminate|intros z Hz; apply B; right; exact Hz|exact N].
Qed.

Lemma map_slot_some ps n : (forall p, In p ps -> exists x, p = Some x /\ 0 <= x < n) -> forall x, In x (map slot ps) -> 0 <= x < n.
Proof. intros B x Hx. apply in_map_iff in Hx. destruct Hx as (p & <- & Hp). destruct (B p Hp) as (y & -> & Hy). exact Hy. Qed.

Lemma decode_one ps off n tail pre : (forall p, In p ps -> exists x, p = Some x /\ 0 <= x < n) -> n <= NONE -> 0 <= off ->
  length pre = Z.to_nat off ->
  let '(p1, p2, e) := encode_commit ps off in
  decode_commit (p1, p2) (pre ++ e ++ tail) n = Some (positions ps).
Proof.
  intros B N O LP. unfold positions.
  assert (S : forall p, In p ps -> 0 <= slot p < n) by (intros p Hp; destruct (B p Hp) as (y & -> & Hy); exact Hy).
  destruct ps as [|a [|b [|c r]]]; cbn [encode_commit decode_commit map].
  - unfold NONE. cbn. reflexivity.
  - pose proof (S a (or_introl eq_refl)). unfold NONE in *.
    replace (slot a <? 1879048192) with true by lia. replace (slot a <? n) with true by lia. cbn. reflexivity.
  - pose proof (S a (or_introl eq_refl)). pose proof (S b (or_intror (or_introl eq_refl))). unfold NONE in *.
    replace (slot a <? 1879048192) with true by lia. replace (slot a <? n) with true by lia.
    replace (slot b <? 1879048192) with true by lia. replace (slot b <? n) with true by lia. cbn. reflexivity.
  - pose proof (S a (or_introl eq_refl)). unfold NONE, FLAG in *.
    replace (slot a <? 1879048192) with true by lia. replace (slot a <? n) with true by lia.
    replace (2147483648 + off <? 1879048192) with false by lia. replace (2147483648 <=? 2147483648 + off) with true by lia.
    cbn [andb negb app]. replace (2147483648 + off - 2147483648) with off by lia.
    rewrite <- LP. rewrite skipn_app, skipn_all, Nat.sub_diag. cbn [skipn app].
    f_equal. f_equal. fold FLAG. change (slot b :: slot c :: map slot r) with (map slot (b :: c :: r)).
    apply take_mark_last; [discriminate| |unfold NONE; lia].
    apply map_slot_some. intros p Hp. apply B. right. exact Hp.
Qed.

Lemma enc_decode : forall cs off pre n, (forall ps, In ps cs -> forall p, In p ps -> exists x, p = Some x /\ 0 <= x < n) -> n <= NONE ->
  0 <= off -> length pre = Z.to_nat off ->
  map (fun row => decode_commit row (pre ++ snd (enc cs off)) n) (fst (enc cs off)) = map (fun ps => Some (positions ps)) cs.
Proof.
  induction cs as [|ps r IH]; intros off pre n B N O LP; cbn [enc]; [reflexivity|].
  pose proof (decode_one ps off n) as D.
  destruct (encode_commit ps off) as [[p1 p2] e] eqn:EC.
  specialize (IH (off + Z.of_nat (length e)) (pre ++ e) n).
  destruct (enc r (off + Z.of_nat (length e))) as [rows es] eqn:ER. cbn [fst snd map] in *.
  f_equal.
  - apply D; auto. intros p Hp. eapply B; [left; reflexivity|exact Hp].
  - rewrite <- app_assoc in IH. apply IH; [intros ps' H' p Hp; eapply B; [right; exact H'|exact Hp]|exact N|lia|].
    rewrite app_length, LP. lia.
Qed.

Lemma graph_roundtrip cs : closed cs -> decode_graph (encode_graph cs) = map (fun ps => Some (positions ps)) cs.
Proof.
  intros [N B]. unfold decode_graph, encode_graph. rewrite enc_rows_length.
  apply (enc_decode cs 0 [] (Z.of_nat (length cs)) B N); [lia|reflexivity].
Qed.
