(* Proofs/IndexP.v — lemmas about Model/Index.v *)
From DV Require Import Bytes Index.
Local Open Scope Z_scope.

(* ---------- git varint ---------- *)
Lemma gv_tail_dec : forall fuel v tl,
  0 <= v < 2 ^ Z.of_nat fuel ->
  gv_dec_f (rev (gv_tail fuel v) ++ tl) true 0 =
  if v =? 0 then gv_dec_f tl true 0 else gv_dec_f tl false (v - 1).
Proof.
  induction fuel as [|f IH]; intros v tl Hv.
  - change (2 ^ Z.of_nat 0) with 1 in Hv. assert (v = 0) by lia. subst. reflexivity.
  - cbn [gv_tail]. destruct (v <=? 0) eqn:E.
    + assert (v = 0) by lia. subst. reflexivity.
    + replace (v =? 0) with false by lia.
      cbn [rev]. rewrite <- app_assoc. cbn [app].
      assert (Hp : 2 ^ Z.of_nat (S f) = 2 * 2 ^ Z.of_nat f).
      { rewrite Nat2Z.inj_succ, Z.pow_succ_r by lia. reflexivity. }
      rewrite IH by lia.
      set (d := 128 + (v - 1) mod 128).
      assert (Hd : d mod 128 = (v - 1) mod 128) by (unfold d; lia).
      assert (Hd2 : (d <? 128) = false) by (unfold d; lia).
      destruct ((v - 1) / 128 =? 0) eqn:E2; cbn [gv_dec_f]; rewrite Hd, Hd2; f_equal; lia.
Qed.

Lemma gv_roundtrip_lemma n r : 0 <= n -> gv_dec (gv_enc n ++ r) = Some (n, r).
Proof.
  intros Hn. unfold gv_dec, gv_enc. cbn [rev]. rewrite <- app_assoc. cbn [app].
  rewrite gv_tail_dec.
  - assert (Hb : (n mod 128 <? 128) = true) by lia.
    destruct (n / 128 =? 0) eqn:E; cbn [gv_dec_f]; rewrite Hb; f_equal; f_equal; lia.
  - unfold gv_fuel. rewrite Nat2Z.inj_succ, Z2Nat.id by apply Z.log2_nonneg.
    destruct (Z.eq_dec n 0) as [->|Hz]; [cbn; lia|].
    assert (n < 2 ^ Z.succ (Z.log2 n)) by (apply Z.log2_spec; lia). lia.
Qed.

(* ---------- path compression ---------- *)
Lemma common_len_bounds : forall a b, 0 <= common_len a b <= zlen a /\ common_len a b <= zlen b.
Proof.
  induction a as [|x a IH]; intros b.
  - change (zlen (@nil Z)) with 0. pose proof (zlen_nonneg b). destruct b; cbn [common_len]; lia.
  - destruct b as [|y b]; cbn [common_len].
    + change (zlen (@nil Z)) with 0. pose proof (zlen_nonneg (x :: a)). lia.
    + rewrite !zlen_cons. pose proof (zlen_nonneg a). pose proof (zlen_nonneg b).
      destruct (x =? y); [specialize (IH b)|]; lia.
Qed.

Lemma common_prefix : forall a b, zfirstn (common_len a b) a = zfirstn (common_len a b) b.
Proof.
  induction a as [|x a IH]; intros [|y b]; cbn [common_len]; try reflexivity.
  destruct (x =? y) eqn:E; [|reflexivity]. assert (x = y) by lia. subst y.
  pose proof (common_len_bounds a b) as Hb. unfold zfirstn.
  replace (Z.to_nat (1 + common_len a b)) with (S (Z.to_nat (common_len a b))) by lia.
  cbn [firstn]. f_equal. apply IH.
Qed.

Definition nul_free (l : bytes) : Prop := Forall (fun b => b <> 0) l.

Lemma until_nul_app s rest : nul_free s -> until_nul (s ++ 0 :: rest) = Some (s, rest).
Proof.
  induction s as [|b s IH]; intros H; [reflexivity|].
  inversion H; subst. cbn [app until_nul]. replace (b =? 0) with false by lia. rewrite IH by assumption. reflexivity.
Qed.

Lemma nul_free_skipn n l : nul_free l -> nul_free (skipn n l).
Proof. unfold nul_free. rewrite !Forall_forall. intros H x Hx. apply H. eapply In_skipn; eauto. Qed.

Lemma path_roundtrip_lemma path prev rest :
  nul_free path -> decompress_path (compress_path path prev ++ rest) prev = Some (path, rest).
Proof.
  intros Hn. unfold decompress_path, compress_path, obind.
  pose proof (common_len_bounds path prev) as [Hc1 Hc2].
  rewrite <- app_assoc. rewrite gv_roundtrip_lemma by lia.
  rewrite <- app_assoc. cbn [app]. rewrite until_nul_app by (apply nul_free_skipn; exact Hn).
  replace (zlen prev - common_len path prev >? zlen prev) with false by lia.
  replace (zlen prev - (zlen prev - common_len path prev)) with (common_len path prev) by lia.
  rewrite <- common_prefix. rewrite zfirstn_zskipn. reflexivity.
Qed.

(* ---------- fixed-width fields ---------- *)
Lemma rd32_be32 n r : 0 <= n < 4294967296 -> rd32 (be32 n ++ r) = Some (n, r).
Proof. intros H. unfold rd32, be32. cbn [app]. f_equal. f_equal. lia. Qed.

Lemma rd16_be16 n r : 0 <= n < 65536 -> rd16 (be16 n ++ r) = Some (n, r).
Proof. intros H. unfold rd16, be16. cbn [app]. f_equal. f_equal. lia. Qed.

Lemma take_app a r : take (zlen a) (a ++ r) = Some (a, r).
Proof.
  unfold take. pose proof (zlen_nonneg a). rewrite zlen_app. pose proof (zlen_nonneg r).
  replace ((0 <=? zlen a) && (zlen a <=? zlen a + zlen r)) with true by lia.
  rewrite zfirstn_app_exact, zskipn_app_exact by reflexivity. reflexivity.
Qed.

Lemma take_app_n n a r : n = zlen a -> take n (a ++ r) = Some (a, r).
Proof. intros ->. apply take_app. Qed.

Lemma zlen_repeat (x : Z) n : zlen (repeat x n) = Z.of_nat n.
Proof. unfold zlen. rewrite repeat_length. reflexivity. Qed.

Lemma zlen_be32 n : zlen (be32 n) = 4. Proof. reflexivity. Qed.
Lemma zlen_be16 n : zlen (be16 n) = 2. Proof. reflexivity. Qed.

(* ---------- cache entries ---------- *)
Definition u32 (x : Z) : Prop := 0 <= x < 4294967296.

Record wf_entry (e : ientry) : Prop := {
  w_cs : u32 (e_cs e); w_cns : u32 (e_cns e); w_ms : u32 (e_ms e); w_mns : u32 (e_mns e);
  w_dev : 0 <= e_dev e; w_ino : 0 <= e_ino e; w_mode : u32 (e_mode e); w_uid : u32 (e_uid e);
  w_gid : u32 (e_gid e); w_size : 0 <= e_size e;
  w_sha : zlen (e_sha e) = 20;
  w_flags : 0 <= e_flags e < 65536; w_xflags : 0 <= e_xflags e < 65536;
  w_name : nul_free (e_name e)
}.

(* what comes back: dev / ino / size modulo 2^32, the EXTENDED bit derived *)
Definition norm (e : ientry) : ientry :=
  {| e_name := e_name e; e_cs := e_cs e; e_cns := e_cns e; e_ms := e_ms e; e_mns := e_mns e;
     e_dev := e_dev e mod 4294967296; e_ino := e_ino e mod 4294967296; e_mode := e_mode e;
     e_uid := e_uid e; e_gid := e_gid e; e_size := e_size e mod 4294967296; e_sha := e_sha e;
     e_flags := (flags_field e / 4096) * 4096; e_xflags := e_xflags e |}.

Lemma flags_field_facts e : wf_entry e ->
  0 <= flags_field e < 65536 /\
  flags_field e mod 4096 = Z.min (zlen (e_name e)) NAMEMASK /\
  (has_ext (flags_field e) = false -> e_xflags e = 0).
Proof.
  intros W. destruct W. unfold flags_field, has_ext, NAMEMASK, EXTENDED in *.
  pose proof (zlen_nonneg (e_name e)) as Hl.
  set (m := Z.min (zlen (e_name e)) 4095). assert (Hm : 0 <= m <= 4095) by lia.
  set (h := e_flags e / 4096). assert (Hh : 0 <= h <= 15) by (unfold h; lia).
  destruct (e_xflags e =? 0) eqn:Ex; cbn [orb].
  - repeat split; intros; lia.
  - destruct (((m + h * 4096) / 16384) mod 2 =? 1) eqn:Eb.
    + repeat split; intros; lia.
    + assert (((m + h * 4096 + 16384) / 16384) mod 2 = 1) by lia. repeat split; intros; lia.
Qed.

Lemma pad_len_bounds s : 0 <= s -> 1 <= pad_len s <= 8.
Proof. intros H. unfold pad_len. lia. Qed.

Lemma obind_some {A B} (a : A) (f : A -> option B) : obind (Some a) f = f a.
Proof. reflexivity. Qed.

Lemma repeat_split n : (1 <= n)%nat -> repeat 0 n = 0 :: repeat 0 (n - 1).
Proof. intros H. destruct n; [lia|]. cbn. rewrite Nat.sub_0_r. reflexivity. Qed.

Lemma take_zero l : take 0 l = Some ([], l).
Proof. unfold take. pose proof (zlen_nonneg l). replace ((0 <=? 0) && (0 <=? zlen l)) with true by lia. reflexivity. Qed.

Lemma if_true {A} (a b : A) : (if true then a else b) = a. Proof. reflexivity. Qed.
Lemma if_false {A} (a b : A) : (if false then a else b) = b. Proof. reflexivity. Qed.

Definition entry_fixed (e : ientry) : bytes :=
  let f := flags_field e in
  be32 (e_cs e) ++ be32 (e_cns e) ++ be32 (e_ms e) ++ be32 (e_mns e)
  ++ be32 (e_dev e mod 4294967296) ++ be32 (e_ino e mod 4294967296) ++ be32 (e_mode e)
  ++ be32 (e_uid e) ++ be32 (e_gid e) ++ be32 (e_size e mod 4294967296)
  ++ e_sha e ++ be16 f ++ (if has_ext f then be16 (e_xflags e) else []).

Definition entry_bytes (v : Z) (prev : bytes) (e : ientry) : bytes :=
  if 4 <=? v then entry_fixed e ++ compress_path (e_name e) prev
  else entry_fixed e ++ e_name e ++ repeat 0 (Z.to_nat (pad_len (zlen (entry_fixed e) + zlen (e_name e)))).

Lemma write_entry_bytes v prev e b :
  write_entry v prev e = Some b ->
  b = entry_bytes v prev e /\ has_ext (flags_field e) && (v <? 3) = false.
Proof.
  unfold write_entry, entry_bytes, entry_fixed. cbv zeta.
  destruct (has_ext (flags_field e) && (v <? 3)); [discriminate|].
  destruct (4 <=? v); intros H; split; congruence.
Qed.

Lemma read_fixed v prev e tail :
  wf_entry e -> has_ext (flags_field e) && (v <? 3) = false ->
  read_entry v prev (entry_fixed e ++ tail) =
    (let f := flags_field e in
     let fixedlen := 62 + (if has_ext f then 2 else 0) in
     let mk name := {| e_name := name; e_cs := e_cs e; e_cns := e_cns e; e_ms := e_ms e; e_mns := e_mns e;
                       e_dev := e_dev e mod 4294967296; e_ino := e_ino e mod 4294967296; e_mode := e_mode e;
                       e_uid := e_uid e; e_gid := e_gid e; e_size := e_size e mod 4294967296; e_sha := e_sha e;
                       e_flags := (f / 4096) * 4096; e_xflags := e_xflags e |} in
     if 4 <=? v then
       do (name, l) <- decompress_path tail prev; Some (mk name, l)
     else
       let nl := f mod 4096 in
       do (name0, l) <- take nl tail;
       if nl =? NAMEMASK then
         do (more, l') <- until_nul l;
         let name := name0 ++ more in
         let sofar := fixedlen + zlen name in
         do (_, l'') <- take (pad_len sofar - 1) l';
         Some (mk name, l'')
       else
         let sofar := fixedlen + nl in
         do (_, l') <- take (pad_len sofar) l;
         Some (mk name0, l')).
Proof.
  intros W Eassert. pose proof (flags_field_facts e W) as (Hf & Hfm & Hfx).
  destruct W. unfold u32 in *. unfold read_entry, entry_fixed. cbv zeta. set (f := flags_field e) in *.
  rewrite <- !app_assoc.
  rewrite rd32_be32 by lia. rewrite obind_some.
  rewrite rd32_be32 by lia. rewrite obind_some.
  rewrite rd32_be32 by lia. rewrite obind_some.
  rewrite rd32_be32 by lia. rewrite obind_some.
  rewrite rd32_be32 by lia. rewrite obind_some.
  rewrite rd32_be32 by lia. rewrite obind_some.
  rewrite rd32_be32 by lia. rewrite obind_some.
  rewrite rd32_be32 by lia. rewrite obind_some.
  rewrite rd32_be32 by lia. rewrite obind_some.
  rewrite rd32_be32 by lia. rewrite obind_some.
  rewrite (take_app_n 20 (e_sha e)) by (symmetry; exact w_sha0). rewrite obind_some.
  rewrite rd16_be16 by lia. rewrite obind_some.
  destruct (has_ext f) eqn:Ex.
  - cbn [andb] in Eassert. rewrite Eassert. rewrite <- ?app_assoc. rewrite rd16_be16 by lia. rewrite obind_some. reflexivity.
  - cbn [app]. rewrite obind_some. rewrite (Hfx eq_refl). reflexivity.
Qed.

Lemma zlen_entry_fixed e : wf_entry e -> zlen (entry_fixed e) = 62 + (if has_ext (flags_field e) then 2 else 0).
Proof.
  intros W. destruct W. unfold entry_fixed. cbv zeta.
  rewrite !zlen_app, !zlen_be32, zlen_be16, w_sha0.
  destruct (has_ext (flags_field e)); [rewrite zlen_be16|change (zlen (@nil Z)) with 0]; lia.
Qed.

Lemma entry_bytes_roundtrip v prev e rest :
  wf_entry e -> 2 <= v <= 4 -> has_ext (flags_field e) && (v <? 3) = false ->
  read_entry v prev (entry_bytes v prev e ++ rest) = Some (norm e, rest).
Proof.
  intros W Hv Eassert. pose proof (flags_field_facts e W) as (Hf & Hfm & Hfx).
  pose proof (zlen_entry_fixed e W) as Hfixedlen.
  pose proof (w_name e W) as Hname.
  unfold entry_bytes. destruct (4 <=? v) eqn:E4.
  - rewrite <- app_assoc. rewrite read_fixed by assumption. cbv zeta. rewrite E4.
    rewrite path_roundtrip_lemma by assumption. rewrite obind_some. reflexivity.
  - rewrite <- app_assoc. rewrite read_fixed by assumption. cbv zeta. rewrite E4.
    rewrite Hfm. rewrite Hfixedlen. set (f := flags_field e) in *.
    set (fixedlen := 62 + (if has_ext f then 2 else 0)) in *.
    pose proof (zlen_nonneg (e_name e)) as Hl.
    assert (Hfl : 62 <= fixedlen <= 64) by (unfold fixedlen; destruct (has_ext f); lia).
    pose proof (pad_len_bounds (fixedlen + zlen (e_name e)) ltac:(lia)) as Hpad.
    unfold NAMEMASK in *.
    destruct (Z.min (zlen (e_name e)) 4095 =? 4095) eqn:Elong.
    + assert (Hlen : 4095 <= zlen (e_name e)) by lia.
      replace (Z.min (zlen (e_name e)) 4095) with 4095 by lia.
      rewrite <- (zfirstn_zskipn 4095 (e_name e)) at 1. rewrite <- !app_assoc.
      rewrite (take_app_n 4095 (zfirstn 4095 (e_name e))) by (rewrite zlen_firstn; lia).
      rewrite obind_some.
      rewrite (repeat_split (Z.to_nat (pad_len (fixedlen + zlen (e_name e))))) by lia.
      cbn [app].
      rewrite until_nul_app by (apply nul_free_skipn; assumption). rewrite obind_some.
      rewrite zfirstn_zskipn.
      rewrite (take_app_n _ (repeat 0 (Z.to_nat (pad_len (fixedlen + zlen (e_name e))) - 1))) by (rewrite zlen_repeat; lia).
      rewrite obind_some. reflexivity.
    + assert (Hlen : zlen (e_name e) < 4095) by lia.
      replace (Z.min (zlen (e_name e)) 4095) with (zlen (e_name e)) by lia.
      rewrite <- !app_assoc. rewrite take_app. rewrite obind_some.
      rewrite (take_app_n _ (repeat 0 (Z.to_nat (pad_len (fixedlen + zlen (e_name e)))))) by (rewrite zlen_repeat; lia).
      rewrite obind_some. reflexivity.
Qed.

Lemma entry_roundtrip_lemma v prev e b rest :
  wf_entry e -> 2 <= v <= 4 ->
  write_entry v prev e = Some b ->
  read_entry v prev (b ++ rest) = Some (norm e, rest).
Proof.
  intros W Hv Hw. apply write_entry_bytes in Hw. destruct Hw as [-> Ha].
  apply entry_bytes_roundtrip; assumption.
Qed.

(* ---------- entry sequences and whole files ---------- *)
Lemma entries_roundtrip_lemma v : 2 <= v <= 4 -> forall es prev b rest,
  Forall wf_entry es -> write_entries v prev es = Some b ->
  read_entries v (length es) prev (b ++ rest) = Some (map norm es, rest).
Proof.
  intros Hv. induction es as [|e es IH]; intros prev b rest Hall Hw.
  - cbn in Hw. injection Hw as <-. reflexivity.
  - inversion Hall as [|? ? We Hes]; subst. cbn [write_entries] in Hw. unfold obind in Hw.
    destruct (write_entry v prev e) as [a|] eqn:Ea; [|discriminate].
    destruct (write_entries v (e_name e) es) as [c|] eqn:Ec; [|discriminate].
    injection Hw as <-. cbn [length read_entries map]. rewrite <- app_assoc.
    rewrite (entry_roundtrip_lemma v prev e a (c ++ rest) We Hv Ea). rewrite obind_some.
    change (e_name (norm e)) with (e_name e).
    rewrite (IH (e_name e) c rest Hes Ec). rewrite obind_some. reflexivity.
Qed.

Lemma read_header_write v n rest : 1 <= v <= 4 -> 0 <= n < 4294967296 ->
  read_header (write_header v n ++ rest) = Some (v, n, rest).
Proof.
  intros Hv Hn. unfold read_header, write_header. rewrite <- !app_assoc.
  rewrite (take_app_n 4 DIRC) by reflexivity. rewrite obind_some.
  rewrite bytes_beq_refl. cbn [negb].
  rewrite rd32_be32 by lia. rewrite obind_some. rewrite rd32_be32 by lia. rewrite obind_some.
  replace ((1 <=? v) && (v <=? 4)) with true by lia. reflexivity.
Qed.

Lemma index_roundtrip_lemma v es b rest :
  2 <= v <= 4 -> Forall wf_entry es -> zlen es < 4294967296 ->
  write_index v es = Some b ->
  read_index (b ++ rest) = Some (effective_version v es, map norm es, rest).
Proof.
  intros Hv Hall Hn Hw. unfold write_index in Hw. cbv zeta in Hw. unfold obind in Hw.
  set (v' := effective_version v es) in *.
  assert (Hv' : 2 <= v' <= 4) by (unfold v', effective_version; destruct (_ && _); lia).
  destruct (write_entries v' [] es) as [body|] eqn:Eb; [|discriminate].
  assert (Hb : b = write_header v' (zlen es) ++ body) by congruence. subst b. clear Hw.
  unfold read_index. rewrite <- app_assoc. pose proof (zlen_nonneg es).
  rewrite read_header_write by lia. rewrite obind_some.
  replace (Z.to_nat (zlen es)) with (length es) by (unfold zlen; lia).
  rewrite (entries_roundtrip_lemma v' Hv' es [] body rest Hall Eb). rewrite obind_some. reflexivity.
Qed.

(* non-vacuity *)
Example ex_index :
  let e1 := {| e_name := [97;47;98]; e_cs := 1; e_cns := 2; e_ms := 3; e_mns := 4; e_dev := 4294967301; e_ino := 6;
               e_mode := 33188; e_uid := 7; e_gid := 8; e_size := 9; e_sha := repeat 17 20; e_flags := 0; e_xflags := 16384 |} in
  let e2 := {| e_name := [97;47;99]; e_cs := 1; e_cns := 2; e_ms := 3; e_mns := 4; e_dev := 5; e_ino := 6;
               e_mode := 33188; e_uid := 7; e_gid := 8; e_size := 9; e_sha := repeat 18 20; e_flags := 4096; e_xflags := 0 |} in
  exists b, write_index 2 [e1; e2] = Some b /\ read_index (b ++ [1;2;3]) = Some (3, [norm e1; norm e2], [1;2;3])
            /\ sorted_entries [e1; e2] = true.
Proof. eexists. split; [reflexivity|]. split; vm_compute; reflexivity. Qed.
