(* Proofs/CapsP.v — capability lists and ref lines survive formatting and parsing *)
From DV Require Import Bytes RefName PackedFile PackedFileP.
From DV Require Import Caps.

Definition clean (l : bytes) : Prop := Forall (fun b => is_space b = false /\ (b =? NUL) = false) l.

Lemma token_clean c : tokenb c = true -> clean c /\ c <> [].
Proof.
  unfold tokenb. intros H. apply andb_prop in H. destruct H as [N F]. split.
  - apply Forall_forall. intros b Hb. rewrite forallb_forall in F. specialize (F b Hb). apply andb_prop in F. destruct F as [A B].
    apply negb_true_iff in A. apply negb_true_iff in B. auto.
  - destruct c; [discriminate|discriminate].
Qed.
Lemma name_clean' n : check_ref_format n = true -> clean n /\ n <> [].
Proof.
  intros H. destruct (name_clean n H) as [C NE]. split; [|exact NE].
  apply Forall_forall. intros b Hb. rewrite forallb_forall in C. specialize (C b Hb). apply negb_true_iff in C.
  unfold d_bad in C. unfold is_space, NUL. lia.
Qed.
Lemma hex_clean s : valid_hexsha s = true -> clean s /\ s <> [].
Proof.
  unfold valid_hexsha. intros H. apply andb_prop in H. destruct H as [L F]. rewrite forallb_forall in F. split.
  - apply Forall_forall. intros b Hb. specialize (F b Hb). unfold is_hex in F. unfold is_space, NUL. lia.
  - destruct s; [cbn in L; discriminate|discriminate].
Qed.
Lemma clean_app a b : clean a -> clean b -> clean (a ++ b).
Proof. intros. apply Forall_app. auto. Qed.

(* ---------- splitting ---------- *)
Lemma split_on_f_run c : forall a rest cur, Forall (fun b => (b =? c) = false) a -> split_on_f c (a ++ rest) cur = split_on_f c rest (rev a ++ cur).
Proof.
  induction a as [|x a IH]; intros rest cur F; [reflexivity|].
  inversion F; subst. cbn [app split_on_f]. rewrite H1. rewrite IH by assumption. cbn [rev]. rewrite <- app_assoc. reflexivity.
Qed.
Lemma split_on_last c a : Forall (fun b => (b =? c) = false) a -> split_on c a = [a].
Proof.
  intros F. unfold split_on. rewrite <- (app_nil_r a) at 1. rewrite split_on_f_run by exact F. cbn. rewrite app_nil_r, rev_involutive. reflexivity.
Qed.
Lemma split_on_cons c a rest : Forall (fun b => (b =? c) = false) a -> split_on c (a ++ c :: rest) = a :: split_on c rest.
Proof.
  intros F. unfold split_on. rewrite split_on_f_run by exact F. cbn [split_on_f]. rewrite Z.eqb_refl, app_nil_r, rev_involutive. reflexivity.
Qed.

Lemma clean_no c l : clean l -> (is_space c = true \/ c = NUL) -> Forall (fun b => (b =? c) = false) l.
Proof.
  intros C H. eapply Forall_impl; [|exact C]. intros b [A B]. cbn beta in *. destruct (b =? c) eqn:E; [|reflexivity].
  apply Z.eqb_eq in E. subst b. destruct H as [H|H]; [congruence|subst; unfold NUL in B; discriminate].
Qed.

(* tokens joined by single spaces *)
Fixpoint join (cs : list bytes) : bytes := match cs with [] => [] | [c] => c | c :: r => c ++ SP :: join r end.
Lemma format_caps_join c cs : format_caps (c :: cs) = SP :: join (c :: cs).
Proof.
  revert c. induction cs as [|d cs IH]; intros c; [cbn [format_caps flat_map join]; rewrite app_nil_r; reflexivity|].
  change (format_caps (c :: d :: cs)) with ((SP :: c) ++ format_caps (d :: cs)). rewrite (IH d).
  change (join (c :: d :: cs)) with (c ++ SP :: join (d :: cs)). reflexivity.
Qed.
Lemma split_join : forall cs, cs <> [] -> Forall clean cs -> split_on SP (join cs) = cs.
Proof.
  induction cs as [|c cs IH]; intros NE F; [contradiction|]. inversion F as [|? ? Hc F']; subst.
  assert (NS : Forall (fun b => (b =? SP) = false) c) by (apply clean_no; [exact Hc|left; reflexivity]).
  destruct cs as [|d cs]; [cbn [join]; apply split_on_last; exact NS|].
  change (join (c :: d :: cs)) with (c ++ SP :: join (d :: cs)). rewrite split_on_cons by exact NS. f_equal. apply IH; [discriminate|exact F'].
Qed.

(* ---------- stripping ---------- *)
Lemma rstrip_keep (a : bytes) : (forall x r, rev a = x :: r -> is_space x = false) -> rstrip a = a.
Proof.
  unfold rstrip. intros H. destruct (rev a) as [|x r] eqn:E.
  - cbn. apply (f_equal (@rev Z)) in E. rewrite rev_involutive in E. cbn in E. congruence.
  - cbn [drop_while]. rewrite (H x r eq_refl). rewrite <- E. apply rev_involutive.
Qed.
Lemma rstrip_lf (a : bytes) : rstrip (a ++ [LF]) = rstrip a.
Proof. unfold rstrip. rewrite rev_app_distr. reflexivity. Qed.
Lemma last_of_app (a b : bytes) x r : b <> [] -> rev (a ++ b) = x :: r -> exists r', rev b = x :: r'.
Proof.
  intros NE E. rewrite rev_app_distr in E. destruct (rev b) as [|y t] eqn:R.
  - apply (f_equal (@rev Z)) in R. rewrite rev_involutive in R. cbn in R. contradiction.
  - cbn in E. inversion E; subst. eauto.
Qed.
Lemma clean_last (a : bytes) : clean a -> forall x r, rev a = x :: r -> is_space x = false.
Proof.
  intros C x r E. assert (In x a) by (apply in_rev; rewrite E; left; reflexivity).
  unfold clean in C. rewrite Forall_forall in C. apply C. exact H.
Qed.
Lemma join_clean_last : forall cs, cs <> [] -> Forall (fun c => clean c /\ c <> []) cs -> forall x r, rev (join cs) = x :: r -> is_space x = false.
Proof.
  induction cs as [|c cs IH]; intros NE F x r E; [contradiction|]. inversion F as [|? ? [Hc Nc] F']; subst.
  destruct cs as [|d cs]; [cbn [join] in E; eapply clean_last; eauto|].
  change (join (c :: d :: cs)) with (c ++ SP :: join (d :: cs)) in E.
  assert (J : join (d :: cs) <> []) by (inversion F' as [|? ? [_ Nd] _]; subst; destruct cs; cbn [join]; [exact Nd|destruct d; [contradiction|discriminate]]).
  change (c ++ SP :: join (d :: cs)) with (c ++ [SP] ++ join (d :: cs)) in E. rewrite app_assoc in E.
  destruct (last_of_app _ _ _ _ J E) as [r' E']. eapply IH; [discriminate|exact F'|exact E'].
Qed.
Lemma join_head : forall cs, cs <> [] -> Forall (fun c => clean c /\ c <> []) cs -> exists x t, join cs = x :: t /\ is_space x = false.
Proof.
  intros [|c cs] NE F; [contradiction|]. inversion F as [|? ? [Hc Nc] _]; subst. destruct c as [|x c]; [contradiction|].
  inversion Hc as [|? ? [A _] _]; subst. destruct cs; cbn [join app]; eauto.
Qed.

Section RT.
  Variables (sha ref : bytes) (cs : list bytes).
  Hypothesis Hs : valid_hexsha sha = true.
  Hypothesis Hr : check_ref_format ref = true.
  Hypothesis Hc : forallb tokenb cs = true.

  Let TOK : Forall (fun c => clean c /\ c <> []) cs.
  Proof. apply Forall_forall. intros c I. rewrite forallb_forall in Hc. apply token_clean. apply Hc. exact I. Qed.
  Let head := sha ++ [SP] ++ ref.
  Let head_no_nul : Forall (fun b => (b =? NUL) = false) head.
  Proof.
    unfold head. apply Forall_app. split; [apply clean_no; [apply (hex_clean _ Hs)|right; reflexivity]|].
    apply Forall_app. split; [constructor; [reflexivity|constructor]|apply clean_no; [apply (name_clean' _ Hr)|right; reflexivity]].
  Qed.

  Lemma caps_roundtrip_lemma : extract_capabilities (format_ref_line ref sha (Some cs)) = Some (head, cs).
  Proof.
    unfold extract_capabilities, format_ref_line.
    replace (existsb (fun b => b =? NUL) (sha ++ [SP] ++ ref ++ [NUL] ++ format_caps cs ++ [LF])) with true.
    2:{ symmetry. apply existsb_exists. exists NUL. split; [|reflexivity]. rewrite !in_app_iff. right. right. right. left. left. reflexivity. }
    cbn [negb].
    replace (sha ++ [SP] ++ ref ++ [NUL] ++ format_caps cs ++ [LF]) with ((head ++ NUL :: format_caps cs) ++ [LF])
      by (unfold head; rewrite <- ?app_assoc; reflexivity).
    rewrite rstrip_lf.
    destruct cs as [|c cs'] eqn:CS.
    - cbn [format_caps flat_map]. rewrite rstrip_keep.
      + rewrite split_on_cons by exact head_no_nul. cbn. reflexivity.
      + intros x r E. rewrite rev_app_distr in E. cbn in E. inversion E; subst. reflexivity.
    - rewrite format_caps_join. rewrite rstrip_keep.
      + rewrite split_on_cons by exact head_no_nul.
        assert (NN : Forall (fun b => (b =? NUL) = false) (SP :: join (c :: cs'))).
        { constructor; [reflexivity|]. clear - TOK. revert TOK. generalize (c :: cs'). induction l as [|d l IH]; intros T; [constructor|].
          inversion T as [|? ? [Hd _] T']; subst. destruct l as [|e l].
          - cbn [join]. apply clean_no; [exact Hd|right; reflexivity].
          - change (join (d :: e :: l)) with (d ++ SP :: join (e :: l)). apply Forall_app. split; [apply clean_no; [exact Hd|right; reflexivity]|].
            constructor; [reflexivity|apply IH; exact T']. }
        rewrite split_on_last by exact NN.
        assert (ST : strip (SP :: join (c :: cs')) = join (c :: cs')).
        { unfold strip. rewrite rstrip_keep.
          - cbn [drop_while]. unfold is_space at 1. unfold SP at 1. cbn [Z.eqb orb].
            destruct (join_head (c :: cs')) as (x & t & E & X); [discriminate|exact TOK|]. rewrite E. cbn [drop_while]. rewrite X. reflexivity.
          - intros x r E. change (SP :: join (c :: cs')) with ([SP] ++ join (c :: cs')) in E.
            assert (J : join (c :: cs') <> []) by (destruct (join_head (c :: cs')) as (y & t & E' & _); [discriminate|exact TOK|rewrite E'; discriminate]).
            destruct (last_of_app _ _ _ _ J E) as [r' E']. eapply join_clean_last; [|exact TOK|exact E']. discriminate. }
        rewrite ST. destruct (join_head (c :: cs')) as (x & t & E & _); [discriminate|exact TOK|]. rewrite E. rewrite <- E.
        rewrite split_join; [reflexivity|discriminate|]. eapply Forall_impl; [|exact TOK]. intros a [A _]. exact A.
      + intros x r E.
        assert (J : join (c :: cs') <> []) by (destruct (join_head (c :: cs')) as (y & t & E' & _); [discriminate|exact TOK|rewrite E'; discriminate]).
        change (head ++ NUL :: SP :: join (c :: cs')) with (head ++ [NUL; SP] ++ join (c :: cs')) in E. rewrite app_assoc in E.
        destruct (last_of_app _ _ _ _ J E) as [r' E']. eapply join_clean_last; [|exact TOK|exact E']. discriminate.
  Qed.

  Lemma no_caps_lemma : extract_capabilities (format_ref_line ref sha None) = Some (head ++ [LF], []).
  Proof.
    unfold extract_capabilities, format_ref_line.
    replace (existsb (fun b => b =? NUL) (sha ++ [SP] ++ ref ++ [LF])) with false.
    - cbn [negb]. unfold head. rewrite <- !app_assoc. reflexivity.
    - symmetry. apply not_true_iff_false. intros H. apply existsb_exists in H. destruct H as (b & I & E).
      replace (sha ++ [SP] ++ ref ++ [LF]) with (head ++ [LF]) in I by (unfold head; rewrite <- !app_assoc; reflexivity).
      apply in_app_iff in I. destruct I as [I|[<-|[]]]; [|discriminate].
      pose proof head_no_nul as N. rewrite Forall_forall in N. specialize (N b I). cbn beta in N. congruence.
  Qed.
End RT.
