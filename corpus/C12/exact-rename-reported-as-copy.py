#!/usr/bin/env python
"""C12: an exact rename is reported as "copy from a modified file + delete".

RenameDetector puts modified files into the same list as deleted files (as
possible copy sources) and _find_exact_renames() pairs sources and adds of one
blob id in path order.  When a modified file with the same old blob sorts
before the file that was really deleted, the add is paired with the modified
file (a copy) and the deleted file stays a plain delete.  C git (-M, with or
without -C) reports the rename  x -> y.
"""
import os
import shutil
import subprocess
import sys
import tempfile
from dulwich.diff_tree import RenameDetector, tree_changes
from dulwich.index import commit_tree
from dulwich.objects import Blob
from dulwich.repo import Repo

ENV = dict(os.environ, HOME="/nonexistent", GIT_CONFIG_NOSYSTEM="1", GIT_CONFIG_GLOBAL="/dev/null")
tmp = tempfile.mkdtemp()
bad = False
try:
    r = Repo.init(tmp)
    s = r.object_store
    b_s = Blob.from_string(b"shared content\n" * 5)
    b_t = Blob.from_string(b"something else entirely\n" * 5)
    s.add_object(b_s)
    s.add_object(b_t)
    F = 0o100644
    # m is modified (S -> T), x (content S) disappears, y (content S) appears
    t1 = commit_tree(s, [(b"m", b_s.id, F), (b"x", b_s.id, F)])
    t2 = commit_tree(s, [(b"m", b_t.id, F), (b"y", b_s.id, F)])
    ch = list(tree_changes(s, t1, t2, rename_detector=RenameDetector(s)))
    mine = [(c.type, c.old.path if c.old else None, c.new.path if c.new else None) for c in ch]
    print("dulwich            :", mine)
    for flags in (["-M"], ["-M", "-C"]):
        out = subprocess.run(
            ["git", "-C", tmp, "diff-tree", "-r", "--raw", *flags, t1.decode(), t2.decode()],
            env=ENV, capture_output=True, text=True, check=True,
        ).stdout
        print("git %-15s:" % " ".join(flags), [line.split(" ", 4)[4] for line in out.splitlines()])
    print("required: modify m, rename x -> y")
    if ("rename", b"x", b"y") not in mine:
        print("VIOLATION: the exact rename x -> y is reported as copy m -> y plus delete x")
        bad = True
finally:
    shutil.rmtree(tmp, ignore_errors=True)
sys.exit(1 if bad else 0)
