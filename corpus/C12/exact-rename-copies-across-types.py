#!/usr/bin/env python
"""C12 finding 2: exact-rename pass emits copies across file types and turns a rename into delete+copy.

RenameDetector._find_exact_renames pairs deletes and adds that share a blob id
positionally (zip).  A pair whose file types differ is skipped with `continue`,
but the "extra adds" loop that follows never checks the type and never looks
for the still-unmatched delete: every surplus add becomes CHANGE_COPY of
sha_deletes[0], whatever its mode.  Result for
    old: a0 (100755, S)
    new: a/a- (symlink, S), a/a0 (symlink, S), a0/a.b (100755, S)
is  delete a0, copy a0->a/a0 (regular file "copied" to a symlink),
copy a0->a0/a.b, add a/a-; C git (-C) reports R100 a0->a0/a.b and two adds.
A pure type-only change shows it too: a (file,S) -> a (symlink,S) plus a new
symlink a.b (S) yields "copy a(file) -> a.b(symlink)".
"""
import os, subprocess, sys, tempfile, shutil
from dulwich.repo import Repo
from dulwich.objects import Blob
from dulwich.index import commit_tree
from dulwich.diff_tree import tree_changes, RenameDetector

ENV = dict(os.environ, HOME="/nonexistent", GIT_CONFIG_NOSYSTEM="1", GIT_CONFIG_GLOBAL="/dev/null")
os.makedirs((os.environ.get("CORPUS_TMP") or "/tmp"), exist_ok=True)
d = tempfile.mkdtemp(dir=(os.environ.get("CORPUS_TMP") or "/tmp"))
try:
    subprocess.run(["git", "init", "-q", d], env=ENV, check=True)
    repo = Repo(d)
    store = repo.object_store
    blob = Blob.from_string(b"target\n")
    store.add_object(blob)
    S = blob.id

    def git_diff(t1, t2):
        out = subprocess.run(["git", "-C", d, "diff-tree", "-r", "--raw", "-C", "-z", t1.decode(), t2.decode()],
                             env=ENV, check=True, capture_output=True).stdout.split(b"\0")
        res, i = [], 0
        while i < len(out) and out[i]:
            st = out[i].split(b" ")[4][:1]
            om, nm = out[i][1:].split(b" ")[:2]
            if st in b"RC":
                res.append((st.decode(), out[i + 1], out[i + 2], om, nm)); i += 3
            else:
                res.append((st.decode(), out[i + 1], out[i + 1], om, nm)); i += 2
        return sorted(res)

    LETTER = {"add": "A", "delete": "D", "modify": "M", "rename": "R", "copy": "C"}
    bad = False
    cases = [
        ("rename next to same-content symlinks",
         {b"a0": (0o100755, S)},
         {b"a/a-": (0o120000, S), b"a/a0": (0o120000, S), b"a0/a.b": (0o100755, S)}),
        ("type-only change file->symlink plus a new symlink",
         {b"a": (0o100644, S)},
         {b"a": (0o120000, S), b"a.b": (0o120000, S)}),
    ]
    for name, l1, l2 in cases:
        t1 = commit_tree(store, [(p, s, m) for p, (m, s) in l1.items()])
        t2 = commit_tree(store, [(p, s, m) for p, (m, s) in l2.items()])
        ch = list(tree_changes(store, t1, t2, rename_detector=RenameDetector(store)))
        print("==", name)
        for c in ch:
            print("  dulwich:", c.type, c.old and (c.old.path, oct(c.old.mode)), "->", c.new and (c.new.path, oct(c.new.mode)))
        g = git_diff(t1, t2)
        for x in g:
            print("  git -C :", x)
        for c in ch:
            if c.type in ("copy", "rename") and (c.old.mode & 0o170000) != (c.new.mode & 0o170000):
                print("  VIOLATION: %s across file types %o -> %o (%s -> %s); git reports none"
                      % (c.type, c.old.mode, c.new.mode, c.old.path, c.new.path))
                bad = True
        gr = sorted((x[1], x[2]) for x in g if x[0] == "R")
        dr = sorted((c.old.path, c.new.path) for c in ch if c.type == "rename")
        if gr != dr:
            print("  VIOLATION: renames differ from C git: git %s, dulwich %s" % (gr, dr))
            bad = True
finally:
    shutil.rmtree(d, ignore_errors=True)
if bad:
    print("The property requires the diff with rename/copy detection to match C git's raw tree diff.")
    sys.exit(1)
print("no violation")
sys.exit(0)
