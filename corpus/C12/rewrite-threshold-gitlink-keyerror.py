import os
#!/usr/bin/env python
"""C12 finding 1: tree diff with rename detection + rewrite_threshold crashes on a gitlink change.

RenameDetector(rewrite_threshold=N) is a documented option.  _should_split()
loads change.old.sha / change.new.sha from the object store for *every*
CHANGE_MODIFY, including submodule (gitlink, mode 160000) entries whose ids
name commits that are not (and need not be) in this repository.  The rest of
the detector knows that ("Git links don't exist in this repo" in
_find_content_rename_candidates) but _should_split does not, so a plain
submodule bump -- or, with change_type_same=True, a gitlink<->file type change
-- makes tree_changes() raise KeyError instead of returning the diff.
"""
import sys
from dulwich.object_store import MemoryObjectStore
from dulwich.objects import Blob
from dulwich.index import commit_tree
from dulwich.diff_tree import tree_changes, RenameDetector

store = MemoryObjectStore()
blob = Blob.from_string(b"hello\n")
store.add_object(blob)
C1, C2 = b"1" * 40, b"2" * 40  # commits living in the submodule's own repo

failed = False
cases = [
    ("gitlink bump", {b"sub": (0o160000, C1)}, {b"sub": (0o160000, C2)}, False),
    ("gitlink -> file (change_type_same)", {b"a": (0o160000, C1)}, {b"a": (0o100644, blob.id)}, True),
]
for name, l1, l2, cts in cases:
    t1 = commit_tree(store, [(p, s, m) for p, (m, s) in l1.items()])
    t2 = commit_tree(store, [(p, s, m) for p, (m, s) in l2.items()])
    plain = list(tree_changes(store, t1, t2, change_type_same=cts))
    print(f"{name}: without rename detection -> {[(c.type, (c.new or c.old).path) for c in plain]}")
    rd = RenameDetector(store, rewrite_threshold=50)
    try:
        ch = list(tree_changes(store, t1, t2, rename_detector=rd, change_type_same=cts))
        print(f"{name}: with RenameDetector(rewrite_threshold=50) -> {[(c.type, (c.new or c.old).path) for c in ch]}")
    except KeyError as e:
        print(f"{name}: with RenameDetector(rewrite_threshold=50) -> KeyError({e})")
        failed = True

if failed:
    print("VIOLATION: the property requires the diff (one 'modify' of the gitlink path) to be"
          " computed with rename detection as well; instead the detector dies looking up the"
          " submodule commit in the object store.")
    sys.exit(1)
print("no violation")
sys.exit(0)
