#!/usr/bin/env python
"""C12: deep nesting - commit_tree()/commit_tree_changes() cannot build a tree
that dulwich itself flattens and diffs and that C git builds without trouble.

commit_tree() recurses once per path component (add_tree and build_tree) and
commit_tree_changes() recurses once per directory level, so a single legal
entry nested ~1000 directories deep (path length 2.2 kB, far below git's
limits) raises RecursionError.  iter_tree_contents()/tree_changes() are
iterative and handle the very same tree, so build and flatten are not inverse.
"""
import os
import shutil
import subprocess
import sys
import tempfile
from dulwich.diff_tree import tree_changes
from dulwich.index import commit_tree
from dulwich.object_store import commit_tree_changes, iter_tree_contents
from dulwich.objects import Blob
from dulwich.repo import Repo

ENV = dict(os.environ, HOME="/nonexistent", GIT_CONFIG_NOSYSTEM="1", GIT_CONFIG_GLOBAL="/dev/null")
DEPTH = 1100
tmp = tempfile.mkdtemp()
bad = False
try:
    r = Repo.init(tmp)
    s = r.object_store
    b1 = Blob.from_string(b"one\n")
    b2 = Blob.from_string(b"two\n")
    s.add_object(b1)
    s.add_object(b2)
    path = b"/".join([b"d"] * DEPTH) + b"/f"
    print("one entry, %d directories deep, path length %d" % (DEPTH, len(path)))

    def git_tree(blob_id):
        env = dict(ENV, GIT_INDEX_FILE=os.path.join(tmp, "idx-" + blob_id.decode()))
        subprocess.run(["git", "-C", tmp, "update-index", "--index-info"],
                       input=b"100644 " + blob_id + b"\t" + path + b"\n", env=env, check=True)
        return subprocess.run(["git", "-C", tmp, "write-tree"], env=env,
                              capture_output=True, check=True).stdout.strip()

    g1 = git_tree(b1.id)
    g2 = git_tree(b2.id)
    print("C git builds the trees:", g1.decode(), g2.decode())
    flat = [(e.path == path, e.mode, e.sha) for e in iter_tree_contents(s, g1)]
    print("dulwich flattens git's tree: 1 entry, path matches =", flat == [(True, 0o100644, b1.id)])
    ch = list(tree_changes(s, g1, g2))
    print("dulwich diffs git's trees  :", [(c.type, c.new.path == path) for c in ch])
    try:
        t1 = commit_tree(s, [(path, b1.id, 0o100644)])
        print("commit_tree ->", t1.decode(), "(equal to git's)" if t1 == g1 else "(DIFFERENT)")
        bad = bad or t1 != g1
    except RecursionError as e:
        print("VIOLATION: commit_tree raised RecursionError:", e)
        bad = True
    try:
        t2 = commit_tree_changes(s, g1, [(path, 0o100644, b2.id)])
        print("commit_tree_changes ->", t2.decode(), "(equal to git's)" if t2 == g2 else "(DIFFERENT)")
        bad = bad or t2 != g2
    except RecursionError as e:
        print("VIOLATION: commit_tree_changes raised RecursionError:", e)
        bad = True
    print("required: both builders return the ids C git computed")
finally:
    shutil.rmtree(tmp, ignore_errors=True)
sys.exit(1 if bad else 0)
