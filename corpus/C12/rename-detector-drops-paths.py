import os
#!/usr/bin/env python
"""C12: tree_changes() ignores the `paths` filter when a rename detector is given.

The filtered difference must only mention paths at or under the filter (as it
does without a rename detector, and as `git diff-tree -r -M t1 t2 -- a` does).
"""
import sys
from dulwich.diff_tree import RenameDetector, tree_changes
from dulwich.index import commit_tree
from dulwich.object_store import MemoryObjectStore
from dulwich.objects import Blob

s = MemoryObjectStore()
b1 = Blob.from_string(b"one\n")
b2 = Blob.from_string(b"two\n")
s.add_object(b1)
s.add_object(b2)
F = 0o100644
t1 = commit_tree(s, [(b"a", b1.id, F), (b"d/x", b1.id, F), (b"e", b1.id, F)])
t2 = commit_tree(s, [(b"a", b2.id, F), (b"d/x", b2.id, F), (b"e", b2.id, F)])


def paths_of(changes):
    out = set()
    for c in changes:
        for e in (c.old, c.new):
            if e is not None:
                out.add(e.path)
    return sorted(out)


plain = paths_of(tree_changes(s, t1, t2, paths=[b"a"]))
with_rd = paths_of(
    tree_changes(s, t1, t2, paths=[b"a"], rename_detector=RenameDetector(s))
)
print("paths=[b'a'], no rename detector  :", plain)
print("paths=[b'a'], with rename detector:", with_rd)
print("required: only paths at or under b'a' in both cases")
if with_rd != [b"a"]:
    print("VIOLATION: the path filter is dropped when a rename detector is passed")
    sys.exit(1)
sys.exit(0)
