import os
#!/usr/bin/env python
"""C12: tree_changes() ignores change_type_same when a rename detector is given.

A file -> symlink change at one path must be reported as ONE change for that
path when change_type_same=True (git reports one 'T' record, also with -M).
With a RenameDetector the flag is silently dropped: the path is mentioned
twice, and the 'add' is even listed before the 'delete' of the same path, so
applying the list in order to the first listing removes the path altogether.
"""
import sys
from dulwich.diff_tree import RenameDetector, tree_changes
from dulwich.index import commit_tree
from dulwich.object_store import MemoryObjectStore
from dulwich.objects import Blob

s = MemoryObjectStore()
b1 = Blob.from_string(b"target\n")
s.add_object(b1)
l1 = {b"a": (0o100644, b1.id), b"z": (0o100644, b1.id)}
l2 = {b"a": (0o120000, b1.id), b"z": (0o100644, b1.id)}
t1 = commit_tree(s, [(p, sha, m) for p, (m, sha) in l1.items()])
t2 = commit_tree(s, [(p, sha, m) for p, (m, sha) in l2.items()])


def brief(changes):
    return [
        (c.type, c.old and (c.old.path, oct(c.old.mode)), c.new and (c.new.path, oct(c.new.mode)))
        for c in changes
    ]


plain = list(tree_changes(s, t1, t2, change_type_same=True))
with_rd = list(
    tree_changes(s, t1, t2, change_type_same=True, rename_detector=RenameDetector(s))
)
print("change_type_same=True, no rename detector  :", brief(plain))
print("change_type_same=True, with rename detector:", brief(with_rd))

# apply the list in the order given
cur = dict(l1)
for c in with_rd:
    if c.type in ("delete", "rename"):
        cur.pop(c.old.path, None)
    if c.type in ("add", "modify", "rename", "copy"):
        cur[c.new.path] = (c.new.mode, c.new.sha)
print("second listing                 :", l2)
print("first listing + changes in order:", cur)

bad = False
if len(with_rd) != 1 or with_rd[0].type != "modify":
    print("VIOLATION: path b'a' is mentioned twice although change_type_same=True")
    bad = True
if cur != l2:
    print("VIOLATION: 'add a' precedes 'delete a'; in-order application loses b'a'")
    bad = True
sys.exit(1 if bad else 0)
