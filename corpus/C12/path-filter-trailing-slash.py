#!/usr/bin/env python
"""C12 finding 4: a directory path filter written with a trailing slash silently yields an empty diff.

walk_trees() decides whether to descend into / report an entry with
    path == filter_path  or  path.startswith(filter_path + b"/")
and descends into a tree when filter_path.startswith(path + b"/").  For the
filter b"a/" the tree "a" is entered (b"a/".startswith(b"a/")), but none of
its children is ever reported: b"a/b" != b"a/" and b"a/b" does not start with
b"a//".  tree_changes(..., paths=[b"a/"]) therefore returns nothing although
a/b changed, where C git's `diff-tree -r t1 t2 -- a/` lists a/b.  The module
docstring of dulwich/diff.py advertises exactly this spelling
(paths=[b'src/', b'README.md']) and hands it unmodified to tree_changes.
"""
import os, subprocess, sys, tempfile, shutil
from dulwich.repo import Repo
from dulwich.objects import Blob
from dulwich.index import commit_tree
from dulwich.diff_tree import tree_changes, RenameDetector

ENV = dict(os.environ, HOME="/nonexistent", GIT_CONFIG_NOSYSTEM="1", GIT_CONFIG_GLOBAL="/dev/null")
os.makedirs((os.environ.get("CORPUS_TMP") or "/tmp"), exist_ok=True)
d = tempfile.mkdtemp(dir=(os.environ.get("CORPUS_TMP") or "/tmp"))
bad = False
try:
    subprocess.run(["git", "init", "-q", d], env=ENV, check=True)
    store = Repo(d).object_store
    bl = []
    for i in range(3):
        b = Blob.from_string(b"content %d\n" % i)
        store.add_object(b); bl.append(b.id)
    l1 = {b"a/b": (0o100644, bl[0]), b"a/c/d": (0o100644, bl[0]), b"a.b": (0o100644, bl[0]), b"a0": (0o100644, bl[0])}
    l2 = {b"a/b": (0o100644, bl[1]), b"a/c/d": (0o100644, bl[2]), b"a.b": (0o100644, bl[1]), b"a0": (0o100644, bl[1])}
    t1 = commit_tree(store, [(p, s, m) for p, (m, s) in l1.items()])
    t2 = commit_tree(store, [(p, s, m) for p, (m, s) in l2.items()])

    def git_paths(spec):
        out = subprocess.run(["git", "-C", d, "diff-tree", "-r", "--name-only", "-z", t1.decode(), t2.decode(), "--", spec],
                             env=ENV, check=True, capture_output=True).stdout
        return sorted(p for p in out.split(b"\0") if p)

    for spec in (b"a", b"a/", b"a/c", b"a/c/"):
        for rd in (None, RenameDetector(store)):
            ch = list(tree_changes(store, t1, t2, paths=[spec], rename_detector=rd))
            mine = sorted((c.new or c.old).path for c in ch)
            g = git_paths(spec.decode())
            flag = "ok" if mine == g else "VIOLATION"
            print("paths=[%r] rename_detector=%s: dulwich %s, git %s -> %s"
                  % (spec, "yes" if rd else "no", mine, g, flag))
            if mine != g:
                bad = True
finally:
    shutil.rmtree(d, ignore_errors=True)
if bad:
    print("The property requires the path-filtered diff to match C git's raw tree diff for the same"
          " filter; changes under the directory are dropped when it is spelled 'dir/'.")
    sys.exit(1)
print("no violation")
sys.exit(0)
