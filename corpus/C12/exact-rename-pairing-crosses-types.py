#!/usr/bin/env python
"""C12: exact-rename pairing in RenameDetector is positional and crosses file types.

_find_exact_renames() zips the deletes and adds that share a blob id in path
order.  A pair whose file types differ is skipped, but the add of that pair is
not offered to anything else and the leftover ("extra") adds are turned into
copies WITHOUT the type check.  Two consequences, both different from
`git diff-tree -r -M -C` on the same trees:
  case A: file x deleted; symlink l and file y (same blob) added
          -> dulwich: delete x + copy x->y        git: R100 x -> y
  case B: file x deleted; file b and symlink z (same blob) added
          -> dulwich: rename x->b + COPY x->z from a regular file to a symlink
             git: R100 x -> b, A z
"""
import os
import shutil
import stat
import subprocess
import sys
import tempfile
from dulwich.diff_tree import RenameDetector, tree_changes
from dulwich.index import commit_tree
from dulwich.objects import Blob
from dulwich.repo import Repo

ENV = dict(os.environ, HOME="/nonexistent", GIT_CONFIG_NOSYSTEM="1", GIT_CONFIG_GLOBAL="/dev/null")
tmp = tempfile.mkdtemp()
bad = False
try:
    r = Repo.init(tmp)
    s = r.object_store
    blob = Blob.from_string(b"shared content\n" * 5)
    s.add_object(blob)
    S = blob.id
    REG, LNK = 0o100644, 0o120000

    def run(name, l1, l2):
        global bad
        t1 = commit_tree(s, [(p, S, m) for p, m in l1.items()])
        t2 = commit_tree(s, [(p, S, m) for p, m in l2.items()])
        ch = list(tree_changes(s, t1, t2, rename_detector=RenameDetector(s)))
        mine = sorted(
            (c.type, c.old.path if c.old else None, c.new.path if c.new else None) for c in ch
        )
        out = subprocess.run(
            ["git", "-C", tmp, "diff-tree", "-r", "--raw", "-M", "-C", t1.decode(), t2.decode()],
            env=ENV, capture_output=True, text=True, check=True,
        ).stdout
        print(name)
        print("  dulwich:", mine)
        print("  git    :", [line.split(" ", 4)[4] for line in out.splitlines()])
        for c in ch:
            if c.type in ("rename", "copy") and stat.S_IFMT(c.old.mode) != stat.S_IFMT(c.new.mode):
                print("  VIOLATION: %s pairs %o %r with %o %r (different file types)"
                      % (c.type, c.old.mode, c.old.path, c.new.mode, c.new.path))
                bad = True
        renames = [c for c in ch if c.type == "rename"]
        if "R100" in out and not renames:
            print("  VIOLATION: git finds the exact rename, dulwich reports delete + copy")
            bad = True

    run("case A", {b"x": REG}, {b"l": LNK, b"y": REG})
    run("case B", {b"x": REG}, {b"b": REG, b"z": LNK})
finally:
    shutil.rmtree(tmp, ignore_errors=True)
sys.exit(1 if bad else 0)
