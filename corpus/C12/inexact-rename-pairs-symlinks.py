#!/usr/bin/env python
"""C12: content (inexact) rename detection pairs symbolic links; C git never does.

_find_content_rename_candidates() scores every delete/add pair of the same
file type, symlinks included.  C git's estimate_similarity() only deals with
regular files ("symlink renames are handled only when they are exact
matches"), so `git diff-tree -r -M` keeps D x / A y for two different links.
"""
import os
import shutil
import subprocess
import sys
import tempfile
from dulwich.diff_tree import RenameDetector, tree_changes
from dulwich.index import commit_tree
from dulwich.objects import Blob
from dulwich.repo import Repo

ENV = dict(os.environ, HOME="/nonexistent", GIT_CONFIG_NOSYSTEM="1", GIT_CONFIG_GLOBAL="/dev/null")
tmp = tempfile.mkdtemp()
bad = False
try:
    r = Repo.init(tmp)
    s = r.object_store
    # two long link targets that share most of their bytes
    l_one = Blob.from_string(b"d/" * 100 + b"one")
    l_two = Blob.from_string(b"d/" * 100 + b"two")
    s.add_object(l_one)
    s.add_object(l_two)
    LNK = 0o120000
    t1 = commit_tree(s, [(b"x", l_one.id, LNK)])
    t2 = commit_tree(s, [(b"y", l_two.id, LNK)])
    ch = list(tree_changes(s, t1, t2, rename_detector=RenameDetector(s)))
    mine = [(c.type, c.old.path if c.old else None, c.new.path if c.new else None) for c in ch]
    out = subprocess.run(
        ["git", "-C", tmp, "diff-tree", "-r", "--raw", "-M", "-C", t1.decode(), t2.decode()],
        env=ENV, capture_output=True, text=True, check=True,
    ).stdout
    git = [line.split(" ", 4)[4] for line in out.splitlines()]
    print("dulwich       :", mine)
    print("git -M -C     :", git)
    print("required      : delete x, add y (links with different targets are not renames)")
    if any(t in ("rename", "copy") for t, _, _ in mine) and git == ["D\tx", "A\ty"]:
        print("VIOLATION: dulwich reports a rename of a symlink with changed target")
        bad = True
finally:
    shutil.rmtree(tmp, ignore_errors=True)
sys.exit(1 if bad else 0)
