#!/usr/bin/env python
"""C12 finding 3: a real rename is reported as copy-of-a-modified-file plus delete.

RenameDetector._add_change puts every CHANGE_MODIFY (and, with
find_copies_harder, every unchanged entry) into self._deletes as a possible
copy source.  _find_exact_renames then pairs deletes and adds of equal blob id
by position (zip) in path order, without preferring sources that really
disappeared.  With
    old: a.b (S1), a0/a.b (S1)
    new: a.b (S2), a-/a0 (S1)
the modified a.b sorts before the deleted a0/a.b, so the add a-/a0 is paired
with it: dulwich says  copy a.b->a-/a0, modify a.b, delete a0/a.b.
C git (both -M and -C) says  R100 a0/a.b->a-/a0, M a.b  -- no delete, no copy.
The same happens with an unchanged source under find_copies_harder.
"""
import os, subprocess, sys, tempfile, shutil
from dulwich.repo import Repo
from dulwich.objects import Blob
from dulwich.index import commit_tree
from dulwich.diff_tree import tree_changes, RenameDetector

ENV = dict(os.environ, HOME="/nonexistent", GIT_CONFIG_NOSYSTEM="1", GIT_CONFIG_GLOBAL="/dev/null")
os.makedirs((os.environ.get("CORPUS_TMP") or "/tmp"), exist_ok=True)
d = tempfile.mkdtemp(dir=(os.environ.get("CORPUS_TMP") or "/tmp"))
bad = False
try:
    subprocess.run(["git", "init", "-q", d], env=ENV, check=True)
    store = Repo(d).object_store
    b1 = Blob.from_string(b"".join(b"line %d\n" % i for i in range(30)))
    b2 = Blob.from_string(b"completely different content\n" * 20)
    store.add_object(b1); store.add_object(b2)
    S1, S2 = b1.id, b2.id

    def git_diff(t1, t2, *opts):
        out = subprocess.run(["git", "-C", d, "diff-tree", "-r", "--raw", "-z", *opts, t1.decode(), t2.decode()],
                             env=ENV, check=True, capture_output=True).stdout.split(b"\0")
        res, i = [], 0
        while i < len(out) and out[i]:
            st = out[i].split(b" ")[4][:1].decode()
            if st in "RC":
                res.append((st, out[i + 1], out[i + 2])); i += 3
            else:
                res.append((st, out[i + 1], out[i + 1])); i += 2
        return sorted(res)

    LETTER = {"add": "A", "delete": "D", "modify": "M", "rename": "R", "copy": "C", "unchanged": "U"}
    cases = [
        ("modified file shadows the deleted one", False, ["-C"],
         {b"a.b": (0o100644, S1), b"a0/a.b": (0o100644, S1)},
         {b"a.b": (0o100644, S2), b"a-/a0": (0o100644, S1)}),
        ("unchanged file shadows the deleted one (find_copies_harder)", True, ["-C", "--find-copies-harder"],
         {b"a.b": (0o100644, S1), b"a0/a.b": (0o100644, S1)},
         {b"a.b": (0o100644, S1), b"a-/a0": (0o100644, S1)}),
    ]
    for name, fch, gopts, l1, l2 in cases:
        t1 = commit_tree(store, [(p, s, m) for p, (m, s) in l1.items()])
        t2 = commit_tree(store, [(p, s, m) for p, (m, s) in l2.items()])
        rd = RenameDetector(store, find_copies_harder=fch)
        ch = list(tree_changes(store, t1, t2, rename_detector=rd))
        mine = sorted((LETTER[c.type], (c.old or c.new).path, (c.new or c.old).path) for c in ch)
        g = git_diff(t1, t2, *gopts)
        print("==", name)
        print("  dulwich      :", mine)
        print("  git %-9s:" % " ".join(gopts)[:9], g)
        if mine != g:
            print("  VIOLATION: differs from C git; the path that disappeared is reported as a plain"
                  " delete and its new location as a copy of another file.")
            bad = True
finally:
    shutil.rmtree(d, ignore_errors=True)
if bad:
    print("The property requires the diff with rename/copy detection to match C git's raw tree diff.")
    sys.exit(1)
print("no violation")
sys.exit(0)
