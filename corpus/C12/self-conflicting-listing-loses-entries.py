#!/usr/bin/env python
"""C12 (conflicting listing): commit_tree() silently loses the LAST entries of a
listing in which a name is used as directory, then as file, then as directory.

For a listing with a file/directory conflict commit_tree() otherwise behaves
like `git update-index --index-info` + `git write-tree`: the later entry
replaces the conflicting earlier one ([a, a/b] -> a/b ; [a/b, a] -> a).
But the per-directory dict of a replaced directory stays registered in
`trees`, so for [a/b, a, a/c] the entry a/c is added to the orphaned dict and
never reaches the root: the tree contains only the file `a`, although a/c was
given after it.  The flattened tree is then not the listing with the
conflict resolved either way, and differs from the tree C git writes.
"""
import os
import shutil
import subprocess
import sys
import tempfile
from dulwich.index import commit_tree
from dulwich.object_store import iter_tree_contents
from dulwich.objects import Blob
from dulwich.repo import Repo

ENV = dict(os.environ, HOME="/nonexistent", GIT_CONFIG_NOSYSTEM="1", GIT_CONFIG_GLOBAL="/dev/null")
tmp = tempfile.mkdtemp()
bad = False
try:
    r = Repo.init(tmp)
    s = r.object_store
    b = Blob.from_string(b"x\n")
    s.add_object(b)
    n = 0
    for lst in ([b"a", b"a/b"], [b"a/b", b"a"], [b"a/b", b"a", b"a/c"], [b"a/b/c", b"a", b"a/b/d"]):
        n += 1
        t = commit_tree(s, [(p, b.id, 0o100644) for p in lst])
        env = dict(ENV, GIT_INDEX_FILE=os.path.join(tmp, "idx%d" % n))
        subprocess.run(
            ["git", "-C", tmp, "update-index", "--index-info"],
            input=b"".join(b"100644 " + b.id + b"\t" + p + b"\n" for p in lst), env=env, check=True,
        )
        g = subprocess.run(["git", "-C", tmp, "write-tree"], env=env,
                           capture_output=True, check=True).stdout.strip()
        mine = [e.path for e in iter_tree_contents(s, t)]
        gits = [e.path for e in iter_tree_contents(s, g)]
        print("listing", lst, "-> dulwich", mine, " git", gits)
        if t != g:
            print("  VIOLATION: last entry %r is missing from the tree dulwich built" % lst[-1])
            bad = True
    print("required: the same tree ids as C git (later entries replace conflicting earlier ones)")
finally:
    shutil.rmtree(tmp, ignore_errors=True)
sys.exit(1 if bad else 0)
