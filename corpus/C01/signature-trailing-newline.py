#!/usr/bin/env python
"""C01 finding 4: a signed commit made by dulwich carries an extra " \\n"
continuation line at the end of the gpgsig header, so its bytes and name differ
from the commit C git creates for the same logical object with the same key.

Run with PYTHONPATH pointing at the checkout under review.

WorkTree.commit() does `c.gpgsig = vendor.sign(c.as_raw_string(), ...)`.  Every
signer (gpg --armor, ssh-keygen -Y sign) ends its output with "\\n", and
_format_message() turns that trailing newline of the header value into one more
continuation line consisting of a single space.  C git (sign_with_header) copies
the signature line by line and never emits that line.

Ed25519 SSH signatures are deterministic, so for identical content, identities,
dates and key git and dulwich must produce the identical object.  The unsigned
commit made the same way is identical, which shows the set-up is fair.

Property: names and bytes are the ones C git produces for the same logical object.
"""
import os
import shutil
import subprocess
import sys
import tempfile

from dulwich import porcelain
from dulwich.repo import Repo

if not shutil.which("ssh-keygen"):
    print("ssh-keygen not available; cannot run")
    sys.exit(0)

os.makedirs((os.environ.get("CORPUS_TMP") or "/tmp"), exist_ok=True)
base = tempfile.mkdtemp(prefix="c01f4-", dir=(os.environ.get("CORPUS_TMP") or "/tmp"))
env = dict(os.environ, HOME="/nonexistent", GIT_CONFIG_NOSYSTEM="1",
           GIT_CONFIG_GLOBAL="/dev/null",
           GIT_AUTHOR_NAME="A", GIT_AUTHOR_EMAIL="a@b",
           GIT_COMMITTER_NAME="A", GIT_COMMITTER_EMAIL="a@b",
           GIT_AUTHOR_DATE="1000000000 +0000", GIT_COMMITTER_DATE="1000000000 +0000")
try:
    key = os.path.join(base, "key")
    subprocess.run(["ssh-keygen", "-q", "-t", "ed25519", "-N", "", "-C", "t", "-f", key],
                   check=True)
    raws = {}
    for who in ("git", "dulwich"):
        d = os.path.join(base, who)
        subprocess.run(["git", "init", "-q", d], env=env, check=True)

        def git(*args):
            return subprocess.run(["git", "-C", d, *args], env=env, check=True,
                                  capture_output=True).stdout

        git("config", "gpg.format", "ssh")
        git("config", "user.signingkey", key + ".pub")
        if who == "git":
            git("commit", "-q", "--allow-empty", "-m", "first")
            git("commit", "-q", "--allow-empty", "-S", "-m", "second")
        else:
            r = Repo(d)
            kw = dict(author=b"A <a@b>", committer=b"A <a@b>",
                      author_timestamp=1000000000, commit_timestamp=1000000000,
                      author_timezone=0, commit_timezone=0)
            porcelain.commit(r, message=b"first\n", sign=False, **kw)
            porcelain.commit(r, message=b"second\n", sign=True, **kw)
            r.close()
        raws[who] = (git("rev-parse", "HEAD~1").strip(), git("rev-parse", "HEAD").strip(),
                     git("cat-file", "commit", "HEAD"))
finally:
    shutil.rmtree(base, ignore_errors=True)

g_first, g_second, g_raw = raws["git"]
d_first, d_second, d_raw = raws["dulwich"]
print("unsigned parent commit : git %s  dulwich %s  %s"
      % (g_first.decode(), d_first.decode(), "same" if g_first == d_first else "DIFFERENT"))
print("signed commit          : git %s  dulwich %s  %s"
      % (g_second.decode(), d_second.decode(), "same" if g_second == d_second else "DIFFERENT"))
end = b"-----END SSH SIGNATURE-----\n"
print("git     bytes after the signature:", g_raw[g_raw.index(end) + len(end):])
print("dulwich bytes after the signature:", d_raw[d_raw.index(end) + len(end):])
print("dulwich bytes with the ' \\n' line removed equal git's bytes:",
      d_raw.replace(end + b" \n", end) == g_raw)

if g_first == d_first and g_second != d_second:
    print("VIOLATION: the signed commit has an extra ' \\n' gpgsig continuation line; "
          "same logical object, different bytes and name than C git.")
    sys.exit(1)
if g_first != d_first:
    print("set-up problem: even the unsigned commits differ; inconclusive")
    sys.exit(0)
print("no violation")
sys.exit(0)
