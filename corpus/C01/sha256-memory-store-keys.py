import os
#!/usr/bin/env python
"""C01 finding 6: MemoryObjectStore(object_format=SHA256) / MemoryRepo in
sha256 mode names every object by its SHA-1.

Run with PYTHONPATH pointing at the checkout under review.

MemoryObjectStore.add_object() does `self._data[obj.id] = obj.copy()`.
ShaFile.id is always the SHA-1, so in a store whose object_format is SHA-256
the key is a 40-hex SHA-1: the object cannot be found under its SHA-256 name
(KeyError), `in` with the SHA-1 raises ValueError, iteration yields SHA-1 names,
and for trees obj.copy() additionally re-parses the 32-byte entries with the
default 20-byte id length (see finding 8) so add_object() itself blows up.
DiskObjectStore.add_object() correctly uses obj.get_id(self.object_format).

Property: objects are named by SHA-256 in sha256 repositories.
"""
import sys

from dulwich.object_format import SHA256
from dulwich.object_store import MemoryObjectStore
from dulwich.objects import Blob, Tree
from dulwich.repo import MemoryRepo

problems = []

store = MemoryObjectStore(object_format=SHA256)
blob = Blob.from_string(b"hi\n")
want = blob.get_id(SHA256)
store.add_object(blob)
names = list(store)
print("sha256 name of the blob :", want)
print("names held by the store :", names)
if names != [want]:
    problems.append("store lists the blob as %r" % names)
try:
    present = want in store
except Exception as e:
    present = "%s: %s" % (type(e).__name__, e)
print("sha256 name in store    :", present)
if present is not True:
    problems.append("blob not found under its SHA-256 name")
try:
    store[want]
except KeyError as e:
    print("store[sha256 name]      : KeyError", e)
    problems.append("lookup by SHA-256 name raises KeyError")

tree = Tree()
tree.object_format = SHA256
tree.add(b"f", 0o100644, want)
try:
    store.add_object(tree)
    print("tree stored as          :", [n for n in store if n not in names])
    if tree.get_id(SHA256) not in list(store):
        problems.append("tree not stored under its SHA-256 name")
except Exception as e:
    print("add_object(tree) raised :", type(e).__name__, e)
    problems.append("a sha256 tree cannot be added at all")

# the same through the public MemoryRepo API
repo = MemoryRepo.init_bare([], {}, object_format="sha256")
print("MemoryRepo object format:", repo.object_format.name)
repo.object_store.add_object(blob)
print("MemoryRepo store names  :", list(repo.object_store))
if list(repo.object_store) != [want]:
    problems.append("MemoryRepo(sha256) names the blob by SHA-1 too")

if problems:
    print("VIOLATION:")
    for p in problems:
        print("  -", p)
    sys.exit(1)
print("no violation")
sys.exit(0)
