#!/usr/bin/env python
"""C01 finding 6: a commit with an empty `encoding` header, as C git writes it for
`i18n.commitEncoding=` (set but empty), loses that header when any other field
is edited.

Commit._serialize() only emits the header `if self.encoding:`; the parsed value
b"" is falsy, so the line "encoding \\n" disappears and the name changes although
the encoding field was never touched.
"""
import os, shutil, subprocess, sys, tempfile
from dulwich.objects import Commit

base = (os.environ.get("CORPUS_TMP") or "/tmp") if os.path.isdir((os.environ.get("CORPUS_TMP") or "/tmp")) else None
tmp = tempfile.mkdtemp(dir=base)
env = dict(os.environ, HOME="/nonexistent", GIT_CONFIG_NOSYSTEM="1",
           GIT_CONFIG_GLOBAL="/dev/null", GIT_AUTHOR_NAME="A",
           GIT_AUTHOR_EMAIL="a@b", GIT_COMMITTER_NAME="A",
           GIT_COMMITTER_EMAIL="a@b", GIT_AUTHOR_DATE="@1 +0000",
           GIT_COMMITTER_DATE="@1 +0000")
def git(*a, **kw):
    return subprocess.run(["git", "-C", tmp, *a], env=env, check=True,
                          capture_output=True, **kw).stdout
bad = False
try:
    subprocess.run(["git", "init", "-q", tmp], env=env, check=True)
    tree = git("hash-object", "-w", "-t", "tree", "/dev/null").strip().decode()
    cid = git("-c", "i18n.commitEncoding=", "commit-tree", tree, "-m", "msg").strip()
    raw = git("cat-file", "commit", cid.decode())
    print("git wrote", cid.decode(), ":", raw)
    print("git fsck --strict rc:",
          subprocess.run(["git", "-C", tmp, "fsck", "--strict", cid.decode()],
                         env=env, capture_output=True).returncode)
    c = Commit.from_string(raw)
    assert c.id == cid
    print("parsed encoding:", repr(c.encoding))
    c.message = b"other\n"          # the one field that is changed
    out = c.as_raw_string()
    expected = raw.replace(b"\n\nmsg\n", b"\n\nother\n")
    print("after changing the message:", out)
    print("expected                  :", expected)
    git_id = git("hash-object", "-t", "commit", "--stdin", input=expected).strip()
    print("name of expected bytes", git_id.decode(), "dulwich name", c.id.decode())
    bad = out != expected or c.id != git_id
    # a parse of the output no longer has the same encoding value either
    if Commit.from_string(out).encoding != b"":
        print("re-parsed encoding is now", Commit.from_string(out).encoding)
finally:
    shutil.rmtree(tmp, ignore_errors=True)
if bad:
    print("VIOLATION: re-serialising a parsed well-formed (git-written) commit with "
          "one field changed must reproduce every other byte exactly")
sys.exit(1 if bad else 0)
