#!/usr/bin/env python
"""C01 finding 3: Commit re-serialisation does not keep the order of the
optional headers, so editing one field moves other headers around.

Run with PYTHONPATH pointing at the checkout under review.

_parse_commit() files the optional headers into four separate buckets
(_encoding, _mergetag, _extra, _gpgsig) and forgets their relative position;
Commit._serialize() always writes encoding, mergetag*, extra*, gpgsig.
A commit whose headers are in any other order (all accepted by git fsck
--strict, and preserved verbatim by git itself: `git commit --amend -m ...`
re-emits the extra headers in their original order, see the oracle below) is
rewritten as soon as one unrelated field is set, which changes the object name
relative to what C git produces for the same edit.

Property: re-serialising a parsed well-formed object with one field changed
reproduces every other byte exactly.
"""
import os
import shutil
import subprocess
import sys
import tempfile

from dulwich.objects import Commit

TREE = b"4b825dc642cb6eb9a060e54bf8d69288fbee4904"
SIG = (b"-----BEGIN PGP SIGNATURE-----\n\niQEzBAABCAAdFiEE\n=abcd\n"
       b"-----END PGP SIGNATURE-----")
TAG = (b"object " + TREE + b"\ntype tree\ntag v1\ntagger A <a@b> 5 +0100\n\nmsg\n" + SIG)


def hdr(key, value):
    return key + b" " + value.replace(b"\n", b"\n ") + b"\n"


BASE = (b"tree " + TREE + b"\n"
        b"author A <a@b> 1000000000 +0000\n"
        b"committer C <c@d> 1000000000 +0000\n")
CASES = {
    "gpgsig followed by another header (e.g. gpgsig, gpgsig-sha256)":
        BASE + hdr(b"gpgsig", SIG) + hdr(b"gpgsig-sha256", SIG) + b"\nmsg\n",
    "extra header before mergetag":
        BASE + hdr(b"x-origin", b"svn r42") + hdr(b"mergetag", TAG) + b"\nmsg\n",
    "extra header before encoding":
        BASE + hdr(b"x-origin", b"svn r42") + b"encoding ISO-8859-1\n" + b"\nmsg\n",
}

os.makedirs((os.environ.get("CORPUS_TMP") or "/tmp"), exist_ok=True)
tmp = tempfile.mkdtemp(prefix="c01f3-", dir=(os.environ.get("CORPUS_TMP") or "/tmp"))
env = dict(os.environ, HOME="/nonexistent", GIT_CONFIG_NOSYSTEM="1",
           GIT_CONFIG_GLOBAL="/dev/null")
bad = False
try:
    subprocess.run(["git", "init", "-q", tmp], env=env, check=True)
    subprocess.run(["git", "-C", tmp, "hash-object", "-t", "tree", "-w", "/dev/null"],
                   env=env, check=True, capture_output=True)
    for label, raw in CASES.items():
        # git validates the object on hash-object (no --literally)
        subprocess.run(["git", "-C", tmp, "hash-object", "-t", "commit", "-w", "--stdin"],
                       input=raw, env=env, check=True, capture_output=True)
        c = Commit.from_string(raw)
        assert c.as_raw_string() == raw
        c.message = b"new message\n"  # the single field edit
        got = c.as_raw_string()
        want = raw[: -len(b"msg\n")] + b"new message\n"
        same = got == want
        print("%-62s %s" % (label, "ok" if same else "HEADERS REORDERED"))
        if not same:
            bad = True
            print("   header keys in : ",
                  [l.split(b" ")[0] for l in want.split(b"\n\n")[0].split(b"\n")
                   if not l.startswith(b" ")])
            print("   header keys out: ",
                  [l.split(b" ")[0] for l in got.split(b"\n\n")[0].split(b"\n")
                   if not l.startswith(b" ")])
        # Oracle: let C git perform the same single edit (new message) with
        # `git commit --amend`; git keeps the remaining headers where they were.
        if b"mergetag" in raw:
            oid = subprocess.run(["git", "-C", tmp, "hash-object", "-t", "commit", "--stdin"],
                                 input=raw, env=env, check=True,
                                 capture_output=True).stdout.strip().decode()
            genv = dict(env, GIT_COMMITTER_NAME="C", GIT_COMMITTER_EMAIL="c@d",
                        GIT_COMMITTER_DATE="1000000000 +0000")
            subprocess.run(["git", "-C", tmp, "update-ref", "refs/heads/x", oid],
                           env=env, check=True)
            subprocess.run(["git", "-C", tmp, "checkout", "-q", "x"], env=env, check=True)
            subprocess.run(["git", "-C", tmp, "commit", "-q", "--amend", "--allow-empty",
                            "-m", "new message"], env=genv, check=True)
            gitraw = subprocess.run(["git", "-C", tmp, "cat-file", "commit", "HEAD"],
                                    env=env, check=True, capture_output=True).stdout
            print("   git commit --amend gives exactly the expected bytes:", gitraw == want)
            print("   dulwich bytes == git bytes:", got == gitraw)
    fsck = subprocess.run(["git", "-C", tmp, "fsck", "--strict"], env=env,
                          capture_output=True, text=True)
    print("git fsck --strict over the three original commits: rc=%d" % fsck.returncode)
    git_ok = fsck.returncode == 0
finally:
    shutil.rmtree(tmp, ignore_errors=True)

if bad and git_ok:
    print("VIOLATION: setting one field reorders the remaining headers of a "
          "git-valid commit.")
    sys.exit(1)
print("no violation")
sys.exit(0)
