#!/usr/bin/env python
"""C01 finding 1: setting a timezone on an object parsed with a "-0000" zone
serialises a timezone that git never produces and that git fsck rejects.

parse_timezone() remembers "-0000" in the hidden flag _author_timezone_neg_utc
(_commit_timezone_neg_utc, _tag_timezone_neg_utc).  The public setters
author_timezone / commit_timezone / tag_timezone do not reset that flag, and
format_timezone(offset, True) negates a positive offset and then formats the
negative number with "%c%02d%02d", giving "--100" for +0100.

Property: after a field edit the bytes are the ones C git produces and accepts
for the same logical object (author ... +0100).
"""
import os
import shutil
import subprocess
import sys
import tempfile

from dulwich.objects import Commit, Tag

TREE = b"4b825dc642cb6eb9a060e54bf8d69288fbee4904"
RAW = (
    b"tree " + TREE + b"\n"
    b"author A <a@b> 1000000000 -0000\n"
    b"committer A <a@b> 1000000000 -0000\n"
    b"\nmsg\n"
)
TAGRAW = (
    b"object " + TREE + b"\ntype tree\ntag v1\n"
    b"tagger A <a@b> 1000000000 -0000\n\nmsg\n"
)
EXPECTED = RAW.replace(b"author A <a@b> 1000000000 -0000", b"author A <a@b> 1000000000 +0100")
TAGEXPECTED = TAGRAW.replace(b"-0000", b"+0100")

bad = False

c = Commit.from_string(RAW)  # git accepts -0000 (it emits it for e.g. `git am` of mail dates)
assert c.author_timezone == 0
c.author_timezone = 3600  # the one field edit: author zone becomes +01:00
got = c.as_raw_string()
print("commit after author_timezone = 3600:")
print("  got     :", got.split(b"\n")[1])
print("  expected:", EXPECTED.split(b"\n")[1])
if got != EXPECTED:
    bad = True

t = Tag.from_string(TAGRAW)
t.tag_timezone = 3600
tgot = t.as_raw_string()
print("tag after tag_timezone = 3600:")
print("  got     :", tgot.split(b"\n")[3])
print("  expected:", TAGEXPECTED.split(b"\n")[3])
if tgot != TAGEXPECTED:
    bad = True

# Oracle: what does C git think of the bytes dulwich produced?
os.makedirs((os.environ.get("CORPUS_TMP") or "/tmp"), exist_ok=True)
tmp = tempfile.mkdtemp(prefix="c01f1-", dir=(os.environ.get("CORPUS_TMP") or "/tmp"))
try:
    env = dict(os.environ, HOME="/nonexistent", GIT_CONFIG_NOSYSTEM="1",
               GIT_CONFIG_GLOBAL="/dev/null")
    subprocess.run(["git", "init", "-q", tmp], env=env, check=True)
    subprocess.run(["git", "-C", tmp, "hash-object", "-t", "tree", "-w", "/dev/null"],
                   env=env, check=True, capture_output=True)
    subprocess.run(["git", "-C", tmp, "hash-object", "-t", "commit", "-w", "--stdin",
                    "--literally"], input=got, env=env, check=True, capture_output=True)
    r = subprocess.run(["git", "-C", tmp, "fsck", "--strict"], env=env,
                       capture_output=True, text=True)
    print("git fsck on dulwich's bytes: rc=%d" % r.returncode)
    for line in r.stderr.splitlines():
        if "error" in line:
            print("  " + line)
    if r.returncode != 0:
        bad = True
finally:
    shutil.rmtree(tmp, ignore_errors=True)

if bad:
    print("VIOLATION: timezone setter after a parsed -0000 emits a zone git does "
          "not produce/accept ('--100' instead of '+0100').")
    sys.exit(1)
print("no violation")
sys.exit(0)
