#!/usr/bin/env python
"""C01 finding 2: a commit or tag with a *missing* message (object ends right
after the last header, no blank separator line) is not re-serialised
byte-exactly once any field is edited: a "\n" is appended.

Run with PYTHONPATH pointing at the checkout under review.

_parse_message() reports such an object as message=None, but
_format_message() unconditionally emits the header/body separator "\n"
("There must be a new line after the headers"), so message=None and
message=b"" serialise identically.  The parsed value None therefore cannot be
written back: editing an unrelated field changes the tail of the object, and
the value `message is None` does not survive build -> parse.

C git accepts these objects (fsck --strict is clean, git mktag accepts the tag),
so they are inside git's grammar ("empty and missing messages").
Property: re-serialising a parsed well-formed object with one field changed
reproduces every other byte exactly; build -> parse returns the same values.
"""
import os
import shutil
import subprocess
import sys
import tempfile

from dulwich.objects import Commit, Tag

TREE = b"4b825dc642cb6eb9a060e54bf8d69288fbee4904"
COMMIT = (
    b"tree " + TREE + b"\n"
    b"author A <a@b> 1000000000 +0000\n"
    b"committer A <a@b> 1000000000 +0000\n"
)
TAG = (
    b"object " + TREE + b"\ntype tree\ntag v1\n"
    b"tagger A <a@b> 1000000000 +0000\n"
)

# 1. C git considers both objects well formed.
os.makedirs((os.environ.get("CORPUS_TMP") or "/tmp"), exist_ok=True)
tmp = tempfile.mkdtemp(prefix="c01f2-", dir=(os.environ.get("CORPUS_TMP") or "/tmp"))
try:
    env = dict(os.environ, HOME="/nonexistent", GIT_CONFIG_NOSYSTEM="1",
               GIT_CONFIG_GLOBAL="/dev/null")

    def git(*args, **kw):
        return subprocess.run(["git", "-C", tmp, *args], env=env,
                              capture_output=True, **kw)

    subprocess.run(["git", "init", "-q", tmp], env=env, check=True)
    git("hash-object", "-t", "tree", "-w", "/dev/null", check=True)
    # no --literally: hash-object itself validates the object
    git("hash-object", "-t", "commit", "-w", "--stdin", input=COMMIT, check=True)
    mk = git("mktag", input=TAG)
    fsck = git("fsck", "--strict")
    print("git hash-object/mktag accepted the header-only objects; mktag rc=%d, "
          "fsck --strict rc=%d" % (mk.returncode, fsck.returncode))
    git_ok = mk.returncode == 0 and fsck.returncode == 0
finally:
    shutil.rmtree(tmp, ignore_errors=True)

bad = False

c = Commit.from_string(COMMIT)
print("parsed commit.message =", c.message)
assert c.as_raw_string() == COMMIT  # unchanged object: cached bytes, fine
c.author_time = 1000000001  # one field edit
got = c.as_raw_string()
want = COMMIT.replace(b"author A <a@b> 1000000000", b"author A <a@b> 1000000001")
print("commit after editing author_time:")
print("  got tail :", got[-40:])
print("  want tail:", want[-40:])
if got != want:
    bad = True
# value round trip: build from the parsed values, parse again
if Commit.from_string(got).message is not None:
    print("  message None became", repr(Commit.from_string(got).message), "after build->parse")
    bad = True

t = Tag.from_string(TAG)
print("parsed tag.message =", t.message)
t.name = b"v2"
tgot = t.as_raw_string()
twant = TAG.replace(b"tag v1", b"tag v2")
print("tag after editing name:")
print("  got tail :", tgot[-40:])
print("  want tail:", twant[-40:])
if tgot != twant:
    bad = True

if bad and git_ok:
    print("VIOLATION: editing one field of a git-valid header-only commit/tag "
          "appends a '\\n'; message=None is not serialisable.")
    sys.exit(1)
print("no violation")
sys.exit(0)
