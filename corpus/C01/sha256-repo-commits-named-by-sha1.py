#!/usr/bin/env python
"""C01 finding 5: in a SHA-256 repository the ordinary add/commit path names
objects by SHA-1, producing trees and commits that C git cannot parse.

Run with PYTHONPATH pointing at the checkout under review.

Repo.init(object_format="sha256") creates a valid sha256 repository and the
object store files objects under their SHA-256 name, but everything above it
still uses ShaFile.id, which is always the SHA-1:
  * WorkTree.stage()/index_entry_from_stat(st, blob.id) put 40-hex ids in the index,
  * index.commit_tree() builds Tree objects (object_format left at SHA-1) from
    those ids and returns tree.id, so trees hold 20-byte entries,
  * WorkTree.commit() writes `tree <sha1>` / `parent <sha1>` and sets the
    branch to c.id (40 hex).
Result: the returned commit id is a SHA-1 that does not exist in the store,
and `git fsck` reports "too-short tree object", "bogus commit object".

Property: every blob, tree, commit and tag is named by the SHA-256 of its type,
length and content in sha256 repositories, and the bytes are ones git accepts.
"""
import hashlib
import os
import shutil
import subprocess
import sys
import tempfile

from dulwich import porcelain
from dulwich.repo import Repo

os.makedirs((os.environ.get("CORPUS_TMP") or "/tmp"), exist_ok=True)
base = tempfile.mkdtemp(prefix="c01f5-", dir=(os.environ.get("CORPUS_TMP") or "/tmp"))
env = dict(os.environ, HOME="/nonexistent", GIT_CONFIG_NOSYSTEM="1",
           GIT_CONFIG_GLOBAL="/dev/null")
problems = []
try:
    d = os.path.join(base, "repo")
    os.makedirs(os.path.join(d, "sub"))
    r = Repo.init(d, object_format="sha256")
    print("repository object format:", r.object_format.name)
    with open(os.path.join(d, "f.txt"), "wb") as f:
        f.write(b"hello\n")
    with open(os.path.join(d, "sub", "g.txt"), "wb") as f:
        f.write(b"world\n")
    porcelain.add(r, [os.path.join(d, "f.txt"), os.path.join(d, "sub", "g.txt")])
    cid = porcelain.commit(r, message=b"m\n", author=b"A <a@b>", committer=b"A <a@b>",
                           author_timestamp=1000000000, commit_timestamp=1000000000,
                           author_timezone=0, commit_timezone=0)
    print("porcelain.commit returned:", cid)
    if len(cid) != 64:
        problems.append("commit is named by a %d-hex id, not a SHA-256" % len(cid))
    head = r.refs.read_loose_ref(b"refs/heads/master") or r.refs.read_loose_ref(b"refs/heads/main")
    print("branch ref contains      :", head)
    if head is not None and len(head) != 64:
        problems.append("branch ref holds a %d-hex id" % len(head))
    try:
        r[cid]
    except Exception as e:  # the name returned does not identify any stored object
        problems.append("returned commit id cannot be looked up: %s %s" % (type(e).__name__, e))

    # what is actually in the store
    for oid in sorted(r.object_store):
        try:
            obj = r.object_store[oid]
        except Exception as e:
            print("stored object %s cannot be read back by dulwich itself: %s: %s"
                  % (oid[:16].decode(), type(e).__name__, e))
            problems.append("dulwich cannot parse its own object %s" % oid[:12].decode())
            continue
        raw = obj.as_raw_string()
        real = hashlib.sha256(obj.type_name + b" %d\0" % len(raw) + raw).hexdigest().encode()
        note = ""
        if obj.type_name == b"commit":
            tree_line = raw.split(b"\n")[0]
            note = "  first line: %r" % tree_line
            if len(tree_line) != len(b"tree ") + 64:
                problems.append("commit %s refers to its tree by a non-SHA-256 id" % oid[:12].decode())
        if obj.type_name == b"tree":
            note = "  raw length %d" % len(raw)
        print("stored %-6s %s  name==sha256(content): %s%s"
              % (obj.type_name.decode(), oid[:16].decode(), real == oid, note))
    r.close()

    fsck = subprocess.run(["git", "-C", d, "fsck", "--strict"], env=env,
                          capture_output=True, text=True)
    print("git fsck --strict rc=%d" % fsck.returncode)
    for line in fsck.stderr.splitlines()[:8]:
        print("   " + line)
    if fsck.returncode != 0:
        problems.append("git fsck rejects the repository")

    # Oracle: the same content committed by C git in a sha256 repository
    g = os.path.join(base, "git")
    subprocess.run(["git", "init", "-q", "--object-format=sha256", g], env=env, check=True)
    os.makedirs(os.path.join(g, "sub"))
    shutil.copy(os.path.join(d, "f.txt"), os.path.join(g, "f.txt"))
    shutil.copy(os.path.join(d, "sub", "g.txt"), os.path.join(g, "sub", "g.txt"))
    genv = dict(env, GIT_AUTHOR_NAME="A", GIT_AUTHOR_EMAIL="a@b", GIT_COMMITTER_NAME="A",
                GIT_COMMITTER_EMAIL="a@b", GIT_AUTHOR_DATE="1000000000 +0000",
                GIT_COMMITTER_DATE="1000000000 +0000")
    subprocess.run(["git", "-C", g, "add", "."], env=genv, check=True)
    subprocess.run(["git", "-C", g, "commit", "-q", "-m", "m"], env=genv, check=True)
    want = subprocess.run(["git", "-C", g, "rev-parse", "HEAD"], env=genv, check=True,
                          capture_output=True).stdout.strip()
    print("C git names the same commit:", want)
    if want != cid:
        problems.append("commit id differs from C git's")
finally:
    shutil.rmtree(base, ignore_errors=True)

if problems:
    print("VIOLATION:")
    for p in problems:
        print("  -", p)
    sys.exit(1)
print("no violation")
sys.exit(0)
