#!/usr/bin/env python
"""C01 finding 2: Tag build -> parse does not return the same field values when
the message merely MENTIONS a signature marker.

Tag._deserialize() splits the body at the first occurrence of
"-----BEGIN PGP SIGNATURE-----" (or the SSH marker) anywhere in the text, even in
the middle of a line.  C git only recognises a marker at the start of a line
(gpg-interface.c parse_signed_buffer), so for git this tag is unsigned and the
whole text is the message.
"""
import os, shutil, subprocess, sys, tempfile
from dulwich.objects import Tag, Tree

T = b"4b825dc642cb6eb9a060e54bf8d69288fbee4904"
MSG = b"docs: explain the -----BEGIN PGP SIGNATURE----- armor line\n\nbody\n"

t = Tag()
t.object = (Tree, T)
t.name = b"v1"
t.tagger = b"A <a@b>"
t.tag_time = 1
t.tag_timezone = 0
t.message = MSG
t.signature = None
raw = t.as_raw_string()
p = Tag.from_string(raw)
print("built   message  :", t.message)
print("built   signature:", t.signature)
print("parsed  message  :", p.message)
print("parsed  signature:", p.signature)

base = (os.environ.get("CORPUS_TMP") or "/tmp") if os.path.isdir((os.environ.get("CORPUS_TMP") or "/tmp")) else None
tmp = tempfile.mkdtemp(dir=base)
env = dict(os.environ, HOME="/nonexistent", GIT_CONFIG_NOSYSTEM="1",
           GIT_CONFIG_GLOBAL="/dev/null")
try:
    subprocess.run(["git", "init", "-q", tmp], env=env, check=True)
    subprocess.run(["git", "-C", tmp, "hash-object", "-w", "-t", "tree",
                    "/dev/null"], env=env, check=True, capture_output=True)
    gid = subprocess.run(["git", "-C", tmp, "mktag"], input=raw, env=env,
                         check=True, capture_output=True).stdout.strip()
    subprocess.run(["git", "-C", tmp, "update-ref", "refs/tags/v1", gid.decode()],
                   env=env, check=True)
    def fe(fmt):
        return subprocess.run(["git", "-C", tmp, "for-each-ref",
                               "--format=" + fmt, "refs/tags/v1"], env=env,
                              check=True, capture_output=True).stdout
    print("git     signature:", fe("%(contents:signature)"))
    print("git     subject  :", fe("%(contents:subject)"))
finally:
    shutil.rmtree(tmp, ignore_errors=True)

bad = (p.message != t.message) or (p.signature != t.signature)
if bad:
    print("VIOLATION: property requires that building a tag from field values and "
          "parsing its bytes returns the same values (message intact, signature "
          "None), as C git reads it")
sys.exit(1 if bad else 0)
