#!/usr/bin/env python
"""C01 finding 7: ShaFile.check() (and therefore porcelain.fsck) reports a
ChecksumMismatch for every object of a valid SHA-256 repository.

Run with PYTHONPATH pointing at the checkout under review.

Objects read from a sha256 object store carry their 64-hex name as FixedSha.
ShaFile.check() does
    old_sha = self.id            # the cached 64-hex SHA-256 name
    ...
    self._sha = None
    new_sha = self.id            # recomputed: ShaFile.sha() without an
                                 # object_format always uses sha1()
    if old_sha != new_sha: raise ChecksumMismatch
so the name is compared with the SHA-1 of the content instead of the hash of
the object's own object_format.  After the failed check the object has also
lost its name: obj.id now returns the SHA-1.

The repository below is written by C git and passes `git fsck --strict`.
Property: objects in sha256 repositories are named by SHA-256 of type, length
and content - the library's own consistency check must agree with that.
"""
import os
import shutil
import subprocess
import sys
import tempfile

from dulwich import porcelain
from dulwich.errors import ChecksumMismatch
from dulwich.repo import Repo

os.makedirs((os.environ.get("CORPUS_TMP") or "/tmp"), exist_ok=True)
base = tempfile.mkdtemp(prefix="c01f7-", dir=(os.environ.get("CORPUS_TMP") or "/tmp"))
env = dict(os.environ, HOME="/nonexistent", GIT_CONFIG_NOSYSTEM="1",
           GIT_CONFIG_GLOBAL="/dev/null",
           GIT_AUTHOR_NAME="A", GIT_AUTHOR_EMAIL="a@b",
           GIT_COMMITTER_NAME="A", GIT_COMMITTER_EMAIL="a@b",
           GIT_AUTHOR_DATE="1000000000 +0000", GIT_COMMITTER_DATE="1000000000 +0000")
mismatches = []
try:
    d = os.path.join(base, "repo")
    subprocess.run(["git", "init", "-q", "--object-format=sha256", d], env=env, check=True)
    with open(os.path.join(d, "f"), "w") as f:
        f.write("x\n")
    subprocess.run(["git", "-C", d, "add", "f"], env=env, check=True)
    subprocess.run(["git", "-C", d, "commit", "-q", "-m", "m"], env=env, check=True)
    subprocess.run(["git", "-C", d, "tag", "-a", "-m", "t", "v1"], env=env, check=True)
    fsck = subprocess.run(["git", "-C", d, "fsck", "--strict"], env=env, capture_output=True)
    print("git fsck --strict rc=%d" % fsck.returncode)
    assert fsck.returncode == 0

    r = Repo(d)
    for oid in sorted(r.object_store):
        obj = r.object_store[oid]
        named_ok = obj.get_id(r.object_format) == oid
        try:
            obj.check()
            res = "ok"
        except ChecksumMismatch as e:
            res = "ChecksumMismatch: %s" % e
            mismatches.append(oid)
        print("%-6s %s  name==sha256(content): %s" % (obj.type_name.decode(), oid[:16].decode(), named_ok))
        print("       check(): %s" % res[:110])
        print("       obj.id after check(): %s" % obj.id)
    fs = list(porcelain.fsck(r))
    print("porcelain.fsck reports %d problem(s) in a repository git considers clean" % len(fs))
    r.close()
finally:
    shutil.rmtree(base, ignore_errors=True)

if mismatches:
    print("VIOLATION: check() rejects %d correctly named sha256 objects "
          "(compares the SHA-256 name with a SHA-1)." % len(mismatches))
    sys.exit(1)
print("no violation")
sys.exit(0)
