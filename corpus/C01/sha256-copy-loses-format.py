import os
#!/usr/bin/env python
"""C01 finding 8: a SHA-256 Tree does not survive ShaFile.copy(), and a Commit
given a Tree *object* names it by SHA-1 even when the commit is a sha256 object.

Run with PYTHONPATH pointing at the checkout under review.

(a) ShaFile.copy() is `from_raw_string(self.type_num, self.as_raw_string(), self.id)`.
    It passes neither self.object_format nor a name of the right algorithm, so
    the copy of a sha256 tree parses 32-byte entry ids with the default
    20-byte length: ObjectFormatException, or - when the byte layout happens
    to allow it - silently different entries.  (MemoryObjectStore, Commit.
    raw_without_sig() and others rely on copy().)
(b) Commit._serialize() writes `self._tree.id if isinstance(self._tree, Tree)`;
    .id is always the SHA-1, so `commit.tree = tree_obj` in a sha256 commit
    serialises a 40-hex SHA-1 tree reference for any Tree that was built from
    field values or edited (no cached 64-hex name), whatever
    tree_obj.object_format and commit.object_format say.

Property: build -> bytes -> parse returns the same values; objects are named by
SHA-256 in sha256 repositories.
"""
import sys

from dulwich.object_format import SHA256
from dulwich.objects import Blob, Commit, ShaFile, Tree

problems = []

blob = Blob.from_string(b"hello\n")
tree = Tree()
tree.object_format = SHA256
tree.add(b"a", 0o100644, blob.get_id(SHA256))
tree.add(b"dir", 0o40000, Tree().get_id(SHA256))
raw = tree.as_raw_string()
tid = tree.get_id(SHA256)

parsed = ShaFile.from_raw_string(Tree.type_num, raw, sha=tid, object_format=SHA256)
assert parsed.items() == tree.items()
print("sha256 tree %s parses fine with object_format=SHA256" % tid[:16].decode())

# (a) copy()
try:
    cp = parsed.copy()
    same = cp.items() == parsed.items() and cp.as_raw_string() == raw
    print("copy(): items equal: %s, object_format: %s" % (same, cp.object_format.name))
    if not same or cp.get_id(cp.object_format) != tid:
        problems.append("copy() of a sha256 tree yields a different object")
except Exception as e:
    print("copy() raised %s: %s" % (type(e).__name__, e))
    problems.append("copy() of a well-formed sha256 tree raises %s" % type(e).__name__)

# (b) Commit.tree = Tree object
c = Commit()
c.object_format = SHA256
c.tree = tree  # the Tree built from field values above (object_format SHA256)
c.author = c.committer = b"A <a@b>"
c.author_time = c.commit_time = 1000000000
c.author_timezone = c.commit_timezone = 0
c.message = b"m\n"
first = c.as_raw_string().split(b"\n")[0]
print("commit (object_format sha256) first line:", first)
print("expected                               :", b"tree " + tid)
if first != b"tree " + tid:
    problems.append("commit names its sha256 tree by %d-hex id" % (len(first) - 5))

if problems:
    print("VIOLATION:")
    for p in problems:
        print("  -", p)
    sys.exit(1)
print("no violation")
sys.exit(0)
