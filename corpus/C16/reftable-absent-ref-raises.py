#!/usr/bin/env python
"""C16 finding 5: the reftable backend raises KeyError where the in-memory (and
files) backend answers "absent": `name in refs` and refs.read_ref(name).

ReftableRefsContainer.read_loose_ref raises KeyError for a missing ref instead of
returning None, and the inherited RefsContainer.read_ref/__contains__ do not
expect that.  No symbolic refs and no colliding names are involved.
"""
import os
import shutil
import sys
import tempfile

from dulwich.refs import DictRefsContainer
from dulwich.reftable import ReftableRefsContainer

A = b"a" * 40
X, Y = b"refs/heads/x", b"refs/heads/y"


def observe(refs):
    refs[X] = A
    out = []
    for label, fn in (
        ("x in refs", lambda: X in refs),
        ("y in refs", lambda: Y in refs),
        ("read_ref(y)", lambda: refs.read_ref(Y)),
    ):
        try:
            out.append((label, repr(fn())))
        except Exception as e:  # noqa: BLE001
            out.append((label, f"raises {type(e).__name__}"))
    return out


os.makedirs((os.environ.get("CORPUS_TMP") or "/tmp"), exist_ok=True)
top = tempfile.mkdtemp(dir=(os.environ.get("CORPUS_TMP") or "/tmp"))
try:
    mem = observe(DictRefsContainer({}))
    rft = observe(ReftableRefsContainer(os.path.join(top, "rt")))
finally:
    shutil.rmtree(top, ignore_errors=True)

bad = False
for (label, m), (_, r) in zip(mem, rft):
    print(f"{label:14} in-memory: {m:8} reftable: {r}")
    bad |= m != r
print("property: the reftable backend gives the same results as the in-memory one")
if bad:
    print("VIOLATION: membership test / read_ref of an absent ref raise KeyError on reftable")
    sys.exit(1)
print("no violation")
sys.exit(0)
