#!/usr/bin/env python
"""C16 finding 2: add_if_new through a symbolic ref gives a different answer once
the symref's own name has a (shadowed) entry in packed-refs.

DiskRefsContainer.add_if_new follows `name` to `realname`, but under the lock it
tests `name in self.get_packed_refs()` instead of `realname`.  set_symbolic_ref
leaves the old packed entry of `name` in place (harmless, the loose symref
shadows it), so after pack_refs the add is refused although the last ref of the
chain does not exist.  Without pack_refs the very same sequence succeeds, so
packing refs changes something observable.
"""
import os
import shutil
import sys
import tempfile

from dulwich.refs import DiskRefsContainer

A = b"a" * 40
B = b"b" * 40
X = b"refs/heads/x"
Y = b"refs/heads/y"


def scenario(top, label, pack):
    d = os.path.join(top, label)
    os.makedirs(os.path.join(d, "refs", "heads"))
    with open(os.path.join(d, "HEAD"), "wb") as f:
        f.write(b"ref: refs/heads/main\n")
    refs = DiskRefsContainer(d)
    refs[X] = A                      # x is a direct ref
    if pack:
        refs.pack_refs(all=True)     # ... now stored in packed-refs
    refs.set_symbolic_ref(X, Y)      # x becomes a symref to the absent y
    assert refs.read_ref(X) == b"ref: " + Y
    assert Y not in refs
    ok = refs.add_if_new(X, B)       # follows x -> y, y does not exist: must add y
    state = {k: refs.read_ref(k) for k in sorted(refs.allkeys())}
    print(f"[{label}] add_if_new(x, B) -> {ok}; refs now: {state}")
    return ok, refs.read_ref(Y)


os.makedirs((os.environ.get("CORPUS_TMP") or "/tmp"), exist_ok=True)
top = tempfile.mkdtemp(dir=(os.environ.get("CORPUS_TMP") or "/tmp"))
try:
    ok_loose, y_loose = scenario(top, "no-pack", pack=False)
    ok_packed, y_packed = scenario(top, "with-pack", pack=True)
finally:
    shutil.rmtree(top, ignore_errors=True)

print("model: x -> y, y absent, so add_if_new(x, B) returns True and y == B in both runs")
if (ok_loose, y_loose) != (True, B) or (ok_packed, y_packed) != (True, B):
    print("VIOLATION: result depends on whether pack_refs was called "
          f"(no-pack: {ok_loose}, with-pack: {ok_packed})")
    sys.exit(1)
print("no violation")
sys.exit(0)
