#!/usr/bin/env python
"""C16 finding 5: a symref loop makes the reftable backend's as_dict()/lookup raise ValueError.

Sequence: refs/heads/z = A; set_symbolic_ref(p -> q); set_symbolic_ref(q -> p).
Only symrefs are *created*; nothing is written through them; no colliding names.
  files / memory : refs[p] raises SymrefLoop; as_dict() skips the unresolvable
                   refs and returns {refs/heads/z: A}
  reftable       : ReftableRefsContainer.follow raises a bare ValueError, which
                   as_dict() (catching SymrefLoop/KeyError only) lets through, so
                   listing the refs of the whole container fails because of one loop.
"""
import os
import shutil
import sys
import tempfile

sys.path.insert(0, "/repo")
from dulwich.refs import DictRefsContainer, DiskRefsContainer
from dulwich.reftable import ReftableRefsContainer
from dulwich.repo import Repo

os.makedirs((os.environ.get("CORPUS_TMP") or "/tmp"), exist_ok=True)
d1 = tempfile.mkdtemp(dir=(os.environ.get("CORPUS_TMP") or "/tmp"))
d2 = tempfile.mkdtemp(dir=(os.environ.get("CORPUS_TMP") or "/tmp"))
A = b"a" * 40
P, Q, Z = b"refs/heads/p", b"refs/heads/q", b"refs/heads/z"
try:
    Repo.init_bare(d1)
    os.remove(os.path.join(d1, "HEAD"))
    backends = {
        "files": DiskRefsContainer(d1),
        "memory": DictRefsContainer({}),
        "reftable": ReftableRefsContainer(d2),
    }
    results = {}
    for label, c in backends.items():
        c[Z] = A
        c.set_symbolic_ref(P, Q)
        c.set_symbolic_ref(Q, P)
        row = []
        for desc, fn in (("refs[p]", lambda: c[P]), ("as_dict", lambda: c.as_dict())):
            try:
                row.append((desc, fn()))
            except Exception as e:  # noqa: BLE001
                row.append((desc, "raised " + type(e).__name__))
        results[label] = row
        print("%-9s %s" % (label, row))
    print("required: refs[p] raises SymrefLoop and as_dict() == {refs/heads/z: A} on every backend")
    bad = results["reftable"] != results["memory"] or results["files"] != results["memory"]
    if bad:
        print("VIOLATION: backends disagree on reading a symref loop")
    sys.exit(1 if bad else 0)
finally:
    shutil.rmtree(d1, ignore_errors=True)
    shutil.rmtree(d2, ignore_errors=True)
