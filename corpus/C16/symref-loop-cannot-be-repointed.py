#!/usr/bin/env python
"""C16 finding 3: set_symbolic_ref (an unconditional write) does not take effect
on a ref that currently sits in a symref loop; it raises SymrefLoop instead.

DiskRefsContainer.set_symbolic_ref writes the new target into the lock file and
then calls self.follow(name) only to obtain a sha for the reflog.  follow() reads
the OLD contents (the lock is not renamed yet); when they form a loop it raises
SymrefLoop, the lock is aborted and the ref keeps pointing into the loop.
DictRefsContainer.set_symbolic_ref has the same follow() call before the store.
C git happily re-points such a ref (git symbolic-ref), and so does a map model.
"""
import os
import shutil
import subprocess
import sys
import tempfile

from dulwich.refs import DictRefsContainer, DiskRefsContainer

ENV = dict(os.environ, HOME="/nonexistent", GIT_CONFIG_NOSYSTEM="1", GIT_CONFIG_GLOBAL="/dev/null")
P, Q, Z = b"refs/heads/p", b"refs/heads/q", b"refs/heads/z"


def try_repair(label, refs):
    refs.set_symbolic_ref(P, Q)
    refs.set_symbolic_ref(Q, P)          # p -> q -> p : a loop (creating it is allowed)
    try:
        refs.set_symbolic_ref(Q, Z)      # unconditional write: q must now point at z
        outcome = "ok"
    except Exception as e:               # noqa: BLE001
        outcome = f"raised {type(e).__name__}{e.args}"
    now = refs.read_ref(Q)
    print(f"[{label}] set_symbolic_ref(q, z) {outcome}; q is now {now!r} (model: b'ref: refs/heads/z')")
    return now == b"ref: " + Z


os.makedirs((os.environ.get("CORPUS_TMP") or "/tmp"), exist_ok=True)
top = tempfile.mkdtemp(dir=(os.environ.get("CORPUS_TMP") or "/tmp"))
try:
    d = os.path.join(top, "repo.git")
    subprocess.run(["git", "init", "-q", "--bare", "-b", "main", d], env=ENV, check=True)
    disk_ok = try_repair("files ", DiskRefsContainer(d))
    dict_ok = try_repair("memory", DictRefsContainer({}))

    # the oracle: C git on the directory dulwich left behind (loop still there if the bug is present)
    g = os.path.join(top, "oracle.git")
    subprocess.run(["git", "init", "-q", "--bare", "-b", "main", g], env=ENV, check=True)
    for a, b in ((P, Q), (Q, P), (Q, Z)):
        subprocess.run(["git", "-C", g, "symbolic-ref", a.decode(), b.decode()], env=ENV, check=True)
    with open(os.path.join(g, "refs", "heads", "q"), "rb") as f:
        print("[C git ] after the same three symbolic-ref commands q holds", f.read().strip())
finally:
    shutil.rmtree(top, ignore_errors=True)

if not (disk_ok and dict_ok):
    print("VIOLATION: an unconditional symbolic-ref write was dropped (ref is stuck in the loop)")
    sys.exit(1)
print("no violation")
sys.exit(0)
