#!/usr/bin/env python
"""C16 finding 1: a packed ref keeps the peeled line of its OLD value after it is
updated and packed again, so C git (and get_peeled) report a wrong peeled object.

DiskRefsContainer._write_packed_refs (used by pack_refs and add_packed_refs)
writes `self._peeled_refs` unchanged next to the new values, and get_peeled()
answers from the packed cache even while a newer loose value shadows it.
"""
import os
import shutil
import subprocess
import sys
import tempfile

from dulwich.refs import DiskRefsContainer

ENV = dict(
    os.environ, HOME="/nonexistent", GIT_CONFIG_NOSYSTEM="1", GIT_CONFIG_GLOBAL="/dev/null",
    GIT_AUTHOR_NAME="a", GIT_AUTHOR_EMAIL="a@b", GIT_COMMITTER_NAME="a", GIT_COMMITTER_EMAIL="a@b",
    GIT_AUTHOR_DATE="1700000000 +0000", GIT_COMMITTER_DATE="1700000000 +0000",
)


def git(d, *args, inp=None):
    p = subprocess.run(["git", "-C", d, *args], env=ENV, capture_output=True, input=inp)
    if p.returncode:
        raise RuntimeError((args, p.stderr))
    return p.stdout.decode().strip()


os.makedirs((os.environ.get("CORPUS_TMP") or "/tmp"), exist_ok=True)
top = tempfile.mkdtemp(dir=(os.environ.get("CORPUS_TMP") or "/tmp"))
bad = False
try:
    d = os.path.join(top, "repo.git")
    subprocess.run(["git", "init", "-q", "--bare", "-b", "main", d], env=ENV, check=True)
    tree = git(d, "mktree", inp=b"")
    c1 = git(d, "commit-tree", "-m", "c1", tree)
    c2 = git(d, "commit-tree", "-m", "c2", tree)
    git(d, "update-ref", "refs/heads/main", c2)
    git(d, "tag", "-a", "-m", "t1", "t1", c1)   # annotated tag of c1
    git(d, "tag", "-a", "-m", "t2", "t2", c2)   # annotated tag of c2
    tag2 = git(d, "rev-parse", "refs/tags/t2")
    git(d, "pack-refs", "--all")                # packed-refs with peeled lines

    refs = DiskRefsContainer(d)
    print("get_peeled(t1) at start     :", refs.get_peeled(b"refs/tags/t1").decode(), "(c1 =", c1 + ")")

    # Move refs/tags/t1 to the tag object that peels to c2.
    refs[b"refs/tags/t1"] = tag2.encode()
    p_loose = refs.get_peeled(b"refs/tags/t1")
    print("get_peeled(t1) after update :", p_loose and p_loose.decode(), "(must be c2 or None)")
    if p_loose is not None and p_loose.decode() != c2:
        bad = True

    refs.pack_refs(all=True)
    refs = DiskRefsContainer(d)                 # re-open
    p_packed = refs.get_peeled(b"refs/tags/t1")
    print("get_peeled(t1) after pack   :", p_packed and p_packed.decode(), "(must be c2 or None)")
    if p_packed is not None and p_packed.decode() != c2:
        bad = True

    print("--- packed-refs written by dulwich ---")
    print(open(os.path.join(d, "packed-refs")).read())
    shown = git(d, "show-ref", "-d")
    print("--- git show-ref -d ---")
    print(shown)
    peeled_by_git = [l.split()[0] for l in shown.splitlines() if l.endswith("refs/tags/t1^{}")]
    print("git peels refs/tags/t1 to", peeled_by_git, "; the tag object really peels to", c2)
    if peeled_by_git != [c2]:
        bad = True
finally:
    shutil.rmtree(top, ignore_errors=True)

if bad:
    print("VIOLATION: packing after an update left the old peeled value; C git lists a "
          "wrong refs/tags/t1^{} and get_peeled() returns a stale object id.")
    sys.exit(1)
print("no violation")
sys.exit(0)
