#!/usr/bin/env python
"""C16 finding 4: with a file-versus-directory collision the files backend answers
differently depending on whether the colliding ref is loose or packed, i.e.
pack_refs changes what a later operation returns.

refs/heads/a/b exists.  remove_if_equals of the absent names refs/heads/a and
refs/heads/a/b/c raises (IsADirectoryError / NotADirectoryError, from os.remove
resp. from creating the lock file) while a/b is loose, but returns True once a/b
has been packed; add_if_new(refs/heads/a) returns False while a/b is loose but
raises IsADirectoryError once it is packed.  Only set_if_equals/set_symbolic_ref
consult _check_packed_refs_collision consistently; remove_if_equals never does and
add_if_new answers "exists" because os.path.exists() is true for the directory.
"""
import os
import shutil
import sys
import tempfile

from dulwich.refs import DiskRefsContainer

A = b"a" * 40
B = b"b" * 40


def outcome(fn):
    try:
        return repr(fn())
    except OSError as e:
        return "raises " + type(e).__name__


def scenario(top, label, pack):
    d = os.path.join(top, label)
    os.makedirs(os.path.join(d, "refs", "heads"))
    with open(os.path.join(d, "HEAD"), "wb") as f:
        f.write(b"ref: refs/heads/main\n")
    refs = DiskRefsContainer(d)
    refs[b"refs/heads/a/b"] = A
    if pack:
        refs.pack_refs(all=True)
    res = [
        ("remove_if_equals(refs/heads/a, None)", outcome(lambda: refs.remove_if_equals(b"refs/heads/a", None))),
        ("remove_if_equals(refs/heads/a/b/c, None)", outcome(lambda: refs.remove_if_equals(b"refs/heads/a/b/c", None))),
        ("add_if_new(refs/heads/a, B)", outcome(lambda: refs.add_if_new(b"refs/heads/a", B))),
    ]
    assert refs.as_dict() == {b"refs/heads/a/b": A}, refs.as_dict()
    return res


os.makedirs((os.environ.get("CORPUS_TMP") or "/tmp"), exist_ok=True)
top = tempfile.mkdtemp(dir=(os.environ.get("CORPUS_TMP") or "/tmp"))
try:
    loose = scenario(top, "loose", pack=False)
    packed = scenario(top, "packed", pack=True)
finally:
    shutil.rmtree(top, ignore_errors=True)

bad = False
print(f"{'operation (refs/heads/a/b exists)':45} {'a/b loose':28} a/b packed")
for (op, r1), (_, r2) in zip(loose, packed):
    print(f"{op:45} {r1:28} {r2}")
    bad |= r1 != r2
print("property: packing refs changes nothing observable, so both columns must agree")
if bad:
    print("VIOLATION: the same operation is answered differently after pack_refs")
    sys.exit(1)
print("no violation")
sys.exit(0)
