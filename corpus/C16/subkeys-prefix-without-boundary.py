#!/usr/bin/env python
"""C16 finding 7: keys(base)/subkeys(base) of the files backend change when refs are
packed, and differ from the in-memory backend.

DiskRefsContainer.subkeys walks the directory <base>/ for loose refs (so only names
below base + b"/" are found) but matches packed refs with key.startswith(base)
without requiring the b"/" boundary.  With base = refs/heads/a the ref refs/heads/a
itself and the sibling refs/heads/ab are invisible while loose, and appear as
b"" resp. b"b" after pack_refs.  RefsContainer.subkeys (in-memory) has the same
boundary mistake and yields b"" for both.
"""
import os
import shutil
import sys
import tempfile

from dulwich.refs import DictRefsContainer, DiskRefsContainer

A = b"a" * 40
BASE = b"refs/heads/a"
os.makedirs((os.environ.get("CORPUS_TMP") or "/tmp"), exist_ok=True)
top = tempfile.mkdtemp(dir=(os.environ.get("CORPUS_TMP") or "/tmp"))
rows = []
try:
    for label, names in (("refs a, m", [b"refs/heads/a", b"refs/heads/m"]),
                         ("refs a/x, ab", [b"refs/heads/a/x", b"refs/heads/ab"])):
        d = os.path.join(top, label.replace(" ", "_").replace("/", "_").replace(",", ""))
        os.makedirs(os.path.join(d, "refs", "heads"))
        disk = DiskRefsContainer(d)
        mem = DictRefsContainer({})
        for n in names:
            disk[n] = A
            mem[n] = A
        loose = sorted(disk.keys(BASE))
        disk.pack_refs(all=True)
        packed = sorted(disk.keys(BASE))
        expected = sorted(n[len(BASE) + 1:] for n in names if n.startswith(BASE + b"/"))
        rows.append((label, loose, packed, sorted(mem.keys(BASE)), expected))
finally:
    shutil.rmtree(top, ignore_errors=True)

bad = False
for label, loose, packed, mem, expected in rows:
    print(f"{label:14} keys({BASE!r}): loose={loose} packed={packed} in-memory={mem} expected={expected}")
    bad |= not (loose == packed == mem == expected)
print("property: pack_refs changes nothing observable; in-memory agrees with the files backend")
if bad:
    print("VIOLATION: the listing under a base depends on loose/packed and on the backend")
    sys.exit(1)
print("no violation")
sys.exit(0)
