#!/usr/bin/env python
"""C16 finding 6: with a dangling symbolic ref (the normal "unborn HEAD" state) the
reftable backend lists a ref that does not exist and cannot enumerate symrefs.

ReftableRefsContainer.allkeys() adds the *target* of every symref to the key set
whether or not it exists, so keys()/subkeys() show refs/heads/main although nothing
was ever written to it; the inherited get_symrefs() then reads that phantom key and
dies with KeyError, and follow(HEAD) raises KeyError instead of returning
([HEAD, refs/heads/main], None).  Only set_symbolic_ref is used: nothing is written
through a symref and there are no colliding names.
"""
import os
import shutil
import sys
import tempfile

from dulwich.refs import DictRefsContainer
from dulwich.reftable import ReftableRefsContainer


def observe(refs):
    refs.set_symbolic_ref(b"HEAD", b"refs/heads/main")
    out = []
    for label, fn in (
        ("sorted(allkeys())", lambda: sorted(refs.allkeys())),
        ("sorted(keys(b'refs/heads'))", lambda: sorted(refs.keys(b"refs/heads"))),
        ("get_symrefs()", lambda: refs.get_symrefs()),
        ("follow(b'HEAD')", lambda: refs.follow(b"HEAD")),
    ):
        try:
            out.append((label, repr(fn())))
        except Exception as e:  # noqa: BLE001
            out.append((label, f"raises {type(e).__name__}{e.args}"))
    return out


os.makedirs((os.environ.get("CORPUS_TMP") or "/tmp"), exist_ok=True)
top = tempfile.mkdtemp(dir=(os.environ.get("CORPUS_TMP") or "/tmp"))
try:
    mem = observe(DictRefsContainer({}))
    rft = observe(ReftableRefsContainer(os.path.join(top, "rt")))
finally:
    shutil.rmtree(top, ignore_errors=True)

bad = False
for (label, m), (_, r) in zip(mem, rft):
    print(label)
    print("   in-memory:", m)
    print("   reftable :", r)
    bad |= m != r
print("property: same results as the in-memory backend (the model holds only HEAD -> refs/heads/main)")
if bad:
    print("VIOLATION: reftable lists the non-existent refs/heads/main and fails to list symrefs")
    sys.exit(1)
print("no violation")
sys.exit(0)
