#!/usr/bin/env python
"""C16 finding 6: reftable backend silently loses (or refuses) refs with ordinary, longer names.

An unconditional write  refs[name] = sha  must take effect on every backend.
On ReftableRefsContainer it does so only while len(name) <= 31:
  * 32 <= len(name) <= 47: the write returns normally, but the ref is not there
    afterwards (not in allkeys(), refs[name] raises KeyError), also after re-opening.
  * len(name) >= 48: the write raises ValueError("bytes must be in range(0, 256)").
Cause: _encode_reftable_suffix_and_type() encodes (suffix_len << 3 | type) >= 128 as
the two bytes [0x80, value - 0x80] instead of a varint; for value >= 256 the second
byte has its high bit set and _decode_reftable_suffix_and_type() reads garbage, and
for value >= 384 bytes() overflows.  No symrefs, no colliding names; the in-memory
and files backends store the same names without trouble.
"""
import os
import shutil
import sys
import tempfile

sys.path.insert(0, "/repo")
from dulwich.refs import DictRefsContainer, DiskRefsContainer, check_ref_format
from dulwich.reftable import ReftableRefsContainer
from dulwich.repo import Repo

os.makedirs((os.environ.get("CORPUS_TMP") or "/tmp"), exist_ok=True)
A = b"a" * 40
NAMES = [
    b"refs/heads/main",                                      # 15: control, works
    b"refs/remotes/origin/feature/login",                    # 33
    b"refs/tags/release-2024.06.1-rc1-hotfix",               # 38
    b"refs/heads/feature/JIRA-1234-add-login-page-validation",  # 54
]
bad = False
for name in NAMES:
    assert check_ref_format(name)
    d1 = tempfile.mkdtemp(dir=(os.environ.get("CORPUS_TMP") or "/tmp"))
    d2 = tempfile.mkdtemp(dir=(os.environ.get("CORPUS_TMP") or "/tmp"))
    try:
        Repo.init_bare(d1)
        backends = {
            "files": lambda: DiskRefsContainer(d1),
            "memory": None,
            "reftable": lambda: ReftableRefsContainer(d2),
        }
        row = {}
        for label, reopen in backends.items():
            c = DictRefsContainer({}) if reopen is None else reopen()
            try:
                c[name] = A
            except Exception as e:  # noqa: BLE001
                row[label] = "write raised %s: %s" % (type(e).__name__, e)
                continue
            if reopen is not None:
                c = reopen()
            try:
                value = c[name]
            except KeyError:
                value = None
            row[label] = (value, name in c.allkeys())
        ok = all(v == (A, True) for v in row.values())
        print("%-3d %s" % (len(name), name.decode()))
        for label, v in row.items():
            print("      %-9s %s" % (label, "stored" if v == (A, True) else "LOST: (value, listed) = %r" % (v,)))
        if not ok:
            bad = True
    finally:
        shutil.rmtree(d1, ignore_errors=True)
        shutil.rmtree(d2, ignore_errors=True)
print("required: every backend stores every one of these valid names")
if bad:
    print("VIOLATION: an unconditional write did not take effect on the reftable backend")
sys.exit(1 if bad else 0)
