"""C17 finding 1: a checkout that removes the last tracked file deletes the work
tree itself and then its empty ancestor directories, which lie OUTSIDE the work tree.

index._transition_to_absent() calls _remove_empty_parents(full_path, stop_at=repo.path)
and that helper stops only when the parent string is byte-for-byte equal to repo.path.
When the work-tree path carries a trailing slash (core.worktree = /x/y/wt/ in the
config of a separate git dir, or Repo(controldir=..., worktree="/x/y/wt/")), dirname()
never yields that string, so the loop rmdir()s the work tree root and keeps climbing.
C git accepts the same configuration and never removes the work tree or its parents.
"""
import os
import shutil
import subprocess
import sys
import tempfile

from dulwich import porcelain
from dulwich.objects import Blob, Commit, Tree
from dulwich.repo import Repo

base = os.environ.get("C17_TMP", (os.environ.get("CORPUS_TMP") or "/tmp"))
os.makedirs(base, exist_ok=True)
root = tempfile.mkdtemp(dir=base, prefix="f1-")


def commit(store, tree_id):
    c = Commit()
    c.tree = tree_id
    c.author = c.committer = b"a <a@b>"
    c.author_time = c.commit_time = 0
    c.author_timezone = c.commit_timezone = 0
    c.message = b"m"
    store.add_object(c)
    return c.id


def cgit_oracle():
    """Same layout with C git: the work tree and its parents must survive."""
    gd = os.path.join(root, "cgd")
    wt = os.path.join(root, "c1", "c2", "wt")
    os.makedirs(wt)
    env = dict(os.environ, HOME="/nonexistent", GIT_CONFIG_NOSYSTEM="1",
               GIT_CONFIG_GLOBAL="/dev/null", GIT_AUTHOR_NAME="a", GIT_AUTHOR_EMAIL="a@b",
               GIT_COMMITTER_NAME="a", GIT_COMMITTER_EMAIL="a@b")
    g = ["git", "--git-dir", gd]
    try:
        subprocess.run(["git", "init", "-q", "--bare", gd], env=env, check=True)
        subprocess.run(g + ["config", "core.bare", "false"], env=env, check=True)
        subprocess.run(g + ["config", "core.worktree", wt + "/"], env=env, check=True)
        subprocess.run(g + ["commit", "-q", "--allow-empty", "-m", "empty"], env=env, check=True)
        open(os.path.join(wt, "f"), "w").write("x")
        subprocess.run(g + ["add", "f"], env=env, check=True)
        subprocess.run(g + ["commit", "-q", "-m", "f"], env=env, check=True)
        subprocess.run(g + ["reset", "-q", "--hard", "HEAD~1"], env=env, check=True)
        return os.path.isdir(wt)
    except Exception as e:  # oracle is optional
        return "oracle failed: %r" % (e,)


try:
    gitdir = os.path.join(root, "gitdir")
    wt = os.path.join(root, "p1", "p2", "wt")
    os.makedirs(wt)
    Repo.init_bare(gitdir, mkdir=True).close()
    # separate git dir whose configuration names the work tree, with a trailing slash
    with open(os.path.join(gitdir, "config"), "a") as f:
        f.write("[core]\n\tbare = false\n\tworktree = %s/\n" % wt)
    # (core.bare was written as true by init_bare; rewrite it)
    cfgtext = open(os.path.join(gitdir, "config")).read().replace("bare = true", "bare = false")
    open(os.path.join(gitdir, "config"), "w").write(cfgtext)

    r = Repo(gitdir)
    print("repo.path      :", r.path, "(bare=%s)" % r.bare)
    blob = Blob.from_string(b"content\n")
    r.object_store.add_object(blob)
    t1 = Tree()
    t1.add(b"f", 0o100644, blob.id)
    r.object_store.add_object(t1)
    t2 = Tree()  # the empty tree
    r.object_store.add_object(t2)
    c1, c2 = commit(r.object_store, t1.id), commit(r.object_store, t2.id)

    porcelain.reset(r, "hard", c1)
    print("after tree 1   : work tree contains", os.listdir(wt))
    porcelain.reset(r, "hard", c2)
    r.close()

    wt_ok = os.path.isdir(wt)
    p2_ok = os.path.isdir(os.path.join(root, "p1", "p2"))
    p1_ok = os.path.isdir(os.path.join(root, "p1"))
    print("after tree 2   : work tree exists=%s, parent p2 exists=%s, grandparent p1 exists=%s"
          % (wt_ok, p2_ok, p1_ok))
    print("C git, same layout: work tree still exists =", cgit_oracle())
    print("required       : materialising a tree never deletes anything outside the work tree;")
    print("                 p1/ and p1/p2/ are outside it (and the work tree root must stay).")
    if not (p1_ok and p2_ok):
        print("VIOLATION: directories outside the work tree were deleted by the checkout")
        sys.exit(1)
    print("no violation")
    sys.exit(0)
finally:
    shutil.rmtree(root, ignore_errors=True)
