#!/usr/bin/env python
"""C17 finding 2: sparse checkout "materialises" tracked dangling symlinks by
writing THROUGH them, creating files in .git and outside the work tree.

The cloned tree contains only ordinary names:

    lock    -> .git/index.lock         (symlink, dangling)
    escape  -> ../created-outside      (symlink, dangling, sibling of the work tree)
    f                                   (regular file)

clone() checks the tree out correctly (two symlinks, nothing else touched).
Then porcelain.sparse_checkout(patterns=["*"]) - a pattern that *includes*
everything, i.e. nothing should change - runs
dulwich.sparse_patterns.apply_included_paths().  For every included index
entry it tests os.path.exists(full_path) (which follows symlinks, so a dangling
symlink looks "missing") and then does open(full_path, "wb"), ignoring the
entry's mode and following the symlink.  The symlink's target is created.
The same happens for cone_mode_init()/cone_mode_set() (patterns "/*").

Property C17: materialising a tree must never create anything outside the
working directory or inside .git.  (C git lstat()s the symlink, finds it
up to date and writes nothing.)

Exit status 1 = violation present, 0 = not present.
"""

import io
import os
import shutil
import sys
import tempfile

from dulwich import porcelain
from dulwich.objects import Blob, Commit, Tree
from dulwich.repo import Repo

SCRATCH = (os.environ.get("CORPUS_TMP") or "/tmp")
os.makedirs(SCRATCH, exist_ok=True)
base = tempfile.mkdtemp(dir=SCRATCH)
violations = []
try:
    src = os.path.join(base, "src")
    os.mkdir(src)
    r = Repo.init(src)
    tree = Tree()
    for name, mode, data in [
        (b"lock", 0o120000, b".git/index.lock"),
        (b"escape", 0o120000, b"../created-outside"),
        (b"f", 0o100644, b"hello\n"),
    ]:
        blob = Blob.from_string(data)
        r.object_store.add_object(blob)
        tree.add(name, mode, blob.id)
    r.object_store.add_object(tree)
    c = Commit()
    c.tree = tree.id
    c.author = c.committer = b"a <a@b>"
    c.commit_time = c.author_time = 0
    c.commit_timezone = c.author_timezone = 0
    c.message = b"m"
    r.object_store.add_object(c)
    r.refs[b"refs/heads/main"] = c.id
    r.refs.set_symbolic_ref(b"HEAD", b"refs/heads/main")
    r.close()

    parent = os.path.join(base, "parent")
    os.mkdir(parent)
    wt = os.path.join(parent, "wt")
    porcelain.clone(src, wt, errstream=io.BytesIO()).close()
    outside = os.path.join(parent, "created-outside")
    inside_git = os.path.join(wt, ".git", "index.lock")
    print("after clone: work tree =", sorted(os.listdir(wt)))
    print("             parent dir =", sorted(os.listdir(parent)))
    assert not os.path.lexists(outside) and not os.path.lexists(inside_git)

    try:
        porcelain.sparse_checkout(wt, patterns=["*"], cone=False)
        print("sparse_checkout(['*']) returned normally")
    except Exception as e:
        print("sparse_checkout raised:", type(e).__name__, e)

    print("after sparse_checkout: parent dir =", sorted(os.listdir(parent)))
    if os.path.lexists(outside):
        print("VIOLATION: created", outside, "content:", open(outside, "rb").read())
        violations.append("outside")
    if os.path.lexists(inside_git):
        print("VIOLATION: created", inside_git, "content:", open(inside_git, "rb").read())
        violations.append("dotgit")
        try:
            with Repo(wt) as rr:
                porcelain.add(rr, [os.path.join(wt, "f")])
            print("  (index still usable)")
        except Exception as e:
            print("  consequence: index is now locked:", type(e).__name__, e)
    if not violations:
        print("ok: nothing was created through the symlinks")
finally:
    shutil.rmtree(base, ignore_errors=True)

print()
print("property requires: nothing is created outside the work tree or inside .git;")
print("the tracked symlinks are already present and must be left alone")
sys.exit(1 if violations else 0)
