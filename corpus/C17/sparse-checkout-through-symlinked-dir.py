#!/usr/bin/env python
"""C17 finding 3: directory -> symlink across two checkouts, then sparse
checkout writes attacker-chosen blobs THROUGH the symlinked leading directory
(outside the work tree and into .git/hooks).

Two ordinary, well-formed trees (no unsafe names at all):

    tree one:  d/x  h/pre-commit  f          (regular files)
    tree two:  d -> ../outside    h -> .git/hooks    f

Sequence:
  1. clone (tree one)
  2. sparse_checkout(patterns=["/f"])          -> d/x and h/pre-commit removed
     from the work tree, kept in the index with skip-worktree
  3. checkout(tree two, force=True)            -> update_working_tree deletes
     d/x and h/pre-commit; because the files are already absent,
     _transition_to_absent() returns before `del index[path]`, so the index
     keeps d/x and h/pre-commit next to the new symlink entries d and h
  4. sparse_checkout(patterns=["*"])           -> apply_included_paths() sees the
     stale entries as "included but missing" and does
     open(<worktree>/d/x, "wb") / open(<worktree>/h/pre-commit, "wb") with no
     verify_leading_dirs()/lstat check: the blobs land in ../outside/x and
     .git/hooks/pre-commit.

Property C17: no sequence of checkouts may create anything outside the work
tree or inside .git; writes whose leading path is a symlink must be refused.

Exit status 1 = violation present, 0 = not present.
"""

import io
import os
import shutil
import sys
import tempfile

from dulwich import porcelain
from dulwich.objects import Blob, Commit, Tree
from dulwich.repo import Repo

SCRATCH = (os.environ.get("CORPUS_TMP") or "/tmp")
os.makedirs(SCRATCH, exist_ok=True)
base = tempfile.mkdtemp(dir=SCRATCH)
violations = []


def blob(store, data):
    b = Blob.from_string(data)
    store.add_object(b)
    return b.id


def subtree(store, name, mode, sha):
    t = Tree()
    t.add(name, mode, sha)
    store.add_object(t)
    return t.id


def commit(r, tree_id, parents, ref):
    c = Commit()
    c.tree = tree_id
    c.parents = parents
    c.author = c.committer = b"a <a@b>"
    c.commit_time = c.author_time = 0
    c.commit_timezone = c.author_timezone = 0
    c.message = b"m"
    r.object_store.add_object(c)
    r.refs[ref] = c.id
    return c.id


try:
    src = os.path.join(base, "src")
    os.mkdir(src)
    r = Repo.init(src)
    s = r.object_store
    f = blob(s, b"hello\n")
    one = Tree()
    one.add(b"d", 0o40000, subtree(s, b"x", 0o100644, blob(s, b"attacker bytes 1\n")))
    one.add(b"h", 0o40000, subtree(s, b"pre-commit", 0o100755, blob(s, b"#!/bin/sh\necho pwned\n")))
    one.add(b"f", 0o100644, f)
    s.add_object(one)
    two = Tree()
    two.add(b"d", 0o120000, blob(s, b"../outside"))
    two.add(b"h", 0o120000, blob(s, b".git/hooks"))
    two.add(b"f", 0o100644, f)
    s.add_object(two)
    c1 = commit(r, one.id, [], b"refs/heads/main")
    c2 = commit(r, two.id, [c1], b"refs/heads/two")
    r.refs.set_symbolic_ref(b"HEAD", b"refs/heads/main")
    r.close()

    parent = os.path.join(base, "parent")
    os.makedirs(os.path.join(parent, "outside"))
    wt = os.path.join(parent, "wt")
    porcelain.clone(src, wt, errstream=io.BytesIO()).close()
    print("1. clone:            work tree =", sorted(os.listdir(wt)))
    porcelain.sparse_checkout(wt, patterns=["/f"], cone=False)
    print("2. sparse ['/f']:    d =", os.listdir(os.path.join(wt, "d")), " h =", os.listdir(os.path.join(wt, "h")))
    porcelain.checkout(wt, c2, force=True)
    print("3. checkout two:     d ->", os.readlink(os.path.join(wt, "d")), "  h ->", os.readlink(os.path.join(wt, "h")))
    with Repo(wt) as rr:
        print("   index now holds: ", sorted(rr.open_index()))
    try:
        porcelain.sparse_checkout(wt, patterns=["*"], cone=False)
        print("4. sparse ['*'] returned normally")
    except Exception as e:
        print("4. sparse ['*'] raised:", type(e).__name__, e)

    out_x = os.path.join(parent, "outside", "x")
    hook = os.path.join(wt, ".git", "hooks", "pre-commit")
    if os.path.lexists(out_x):
        print("VIOLATION: created", out_x, "=", open(out_x, "rb").read())
        violations.append("outside")
    if os.path.lexists(hook):
        print("VIOLATION: created", hook, "=", open(hook, "rb").read())
        violations.append("hooks")
    if not violations:
        print("ok: nothing written outside the work tree or into .git")
finally:
    shutil.rmtree(base, ignore_errors=True)

print()
print("property requires: a write whose leading directory is a symlink is refused;")
print("../outside and .git/hooks stay untouched")
sys.exit(1 if violations else 0)
