#!/usr/bin/env python
"""C17 finding 4: sparse checkout DELETES a file outside the work tree through a
symlinked leading directory (deletion twin of finding 3, same function).

Trees (only ordinary names):
    tree one:  d/x  f                 tree two:  d -> ../outside   f

  1. clone (tree one)
  2. sparse_checkout(["/f"])        -> d/x leaves the work tree, stays in the index
  3. checkout(tree two, force=True) -> d becomes a symlink to ../outside; the
     stale index entry d/x survives (_transition_to_absent returns early for an
     absent file before `del index[path]`)
  4. cone_mode_init()               -> patterns "/*", "!/*/", force=True: d/x is
     "excluded"; apply_included_paths() calls os.path.exists()/os.remove() on
     <worktree>/d/x without checking that d is a symlink, and removes
     ../outside/x - a pre-existing file that never belonged to the repository.

Property C17: checkout never deletes anything outside the working directory.
Exit status 1 = violation present, 0 = not present.
"""

import io
import os
import shutil
import sys
import tempfile

from dulwich import porcelain
from dulwich.objects import Blob, Commit, Tree
from dulwich.repo import Repo

SCRATCH = (os.environ.get("CORPUS_TMP") or "/tmp")
os.makedirs(SCRATCH, exist_ok=True)
base = tempfile.mkdtemp(dir=SCRATCH)
violation = False


def blob(store, data):
    b = Blob.from_string(data)
    store.add_object(b)
    return b.id


def commit(r, tree_id, parents, ref):
    c = Commit()
    c.tree = tree_id
    c.parents = parents
    c.author = c.committer = b"a <a@b>"
    c.commit_time = c.author_time = 0
    c.commit_timezone = c.author_timezone = 0
    c.message = b"m"
    r.object_store.add_object(c)
    r.refs[ref] = c.id
    return c.id


try:
    src = os.path.join(base, "src")
    os.mkdir(src)
    r = Repo.init(src)
    s = r.object_store
    f = blob(s, b"hello\n")
    sub = Tree()
    sub.add(b"x", 0o100644, blob(s, b"tracked x\n"))
    s.add_object(sub)
    one = Tree()
    one.add(b"d", 0o40000, sub.id)
    one.add(b"f", 0o100644, f)
    s.add_object(one)
    two = Tree()
    two.add(b"d", 0o120000, blob(s, b"../outside"))
    two.add(b"f", 0o100644, f)
    s.add_object(two)
    c1 = commit(r, one.id, [], b"refs/heads/main")
    c2 = commit(r, two.id, [c1], b"refs/heads/two")
    r.refs.set_symbolic_ref(b"HEAD", b"refs/heads/main")
    r.close()

    parent = os.path.join(base, "parent")
    os.makedirs(os.path.join(parent, "outside"))
    victim = os.path.join(parent, "outside", "x")
    with open(victim, "w") as fh:
        fh.write("precious data that is not part of any repository\n")
    wt = os.path.join(parent, "wt")

    porcelain.clone(src, wt, errstream=io.BytesIO()).close()
    porcelain.sparse_checkout(wt, patterns=["/f"], cone=False)
    porcelain.checkout(wt, c2, force=True)
    print("after step 3: d ->", os.readlink(os.path.join(wt, "d")))
    with Repo(wt) as rr:
        print("              index =", sorted(rr.open_index()))
    print("              victim exists:", os.path.exists(victim))
    try:
        porcelain.cone_mode_init(wt)
        print("step 4: cone_mode_init returned normally")
    except Exception as e:
        print("step 4: cone_mode_init raised:", type(e).__name__, e)

    if not os.path.exists(victim):
        print("VIOLATION:", victim, "has been deleted")
        violation = True
    else:
        print("ok: the file outside the work tree is still there")
finally:
    shutil.rmtree(base, ignore_errors=True)

print()
print("property requires: a removal whose leading directory is a symlink is")
print("skipped/refused; nothing outside the work tree is ever deleted")
sys.exit(1 if violation else 0)
