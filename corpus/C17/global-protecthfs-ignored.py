"""C17 finding 2: with core.protectHFS switched ON in the user's (global) configuration,
clone, checkout and reset --hard still materialise the HFS+ spelling of .git
(".g<U+200C>it/hooks/post-checkout") instead of refusing the entry.

WorkTree.reset_index() (used by clone), porcelain._get_worktree_update_config() (used by
checkout / reset --hard) and Stash.pop() build their path validator from
repo.get_config() -- the repository-local file only -- and pass it explicitly to
build_index_from_tree()/update_working_tree(), overriding the stacked-config default
those functions would otherwise use.  So "protectHFS on" is honoured only when it is
written into .git/config, which cannot be the case during a clone.  C git reads the
setting from the global file and refuses the path.
"""
import os
import shutil
import subprocess
import sys
import tempfile

base = os.environ.get("C17_TMP", (os.environ.get("CORPUS_TMP") or "/tmp"))
os.makedirs(base, exist_ok=True)
root = tempfile.mkdtemp(dir=base, prefix="f2-")
home = os.path.join(root, "home")
os.mkdir(home)
with open(os.path.join(home, ".gitconfig"), "w") as f:
    f.write("[core]\n\tprotectHFS = true\n\tprotectNTFS = true\n")
os.environ["HOME"] = home
os.environ.pop("XDG_CONFIG_HOME", None)

from dulwich import porcelain  # noqa: E402
from dulwich.index import InvalidPathError, get_path_element_validator, validate_path  # noqa: E402
from dulwich.objects import Blob, Commit, Tree  # noqa: E402
from dulwich.repo import Repo  # noqa: E402

EVIL = ".g‌it".encode()  # HFS+ ignores U+200C: this IS ".git" on HFS+
EVIL_PATH = EVIL + b"/hooks/post-checkout"


def commit(store, tree_id):
    c = Commit()
    c.tree = tree_id
    c.author = c.committer = b"a <a@b>"
    c.author_time = c.commit_time = 0
    c.author_timezone = c.commit_timezone = 0
    c.message = b"m"
    store.add_object(c)
    return c.id


def attempt(label, fn, wt):
    try:
        fn()
        res = "completed"
    except InvalidPathError as e:
        res = "refused (%s)" % e
    present = os.path.lexists(os.path.join(os.fsencode(wt), EVIL_PATH))
    print("%-28s: %s; %r materialised: %s" % (label, res, EVIL_PATH, present))
    return present


status = 0
try:
    src = Repo.init(os.path.join(root, "src"), mkdir=True)
    hook = Blob.from_string(b"#!/bin/sh\necho PWNED\n")
    ok = Blob.from_string(b"ok\n")
    for o in (hook, ok):
        src.object_store.add_object(o)
    hooks = Tree()
    hooks.add(b"post-checkout", 0o100755, hook.id)
    dotgit = Tree()
    dotgit.add(b"hooks", 0o40000, hooks.id)
    good = Tree()
    good.add(b"ok", 0o100644, ok.id)
    evil = Tree()
    evil.add(b"ok", 0o100644, ok.id)
    evil.add(EVIL, 0o40000, dotgit.id)
    for o in (hooks, dotgit, good, evil):
        src.object_store.add_object(o)
    c_good = commit(src.object_store, good.id)
    c_evil = commit(src.object_store, evil.id)
    src.refs[b"refs/heads/master"] = c_evil
    src.refs[b"refs/heads/good"] = c_good
    src.close()

    errs = open(os.devnull, "wb")
    bad = []
    dst = os.path.join(root, "clone")
    holder = {}
    bad.append(attempt("clone", lambda: holder.setdefault(
        "r", porcelain.clone(os.path.join(root, "src"), dst, errstream=errs)), dst))
    r = holder.get("r") or Repo(dst)
    stack = r.get_config_stack()
    print("effective core.protectHFS for this repository (config stack):",
          stack.get_boolean(b"core", b"protectHFS", False))
    print("library's own validator under that configuration accepts the path:",
          validate_path(EVIL_PATH, get_path_element_validator(stack)))

    wt2 = os.path.join(root, "wt2")
    r2 = Repo.init(wt2, mkdir=True)
    porcelain.fetch(r2, os.path.join(root, "src"), errstream=errs, outstream=errs)
    bad.append(attempt("reset --hard (fresh repo)", lambda: porcelain.reset(r2, "hard", c_evil), wt2))
    wt3 = os.path.join(root, "wt3")
    r3 = Repo.init(wt3, mkdir=True)
    porcelain.fetch(r3, os.path.join(root, "src"), errstream=errs, outstream=errs)
    porcelain.reset(r3, "hard", c_good)
    bad.append(attempt("checkout (after good tree)", lambda: porcelain.checkout(r3, c_evil, force=True), wt3))
    for x in (r, r2, r3):
        x.close()

    # C git as oracle, same global configuration
    env = dict(os.environ, GIT_CONFIG_NOSYSTEM="1", GIT_CONFIG_GLOBAL=os.path.join(home, ".gitconfig"))
    p = subprocess.run(["git", "clone", "-q", os.path.join(root, "src"), os.path.join(root, "cgit")],
                       env=env, capture_output=True, text=True)
    print("C git clone, same global config: rc=%d %s" % (p.returncode, p.stderr.strip().splitlines()[:1]))

    print("required: with protectHFS on, the entry is unsafe and must be refused, never written.")
    if any(bad):
        print("VIOLATION: unsafe entry materialised although core.protectHFS is on")
        status = 1
    else:
        print("no violation")
finally:
    shutil.rmtree(root, ignore_errors=True)
sys.stdout.flush()
os._exit(status)
