#!/usr/bin/env python
"""C17 finding 5: unsafe tree names ('..', '.git') are accepted by reset --mixed
and then materialised verbatim by sparse checkout.

A commit's tree contains, next to a normal file f:

    ../outside/p              (tree entry named '..')
    .git/hooks/pre-commit     (tree entry named '.git')

  1. clone of a harmless commit
  2. porcelain.reset(repo, "mixed", evil_commit): the index is filled straight
     from iter_tree_contents() with no validate_path() - the unsafe paths are
     now index entries (C git: "error: invalid path '../outside/p'").
  3. porcelain.sparse_checkout(patterns=["*"]) (any sparse-checkout/cone_mode_*
     call that includes the paths): apply_included_paths() joins every index
     path onto repo.path and open(..., "wb")s it if missing.  It never calls
     validate_path()/verify_leading_dirs(), so the blobs are written to
     <parent>/outside/p and <worktree>/.git/hooks/pre-commit.

Property C17: entries whose paths are unsafe are refused; nothing is created
outside the work tree or inside .git.
Exit status 1 = violation present, 0 = not present.
"""

import io
import os
import shutil
import sys
import tempfile

from dulwich import porcelain
from dulwich.objects import Blob, Commit, Tree
from dulwich.repo import Repo

SCRATCH = (os.environ.get("CORPUS_TMP") or "/tmp")
os.makedirs(SCRATCH, exist_ok=True)
base = tempfile.mkdtemp(dir=SCRATCH)
violations = []


def blob(store, data):
    b = Blob.from_string(data)
    store.add_object(b)
    return b.id


def tree(store, entries):
    t = Tree()
    for name, mode, sha in entries:
        t.add(name, mode, sha)
    store.add_object(t)
    return t.id


def commit(r, tree_id, parents, ref):
    c = Commit()
    c.tree = tree_id
    c.parents = parents
    c.author = c.committer = b"a <a@b>"
    c.commit_time = c.author_time = 0
    c.commit_timezone = c.author_timezone = 0
    c.message = b"m"
    r.object_store.add_object(c)
    r.refs[ref] = c.id
    return c.id


try:
    src = os.path.join(base, "src")
    os.mkdir(src)
    r = Repo.init(src)
    s = r.object_store
    f = blob(s, b"hello\n")
    good = tree(s, [(b"f", 0o100644, f)])
    dotdot = tree(s, [(b"outside", 0o40000, tree(s, [(b"p", 0o100644, blob(s, b"evil bytes\n"))]))])
    dotgit = tree(s, [(b"hooks", 0o40000, tree(s, [(b"pre-commit", 0o100755, blob(s, b"#!/bin/sh\necho pwned\n"))]))])
    evil = tree(s, [(b"f", 0o100644, f), (b"..", 0o40000, dotdot), (b".git", 0o40000, dotgit)])
    c1 = commit(r, good, [], b"refs/heads/main")
    c2 = commit(r, evil, [c1], b"refs/heads/evil")
    r.refs.set_symbolic_ref(b"HEAD", b"refs/heads/main")
    r.close()

    parent = os.path.join(base, "parent")
    os.makedirs(os.path.join(parent, "outside"))
    wt = os.path.join(parent, "wt")
    porcelain.clone(src, wt, errstream=io.BytesIO()).close()

    try:
        porcelain.reset(wt, "mixed", c2)
        print("reset --mixed <evil> returned normally")
    except Exception as e:
        print("reset --mixed <evil> refused:", type(e).__name__, e)
    with Repo(wt) as rr:
        print("index paths:", sorted(rr.open_index()))
    try:
        porcelain.sparse_checkout(wt, patterns=["*"], cone=False)
        print("sparse_checkout(['*']) returned normally")
    except Exception as e:
        print("sparse_checkout refused:", type(e).__name__, e)

    out_p = os.path.join(parent, "outside", "p")
    hook = os.path.join(wt, ".git", "hooks", "pre-commit")
    for p in (out_p, hook):
        if os.path.lexists(p):
            print("VIOLATION: created", p, "=", open(p, "rb").read())
            violations.append(p)
    if not violations:
        print("ok: unsafe entries were not materialised")
finally:
    shutil.rmtree(base, ignore_errors=True)

print()
print("property requires: '..' and '.git' entries are refused; nothing appears in")
print("<parent>/outside or <worktree>/.git/hooks")
sys.exit(1 if violations else 0)
