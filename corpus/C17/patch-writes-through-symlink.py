#!/usr/bin/env python
"""C17 finding 1: patch application writes through a symlink at the target path.

A checked-out tree contains two symlinks whose targets lie inside the
repository's own .git directory:

    hook -> .git/hooks/post-checkout      (dangling: the file does not exist yet)
    cfg  -> .git/config                   (existing file)

porcelain.apply_patch() (and therefore dulwich.patch.apply_patches / am) is then
asked to apply a patch that "creates" hook with mode 100755 and a rename patch
whose destination is cfg.  _validate_patch_target() only validates the *names*
and the *leading* directories (verify_leading_dirs) and a realpath containment
check that .git/... satisfies; the final component is opened with
open(fs_path, "wb") and chmod()ed, both of which follow the symlink.

Property C17 requires that patch application never creates or overwrites
anything inside .git (C git answers "hook: already exists in working
directory" and touches nothing).

Exit status 1 = violation present, 0 = not present.
"""

import io
import os
import shutil
import sys
import tempfile

from dulwich import porcelain
from dulwich.objects import Blob, Commit, Tree
from dulwich.repo import Repo

SCRATCH = (os.environ.get("CORPUS_TMP") or "/tmp")
os.makedirs(SCRATCH, exist_ok=True)
base = tempfile.mkdtemp(dir=SCRATCH)
violations = []
try:
    src = os.path.join(base, "src")
    os.mkdir(src)
    r = Repo.init(src)
    tree = Tree()
    for name, mode, data in [
        (b"hook", 0o120000, b".git/hooks/post-checkout"),
        (b"cfg", 0o120000, b".git/config"),
        (b"payload", 0o100644, b"[core]\n\tfsmonitor = echo pwned\n"),
    ]:
        blob = Blob.from_string(data)
        r.object_store.add_object(blob)
        tree.add(name, mode, blob.id)
    r.object_store.add_object(tree)
    c = Commit()
    c.tree = tree.id
    c.author = c.committer = b"a <a@b>"
    c.commit_time = c.author_time = 0
    c.commit_timezone = c.author_timezone = 0
    c.message = b"m"
    r.object_store.add_object(c)
    r.refs[b"refs/heads/main"] = c.id
    r.refs.set_symbolic_ref(b"HEAD", b"refs/heads/main")
    r.close()

    wt = os.path.join(base, "wt")
    porcelain.clone(src, wt, errstream=io.BytesIO()).close()
    hook_path = os.path.join(wt, ".git", "hooks", "post-checkout")
    cfg_path = os.path.join(wt, ".git", "config")
    print("work tree after clone:", sorted(os.listdir(wt)))
    print("  hook ->", os.readlink(os.path.join(wt, "hook")))
    print("  cfg  ->", os.readlink(os.path.join(wt, "cfg")))
    assert not os.path.lexists(hook_path)
    cfg_before = open(cfg_path, "rb").read()

    # (a) "new file" patch on top of the dangling symlink.
    patch_a = (
        b"diff --git a/hook b/hook\n"
        b"new file mode 100755\n"
        b"--- /dev/null\n"
        b"+++ b/hook\n"
        b"@@ -0,0 +1,2 @@\n"
        b"+#!/bin/sh\n"
        b"+echo pwned\n"
    )
    try:
        porcelain.apply_patch(wt, io.BytesIO(patch_a))
        print("(a) apply_patch returned normally")
    except Exception as e:  # a refusal is the expected behaviour
        print("(a) apply_patch refused:", type(e).__name__, e)
    if os.path.lexists(hook_path):
        st = os.stat(hook_path)
        print("(a) VIOLATION: created", hook_path)
        print("    mode", oct(st.st_mode & 0o7777), "content", open(hook_path, "rb").read())
        violations.append("a")
    else:
        print("(a) ok: .git/hooks/post-checkout was not created")

    # (b) pure rename patch whose destination is the symlink into .git/config.
    patch_b = (
        b"diff --git a/payload b/cfg\n"
        b"similarity index 100%\n"
        b"rename from payload\n"
        b"rename to cfg\n"
    )
    try:
        porcelain.apply_patch(wt, io.BytesIO(patch_b))
        print("(b) apply_patch returned normally")
    except Exception as e:
        print("(b) apply_patch refused:", type(e).__name__, e)
    cfg_after = open(cfg_path, "rb").read()
    if cfg_after != cfg_before:
        print("(b) VIOLATION: .git/config was overwritten; it now reads:")
        print("    ", cfg_after)
        violations.append("b")
    else:
        print("(b) ok: .git/config unchanged")
finally:
    shutil.rmtree(base, ignore_errors=True)

print()
print("property requires: patch application refuses (or replaces the symlink in the")
print("work tree) and never creates/overwrites anything under .git")
sys.exit(1 if violations else 0)
