#!/usr/bin/env python
"""C17 finding 6: symlink then submodule of the same name - the submodule's tree
is checked out THROUGH the symlink, outside the work tree.

    commit one:  s -> ../outside (symlink)      .gitmodules (path = s, url = <sub>)
    commit two:  s = gitlink to <sub>'s commit  .gitmodules (same)

  1. clone (commit one)                 -> work tree has the symlink s
  2. reset --soft two; reset_index()    -> HEAD's tree (two) is materialised on top
     of the earlier checkout by build_index_from_tree().  For the gitlink entry it
     tests os.path.isdir(full_path), which FOLLOWS the symlink, so s stays a
     symlink to ../outside (update_working_tree would have replaced it; stash pop
     has the same isdir test).  [The reset_index step is not even required: after
     the soft reset alone step 3 behaves identically.]
  3. submodule_update(init=True)        -> only the *name* of the gitlink path is
     validated (_check_submodule_path); nothing lstat()s it.  It writes
     <worktree>/s/.git and then build_index_from_tree(<worktree>/s, ...) checks the
     submodule's tree out, i.e. into <parent>/outside/: an attacker-chosen
     executable appears outside the work tree.

Property C17: materialising a tree on top of an earlier checkout never creates
anything outside the working directory (C git refuses a submodule path that is
or leads through a symlink).
Exit status 1 = violation present, 0 = not present.
"""

import io
import os
import shutil
import sys
import tempfile

from dulwich import porcelain
from dulwich.objects import Blob, Commit, Tree
from dulwich.repo import Repo

SCRATCH = (os.environ.get("CORPUS_TMP") or "/tmp")
os.makedirs(SCRATCH, exist_ok=True)
base = tempfile.mkdtemp(dir=SCRATCH)
violation = False


def blob(store, data):
    b = Blob.from_string(data)
    store.add_object(b)
    return b.id


def tree(store, entries):
    t = Tree()
    for name, mode, sha in entries:
        t.add(name, mode, sha)
    store.add_object(t)
    return t.id


def commit(r, tree_id, parents, ref):
    c = Commit()
    c.tree = tree_id
    c.parents = parents
    c.author = c.committer = b"a <a@b>"
    c.commit_time = c.author_time = 0
    c.commit_timezone = c.author_timezone = 0
    c.message = b"m"
    r.object_store.add_object(c)
    r.refs[ref] = c.id
    return c.id


try:
    subsrc = os.path.join(base, "subsrc")
    os.mkdir(subsrc)
    sr = Repo.init(subsrc)
    sub_tree = tree(sr.object_store, [(b"payload", 0o100755, blob(sr.object_store, b"#!/bin/sh\necho pwned\n"))])
    sub_commit = commit(sr, sub_tree, [], b"refs/heads/main")
    sr.refs.set_symbolic_ref(b"HEAD", b"refs/heads/main")
    sr.close()

    src = os.path.join(base, "src")
    os.mkdir(src)
    r = Repo.init(src)
    s = r.object_store
    gm = blob(s, b'[submodule "s"]\n\tpath = s\n\turl = ' + os.fsencode(subsrc) + b"\n")
    one = tree(s, [(b".gitmodules", 0o100644, gm), (b"s", 0o120000, blob(s, b"../outside"))])
    two = tree(s, [(b".gitmodules", 0o100644, gm), (b"s", 0o160000, sub_commit)])
    c1 = commit(r, one, [], b"refs/heads/main")
    c2 = commit(r, two, [c1], b"refs/heads/two")
    r.refs.set_symbolic_ref(b"HEAD", b"refs/heads/main")
    r.close()

    parent = os.path.join(base, "parent")
    outside = os.path.join(parent, "outside")
    os.makedirs(outside)
    wt = os.path.join(parent, "wt")
    porcelain.clone(src, wt, errstream=io.BytesIO()).close()
    print("1. clone one:       s ->", os.readlink(os.path.join(wt, "s")))

    porcelain.reset(wt, "soft", c2)
    with Repo(wt) as rr:
        rr.get_worktree().reset_index()
    sp = os.path.join(wt, "s")
    print("2. reset_index two: s is", "STILL a symlink" if os.path.islink(sp) else "a real directory")

    try:
        porcelain.submodule_update(wt, init=True, errstream=io.BytesIO())
        print("3. submodule_update returned normally")
    except Exception as e:
        print("3. submodule_update refused:", type(e).__name__, e)

    created = sorted(os.listdir(outside))
    print("   contents of <parent>/outside:", created)
    if created:
        for n in created:
            p = os.path.join(outside, n)
            print("VIOLATION: created", p, oct(os.lstat(p).st_mode & 0o7777), open(p, "rb").read())
        violation = True
    else:
        print("ok: nothing was written outside the work tree")
finally:
    shutil.rmtree(base, ignore_errors=True)

print()
print("property requires: the symlink is replaced by a real directory, or the")
print("submodule checkout is refused; <parent>/outside stays empty")
sys.exit(1 if violation else 0)
