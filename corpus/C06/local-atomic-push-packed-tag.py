#!/usr/bin/env python
"""C06 finding 6: in-process atomic push rejects a ref whose current value EQUALS the old
value the client named, when that ref is an annotated tag stored in packed-refs with a
peeled ("^...") line -- e.g. after `git pack-refs --all` / `git gc` on the target.

LocalGitClient.send_pack(atomic=True) validates with
    current = target.refs.get_peeled(refname);  if current is not None and current != old
get_peeled() returns the *peeled* value (the commit the tag points at), while `old` is the
ref's value (the tag object id).  They always differ for an annotated tag, so the update
is reported "unable to set ..." and the whole atomic push is refused.  The very same push
with atomic=False is applied.  The property rejects a ref only when its current value
differs from the old value named; here it does not differ.
"""
import os, shutil, subprocess, sys, tempfile

from dulwich.client import LocalGitClient
from dulwich.objects import Blob, Commit, Tag, Tree
from dulwich.repo import Repo

os.makedirs((os.environ.get("CORPUS_TMP") or "/tmp"), exist_ok=True)
GIT_ENV = {"HOME": "/nonexistent", "GIT_CONFIG_NOSYSTEM": "1", "GIT_CONFIG_GLOBAL": "/dev/null",
           "PATH": os.environ.get("PATH", "/usr/bin:/bin")}


def mkcommit(msg, parents=()):
    b = Blob.from_string(msg)
    t = Tree(); t.add(b"f", 0o100644, b.id)
    c = Commit(); c.tree = t.id; c.parents = list(parents)
    c.author = c.committer = b"a <a@b>"; c.author_time = c.commit_time = 0
    c.author_timezone = c.commit_timezone = 0; c.message = msg
    return [b, t, c]


def mktag(target, msg):
    t = Tag(); t.name = b"v1"; t.object = (Commit, target); t.tagger = b"a <a@b>"
    t.tag_time = 0; t.tag_timezone = 0; t.message = msg
    return t


def main():
    d = tempfile.mkdtemp(dir=(os.environ.get("CORPUS_TMP") or "/tmp"))
    try:
        A = mkcommit(b"A"); B = mkcommit(b"B", [A[2].id])
        a, b = A[2].id, B[2].id
        T1, T2 = mktag(a, b"first"), mktag(b, b"second")
        src = Repo.init_bare(os.path.join(d, "src.git"), mkdir=True)
        for o in A + B + [T1, T2]:
            src.object_store.add_object(o)
        results = {}
        for atomic in (True, False):
            path = os.path.join(d, "dst-%s.git" % atomic)
            dst = Repo.init_bare(path, mkdir=True)
            for o in A + [T1]:
                dst.object_store.add_object(o)
            dst.refs[b"refs/heads/x"] = a
            dst.refs[b"refs/tags/v1"] = T1.id
            dst.close()
            subprocess.check_call(["git", "-C", path, "pack-refs", "--all"], env=GIT_ENV)
            seen = {}

            def update_refs(refs):
                seen.update(refs)
                return {b"refs/tags/v1": T2.id, b"refs/heads/x": b}

            res = LocalGitClient().send_pack(path, update_refs, src.generate_pack_data,
                                             atomic=atomic)
            after = Repo(path).refs.as_dict()
            moved = after[b"refs/tags/v1"] == T2.id and after[b"refs/heads/x"] == b
            print("atomic=%s: old value of refs/tags/v1 seen by the client = current value: %s"
                  % (atomic, seen[b"refs/tags/v1"] == T1.id))
            print("   ref_status:", res.ref_status)
            print("   refs moved to the requested values:", moved)
            results[atomic] = (res.ref_status, moved)
        print("Required: no ref differs from the old value named, so both pushes must be "
              "applied and report success.")
        st, moved = results[True]
        if not moved and any(v is not None for v in st.values()) and results[False][1]:
            print("VIOLATION: the atomic push was rejected although every old value matched "
                  "(the non-atomic push of the same commands succeeded).")
            return 1
        return 0
    finally:
        shutil.rmtree(d, ignore_errors=True)


if __name__ == "__main__":
    rc = main()
    sys.stdout.flush()
    os._exit(rc)
