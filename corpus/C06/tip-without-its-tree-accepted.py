#!/usr/bin/env python
"""C06 finding 3: receive-pack only checks that the *tip* object named by a
command is present ("sha in object_store"); it does not check that what the tip
needs is present.  A pack that carries a commit but not its tree (nor blobs) is
accepted and the branch is moved to it, leaving the server with a ref that
cannot be checked out, cloned or fsck'ed - the repository is corrupt.

C git runs a connectivity check and answers "ng <ref> missing necessary
objects", leaving the ref untouched; the script shows that as the oracle when
`git` is available.  The same holds for the in-process path
(LocalGitClient.send_pack), which has the same tip-only test.
"""
import subprocess
import os
import shutil
import sys
import tempfile
import warnings
from io import BytesIO

warnings.simplefilter("ignore")

from dulwich.object_format import DEFAULT_OBJECT_FORMAT
from dulwich.objects import Blob, Commit, Tree
from dulwich.pack import write_pack_objects
from dulwich.protocol import Protocol, pkt_line
from dulwich.repo import Repo
from dulwich.server import DictBackend, ReceivePackHandler

Z = b"0" * 40


def mkcommit(store, msg, parents=()):
    b = Blob.from_string(msg)
    t = Tree()
    t.add(b"f", 0o100644, b.id)
    c = Commit()
    c.tree = t.id
    c.parents = list(parents)
    c.author = c.committer = b"a <a@b>"
    c.author_time = c.commit_time = 0
    c.author_timezone = c.commit_timezone = 0
    c.message = msg
    for o in (b, t, c):
        store.add_object(o)
    return c


def empty_pack():
    f = BytesIO()
    write_pack_objects(f.write, [], DEFAULT_OBJECT_FORMAT)
    return f.getvalue()


def push(repo, cmds, caps, pack=b""):
    """Speak receive-pack over pkt-line to the stock handler; return report lines."""
    inp = BytesIO()
    for i, (old, new, ref) in enumerate(cmds):
        line = old + b" " + new + b" " + ref
        if i == 0:
            line += b"\0" + caps
        inp.write(pkt_line(line + b"\n"))
    inp.write(pkt_line(None))
    inp.write(pack)
    inp.seek(0)
    out = BytesIO()
    handler = ReceivePackHandler(
        DictBackend({b"/": repo}), [b"/"], Protocol(inp.read, out.write),
        stateless_rpc=True,
    )
    handler.handle()
    out.seek(0)
    p = Protocol(out.read, None)
    lines = []
    while True:
        pkt = p.read_pkt_line()
        if pkt is None:
            break
        lines.append(pkt.rstrip(b"\n"))
    return lines


def pack_of(objs):
    f = BytesIO()
    write_pack_objects(f.write, [(o, None) for o in objs], DEFAULT_OBJECT_FORMAT)
    return f.getvalue()


def reachable_missing(repo, sha):
    """Objects needed by commit sha that the repo does not have."""
    missing = []
    c = repo[sha]
    for need in [c.tree, *c.parents]:
        if need not in repo.object_store:
            missing.append(need)
    return missing


def main():
    os.makedirs((os.environ.get("CORPUS_TMP") or "/tmp"), exist_ok=True)
    d = tempfile.mkdtemp(dir=(os.environ.get("CORPUS_TMP") or "/tmp"), prefix="f3-")
    bad = False
    try:
        repo = Repo.init_bare(d)
        a = mkcommit(repo.object_store, b"A")
        repo.refs[b"refs/heads/master"] = a.id
        # a commit D (child of A) built client-side; only the commit object is sent
        from dulwich.object_store import MemoryObjectStore
        dcommit = mkcommit(MemoryObjectStore(), b"D", [a.id])
        cmds = [(a.id, dcommit.id, b"refs/heads/master")]
        pack = pack_of([dcommit])

        env = dict(os.environ, HOME="/nonexistent", GIT_CONFIG_NOSYSTEM="1",
                   GIT_CONFIG_GLOBAL="/dev/null")
        if shutil.which("git"):
            d2 = d + "-cgit"
            shutil.copytree(d, d2)
            inp = pkt_line(cmds[0][0] + b" " + cmds[0][1] + b" " + cmds[0][2]
                           + b"\0report-status\n") + pkt_line(None) + pack
            p = subprocess.run(["git", "receive-pack", d2], input=inp,
                               capture_output=True, env=env)
            print("oracle (C git receive-pack) report tail:", p.stdout[-80:])
            print("oracle ref after:", Repo(d2).refs.as_dict())
            shutil.rmtree(d2, ignore_errors=True)

        rep = push(repo, cmds, b"report-status", pack)
        srv = Repo(d)
        now = srv.refs.as_dict()
        print("dulwich report:", rep)
        print("dulwich server:", now)
        tip = now[b"refs/heads/master"]
        miss = reachable_missing(srv, tip)
        print("objects needed by the tip that the server lacks:", miss)
        if tip == dcommit.id and miss:
            bad = True
            print("VIOLATION: push reported ok and refs/heads/master now names a "
                  "commit whose tree the server does not have; server refs must "
                  "stay valid (C git: 'ng ... missing necessary objects').")
    finally:
        shutil.rmtree(d, ignore_errors=True)
    if not bad:
        print("no violation observed")
    return 1 if bad else 0


if __name__ == "__main__":
    rc = main()
    sys.stdout.flush()
    os._exit(rc)
