#!/usr/bin/env python
"""C06 finding 1: receive-pack crashes with FileLocked when a concurrent pusher holds
the lock of one of the refs -> atomic push is applied partially, nothing is reported.

ReceivePackHandler._apply_pack/apply_update catches `all_exceptions` (OSError, ...) around
refs.set_if_equals / remove_if_equals, but dulwich.file.FileLocked derives from Exception,
not OSError.  When a second pusher is inside its own compare-and-swap of ref `y` (it holds
refs/heads/y.lock, exactly what DiskRefsContainer.set_if_equals does), our push of [x, y]:
  * updates x,
  * then raises FileLocked out of handle(): no rollback of x (atomic!), no status report.
"""
import os, shutil, sys, tempfile
from io import BytesIO

from dulwich.file import GitFile
from dulwich.object_format import DEFAULT_OBJECT_FORMAT
from dulwich.objects import Blob, Commit, Tree
from dulwich.pack import write_pack_objects
from dulwich.protocol import Protocol, pkt_line
from dulwich.repo import Repo
from dulwich.server import DictBackend, ReceivePackHandler

os.makedirs((os.environ.get("CORPUS_TMP") or "/tmp"), exist_ok=True)
Z = b"0" * 40


def mkcommit(msg, parents=()):
    b = Blob.from_string(msg)
    t = Tree(); t.add(b"f", 0o100644, b.id)
    c = Commit(); c.tree = t.id; c.parents = list(parents)
    c.author = c.committer = b"a <a@b>"; c.author_time = c.commit_time = 0
    c.author_timezone = c.commit_timezone = 0; c.message = msg
    return [b, t, c]


def packbytes(objs):
    f = BytesIO()
    write_pack_objects(f.write, [(o, None) for o in objs], DEFAULT_OBJECT_FORMAT)
    return f.getvalue()


def receive_pack(repo, cmds, caps, pack):
    """Run dulwich's receive-pack over pkt-line; returns the report-status lines."""
    inp = BytesIO()
    for i, (o, n, r) in enumerate(cmds):
        line = o + b" " + n + b" " + r
        if i == 0:
            line += b"\0" + b" ".join(caps)
        inp.write(pkt_line(line + b"\n"))
    inp.write(pkt_line(None))
    inp.write(pack)
    inp.seek(0)
    out = BytesIO()
    h = ReceivePackHandler(DictBackend({b"/": repo}), [b"/"], Protocol(inp.read, out.write))
    h.handle()
    out.seek(0)
    p = Protocol(out.read, None)
    list(p.read_pkt_seq())  # ref advertisement
    return [l.strip() for l in p.read_pkt_seq()]


def scenario(d, name, caps):
    A = mkcommit(b"A"); B = mkcommit(b"B", [A[2].id])
    a, b = A[2].id, B[2].id
    path = os.path.join(d, name)
    repo = Repo.init_bare(path, mkdir=True)
    for o in A:
        repo.object_store.add_object(o)
    repo.refs[b"refs/heads/x"] = a
    repo.refs[b"refs/heads/y"] = a
    # the racing pusher: a second process inside set_if_equals(refs/heads/y, ...)
    other = GitFile(os.path.join(path, "refs", "heads", "y"), "wb")
    try:
        try:
            status = receive_pack(
                repo,
                [(a, b, b"refs/heads/x"), (a, b, b"refs/heads/y")],
                caps, packbytes(B))
        except Exception as e:  # noqa: BLE001
            status = "handler died: %s" % type(e).__name__
    finally:
        other.abort()  # the other pusher gives up; y stays at A
    x, y = repo.refs[b"refs/heads/x"], repo.refs[b"refs/heads/y"]
    repo.close()
    print("[%s] caps=%s" % (name, b" ".join(caps).decode()))
    print("   status reported to the client:", status)
    print("   refs/heads/x: %s   refs/heads/y: %s" % (
        "UPDATED" if x == b else "unchanged", "UPDATED" if y == b else "unchanged"))
    return status, x == b, y == b


def main():
    d = tempfile.mkdtemp(dir=(os.environ.get("CORPUS_TMP") or "/tmp"))
    bad = False
    try:
        st, xu, yu = scenario(d, "atomic", [b"report-status", b"atomic"])
        if xu != yu:
            print("   VIOLATION: atomic push applied x but not y (no rollback).")
            bad = True
        st, xu, yu = scenario(d, "plain", [b"report-status"])
        if xu and (not isinstance(st, list) or b"ok refs/heads/x" not in st):
            print("   VIOLATION: x now holds the requested value but no 'ok' was reported.")
            bad = True
        print("Required: y is reported 'ng' (lock held), x reported per its real state;"
              " with atomic, x must be left/rolled back to its old value.")
    finally:
        shutil.rmtree(d, ignore_errors=True)
    return 1 if bad else 0


if __name__ == "__main__":
    rc = main()
    sys.stdout.flush()
    os._exit(rc)
