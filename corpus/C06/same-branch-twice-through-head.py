#!/usr/bin/env python
"""C06 finding 2: one push that updates a branch both under its own name and
through the symbolic ref HEAD (same old and new value - e.g. `git push origin
X:HEAD X:refs/heads/master`, or a mirror push) gets "ng ... failed to update ref"
for the second command although that ref now holds exactly the requested value.

ReceivePackHandler._apply_pack applies the commands one by one with
set_if_equals; the first one moves refs/heads/master, the second then sees a
"stale" old value.  C git detects aliased updates (check_aliased_updates) and
reports "ok" for both.  Over the in-process path LocalGitClient.send_pack shows
the same: ref_status marks the ref as failed although it holds the value.
"""
import os
import shutil
import sys
import tempfile
import warnings
from io import BytesIO

warnings.simplefilter("ignore")

from dulwich.object_format import DEFAULT_OBJECT_FORMAT
from dulwich.objects import Blob, Commit, Tree
from dulwich.pack import write_pack_objects
from dulwich.protocol import Protocol, pkt_line
from dulwich.repo import Repo
from dulwich.server import DictBackend, ReceivePackHandler

Z = b"0" * 40


def mkcommit(store, msg, parents=()):
    b = Blob.from_string(msg)
    t = Tree()
    t.add(b"f", 0o100644, b.id)
    c = Commit()
    c.tree = t.id
    c.parents = list(parents)
    c.author = c.committer = b"a <a@b>"
    c.author_time = c.commit_time = 0
    c.author_timezone = c.commit_timezone = 0
    c.message = msg
    for o in (b, t, c):
        store.add_object(o)
    return c


def empty_pack():
    f = BytesIO()
    write_pack_objects(f.write, [], DEFAULT_OBJECT_FORMAT)
    return f.getvalue()


def push(repo, cmds, caps, pack=b""):
    """Speak receive-pack over pkt-line to the stock handler; return report lines."""
    inp = BytesIO()
    for i, (old, new, ref) in enumerate(cmds):
        line = old + b" " + new + b" " + ref
        if i == 0:
            line += b"\0" + caps
        inp.write(pkt_line(line + b"\n"))
    inp.write(pkt_line(None))
    inp.write(pack)
    inp.seek(0)
    out = BytesIO()
    handler = ReceivePackHandler(
        DictBackend({b"/": repo}), [b"/"], Protocol(inp.read, out.write),
        stateless_rpc=True,
    )
    handler.handle()
    out.seek(0)
    p = Protocol(out.read, None)
    lines = []
    while True:
        pkt = p.read_pkt_line()
        if pkt is None:
            break
        lines.append(pkt.rstrip(b"\n"))
    return lines


def main():
    from dulwich.client import LocalGitClient
    os.makedirs((os.environ.get("CORPUS_TMP") or "/tmp"), exist_ok=True)
    d = tempfile.mkdtemp(dir=(os.environ.get("CORPUS_TMP") or "/tmp"), prefix="f2-")
    bad = False
    try:
        for order in (0, 1):
            shutil.rmtree(d, ignore_errors=True)
            os.mkdir(d)
            repo = Repo.init_bare(d)
            a = mkcommit(repo.object_store, b"A")
            b = mkcommit(repo.object_store, b"B", [a.id])
            repo.refs[b"refs/heads/master"] = a.id
            repo.refs.set_symbolic_ref(b"HEAD", b"refs/heads/master")
            cmds = [(a.id, b.id, b"HEAD"), (a.id, b.id, b"refs/heads/master")]
            if order:
                cmds.reverse()
            rep = push(repo, cmds, b"report-status", empty_pack())
            now = Repo(d).refs.as_dict()
            print("commands:", [c[2] for c in cmds])
            print("  report:", rep)
            print("  server:", now)
            for _, new, ref in cmds:
                holds = now.get(ref) == new
                ok = (b"ok " + ref) in rep
                if holds != ok:
                    bad = True
                    print(f"  VIOLATION: {ref!r} holds requested value: {holds}, "
                          f"reported ok: {ok}. Required: ok exactly when it holds it.")
        # in-process local push path
        shutil.rmtree(d, ignore_errors=True)
        os.mkdir(d)
        repo = Repo.init_bare(d)
        a = mkcommit(repo.object_store, b"A")
        b = mkcommit(repo.object_store, b"B", [a.id])
        repo.refs[b"refs/heads/master"] = a.id
        repo.refs.set_symbolic_ref(b"HEAD", b"refs/heads/master")
        res = LocalGitClient().send_pack(
            d,
            lambda refs: {b"HEAD": b.id, b"refs/heads/master": b.id},
            lambda have, want, **kw: (0, iter([])),
        )
        now = Repo(d).refs.as_dict()
        print("local push ref_status:", res.ref_status)
        print("  server:", now)
        for ref in (b"HEAD", b"refs/heads/master"):
            failed = bool((res.ref_status or {}).get(ref))
            if failed and now.get(ref) == b.id:
                bad = True
                print(f"  VIOLATION (local path): {ref!r} reported failed but holds "
                      "the requested value")
    finally:
        shutil.rmtree(d, ignore_errors=True)
    if not bad:
        print("no violation observed")
    return 1 if bad else 0


if __name__ == "__main__":
    rc = main()
    sys.stdout.flush()
    os._exit(rc)
