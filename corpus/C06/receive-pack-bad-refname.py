#!/usr/bin/env python
"""C06 finding 2: a command with an invalid ref name kills receive-pack in the middle of
the command list -> earlier refs are updated without any report, atomic push is partial.

ReceivePackHandler.apply_update expects refs.set_if_equals to raise KeyError for a bad
name (`except KeyError: return b"bad ref"`), but RefsContainer._check_refname raises
dulwich.errors.RefFormatError, which derives from Exception.  The atomic validation pass
does not notice the bad name either (`self.repo.refs[ref]` just raises KeyError ->
"does not exist" == old value 0{40}).  So for [update x, create refs/heads/bad..name]:
x is updated, then RefFormatError escapes handle(): no rollback, no status report.
C git answers `ng refs/heads/bad..name funny refname` and, with atomic, leaves x alone.
"""
import os, shutil, sys, tempfile
from io import BytesIO

import subprocess
from dulwich.object_format import DEFAULT_OBJECT_FORMAT
from dulwich.objects import Blob, Commit, Tree
from dulwich.pack import write_pack_objects
from dulwich.protocol import Protocol, pkt_line
from dulwich.repo import Repo
from dulwich.server import DictBackend, ReceivePackHandler

os.makedirs((os.environ.get("CORPUS_TMP") or "/tmp"), exist_ok=True)
Z = b"0" * 40


def mkcommit(msg, parents=()):
    b = Blob.from_string(msg)
    t = Tree(); t.add(b"f", 0o100644, b.id)
    c = Commit(); c.tree = t.id; c.parents = list(parents)
    c.author = c.committer = b"a <a@b>"; c.author_time = c.commit_time = 0
    c.author_timezone = c.commit_timezone = 0; c.message = msg
    return [b, t, c]


def packbytes(objs):
    f = BytesIO()
    write_pack_objects(f.write, [(o, None) for o in objs], DEFAULT_OBJECT_FORMAT)
    return f.getvalue()


def receive_pack(repo, cmds, caps, pack):
    """Run dulwich's receive-pack over pkt-line; returns the report-status lines."""
    inp = BytesIO()
    for i, (o, n, r) in enumerate(cmds):
        line = o + b" " + n + b" " + r
        if i == 0:
            line += b"\0" + b" ".join(caps)
        inp.write(pkt_line(line + b"\n"))
    inp.write(pkt_line(None))
    inp.write(pack)
    inp.seek(0)
    out = BytesIO()
    h = ReceivePackHandler(DictBackend({b"/": repo}), [b"/"], Protocol(inp.read, out.write))
    h.handle()
    out.seek(0)
    p = Protocol(out.read, None)
    list(p.read_pkt_seq())  # ref advertisement
    return [l.strip() for l in p.read_pkt_seq()]


def build(d, name):
    A = mkcommit(b"A"); B = mkcommit(b"B", [A[2].id])
    path = os.path.join(d, name)
    repo = Repo.init_bare(path, mkdir=True)
    for o in A:
        repo.object_store.add_object(o)
    repo.refs[b"refs/heads/x"] = A[2].id
    cmds = [(A[2].id, B[2].id, b"refs/heads/x"), (Z, B[2].id, b"refs/heads/bad..name")]
    return repo, path, cmds, B


def scenario(d, name, caps):
    repo, path, cmds, B = build(d, name)
    try:
        status = receive_pack(repo, cmds, caps, packbytes(B))
    except Exception as e:  # noqa: BLE001
        status = "handler died: %s" % type(e).__name__
    xu = repo.refs[b"refs/heads/x"] == B[2].id
    repo.close()
    print("[dulwich %s] caps=%s" % (name, b" ".join(caps).decode()))
    print("   status reported to the client:", status)
    print("   refs/heads/x:", "UPDATED" if xu else "unchanged")
    return status, xu


def git_oracle(d, caps):
    repo, path, cmds, B = build(d, "git-oracle")
    repo.close()
    inp = b""
    for i, (o, n, r) in enumerate(cmds):
        inp += pkt_line(o + b" " + n + b" " + r + (b"\0" + b" ".join(caps) if i == 0 else b"") + b"\n")
    inp += pkt_line(None) + packbytes(B)
    env = {"HOME": "/nonexistent", "GIT_CONFIG_NOSYSTEM": "1", "GIT_CONFIG_GLOBAL": "/dev/null",
           "PATH": os.environ.get("PATH", "/usr/bin:/bin")}
    out = subprocess.run(["git", "receive-pack", path], input=inp, env=env, capture_output=True).stdout
    report = out[out.index(b"unpack"):]
    xu = Repo(path).refs[b"refs/heads/x"] == B[2].id
    print("[C git oracle] caps=%s" % b" ".join(caps).decode())
    print("   report:", report, " refs/heads/x:", "UPDATED" if xu else "unchanged")


def main():
    d = tempfile.mkdtemp(dir=(os.environ.get("CORPUS_TMP") or "/tmp"))
    bad = False
    try:
        st, xu = scenario(d, "atomic", [b"report-status", b"atomic"])
        if xu:
            print("   VIOLATION: atomic push: x applied although the other command failed.")
            bad = True
        st, xu = scenario(d, "plain", [b"report-status"])
        if xu and (not isinstance(st, list) or b"ok refs/heads/x" not in st):
            print("   VIOLATION: x now holds the requested value but no 'ok' was reported.")
            bad = True
        git_oracle(d, [b"report-status", b"atomic"])
        print("Required: 'ng' for the bad ref, a truthful status for x; with atomic, x untouched.")
    finally:
        shutil.rmtree(d, ignore_errors=True)
    return 1 if bad else 0


if __name__ == "__main__":
    rc = main()
    sys.stdout.flush()
    os._exit(rc)
