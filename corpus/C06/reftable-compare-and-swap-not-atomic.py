#!/usr/bin/env python
"""C06 finding 4: on a server repository that uses the reftable ref storage
(extensions.refStorage = reftable, which Repo opens with ReftableRefsContainer)
the compare-and-swap behind receive-pack is not atomic:
ReftableRefsContainer.set_if_equals reads the current value, compares, and then
writes a new table without any lock ("TODO: Implement proper atomic
compare-and-swap" in the source).  Two pushers racing on the same ref, both
naming old = A, are BOTH told "ok"; the later write silently overwrites the
earlier one although at that moment the ref no longer held the old value the
client named.

The interleaving is made deterministic with a scheduling hook: pusher 1's
container instance is wrapped so that, between its compare and its write,
pusher 2 (a second Repo handle = a second server process) runs its whole push.
No library logic is changed.
"""
import os
import shutil
import sys
import tempfile
import warnings
from io import BytesIO

warnings.simplefilter("ignore")

from dulwich.object_format import DEFAULT_OBJECT_FORMAT
from dulwich.objects import Blob, Commit, Tree
from dulwich.pack import write_pack_objects
from dulwich.protocol import Protocol, pkt_line
from dulwich.repo import Repo
from dulwich.server import DictBackend, ReceivePackHandler

Z = b"0" * 40


def mkcommit(store, msg, parents=()):
    b = Blob.from_string(msg)
    t = Tree()
    t.add(b"f", 0o100644, b.id)
    c = Commit()
    c.tree = t.id
    c.parents = list(parents)
    c.author = c.committer = b"a <a@b>"
    c.author_time = c.commit_time = 0
    c.author_timezone = c.commit_timezone = 0
    c.message = msg
    for o in (b, t, c):
        store.add_object(o)
    return c


def empty_pack():
    f = BytesIO()
    write_pack_objects(f.write, [], DEFAULT_OBJECT_FORMAT)
    return f.getvalue()


def push(repo, cmds, caps, pack=b""):
    """Speak receive-pack over pkt-line to the stock handler; return report lines."""
    inp = BytesIO()
    for i, (old, new, ref) in enumerate(cmds):
        line = old + b" " + new + b" " + ref
        if i == 0:
            line += b"\0" + caps
        inp.write(pkt_line(line + b"\n"))
    inp.write(pkt_line(None))
    inp.write(pack)
    inp.seek(0)
    out = BytesIO()
    handler = ReceivePackHandler(
        DictBackend({b"/": repo}), [b"/"], Protocol(inp.read, out.write),
        stateless_rpc=True,
    )
    handler.handle()
    out.seek(0)
    p = Protocol(out.read, None)
    lines = []
    while True:
        pkt = p.read_pkt_line()
        if pkt is None:
            break
        lines.append(pkt.rstrip(b"\n"))
    return lines


def open_reftable_bare(d):
    repo = Repo.init_bare(d)
    cfg = repo.get_config()
    cfg.set((b"core",), b"repositoryformatversion", b"1")
    cfg.set((b"extensions",), b"refStorage", b"reftable")
    cfg.write_to_path()
    repo.close()
    return Repo(d)


def main():
    os.makedirs((os.environ.get("CORPUS_TMP") or "/tmp"), exist_ok=True)
    d = tempfile.mkdtemp(dir=(os.environ.get("CORPUS_TMP") or "/tmp"), prefix="f4-")
    bad = False
    try:
        r1 = open_reftable_bare(d)
        print("ref backend:", type(r1.refs).__name__)
        a = mkcommit(r1.object_store, b"A")
        b = mkcommit(r1.object_store, b"B", [a.id])
        c = mkcommit(r1.object_store, b"C", [a.id])
        r1.refs[b"refs/heads/master"] = a.id
        r2 = Repo(d)  # second server process
        reports = {}

        orig_write = r1.refs._write_ref_update
        fired = []

        def write_after_other_pusher(name, value_type, value):
            # pusher 1 has compared (current == A) and is about to write;
            # let pusher 2 run now
            if not fired:
                fired.append(1)
                reports["pusher2 (A->C)"] = push(
                    r2, [(a.id, c.id, b"refs/heads/master")], b"report-status",
                    empty_pack())
                reports["value seen after pusher2"] = Repo(d).refs[b"refs/heads/master"]
            return orig_write(name, value_type, value)

        r1.refs._write_ref_update = write_after_other_pusher
        reports["pusher1 (A->B)"] = push(
            r1, [(a.id, b.id, b"refs/heads/master")], b"report-status", empty_pack())
        final = Repo(d).refs[b"refs/heads/master"]
        for k, v in reports.items():
            print(k, ":", v)
        print("A =", a.id, " B =", b.id, " C =", c.id)
        print("final value:", final)
        ok1 = b"ok refs/heads/master" in reports["pusher1 (A->B)"]
        ok2 = b"ok refs/heads/master" in reports["pusher2 (A->C)"]
        if ok1 and ok2:
            bad = True
            print("VIOLATION: both racing pushers named old=A and both were told 'ok'. "
                  "When pusher 1 wrote, the ref held C, not A: it had to be left "
                  "untouched and reported rejected; instead C was overwritten.")
    finally:
        shutil.rmtree(d, ignore_errors=True)
    if not bad:
        print("no violation observed")
    return 1 if bad else 0


if __name__ == "__main__":
    rc = main()
    sys.stdout.flush()
    os._exit(rc)
