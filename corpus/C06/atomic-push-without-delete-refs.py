#!/usr/bin/env python
"""C06 finding 3: client side of an atomic push over pkt-line drops commands and still
sends the rest -> the push is applied partially although atomic=True was requested.

TraditionalGitClient.send_pack (dulwich/client.py): when the server does not advertise
`delete-refs`, every deletion is removed from the command list and recorded locally as
"ng <ref> remote does not support deleting refs" -- and the remaining commands are sent,
with the `atomic` capability.  The server honours atomicity for what it was given, so
the update is applied while the deletion of the same push failed.  C git's send-pack
aborts the whole push in this case (REF_STATUS_REJECT_NODELETE + atomic ->
atomic_push_failure, nothing is sent).

Server here: dulwich's own ReceivePackHandler with `delete-refs` removed from the
advertised capabilities (capability set {atomic, report-status, side-band} is in scope).
"""
import os, shutil, socket, sys, tempfile, threading

from dulwich.client import TraditionalGitClient
from dulwich.objects import Blob, Commit, Tree
from dulwich.protocol import Protocol, ReceivableProtocol
from dulwich.repo import Repo
from dulwich.server import DictBackend, ReceivePackHandler

os.makedirs((os.environ.get("CORPUS_TMP") or "/tmp"), exist_ok=True)
Z = b"0" * 40


def mkcommit(msg, parents=()):
    b = Blob.from_string(msg)
    t = Tree(); t.add(b"f", 0o100644, b.id)
    c = Commit(); c.tree = t.id; c.parents = list(parents)
    c.author = c.committer = b"a <a@b>"; c.author_time = c.commit_time = 0
    c.author_timezone = c.commit_timezone = 0; c.message = msg
    return [b, t, c]


class NoDeleteRefsHandler(ReceivePackHandler):
    def capabilities(self):
        return [c for c in super().capabilities() if c != b"delete-refs"]


class PairClient(TraditionalGitClient):
    """Talks pkt-line over a socketpair to a receive-pack handler in a thread."""

    def __init__(self, repo):
        super().__init__()
        self.repo = repo

    def _connect(self, cmd, path, protocol_version=None):
        cs, ss = socket.socketpair()
        wf = ss.makefile("wb", buffering=0)

        def serve():
            try:
                proto = ReceivableProtocol(ss.recv, wf.write)
                NoDeleteRefsHandler(DictBackend({b"/": self.repo}), [b"/"], proto).handle()
            finally:
                wf.close(); ss.close()

        self.thread = threading.Thread(target=serve)
        self.thread.start()
        crf, cwf = cs.makefile("rb"), cs.makefile("wb", buffering=0)

        def close():
            crf.close(); cwf.close(); cs.close()

        return Protocol(crf.read, cwf.write, close), lambda: True, None


def main():
    d = tempfile.mkdtemp(dir=(os.environ.get("CORPUS_TMP") or "/tmp"))
    try:
        A = mkcommit(b"A"); B = mkcommit(b"B", [A[2].id])
        a, b = A[2].id, B[2].id
        src = Repo.init_bare(os.path.join(d, "src.git"), mkdir=True)
        for o in A + B:
            src.object_store.add_object(o)
        srv = Repo.init_bare(os.path.join(d, "srv.git"), mkdir=True)
        for o in A:
            srv.object_store.add_object(o)
        srv.refs[b"refs/heads/x"] = a
        srv.refs[b"refs/heads/y"] = a

        client = PairClient(srv)
        wanted = {b"refs/heads/x": Z, b"refs/heads/y": b}  # delete x, update y
        from dulwich.errors import GitProtocolError
        try:
            res = client.send_pack(b"/", lambda refs: dict(wanted),
                                   src.generate_pack_data, atomic=True)
            status = res.ref_status
        except GitProtocolError as e:       # refusing the whole push is what C git does
            status = "refused: %s" % e
        client.thread.join()
        after = srv.refs.as_dict()
        print("atomic push of: delete refs/heads/x, update refs/heads/y A->B")
        print("ref_status returned to the caller:", status)
        print("server refs afterwards: x=%s y=%s" % (
            "A (still there)" if after.get(b"refs/heads/x") == a else after.get(b"refs/heads/x"),
            "B (UPDATED)" if after.get(b"refs/heads/y") == b else "A (unchanged)"))
        x_applied = b"refs/heads/x" not in after
        y_applied = after.get(b"refs/heads/y") == b
        print("Required for atomic=True: both applied or none.")
        if x_applied != y_applied:
            print("VIOLATION: the atomic push was applied partially "
                  "(the client sent the update after rejecting the deletion itself).")
            return 1
        return 0
    finally:
        shutil.rmtree(d, ignore_errors=True)


if __name__ == "__main__":
    rc = main()
    sys.stdout.flush()
    os._exit(rc)
