#!/usr/bin/env python
"""C06 finding 5: in-process push (LocalGitClient.send_pack) lets exceptions of a single
ref update escape after earlier refs were already written: atomic pushes are applied
partially, and no per-ref result is reported for the refs that did change.

The apply loop of LocalGitClient.send_pack calls target.refs.set_if_equals /
remove_if_equals unguarded and, for atomic=True, has no rollback.  Two ordinary reasons for
a ref update to fail with an exception instead of returning False:
  (a) a directory/file conflict: creating refs/heads/y/z while refs/heads/y exists
      (NotADirectoryError) -- receive-pack reports this as "ng ... failed to write";
  (b) a concurrent pusher holding the ref's lock file (dulwich.file.FileLocked).
The atomic pre-validation looks only at get_peeled() and catches neither.
"""
import os, shutil, sys, tempfile

from dulwich.client import LocalGitClient
from dulwich.file import GitFile
from dulwich.objects import Blob, Commit, Tree
from dulwich.repo import Repo

os.makedirs((os.environ.get("CORPUS_TMP") or "/tmp"), exist_ok=True)


def mkcommit(msg, parents=()):
    b = Blob.from_string(msg)
    t = Tree(); t.add(b"f", 0o100644, b.id)
    c = Commit(); c.tree = t.id; c.parents = list(parents)
    c.author = c.committer = b"a <a@b>"; c.author_time = c.commit_time = 0
    c.author_timezone = c.commit_timezone = 0; c.message = msg
    return [b, t, c]


A = mkcommit(b"A"); B = mkcommit(b"B", [A[2].id])
a, b = A[2].id, B[2].id


def setup(d, name):
    src = Repo.init_bare(os.path.join(d, name + "-src.git"), mkdir=True)
    for o in A + B:
        src.object_store.add_object(o)
    path = os.path.join(d, name + "-dst.git")
    dst = Repo.init_bare(path, mkdir=True)
    for o in A:
        dst.object_store.add_object(o)
    dst.refs[b"refs/heads/x"] = a
    dst.refs[b"refs/heads/y"] = a
    dst.close()
    return src, path


def run(d, name, new_refs, atomic, hold_lock_on=None):
    src, path = setup(d, name)
    lock = None
    if hold_lock_on:  # a concurrent pusher is inside set_if_equals() of that ref
        lock = GitFile(os.path.join(path, *hold_lock_on.decode().split("/")), "wb")
    try:
        res = LocalGitClient().send_pack(
            path, lambda refs: dict(new_refs), src.generate_pack_data, atomic=atomic)
        outcome = "ref_status=%r" % (res.ref_status,)
    except Exception as e:  # noqa: BLE001
        outcome = "raised %s" % type(e).__name__
    finally:
        if lock:
            lock.abort()
    after = Repo(path).refs.as_dict()
    applied = {r: after.get(r) == v for r, v in new_refs.items()}
    print("[%s] atomic=%s -> %s" % (name, atomic, outcome))
    print("    applied on target:", {k.decode(): v for k, v in applied.items()})
    return outcome, applied


def main():
    d = tempfile.mkdtemp(dir=(os.environ.get("CORPUS_TMP") or "/tmp"))
    bad = False
    try:
        # (a) directory/file conflict on the second ref
        _, ap = run(d, "df-atomic", {b"refs/heads/x": b, b"refs/heads/y/z": b}, True)
        if len(set(ap.values())) != 1:
            print("    VIOLATION: atomic push applied partially."); bad = True
        out, ap = run(d, "df-plain", {b"refs/heads/x": b, b"refs/heads/y/z": b}, False)
        if ap[b"refs/heads/x"] and out.startswith("raised"):
            print("    VIOLATION: x was changed but the push as a whole reported failure "
                  "(exception, no per-ref status)."); bad = True
        # (b) lock held by a concurrent pusher on the second ref
        _, ap = run(d, "lock-atomic", {b"refs/heads/x": b, b"refs/heads/y": b}, True,
                    hold_lock_on=b"refs/heads/y")
        if len(set(ap.values())) != 1:
            print("    VIOLATION: atomic push applied partially."); bad = True
        print("Required: the failing ref is reported as rejected in ref_status, refs that "
              "changed are reported as success; with atomic=True nothing changes.")
    finally:
        shutil.rmtree(d, ignore_errors=True)
    return 1 if bad else 0


if __name__ == "__main__":
    rc = main()
    sys.stdout.flush()
    os._exit(rc)
