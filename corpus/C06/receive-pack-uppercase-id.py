#!/usr/bin/env python
"""C06 finding 8 (lower confidence on scope): receive-pack accepts a new value spelled in
UPPERCASE hex, answers "ok", and stores the ref file verbatim.  The server's ref then names
an id that dulwich itself cannot load: repo[ref] / clone of the server raise
ChecksumMismatch, and the next push that names the real (lowercase) id as old value is
rejected.  One client command leaves the server ref unusable.

handle() validates ids with objects.valid_hexsha (binascii.unhexlify: case-insensitive);
check_update's `sha in object_store` succeeds through the pack index (hex -> binary), and
DiskRefsContainer.set_if_equals writes the bytes as given.  C git parses the id
(case-insensitively) and stores the canonical lowercase form.
"""
import io, os, shutil, subprocess, sys, tempfile
from io import BytesIO

from dulwich import porcelain
from dulwich.object_format import DEFAULT_OBJECT_FORMAT
from dulwich.objects import Blob, Commit, Tree
from dulwich.pack import write_pack_objects
from dulwich.protocol import Protocol, pkt_line
from dulwich.repo import Repo
from dulwich.server import DictBackend, ReceivePackHandler

os.makedirs((os.environ.get("CORPUS_TMP") or "/tmp"), exist_ok=True)
GIT_ENV = {"HOME": "/nonexistent", "GIT_CONFIG_NOSYSTEM": "1", "GIT_CONFIG_GLOBAL": "/dev/null",
           "PATH": os.environ.get("PATH", "/usr/bin:/bin")}


def mkcommit(msg, parents=()):
    b = Blob.from_string(msg)
    t = Tree(); t.add(b"f", 0o100644, b.id)
    c = Commit(); c.tree = t.id; c.parents = list(parents)
    c.author = c.committer = b"a <a@b>"; c.author_time = c.commit_time = 0
    c.author_timezone = c.commit_timezone = 0; c.message = msg
    return [b, t, c]


def packbytes(objs):
    f = BytesIO()
    write_pack_objects(f.write, [(o, None) for o in objs], DEFAULT_OBJECT_FORMAT)
    return f.getvalue()


def request(cmd, pack):
    o, n, r = cmd
    return pkt_line(o + b" " + n + b" " + r + b"\0report-status\n") + pkt_line(None) + pack


def receive_pack(repo, cmd, pack):
    inp = BytesIO(request(cmd, pack))
    out = BytesIO()
    ReceivePackHandler(DictBackend({b"/": repo}), [b"/"], Protocol(inp.read, out.write)).handle()
    out.seek(0)
    p = Protocol(out.read, None)
    list(p.read_pkt_seq())
    return [l.strip() for l in p.read_pkt_seq()]


def main():
    d = tempfile.mkdtemp(dir=(os.environ.get("CORPUS_TMP") or "/tmp"))
    try:
        A = mkcommit(b"A"); B = mkcommit(b"B", [A[2].id]); C = mkcommit(b"C", [B[2].id])
        a, b, c = A[2].id, B[2].id, C[2].id
        paths = {}
        for who in ("dulwich", "git"):
            paths[who] = os.path.join(d, who + ".git")
            r = Repo.init_bare(paths[who], mkdir=True)
            for o in A:
                r.object_store.add_object(o)
            r.refs[b"refs/heads/x"] = a
            r.close()
        cmd = (a, b.upper(), b"refs/heads/x")
        # oracle
        out = subprocess.run(["git", "receive-pack", paths["git"]], input=request(cmd, packbytes(B)),
                             env=GIT_ENV, capture_output=True).stdout
        print("C git:   report", out[out.index(b"unpack"):], "ref file:",
              open(os.path.join(paths["git"], "refs/heads/x"), "rb").read().strip())
        # dulwich
        srv = Repo(paths["dulwich"])
        status = receive_pack(srv, cmd, packbytes(B))
        stored = open(os.path.join(paths["dulwich"], "refs/heads/x"), "rb").read().strip()
        print("dulwich: report", status, "ref file:", stored)
        srv.close()
        srv = Repo(paths["dulwich"])
        problems = []
        try:
            srv[srv.refs[b"refs/heads/x"]]
        except Exception as e:  # noqa: BLE001
            problems.append("server cannot load the object its ref names: %s" % type(e).__name__)
        try:
            porcelain.clone(paths["dulwich"], os.path.join(d, "clone"), errstream=io.BytesIO())
        except Exception as e:  # noqa: BLE001
            problems.append("cloning the server fails: %s" % type(e).__name__)
        st2 = receive_pack(srv, (b, c, b"refs/heads/x"), packbytes(C))
        if b"ok refs/heads/x" not in st2:
            problems.append("follow-up push B->C naming the real id of B is rejected: %r" % st2)
        for p in problems:
            print("   ", p)
        print("Required: after 'ok' the ref holds the requested object id in a form the server "
              "can resolve (or the command is rejected and the ref left untouched).")
        if b"ok refs/heads/x" in status and problems:
            print("VIOLATION: push reported ok; the server ref no longer names a loadable object.")
            return 1
        return 0
    finally:
        shutil.rmtree(d, ignore_errors=True)


if __name__ == "__main__":
    rc = main()
    sys.stdout.flush()
    os._exit(rc)
