#!/usr/bin/env python
"""C06 finding 4: in-process atomic push (LocalGitClient.send_pack(atomic=True)) is applied
partially when a second pusher moves one of the refs while the first push is under way.

LocalGitClient.send_pack reads the target's refs (old values), lets the caller build the
pack (generate_pack_data -- arbitrarily long), and only then "validates" the atomic push:
    current = target.refs.get_peeled(refname)
    if current is not None and current != old_sha1: -> reject
DiskRefsContainer.get_peeled returns None for every loose ref ("no cached peeled value"),
so for loose refs nothing is validated at all.  The apply loop that follows does a real
compare-and-swap per ref but has no rollback: x is set, y fails its CAS, x stays set.

Interleaving (deterministic): pusher 2 runs while pusher 1 is inside generate_pack_data,
i.e. strictly between pusher 1 reading the old values and validating them.
"""
import os, shutil, sys, tempfile

from dulwich.client import LocalGitClient
from dulwich.objects import Blob, Commit, Tree
from dulwich.repo import Repo

os.makedirs((os.environ.get("CORPUS_TMP") or "/tmp"), exist_ok=True)


def mkcommit(msg, parents=()):
    b = Blob.from_string(msg)
    t = Tree(); t.add(b"f", 0o100644, b.id)
    c = Commit(); c.tree = t.id; c.parents = list(parents)
    c.author = c.committer = b"a <a@b>"; c.author_time = c.commit_time = 0
    c.author_timezone = c.commit_timezone = 0; c.message = msg
    return [b, t, c]


def main():
    d = tempfile.mkdtemp(dir=(os.environ.get("CORPUS_TMP") or "/tmp"))
    try:
        A = mkcommit(b"A"); B = mkcommit(b"B", [A[2].id]); C = mkcommit(b"C", [A[2].id])
        a, b, c = A[2].id, B[2].id, C[2].id
        name = {a: "A", b: "B", c: "C"}
        src = Repo.init_bare(os.path.join(d, "src.git"), mkdir=True)
        for o in A + B + C:
            src.object_store.add_object(o)
        dst_path = os.path.join(d, "dst.git")
        dst = Repo.init_bare(dst_path, mkdir=True)
        for o in A:
            dst.object_store.add_object(o)
        dst.refs[b"refs/heads/x"] = a
        dst.refs[b"refs/heads/y"] = a
        dst.close()

        def pusher2():
            r = LocalGitClient().send_pack(
                dst_path, lambda refs: {b"refs/heads/y": c}, src.generate_pack_data)
            print("pusher 2 (y: A->C) ref_status:", r.ref_status)

        def generate_pack_data(have, want, **kw):
            pusher2()  # the racing pusher gets in while pusher 1 builds its pack
            return src.generate_pack_data(have, want, **kw)

        res = LocalGitClient().send_pack(
            dst_path,
            lambda refs: {b"refs/heads/x": b, b"refs/heads/y": b},
            generate_pack_data,
            atomic=True,
        )
        print("pusher 1 (atomic; x: A->B, y: A->B) ref_status:", res.ref_status)
        after = Repo(dst_path).refs.as_dict()
        x, y = after[b"refs/heads/x"], after[b"refs/heads/y"]
        print("target afterwards: x=%s y=%s" % (name[x], name[y]))
        print("Required: y differs from the old value pusher 1 named, so its atomic push must "
              "change nothing (x stays A) and report every ref as rejected.")
        bad = False
        if x == b and y != b:
            print("VIOLATION: atomic push applied x but not y.")
            bad = True
        if x == b and res.ref_status.get(b"refs/heads/x") is not None:
            print("(x is additionally reported as failed although it was changed)")
        if x == b and res.ref_status.get(b"refs/heads/x") is None and y != b:
            print("(x reported as success, y as failure: not all-or-nothing)")
        return 1 if bad else 0
    finally:
        shutil.rmtree(d, ignore_errors=True)


if __name__ == "__main__":
    rc = main()
    sys.stdout.flush()
    os._exit(rc)
