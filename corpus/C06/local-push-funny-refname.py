"""C06: LocalGitClient.send_pack through refs/heads//x (tolerated by RefsContainer with a warning) replaces the packed ref refs/heads/x without comparing its old value."""
import sys
import tempfile, shutil, os
from dulwich.repo import Repo
from dulwich.client import LocalGitClient
from dulwich.objects import Blob, Tree, Commit
d = tempfile.mkdtemp(dir=os.environ.get('CORPUS_TMP') or None)
try:
    src = Repo.init_bare(os.path.join(d, "src"), mkdir=True); dst = Repo.init_bare(os.path.join(d, "dst"), mkdir=True)
    def mk(msg):
        b = Blob.from_string(msg); t = Tree(); t.add(b"f", 0o100644, b.id)
        c = Commit(); c.tree = t.id; c.author = c.committer = b"a <a@b>"; c.author_time = c.commit_time = 0; c.author_timezone = c.commit_timezone = 0; c.message = msg
        return [b, t, c]
    A = mk(b"A"); B = mk(b"B")
    for o in A + B: src.object_store.add_object(o)
    for o in A: dst.object_store.add_object(o)
    dst.refs[b"refs/heads/x"] = A[2].id; dst.refs.pack_refs(all=True)
    import warnings; warnings.simplefilter("ignore")
    res = LocalGitClient().send_pack(dst.path, lambda refs: {b"refs/heads//x": B[2].id}, src.generate_pack_data)
    print(res.ref_status, dst.refs.as_dict())
    if dst.refs[b"refs/heads/x"] != A[2].id or not res.ref_status.get(b"refs/heads//x"):
        print("VIOLATION: the push through the alias changed refs/heads/x (old value never compared) or was reported successful")
        rc = 1
    else:
        rc = 0
finally:
    shutil.rmtree(d, ignore_errors=True)
sys.exit(rc)
