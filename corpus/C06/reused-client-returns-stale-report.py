#!/usr/bin/env python
"""C06 finding 6: a client object keeps the ReportStatusParser of an earlier
push.  TraditionalGitClient.send_pack only replaces self._report_status_parser
when report-status is negotiated; if the next push with the same client goes to
a server without report-status, _handle_receive_pack_tail still finds the old
parser and returns ITS statuses as the result of the new push.

Here push 1 (stock server) is rejected for refs/heads/topic/sub (file/directory
conflict with refs/heads/topic).  Push 2 goes to a repository without that
conflict, served without report-status and side-band: the server creates
refs/heads/topic/sub = B, but the client reports the ref as failed with the
error text of push 1.  Without report-status the only honest answer is
ref_status=None (unknown).
"""
import os
import shutil
import sys
import tempfile
import threading
import warnings

warnings.simplefilter("ignore")

from dulwich.client import TCPGitClient
from dulwich.objects import Blob, Commit, Tree
from dulwich.repo import Repo
from dulwich.server import DictBackend, ReceivePackHandler, TCPGitServer, UploadPackHandler


class NoReportStatus(ReceivePackHandler):
    def capabilities(self):
        return [c for c in super().capabilities()
                if c not in (b"report-status", b"side-band-64k")]


def mkcommit(store, msg, parents=()):
    b = Blob.from_string(msg)
    t = Tree()
    t.add(b"f", 0o100644, b.id)
    c = Commit()
    c.tree = t.id
    c.parents = list(parents)
    c.author = c.committer = b"a <a@b>"
    c.author_time = c.commit_time = 0
    c.author_timezone = c.commit_timezone = 0
    c.message = msg
    for o in (b, t, c):
        store.add_object(o)
    return c


def main():
    import time
    os.makedirs((os.environ.get("CORPUS_TMP") or "/tmp"), exist_ok=True)
    base = tempfile.mkdtemp(dir=(os.environ.get("CORPUS_TMP") or "/tmp"), prefix="f6-")
    bad = False
    servers = []
    try:
        cli = Repo.init_bare(os.path.join(base, "cli"), mkdir=True)
        a = mkcommit(cli.object_store, b"A")
        b = mkcommit(cli.object_store, b"B", [a.id])
        srv1 = Repo.init_bare(os.path.join(base, "srv1"), mkdir=True)
        srv2 = Repo.init_bare(os.path.join(base, "srv2"), mkdir=True)
        for srv in (srv1, srv2):
            mkcommit(srv.object_store, b"A")
        srv1.refs[b"refs/heads/topic"] = a.id      # blocks refs/heads/topic/sub
        srv2.refs[b"refs/heads/master"] = a.id
        up = {b"git-upload-pack": UploadPackHandler}
        s1 = TCPGitServer(DictBackend({b"/": srv1}), "127.0.0.1", 0)
        s2 = TCPGitServer(DictBackend({b"/": srv2}), "127.0.0.1", 0,
                          handlers={b"git-receive-pack": NoReportStatus, **up})
        for s in (s1, s2):
            servers.append(s)
            threading.Thread(target=s.serve_forever, daemon=True).start()
        client = TCPGitClient("127.0.0.1", port=s1.server_address[1])
        gen = lambda have, want, **kw: cli.generate_pack_data(set(have), set(want), **kw)
        want = {b"refs/heads/topic/sub": b.id}

        r1 = client.send_pack(b"/", lambda refs: dict(want), gen)
        print("push 1 (report-status server) ref_status:", r1.ref_status)
        print("  server 1:", Repo(srv1.path).refs.as_dict())

        client._port = s2.server_address[1]      # same client object, other server
        r2 = client.send_pack(b"/", lambda refs: dict(want), gen)
        for _ in range(50):                      # server finishes asynchronously
            now = Repo(srv2.path).refs.as_dict()
            if b"refs/heads/topic/sub" in now:
                break
            time.sleep(0.1)
        print("push 2 (no report-status) ref_status   :", r2.ref_status)
        print("  server 2:", now)
        err = (r2.ref_status or {}).get(b"refs/heads/topic/sub")
        if err and now.get(b"refs/heads/topic/sub") == b.id:
            bad = True
            print("VIOLATION: push 2 reports refs/heads/topic/sub as failed "
                  f"({err!r}, left over from push 1) although server 2 now holds the "
                  "requested value.")
    finally:
        for s in servers:
            s.shutdown()
            s.server_close()
        shutil.rmtree(base, ignore_errors=True)
    if not bad:
        print("no violation observed")
    return 1 if bad else 0


if __name__ == "__main__":
    rc = main()
    sys.stdout.flush()
    os._exit(rc)
