#!/usr/bin/env python
"""C06 finding 5: capability set {side-band-64k, no report-status}.

When the client does not get/request report-status but does negotiate
side-band-64k, ReceivePackHandler.handle() applies the ref updates and then
writes nothing at all (the closing flush-pkt is only produced inside
_report_status).  dulwich's own client (_handle_receive_pack_tail) waits for
that flush on the side-band, so send_pack() raises HangupException - the push
is reported as FAILED - while the server has in fact moved the ref to the
requested value.  C git's receive-pack sends the flush-pkt whenever side-band
is in use, with or without report-status.

The server below is the stock handler with report-status removed from the
advertised capabilities (capabilities() is the documented override point);
everything else is unmodified, talking over a real TCP socket.
"""
import os
import shutil
import sys
import tempfile
import threading
import warnings

warnings.simplefilter("ignore")

from dulwich.client import TCPGitClient
from dulwich.objects import Blob, Commit, Tree
from dulwich.repo import Repo
from dulwich.server import DictBackend, ReceivePackHandler, TCPGitServer, UploadPackHandler


class NoReportStatus(ReceivePackHandler):
    def capabilities(self):
        return [c for c in super().capabilities() if c != b"report-status"]


def mkcommit(store, msg, parents=()):
    b = Blob.from_string(msg)
    t = Tree()
    t.add(b"f", 0o100644, b.id)
    c = Commit()
    c.tree = t.id
    c.parents = list(parents)
    c.author = c.committer = b"a <a@b>"
    c.author_time = c.commit_time = 0
    c.author_timezone = c.commit_timezone = 0
    c.message = msg
    for o in (b, t, c):
        store.add_object(o)
    return c


def main():
    os.makedirs((os.environ.get("CORPUS_TMP") or "/tmp"), exist_ok=True)
    base = tempfile.mkdtemp(dir=(os.environ.get("CORPUS_TMP") or "/tmp"), prefix="f5-")
    bad = False
    server = None
    try:
        srv = Repo.init_bare(os.path.join(base, "srv"), mkdir=True)
        cli = Repo.init_bare(os.path.join(base, "cli"), mkdir=True)
        a = mkcommit(cli.object_store, b"A")
        b = mkcommit(cli.object_store, b"B", [a.id])
        mkcommit(srv.object_store, b"A")
        srv.refs[b"refs/heads/master"] = a.id

        server = TCPGitServer(
            DictBackend({b"/": srv}), "127.0.0.1", 0,
            handlers={b"git-receive-pack": NoReportStatus,
                      b"git-upload-pack": UploadPackHandler})
        threading.Thread(target=server.serve_forever, daemon=True).start()
        client = TCPGitClient("127.0.0.1", port=server.server_address[1])

        outcome = None
        try:
            res = client.send_pack(
                b"/", lambda refs: {b"refs/heads/master": b.id},
                lambda have, want, **kw: cli.generate_pack_data(set(have), set(want), **kw))
            outcome = f"returned, ref_status={res.ref_status}"
            failed = False
        except Exception as e:  # noqa: BLE001
            outcome = f"raised {type(e).__name__}: {e}"
            failed = True
        now = Repo(srv.path).refs.as_dict()
        print("client outcome:", outcome)
        print("requested      : refs/heads/master ->", b.id)
        print("server now     :", now)
        if failed and now.get(b"refs/heads/master") == b.id:
            bad = True
            print("VIOLATION: the push is reported as failed (exception) although the "
                  "server ref now holds the requested value; the server never sent the "
                  "side-band flush-pkt that ends the response.")
    finally:
        if server is not None:
            server.shutdown()
            server.server_close()
        shutil.rmtree(base, ignore_errors=True)
    if not bad:
        print("no violation observed")
    return 1 if bad else 0


if __name__ == "__main__":
    rc = main()
    sys.stdout.flush()
    os._exit(rc)
