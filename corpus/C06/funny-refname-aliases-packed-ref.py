#!/usr/bin/env python
"""C06 finding 1: a ref name with an empty path component ("refs/heads//x") is an
alias of refs/heads/x on disk but not in packed-refs, so receive-pack's
compare-and-swap is bypassed when the real ref is packed.

  * a "create" command (old = zero id) overwrites the existing ref refs/heads/x
    although its current value differs from the old value the client named;
  * a "delete" command for the alias is reported "ok" but refs/heads/x is still
    there afterwards (the packed value becomes visible again).

C git refuses the name ("funny refname").
"""
import os
import shutil
import sys
import tempfile
import warnings
from io import BytesIO

warnings.simplefilter("ignore")

from dulwich.object_format import DEFAULT_OBJECT_FORMAT
from dulwich.objects import Blob, Commit, Tree
from dulwich.pack import write_pack_objects
from dulwich.protocol import Protocol, pkt_line
from dulwich.repo import Repo
from dulwich.server import DictBackend, ReceivePackHandler

Z = b"0" * 40


def mkcommit(store, msg, parents=()):
    b = Blob.from_string(msg)
    t = Tree()
    t.add(b"f", 0o100644, b.id)
    c = Commit()
    c.tree = t.id
    c.parents = list(parents)
    c.author = c.committer = b"a <a@b>"
    c.author_time = c.commit_time = 0
    c.author_timezone = c.commit_timezone = 0
    c.message = msg
    for o in (b, t, c):
        store.add_object(o)
    return c


def empty_pack():
    f = BytesIO()
    write_pack_objects(f.write, [], DEFAULT_OBJECT_FORMAT)
    return f.getvalue()


def push(repo, cmds, caps, pack=b""):
    """Speak receive-pack over pkt-line to the stock handler; return report lines."""
    inp = BytesIO()
    for i, (old, new, ref) in enumerate(cmds):
        line = old + b" " + new + b" " + ref
        if i == 0:
            line += b"\0" + caps
        inp.write(pkt_line(line + b"\n"))
    inp.write(pkt_line(None))
    inp.write(pack)
    inp.seek(0)
    out = BytesIO()
    handler = ReceivePackHandler(
        DictBackend({b"/": repo}), [b"/"], Protocol(inp.read, out.write),
        stateless_rpc=True,
    )
    handler.handle()
    out.seek(0)
    p = Protocol(out.read, None)
    lines = []
    while True:
        pkt = p.read_pkt_line()
        if pkt is None:
            break
        lines.append(pkt.rstrip(b"\n"))
    return lines


def main():
    os.makedirs((os.environ.get("CORPUS_TMP") or "/tmp"), exist_ok=True)
    d = tempfile.mkdtemp(dir=(os.environ.get("CORPUS_TMP") or "/tmp"), prefix="f1-")
    bad = False
    try:
        repo = Repo.init_bare(d)
        a = mkcommit(repo.object_store, b"A")
        b = mkcommit(repo.object_store, b"B", [a.id])
        repo.refs[b"refs/heads/x"] = a.id
        repo.refs.pack_refs(all=True)  # refs/heads/x now lives in packed-refs only
        assert not os.path.exists(os.path.join(d, "refs", "heads", "x"))
        print("server before:", repo.refs.as_dict())

        # 1. "create" through the alias: old value named by the client is zero,
        #    the ref really holds A
        rep = push(repo, [(Z, b.id, b"refs/heads//x")], b"report-status", empty_pack())
        now = Repo(d).refs.as_dict()
        print("create via alias, report:", rep)
        print("server after           :", now)
        if now.get(b"refs/heads/x") != a.id:
            bad = True
            print("VIOLATION: refs/heads/x held A, the command named old=0, yet the "
                  "ref was overwritten (and 'ok' reported). Required: left untouched, "
                  "reported rejected.")

        # 2. delete through the alias: reported ok, but the ref survives
        cur = now.get(b"refs/heads/x")
        rep = push(repo, [(cur, Z, b"refs/heads//x")], b"report-status delete-refs")
        now = Repo(d).refs.as_dict()
        print("delete via alias, report:", rep)
        print("server after           :", now)
        if any(l.startswith(b"ok ") for l in rep) and b"refs/heads/x" in now:
            bad = True
            print("VIOLATION: deletion reported 'ok' but refs/heads/x still exists "
                  "(the packed value reappeared). Required: success only if the ref "
                  "is gone.")
    finally:
        shutil.rmtree(d, ignore_errors=True)
    if not bad:
        print("no violation observed")
    return 1 if bad else 0


if __name__ == "__main__":
    rc = main()
    sys.stdout.flush()
    os._exit(rc)
