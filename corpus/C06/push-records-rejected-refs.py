#!/usr/bin/env python
"""C06 finding 7: porcelain.push records a rejected ref as pushed: the remote-tracking ref
refs/remotes/<remote>/<branch> is set to the requested value although the server answered
"ng" and left (or never created) the ref (cli.cmd_push ignores ref_status as well).

porcelain.push collects every requested change in `remote_changed_refs` inside
update_refs() -- before anything is sent -- and after send_pack() calls
    _import_remote_refs(r.refs, remote_name, remote_changed_refs)
without consulting result.ref_status.  C git updates tracking refs only for refs the
server reported "ok".  The client's durable record of "the server holds this value" is
therefore wrong exactly for the refs whose push failed.

Server: dulwich TCPGitServer (git:// over loopback).  The rejection is an ordinary one:
refs/heads/x/y cannot be created because refs/heads/x exists ("failed to write").
"""
import io, os, shutil, sys, tempfile, threading

from dulwich import porcelain
from dulwich.objects import Blob, Commit, Tree
from dulwich.repo import Repo
from dulwich.server import DictBackend, TCPGitServer

os.makedirs((os.environ.get("CORPUS_TMP") or "/tmp"), exist_ok=True)


def mkcommit(msg, parents=()):
    b = Blob.from_string(msg)
    t = Tree(); t.add(b"f", 0o100644, b.id)
    c = Commit(); c.tree = t.id; c.parents = list(parents)
    c.author = c.committer = b"a <a@b>"; c.author_time = c.commit_time = 0
    c.author_timezone = c.commit_timezone = 0; c.message = msg
    return [b, t, c]


def main():
    d = tempfile.mkdtemp(dir=(os.environ.get("CORPUS_TMP") or "/tmp"))
    server = None
    try:
        A = mkcommit(b"A"); B = mkcommit(b"B", [A[2].id])
        a, b = A[2].id, B[2].id
        srv = Repo.init_bare(os.path.join(d, "srv.git"), mkdir=True)
        for o in A:
            srv.object_store.add_object(o)
        srv.refs[b"refs/heads/x"] = a
        server = TCPGitServer(DictBackend({b"/srv.git": srv}), b"127.0.0.1", 0)
        port = server.server_address[1]
        threading.Thread(target=server.serve_forever, daemon=True).start()

        cl = Repo.init(os.path.join(d, "client"), mkdir=True)
        for o in A + B:
            cl.object_store.add_object(o)
        cl.refs[b"refs/heads/x/y"] = b
        cl.refs[b"refs/heads/z"] = b
        cfg = cl.get_config()
        cfg.set((b"remote", b"origin"), b"url", ("git://127.0.0.1:%d/srv.git" % port).encode())
        cfg.set((b"remote", b"origin"), b"fetch", b"+refs/heads/*:refs/remotes/origin/*")
        cfg.write_to_path()

        err = io.BytesIO()
        res = porcelain.push(cl.path, "origin",
                             [b"refs/heads/x/y:refs/heads/x/y", b"refs/heads/z:refs/heads/z"],
                             outstream=io.BytesIO(), errstream=err)
        print("messages:\n   " + err.getvalue().decode().strip().replace("\n", "\n   "))
        print("ref_status:", res.ref_status)
        server_refs = Repo(srv.path).refs.as_dict()
        print("server has refs/heads/x/y:", b"refs/heads/x/y" in server_refs,
              "  refs/heads/z == B:", server_refs.get(b"refs/heads/z") == b)
        tracking = cl.refs.as_dict(b"refs/remotes/origin")
        print("client tracking refs:", {k.decode(): ("B" if v == b else v) for k, v in tracking.items()})
        print("Required: only refs/remotes/origin/z may be recorded; the rejected x/y must not "
              "be recorded as holding B on the server.")
        rejected = res.ref_status.get(b"refs/heads/x/y") is not None
        if rejected and b"refs/heads/x/y" not in server_refs and tracking.get(b"x/y") == b:
            print("VIOLATION: refs/remotes/origin/x/y = B although the server rejected the "
                  "update and has no such ref.")
            return 1
        return 0
    finally:
        if server is not None:
            server.shutdown(); server.server_close()
        shutil.rmtree(d, ignore_errors=True)


if __name__ == "__main__":
    rc = main()
    sys.stdout.flush()
    os._exit(rc)
