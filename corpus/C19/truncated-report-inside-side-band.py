import os
"""C19 finding 3: a truncated pkt-line inside the side-band data channel is
neither delivered as a frame nor reported as a protocol error.

With side-band-64k the status report of a push is itself a pkt-line stream,
carried in channel 1.  GitClient._handle_receive_pack_tail feeds the channel-1
bytes to PktLineParser.parse() and, when the outer stream ends, never looks at
PktLineParser.get_tail().  Bytes of an incomplete inner frame (a length prefix
promising more than arrived, or fewer than four prefix bytes) just vanish.
Here the lost frame is the "ng" line of a rejected ref, so the push is
reported as fully successful.  Without the side band the very same truncated
report raises GitProtocolError, and C git dies with "the remote end hung up
unexpectedly".
"""
import sys
from io import BytesIO

from dulwich.client import ReportStatusParser, TCPGitClient
from dulwich.errors import GitProtocolError
from dulwich.protocol import Protocol, pkt_line

report = (
    pkt_line(b"unpack ok\n")
    + pkt_line(b"ok refs/heads/a\n")
    + pkt_line(b"ng refs/heads/b non-fast-forward\n")
    + pkt_line(None)
)
cut = report.index(b"ng refs") + 10  # inside the third inner frame
truncated = report[:cut]
print("inner stream (truncated):", truncated)


def run(caps, wire):
    client = TCPGitClient("localhost")
    client._report_status_parser = ReportStatusParser()
    proto = Protocol(BytesIO(wire).read, lambda d: None)
    try:
        return ("result", client._handle_receive_pack_tail(proto, caps))
    except GitProtocolError as e:
        return ("GitProtocolError", str(e))


bad = 0
# every way of cutting the truncated inner stream into two side-band frames
outcomes = set()
for split in range(1, len(truncated)):
    wire = (
        pkt_line(b"\x01" + truncated[:split])
        + pkt_line(b"\x01" + truncated[split:])
        + pkt_line(None)
    )
    outcomes.add(repr(run({b"side-band-64k", b"report-status"}, wire)))
print("with side-band-64k   :", sorted(outcomes))

plain = run({b"report-status"}, truncated)
print("without side band    :", plain)

print()
print("required: every byte string fed to the decoder yields frames or a protocol")
print("  error; the dangling bytes b'%s' are an incomplete frame and" % truncated[truncated.index(b"0025"):].decode())
print("  must raise, as they do without the side band.")
ok_only = repr(("result", {b"refs/heads/a": None}))
if outcomes == {ok_only}:
    print("VIOLATION: the incomplete inner frame was dropped silently; the push is")
    print("  reported as {refs/heads/a: ok} and the rejection of refs/heads/b is lost.")
    sys.exit(1)
print("no violation")
sys.exit(0)
