import os
#!/usr/bin/env python
"""C19 finding 2: delimiter packets (0001) do not survive decoding.

Protocol.read_pkt_line() maps both flush-pkt 0000 and delim-pkt 0001 to None,
so the streams  a DELIM b FLUSH  and  a FLUSH b FLUSH  decode to the same
sequence and read_pkt_seq() stops at a delimiter as if it were a flush.
Protocol.eof() additionally rewrites a pending 0001 into 0000 in the readahead.
The second decoder, PktLineParser, rejects the very same stream with
"Invalid pkt-line length: 0001" -- the two decoders disagree on legal input.
"""
import sys
from io import BytesIO

from dulwich.errors import GitProtocolError
from dulwich.protocol import PktLineParser, Protocol, pkt_line

DELIM, FLUSH = b"0001", b"0000"
with_delim = pkt_line(b"a") + DELIM + pkt_line(b"b") + FLUSH
with_flush = pkt_line(b"a") + FLUSH + pkt_line(b"b") + FLUSH


def decode(stream):
    p = Protocol(BytesIO(stream).read, None)
    return [p.read_pkt_line() for _ in range(4)]


violations = 0
d1, d2 = decode(with_delim), decode(with_flush)
print("Protocol  a DELIM b FLUSH ->", d1)
print("Protocol  a FLUSH b FLUSH ->", d2)
if d1 == d2:
    print("  -> delimiter and flush are indistinguishable after decoding")
    violations += 1

p = Protocol(BytesIO(with_delim).read, None)
seq = list(p.read_pkt_seq())
print("read_pkt_seq() over a DELIM b FLUSH ->", seq, "(stops at the delimiter)")

got = []
try:
    PktLineParser(got.append).parse(with_delim)
    print("PktLineParser ->", got)
except GitProtocolError as e:
    print("PktLineParser -> frames", got, "then GitProtocolError:", e)
    print("  -> a legal delim-pkt is refused by one decoder, accepted by the other")
    violations += 1

print()
print("required: flush and delimiter packets round-trip as distinct items on")
print("          every decoder.")
sys.exit(1 if violations else 0)
