"""C19 finding 2: an empty pkt-line ("0004") is decoded as a flush-pkt by the
upload-pack request reader (dulwich.server._split_proto_line, `if not line:`).

The want list of a fetch request is terminated by a flush-pkt.  The server
reads every request line through _ProtocolGraphWalker.read_proto_line ->
_split_proto_line, which maps both None (flush) and b"" (the empty payload of
the frame "0004") to the command None.  A request whose want list is
[want, b"", done] - no flush at all - is therefore served a pack, while C git
refuses the same bytes with a protocol error.
"""
import os, shutil, subprocess, sys, tempfile
from io import BytesIO

from dulwich.objects import Blob, Commit, Tree
from dulwich.protocol import Protocol, pkt_line
from dulwich.repo import Repo
from dulwich.server import DictBackend, UploadPackHandler, _split_proto_line

tmp = tempfile.mkdtemp(prefix="c19f2-", dir=os.environ.get("TMPDIR"))
try:
    path = os.path.join(tmp, "r.git")
    r = Repo.init_bare(path, mkdir=True)
    b = Blob.from_string(b"x"); t = Tree(); t.add(b"f", 0o100644, b.id)
    c = Commit(); c.tree = t.id; c.author = c.committer = b"a <a@b>"
    c.author_time = c.commit_time = 0; c.author_timezone = c.commit_timezone = 0
    c.message = b"m"
    for o in (b, t, c):
        r.object_store.add_object(o)
    r.refs[b"refs/heads/master"] = c.id

    print("_split_proto_line(None) =", _split_proto_line(None, None))
    try:
        print("_split_proto_line(b'')  =", _split_proto_line(b"", None))
    except Exception as e:  # noqa: BLE001  (refusing the empty line is what is wanted)
        print("_split_proto_line(b'') raises", type(e).__name__)

    # payload sequence [want, b"", done]; there is no flush-pkt in it
    stream = (
        pkt_line(b"want " + c.id + b" side-band-64k thin-pack ofs-delta\n")
        + pkt_line(b"")
        + pkt_line(b"done\n")
    )
    p = Protocol(BytesIO(stream).read, lambda d: None)
    print("frames decoded:", [p.read_pkt_line() for _ in range(3)])

    out = BytesIO()
    proto = Protocol(BytesIO(stream).read, out.write)
    h = UploadPackHandler(DictBackend({b"/": r}), [b"/"], proto, stateless_rpc=True)
    err = None
    try:
        h.handle()
    except Exception as e:
        err = e
    reply = out.getvalue()
    print("dulwich: error =", repr(err))
    print("dulwich: reply =", reply[:40], "... (%d bytes)" % len(reply))
    r.close()

    env = dict(os.environ, HOME="/nonexistent", GIT_CONFIG_NOSYSTEM="1", GIT_CONFIG_GLOBAL="/dev/null")
    g = subprocess.run(["git", "upload-pack", "--stateless-rpc", path], input=stream,
                       capture_output=True, env=env)
    print("C git: rc =", g.returncode, "stdout =", g.stdout[:60], "stderr =", g.stderr.strip()[:120])

    served = err is None and b"PACK" in reply
    print()
    print("required: the empty payload is a data frame, not the flush-pkt; a want list")
    print("  [want, b'', done] must be refused with a protocol error (as C git does),")
    print("  not read as [want, FLUSH, done].")
    if served:
        print("VIOLATION: the server took the empty pkt-line for the flush that ends the")
        print("  want list and sent a pack.")
        sys.exit(1)
    print("no violation")
    sys.exit(0)
finally:
    shutil.rmtree(tmp, ignore_errors=True)
