import os
#!/usr/bin/env python
"""C19 finding 4: a truncated pkt-line inside the side-band data channel is
silently dropped -- neither a frame nor a protocol error.

With side-band-64k + report-status the receive-pack status report is a
pkt-line stream carried on band 1; GitClient._handle_receive_pack_tail() feeds
band-1 bytes to PktLineParser.  When the outer stream ends (flush) while the
inner stream is in the middle of a frame, nobody looks at
PktLineParser.get_tail(): the partial frame vanishes and the inner flush-pkt is
not required either.  A cut-off "ng <ref> <reason>" line therefore turns a
rejected push into a reported success.  Reading the same inner bytes with
Protocol.read_pkt_line() gives GitProtocolError (length mismatch).
"""
import sys
from io import BytesIO

from dulwich import client
from dulwich.errors import GitProtocolError
from dulwich.protocol import Protocol, pkt_line

inner = (
    pkt_line(b"unpack ok\n")
    + pkt_line(b"ng refs/heads/m non-fast-forward\n")
    + b"0000"
)
CAPS = {b"side-band-64k", b"report-status"}


def run(inner_bytes):
    out = BytesIO()
    w = Protocol(None, out.write)
    w.write_sideband(1, inner_bytes)
    w.write_pkt_line(None)
    c = client.TraditionalGitClient.__new__(client.TraditionalGitClient)
    c.protocol_version = 0
    c._report_status_parser = client.ReportStatusParser()
    return c._handle_receive_pack_tail(Protocol(BytesIO(out.getvalue()).read, None), CAPS)


print("complete inner stream ->", run(inner))
violations = 0
for cut in (len(inner) - 10, 30, 20, 3):
    piece = inner[:cut]
    try:
        res = run(piece)
        outcome, ok = f"returned {res!r} (no error; partial frame discarded)", False
    except GitProtocolError as e:
        outcome, ok = f"GitProtocolError: {e}", True
    print(f"inner stream cut to {cut:2d} bytes {piece[-12:]!r:>20} -> {outcome}")
    violations += not ok

# reference: the plain decoder on the same truncated bytes
p = Protocol(BytesIO(inner[: len(inner) - 10]).read, None)
p.read_pkt_line()
try:
    p.read_pkt_line()
    print("Protocol.read_pkt_line on truncated inner stream: no error")
except GitProtocolError as e:
    print("Protocol.read_pkt_line on truncated inner stream: GitProtocolError:", e)

print()
print("required: a byte string that ends in the middle of a frame yields a")
print("          protocol error, not silence (here: the 'ng' verdict is lost).")
print(f"violations: {violations}")
sys.exit(1 if violations else 0)
