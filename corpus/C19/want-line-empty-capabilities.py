#!/usr/bin/env python
"""C19 finding 6: an empty capability list does not survive the want-line
round trip (dulwich client encoder -> dulwich server decoder).

client._handle_upload_pack_head() always appends " " + " ".join(caps) to the
first want, so an empty list is encoded as b"want <sha> \\n".
protocol.extract_want_line_capabilities() finds fewer than three fields and
returns the *unstripped* line; server._split_proto_line() then sees the object
id b"<sha> " and raises GitProtocolError("Invalid sha") (this is the exact
sequence ProtocolGraphWalker.determine_wants() runs).  C git's upload-pack
accepts exactly the same request.  (The stock UploadPackHandler additionally
insists on side-band-64k etc., so there the empty list is refused earlier for
another reason; handlers without required capabilities hit this one.)
"""
import os
import shutil
import subprocess
import sys
import tempfile
from io import BytesIO

from dulwich import client
from dulwich.errors import GitProtocolError
from dulwich.protocol import Protocol, extract_want_line_capabilities
from dulwich.repo import Repo
from dulwich.server import _split_proto_line

base = (os.environ.get("CORPUS_TMP") or "/tmp")
os.makedirs(base, exist_ok=True)
tmp = tempfile.mkdtemp(prefix="c19f6-", dir=base)
try:
    repo = Repo.init(os.path.join(tmp, "r"), mkdir=True)
    sha = repo.get_worktree().commit(
        message=b"x", committer=b"a <a@b>", author=b"a <a@b>",
        commit_timestamp=0, commit_timezone=0, author_timestamp=0, author_timezone=0,
    )

    class Walker:
        def __next__(self): return None
        def ack(self, s): pass
        def nak(self): pass

    def encode(caps):
        out = BytesIO()
        client._handle_upload_pack_head(
            Protocol(None, out.write), caps, Walker(), [sha], None, None, 0
        )
        return out.getvalue()

    violations = 0
    for caps in ([b"ofs-delta"], []):
        wire = encode(caps)
        first = Protocol(BytesIO(wire).read, None).read_pkt_line()
        line, got = extract_want_line_capabilities(first)
        print(f"caps={caps!r}: first pkt {first!r}")
        print(f"   extract_want_line_capabilities -> line={line!r} caps={got!r}")
        try:
            res, ok = f"{_split_proto_line(line, None)!r}", True
        except GitProtocolError as e:
            res, ok = f"GitProtocolError: {e}", False
        print(f"   server._split_proto_line(line) -> {res}")
        env = dict(os.environ, HOME="/nonexistent", GIT_CONFIG_NOSYSTEM="1",
                   GIT_CONFIG_GLOBAL="/dev/null")
        g = subprocess.run(["git", "upload-pack", "--stateless-rpc", repo.path],
                           input=wire, capture_output=True, env=env)
        print(f"   C git upload-pack          -> rc={g.returncode}, "
              f"{len(g.stdout)} bytes, starts {g.stdout[:12]!r}")
        violations += not ok
    repo.close()
finally:
    shutil.rmtree(tmp, ignore_errors=True)

print()
print("required: a capability list (including the empty one) written by the")
print("          encoder is read back as the same list, not a protocol error.")
sys.exit(1 if violations else 0)
