"""C19 finding 1: an empty pkt-line ("0004") is decoded as a flush-pkt by the
receive-pack command reader (ReceivePackHandler.handle, `while ref_line:`).

pkt_line(b"") == b"0004" is a legal frame carrying the empty payload; the
decoder (Protocol.read_pkt_line) correctly returns b"" for it and None for the
flush "0000".  ReceivePackHandler.handle() then loops `while ref_line:` so the
empty payload ends the command list exactly like a flush would.  The commands
that follow it are never read, the ones before it are applied and reported as
a success.  C git's receive-pack refuses the same byte stream
("protocol error: expected old/new/ref") and applies nothing.
"""
import os, shutil, subprocess, sys, tempfile
from io import BytesIO

from dulwich.protocol import Protocol, pkt_line
from dulwich.repo import Repo
from dulwich.server import DictBackend, ReceivePackHandler

ZERO = b"0" * 40
tmp = tempfile.mkdtemp(prefix="c19f1-", dir=os.environ.get("TMPDIR"))
try:
    path = os.path.join(tmp, "r.git")
    r = Repo.init_bare(path, mkdir=True)
    from dulwich.objects import Blob, Tree, Commit
    b = Blob.from_string(b"x"); t = Tree(); t.add(b"f", 0o100644, b.id)
    c = Commit(); c.tree = t.id; c.author = c.committer = b"a <a@b>"
    c.author_time = c.commit_time = 0; c.author_timezone = c.commit_timezone = 0
    c.message = b"m"
    for o in (b, t, c):
        r.object_store.add_object(o)
    r.refs[b"refs/heads/a"] = c.id
    r.refs[b"refs/heads/b"] = c.id
    r.refs[b"refs/heads/keep"] = c.id

    cmd_a = c.id + b" " + ZERO + b" refs/heads/a"
    cmd_b = c.id + b" " + ZERO + b" refs/heads/b"
    # payload sequence: [cmd_a + caps, b"", cmd_b, FLUSH]
    stream = (
        pkt_line(cmd_a + b"\0report-status delete-refs\n")
        + pkt_line(b"")
        + pkt_line(cmd_b + b"\n")
        + pkt_line(None)
    )
    assert pkt_line(b"") == b"0004"

    # the frame decoder itself is right: it tells the two apart
    p = Protocol(BytesIO(stream).read, lambda d: None)
    frames = [p.read_pkt_line() for _ in range(4)]
    print("frames decoded:", [f if f is None else f[:12] for f in frames])
    assert frames[1] == b"" and frames[3] is None

    out = BytesIO()
    inp = BytesIO(stream)
    proto = Protocol(inp.read, out.write)
    h = ReceivePackHandler(DictBackend({b"/": r}), [b"/"], proto, stateless_rpc=True)
    err = None
    try:
        h.handle()
    except Exception as e:  # a protocol error would be the acceptable outcome
        err = e
    left = inp.read()
    r2 = Repo(path)
    refs = sorted(k for k in r2.refs.keys() if k.startswith(b"refs/"))
    print("dulwich: error =", repr(err))
    print("dulwich: reply =", out.getvalue())
    print("dulwich: refs now =", refs)
    print("dulwich: bytes of the request never read =", left)
    r2.close(); r.close()

    # oracle: C git on an identical repository
    gpath = os.path.join(tmp, "g.git")
    shutil.copytree(path, gpath)
    subprocess.run(["git", "-C", gpath, "update-ref", "refs/heads/a", c.id.decode()], check=True)
    env = dict(os.environ, HOME="/nonexistent", GIT_CONFIG_NOSYSTEM="1", GIT_CONFIG_GLOBAL="/dev/null")
    g = subprocess.run(["git", "receive-pack", "--stateless-rpc", gpath], input=stream,
                       capture_output=True, env=env)
    grefs = subprocess.run(["git", "-C", gpath, "for-each-ref", "--format=%(refname)"],
                           capture_output=True, env=env).stdout.split()
    print("C git: rc =", g.returncode, "stderr =", g.stderr.strip()[:120])
    print("C git: refs now =", grefs)

    violated = err is None and b"refs/heads/a" not in refs and b"refs/heads/b" in refs
    print()
    print("required: the payload sequence [cmd, b'', cmd, FLUSH] is either decoded as")
    print("  that sequence (and the empty command refused with a protocol error) or")
    print("  refused; the empty payload must not be taken for the flush-pkt.")
    if violated:
        print("VIOLATION: the empty pkt-line ended the command list; refs/heads/a was")
        print("  deleted and reported ok, the command for refs/heads/b was left unread.")
        sys.exit(1)
    print("no violation")
    sys.exit(0)
finally:
    shutil.rmtree(tmp, ignore_errors=True)
