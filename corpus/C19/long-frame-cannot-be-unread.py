import os
#!/usr/bin/env python
"""C19 finding 1: a frame the decoder accepts crashes eof()/unread_pkt_line()
with ValueError instead of yielding the frame or a protocol error.

Protocol.read_pkt_line() accepts any length prefix up to ffff (payload up to
65531 bytes; C git itself accepts payloads up to 65519).  Protocol.eof() and
client.negotiate_protocol_version() read such a frame and push it back with
unread_pkt_line(), which re-encodes it with pkt_line(); pkt_line() refuses
payloads > 65516 with ValueError.  So the same byte string decodes fine through
read_pkt_line() but blows up with a non-protocol exception through eof().
"""
import sys
from io import BytesIO

from dulwich.client import negotiate_protocol_version
from dulwich.errors import GitProtocolError
from dulwich.protocol import Protocol

violations = 0
for n in (65516, 65517, 65519, 65520, 65531):
    stream = b"%04x" % (n + 4) + b"x" * n + b"0000"

    direct = Protocol(BytesIO(stream).read, None).read_pkt_line()
    assert direct == b"x" * n  # the plain decoder yields the frame

    for name, fn in (
        ("Protocol.eof()", lambda p: p.eof()),
        ("negotiate_protocol_version()", negotiate_protocol_version),
    ):
        p = Protocol(BytesIO(stream).read, None)
        try:
            fn(p)
            nxt = p.read_pkt_line()
            ok = nxt == b"x" * n
            outcome = "frame preserved" if ok else f"frame changed ({len(nxt)} bytes)"
        except GitProtocolError as e:
            ok, outcome = True, f"protocol error: {e}"
        except Exception as e:  # noqa: BLE001
            ok, outcome = False, f"{type(e).__name__}: {e}"
        print(f"payload {n:5d} bytes via {name:30s} -> {outcome}")
        if not ok:
            violations += 1

print()
print("required: every byte string yields frames or a GitProtocolError;")
print("          read_pkt_line() yields the frame, so eof() must too (or both")
print("          must reject it as a protocol error).")
print(f"violations: {violations}")
sys.exit(1 if violations else 0)
