import os
"""C19 finding 4 (lower confidence): well-framed but malformed advertisement /
command payloads leave the line decoders as ValueError / AssertionError, not as
a protocol error.

The frame decoder hands every payload on correctly; the next layer
(dulwich.client.read_pkt_refs_v1, dulwich.protocol.extract_capabilities,
dulwich.protocol.parse_cmd_pkt via Protocol.read_cmd) unpacks the payload with
tuple assignment or `assert` and lets the resulting ValueError /
AssertionError escape.  Callers that handle GitProtocolError (the library's
protocol error) do not see one.  The empty payload b"" (frame "0004"), which
the property names explicitly, is enough to trigger it.  C git answers the
same advertisement with "protocol error: unexpected ''".
"""
import sys
from io import BytesIO

from dulwich.client import read_pkt_refs_v1
from dulwich.errors import GitProtocolError, HangupException
from dulwich.protocol import Protocol, pkt_line

SHA = b"1" * 40
cases = {
    "advertisement: empty payload": (
        "refs", pkt_line(SHA + b" refs/heads/a\0side-band-64k\n") + pkt_line(b"") + pkt_line(None)),
    "advertisement: payload without separator": (
        "refs", pkt_line(SHA + b"\n") + pkt_line(None)),
    "git:// request: empty payload": ("cmd", pkt_line(b"")),
    "git:// request: no NUL terminator": ("cmd", pkt_line(b"git-upload-pack /x")),
}
bad = 0
for name, (kind, wire) in cases.items():
    proto = Protocol(BytesIO(wire).read, lambda d: None)
    try:
        if kind == "refs":
            res = read_pkt_refs_v1(proto.read_pkt_seq())
        else:
            res = proto.read_cmd()
        out = "accepted: %r" % (res,)
    except (GitProtocolError, HangupException) as e:
        out = "protocol error: %s" % e
    except Exception as e:
        out = "%s: %s" % (type(e).__name__, e)
        bad += 1
    print("%-42s %r\n    -> %s" % (name, wire[:50], out))

print()
print("required: every byte string fed to the decoder yields frames or a protocol")
print("  error (GitProtocolError); ValueError / AssertionError are neither.")
if bad:
    print("VIOLATION: %d of %d inputs escaped as a non-protocol exception" % (bad, len(cases)))
    sys.exit(1)
print("no violation")
sys.exit(0)
