import os
#!/usr/bin/env python
"""C19 finding 5: Protocol.send_cmd()/read_cmd() do not round-trip, and
read_cmd() answers malformed command packets with AssertionError.

format_cmd_pkt(cmd) with zero arguments produces b"cmd " and parse_cmd_pkt()
then trips `assert args[-1:] == b"\\x00"`.  The same assert is the only input
validation for bytes that arrive from the network in TCPGitRequestHandler
(proto.read_cmd()): any well-framed pkt-line that is not "cmd SP (arg NUL)+"
raises AssertionError -- and under `python -O` is silently mis-parsed
(b"foo" -> command b"fo").
"""
import sys
from io import BytesIO

from dulwich.errors import GitProtocolError
from dulwich.protocol import Protocol, pkt_line

violations = 0

# (a) encoder -> decoder round trip
for cmd, args in ((b"git-upload-pack", ()), (b"git-upload-pack", (b"/repo", b"host=h"))):
    out = BytesIO()
    Protocol(None, out.write).send_cmd(cmd, *args)
    wire = out.getvalue()
    try:
        got = Protocol(BytesIO(wire).read, None).read_cmd()
        ok = got == (cmd, list(args))
        outcome = f"{got!r}"
    except GitProtocolError as e:
        ok, outcome = False, f"GitProtocolError: {e}"
    except BaseException as e:  # noqa: BLE001
        ok, outcome = False, f"{type(e).__name__}: {e!r}"
    print(f"send_cmd{(cmd, *args)!r} wire={wire!r} -> read_cmd: {outcome}")
    violations += not ok

# (b) arbitrary well-framed payloads fed to the decoder
for payload in (b"foo", b"", b"git-upload-pack /repo", b" "):
    try:
        got = Protocol(BytesIO(pkt_line(payload)).read, None).read_cmd()
        ok, outcome = True, f"{got!r}"
    except GitProtocolError as e:
        ok, outcome = True, f"GitProtocolError: {e}"
    except BaseException as e:  # noqa: BLE001
        ok, outcome = False, f"{type(e).__name__}: {e!r}"
    print(f"read_cmd on payload {payload!r} -> {outcome}")
    violations += not ok

print()
print("required: what send_cmd encodes, read_cmd decodes; anything else is a")
print("          GitProtocolError, never an AssertionError.")
print(f"violations: {violations}")
sys.exit(1 if violations else 0)
