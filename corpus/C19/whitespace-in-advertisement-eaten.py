import os
#!/usr/bin/env python
"""C19 finding 7: ref-advertisement contents with whitespace other than the
single SP separators are altered by the round trip
format_ref_line() -> pkt-line -> client.read_pkt_refs_v1().

 * extract_capabilities() does text.rstrip() and capabilities.strip(): a
   capability whose value starts/ends with TAB, CR, VT or FF (no NUL, no LF, no
   SP -- SP is the only separator git knows) comes back shortened.
 * read_pkt_refs_v1() splits "<sha> <ref>" with split(None, 1), which swallows
   any run of whitespace after the sha, so a ref name with leading TAB/CR is
   returned without it (C git takes everything after the single SP).
"""
import sys
from io import BytesIO

from dulwich.client import read_pkt_refs_v1
from dulwich.protocol import Protocol, format_ref_line

SHA = b"1" * 40


def round_trip(ref, caps):
    out = BytesIO()
    w = Protocol(None, out.write)
    w.write_pkt_line(format_ref_line(ref, SHA, caps))
    w.write_pkt_line(None)
    return read_pkt_refs_v1(Protocol(BytesIO(out.getvalue()).read, None).read_pkt_seq())


cases = [
    (b"refs/heads/m", [b"multi_ack", b"agent=x"]),       # control
    (b"refs/heads/m", [b"multi_ack", b"agent=x\t"]),
    (b"refs/heads/m", [b"agent=x\r"]),
    (b"refs/heads/m", [b"\x0bagent=x", b"thin-pack"]),
    (b"refs/heads/m", [b"a", b"session-id=\x0c"]),
    (b"\trefs/heads/m", [b"multi_ack"]),
    (b"\r", [b"multi_ack"]),
]
violations = 0
for ref, caps in cases:
    try:
        refs, got = round_trip(ref, caps)
        ok = refs == {ref: SHA} and got == set(caps)
        outcome = f"refs={sorted(refs)!r} caps={sorted(got)!r}"
    except Exception as e:  # noqa: BLE001
        ok, outcome = False, f"{type(e).__name__}: {e}"
    print(f"{'ok  ' if ok else 'DIFF'} ref={ref!r} caps={caps!r}\n       -> {outcome}")
    violations += not ok

print()
print("required: capability lists and ref names without NUL/LF (and without")
print("          the SP separator inside a capability) survive the round trip")
print("          byte for byte.")
print(f"violations: {violations}")
sys.exit(1 if violations else 0)
