import os
#!/usr/bin/env python
"""C19 finding 3: a side-band frame on a channel other than 1..3 raises
AssertionError instead of a protocol error.

Protocol.write_sideband() happily encodes any channel 0..255, and the demuxers
in client._handle_upload_pack_tail() / GitClient._handle_receive_pack_tail()
(and the v2 / archive paths) answer an unknown band with
`raise AssertionError("Invalid sideband channel N")`.  C git reports
"protocol error: bad band #N".  The bytes come from the peer, so this is
hostile-input -> non-protocol exception.
"""
import sys
from io import BytesIO

from dulwich import client
from dulwich.errors import GitProtocolError
from dulwich.protocol import Protocol, pkt_line


class Walker:
    def ack(self, sha): pass
    def nak(self): pass


violations = 0
for chan in (0, 4, 255):
    out = BytesIO()
    Protocol(None, out.write).write_sideband(chan, b"payload")
    frame = out.getvalue()

    # fetch side
    stream = pkt_line(b"NAK\n") + frame + b"0000"
    try:
        client._handle_upload_pack_tail(
            Protocol(BytesIO(stream).read, None), {b"side-band-64k"}, Walker(),
            lambda d: None,
        )
        res, ok = "accepted silently", False
    except GitProtocolError as e:
        res, ok = f"GitProtocolError: {e}", True
    except BaseException as e:  # noqa: BLE001
        res, ok = f"{type(e).__name__}: {e}", False
    print(f"upload-pack tail, frame {frame!r}: {res}")
    violations += not ok

    # push side
    c = client.TraditionalGitClient.__new__(client.TraditionalGitClient)
    c.protocol_version = 0
    c._report_status_parser = None
    try:
        c._handle_receive_pack_tail(
            Protocol(BytesIO(frame + b"0000").read, None), {b"side-band-64k"}
        )
        res, ok = "accepted silently", False
    except GitProtocolError as e:
        res, ok = f"GitProtocolError: {e}", True
    except BaseException as e:  # noqa: BLE001
        res, ok = f"{type(e).__name__}: {e}", False
    print(f"receive-pack tail, frame {frame!r}: {res}")
    violations += not ok

print()
print("required: every byte string fed to the side-band decoder yields")
print("          (channel, data) frames or a GitProtocolError.")
print(f"violations: {violations}")
sys.exit(1 if violations else 0)
