#!/usr/bin/env python
"""C10 finding 5: every object lookup of a freshly opened DiskObjectStore
(__contains__, __getitem__/get_raw, contains_packed) can fail with
FileNotFoundError while `git repack -ad` runs, if the repository has a
multi-pack-index.

DiskObjectStore.get_midx() does

    if os.path.exists(midx_file):          # stat()
        self._midx = load_midx(midx_file)  # open()

and `git repack -ad` deletes objects/pack/multi-pack-index when it removes a
pack the MIDX covers.  If the unlink happens between the reader's stat() and
open(), FileNotFoundError propagates out of the lookup although the object
exists before, during and after the repack.

Interleaving (system-call granularity): reader stat(multi-pack-index) ->
repacker runs -> reader open(multi-pack-index).  The hook wraps os.stat only
to place the real `git repack -ad` at that point.
"""
import os, shutil, subprocess, sys, tempfile, warnings
warnings.simplefilter("ignore")
from dulwich.objects import Blob, Commit, Tree
from dulwich.object_store import DiskObjectStore
from dulwich.repo import Repo

TMP = (os.environ.get("CORPUS_TMP") or "/tmp")
os.makedirs(TMP, exist_ok=True)
ENV = dict(os.environ, HOME="/nonexistent", GIT_CONFIG_NOSYSTEM="1", GIT_CONFIG_GLOBAL="/dev/null")
real_stat = os.stat


def run(opname, op, writer):
    d = tempfile.mkdtemp(dir=TMP)
    try:
        Repo.init_bare(d).close()
        blob = Blob.from_string(b"wanted\n")
        t = Tree(); t.add(b"f", 0o100644, blob.id)
        c = Commit(); c.tree = t.id; c.author = c.committer = b"A <a@b>"
        c.author_time = c.commit_time = 1; c.author_timezone = c.commit_timezone = 0; c.message = b"m"
        setup = DiskObjectStore(d + "/objects")
        setup.add_objects([(blob, None), (t, None)])
        setup.add_objects([(Blob.from_string(b"other pack\n"), None)])
        setup.add_object(c)
        if writer == "dulwich":
            setup.write_midx()
        setup.close()
        r = Repo(d); r.refs[b"refs/heads/master"] = c.id; r.close()
        if writer == "git":
            subprocess.run(["git", "multi-pack-index", "write"], cwd=d, env=ENV, check=True, capture_output=True)
        midx = d + "/objects/pack/multi-pack-index"
        assert os.path.exists(midx)
        fired = []

        def stat(path, *a, **kw):
            res = real_stat(path, *a, **kw)
            if not fired and isinstance(path, (str, bytes)) and os.fsdecode(path) == midx:
                fired.append(1)
                os.stat = real_stat
                subprocess.run(["git", "repack", "-ad", "-q"], cwd=d, env=ENV, check=True)
            return res

        reader = DiskObjectStore(d + "/objects")
        os.stat = stat
        try:
            res, err = op(reader, blob.id), None
        except Exception as e:  # noqa: BLE001
            res, err = None, e
        finally:
            os.stat = real_stat
        try:
            reader.close()
        except Exception:
            pass
        check = DiskObjectStore(d + "/objects")
        exists = blob.id in check and check[blob.id].data == blob.data
        check.close()
        print("[midx by %s] %s: object exists after the repack: %s; git removed the MIDX: %s; reader got: %s"
              % (writer, opname, exists, not os.path.exists(midx),
                 "%s: %s" % (type(err).__name__, err) if err else repr(res)[:40]))
        return exists and (err is not None or res is False)
    finally:
        shutil.rmtree(d, ignore_errors=True)


OPS = [("sha in store", lambda s, x: x in s), ("store[sha]", lambda s, x: s[x].data)]
bad = [run(n, f, w) for w in ("dulwich", "git") for n, f in OPS]
if any(bad):
    print("VIOLATION: the object exists throughout; the property requires the lookup to succeed, but the reader")
    print("gets FileNotFoundError for multi-pack-index (exists()/open() race in DiskObjectStore.get_midx).")
    sys.stdout.flush()
    os._exit(1)
print("no violation")
os._exit(0)
