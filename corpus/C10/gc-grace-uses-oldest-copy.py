#!/usr/bin/env python
"""C10 finding 6: gc with the default two-week grace period deletes an
unreachable object that was written seconds ago, when the same object also
sits in an old pack (duplicate object across packs).

garbage_collect() asks DiskObjectStore.get_object_mtime(sha) for the age of
each unreachable object.  For packed objects that returns the mtime of the
FIRST pack (in pack-cache order) that contains the object, not the newest
copy.  If an old pack is looked at first, the object is classified as expired,
put into the exclude set and dropped from the consolidated pack - all copies
of it, including the one in a pack created a moment ago (e.g. by a fetch whose
ref update has not happened yet, which is exactly what the grace period is
there to protect).  C git keeps the object in the same situation.
"""
import os, shutil, subprocess, sys, tempfile, time, warnings
warnings.simplefilter("ignore")
from dulwich import gc as dgc
from dulwich.objects import Blob, Commit, Tree
from dulwich.repo import Repo

TMP = (os.environ.get("CORPUS_TMP") or "/tmp")
os.makedirs(TMP, exist_ok=True)
ENV = dict(os.environ, HOME="/nonexistent", GIT_CONFIG_NOSYSTEM="1", GIT_CONFIG_GLOBAL="/dev/null")
OLD = time.time() - 60 * 86400            # two months ago


def build(d):
    r = Repo.init_bare(d)
    b = Blob.from_string(b"reachable\n")
    t = Tree(); t.add(b"f", 0o100644, b.id)
    c = Commit(); c.tree = t.id; c.author = c.committer = b"A <a@b>"
    c.author_time = c.commit_time = 1; c.author_timezone = c.commit_timezone = 0; c.message = b"m"
    for o in (b, t, c):
        r.object_store.add_object(o)
    r.refs[b"refs/heads/master"] = c.id
    x = Blob.from_string(b"X: unreachable, present in an old and in a brand-new pack\n")
    z = Blob.from_string(b"Z: unreachable, only in the old pack\n")
    y = Blob.from_string(b"Y: unreachable, only in the new pack\n")
    old_pack = r.object_store.add_objects([(x, None), (z, None)])
    for ext in (".pack", ".idx"):
        os.utime(old_pack._basename + ext, (OLD, OLD))
    r.object_store.add_objects([(x, None), (y, None)])      # written just now
    return r, x, y, z


def present(d, *objs):
    r = Repo(d)
    try:
        return [o.id in r.object_store for o in objs]
    finally:
        r.close()


d1 = tempfile.mkdtemp(dir=TMP)
d2 = tempfile.mkdtemp(dir=TMP)
try:
    r, x, y, z = build(d1)
    age = time.time() - r.object_store.get_object_mtime(x.id)
    stats = dgc.garbage_collect(r)                            # default grace: 2 weeks
    r.close()
    dx, dy, dz = present(d1, x, y, z)
    print("dulwich gc (grace 14 days): age reported for X = %.0f days; X kept: %s, Y (new) kept: %s, Z (old) kept: %s"
          % (age / 86400, dx, dy, dz))

    r, x, y, z = build(d2)
    r.close()
    subprocess.run(["git", "gc", "-q"], cwd=d2, env=ENV, check=True)   # default prune: 2 weeks
    gx, gy, gz = present(d2, x, y, z)
    print("git gc     (grace 14 days):                                 X kept: %s, Y (new) kept: %s, Z (old) kept: %s"
          % (gx, gy, gz))
finally:
    shutil.rmtree(d1, ignore_errors=True)
    shutil.rmtree(d2, ignore_errors=True)

if not dx:
    print("VIOLATION: X has a copy that is a few seconds old, so it is not 'older than the grace period' and must")
    print("survive gc (as Y does, and as X does under C git); dulwich removed every copy of it.")
    sys.stdout.flush()
    os._exit(1)
print("no violation")
os._exit(0)
