#!/usr/bin/env python
"""C10 finding 1: iterating a DiskObjectStore while another process repacks
silently drops objects that exist throughout.

PackBasedObjectStore.__iter__ snapshots the pack list, then walks it lazily.
If a pack of the snapshot is removed by a concurrent repack before its index
is opened, PackFileDisappeared is swallowed and the pack's objects are simply
skipped; the replacement pack is never looked at, and loose objects that moved
into it are missed too.  No syscall-level trickery is needed: the reader is
only paused between two next() calls on the iterator.
"""
import os, shutil, subprocess, sys, tempfile, warnings
warnings.simplefilter("ignore")
from dulwich.objects import Blob, Commit, Tree
from dulwich.object_store import DiskObjectStore
from dulwich.repo import Repo

TMP = (os.environ.get("CORPUS_TMP") or "/tmp")
os.makedirs(TMP, exist_ok=True)
ENV = dict(os.environ, HOME="/nonexistent", GIT_CONFIG_NOSYSTEM="1", GIT_CONFIG_GLOBAL="/dev/null")


def commit_for(blobs):
    """A tree + commit that make all blobs reachable (git repack -ad drops unreachable ones)."""
    t = Tree()
    for i, b in enumerate(blobs):
        t.add(b"f%d" % i, 0o100644, b.id)
    c = Commit()
    c.tree = t.id
    c.author = c.committer = b"A <a@b>"
    c.author_time = c.commit_time = 1
    c.author_timezone = c.commit_timezone = 0
    c.message = b"m"
    return t, c


def run(repacker):
    d = tempfile.mkdtemp(dir=TMP)
    try:
        Repo.init_bare(d).close()
        setup = DiskObjectStore(d + "/objects")
        pack_a = [Blob.from_string(b"a%d\n" % i) for i in range(3)]
        pack_b = [Blob.from_string(b"b%d\n" % i) for i in range(3)]
        loose = Blob.from_string(b"loose\n")
        t, c = commit_for(pack_a + pack_b + [loose])
        setup.add_objects([(o, None) for o in pack_a + [t]])
        setup.add_objects([(o, None) for o in pack_b + [c]])
        setup.add_object(loose)
        setup.close()
        r = Repo(d); r.refs[b"refs/heads/master"] = c.id; r.close()
        expected = {o.id for o in pack_a + pack_b + [loose, t, c]}

        reader = DiskObjectStore(d + "/objects")
        it = iter(reader)
        got = {next(it)}                      # reader is in the middle of iterating
        if repacker == "dulwich":             # another process repacks
            w = DiskObjectStore(d + "/objects")
            w.repack()
            w.close()
        else:
            subprocess.run(["git", "repack", "-ad", "-q"], cwd=d, env=ENV, check=True)
        got.update(it)                        # reader continues
        reader.close()

        check = DiskObjectStore(d + "/objects")
        still_there = all(s in check for s in expected)
        check.close()
        missing = expected - got
        print("[%s repack] all %d objects exist before and after: %s; iteration yielded %d, missed %d"
              % (repacker, len(expected), still_there, len(got & expected), len(missing)))
        return bool(missing) and still_there
    finally:
        shutil.rmtree(d, ignore_errors=True)


bad = [run("dulwich"), run("git")]
if any(bad):
    print("VIOLATION: every object existed throughout, so a reader iterating the store must see all of them;")
    print("instead objects of packs replaced mid-iteration (and loose objects that were packed) are silently skipped.")
    sys.stdout.flush()
    os._exit(1)
print("no violation")
os._exit(0)
