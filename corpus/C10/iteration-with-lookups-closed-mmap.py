#!/usr/bin/env python
"""C10 finding 3: "for sha in store: store[sha]" crashes with
"ValueError: mmap closed or invalid" when another process repacks.

This is the loop DiskObjectStore.write_commit_graph() itself runs.  The lookup
store[sha] notices that the pack's .pack file is gone (PackFileDisappeared),
and _lookup_in_packs -> _evict_pack() CLOSES the Pack - including the .idx
mmap that the still-running `yield from pack` in __iter__ is reading from.
The lookup itself succeeds (it finds the new pack), but the next step of the
iteration blows up, although every object exists throughout.
"""
import os, shutil, subprocess, sys, tempfile, warnings
warnings.simplefilter("ignore")
from dulwich.objects import Blob, Commit, Tree
from dulwich.object_store import DiskObjectStore
from dulwich.repo import Repo

TMP = (os.environ.get("CORPUS_TMP") or "/tmp")
os.makedirs(TMP, exist_ok=True)
ENV = dict(os.environ, HOME="/nonexistent", GIT_CONFIG_NOSYSTEM="1", GIT_CONFIG_GLOBAL="/dev/null")


def commit_for(blobs):
    """A tree + commit that make all blobs reachable (git repack -ad drops unreachable ones)."""
    t = Tree()
    for i, b in enumerate(blobs):
        t.add(b"f%d" % i, 0o100644, b.id)
    c = Commit()
    c.tree = t.id
    c.author = c.committer = b"A <a@b>"
    c.author_time = c.commit_time = 1
    c.author_timezone = c.commit_timezone = 0
    c.message = b"m"
    return t, c


def run(repacker):
    d = tempfile.mkdtemp(dir=TMP)
    try:
        Repo.init_bare(d).close()
        setup = DiskObjectStore(d + "/objects")
        blobs = [Blob.from_string(b"blob %d\n" % i) for i in range(6)]
        t, c = commit_for(blobs)
        setup.add_objects([(o, None) for o in blobs[:3] + [t]])
        setup.add_objects([(o, None) for o in blobs[3:] + [c]])
        setup.close()
        r = Repo(d); r.refs[b"refs/heads/master"] = c.id; r.close()
        expected = {o.id: o.as_raw_string() for o in blobs + [t, c]}

        reader = DiskObjectStore(d + "/objects")
        seen, err = set(), None
        first = True
        try:
            for sha in reader:
                if first:                     # the other process repacks now
                    first = False
                    if repacker == "dulwich":
                        w = DiskObjectStore(d + "/objects")
                        w.repack()
                        w.close()
                    else:
                        subprocess.run(["git", "repack", "-adf", "-q"], cwd=d, env=ENV, check=True)
                assert reader[sha].as_raw_string() == expected[sha]
                seen.add(sha)
        except Exception as e:  # noqa: BLE001
            err = e
        try:
            reader.close()
        except Exception:
            pass
        check = DiskObjectStore(d + "/objects")
        exist = all(s in check for s in expected)
        check.close()
        print("[%s repack] all objects exist afterwards: %s; reader read %d/%d objects, then: %s"
              % (repacker, exist, len(seen), len(expected),
                 "%s: %s" % (type(err).__name__, err) if err else "finished"))
        return exist and (err is not None or seen != set(expected))
    finally:
        shutil.rmtree(d, ignore_errors=True)


bad = [run("dulwich"), run("git")]
if any(bad):
    print("VIOLATION: a reader walking the store while another process repacks must keep working (all objects")
    print("exist throughout); instead the iteration dies on a closed mmap / skips objects.")
    sys.stdout.flush()
    os._exit(1)
print("no violation")
os._exit(0)
