#!/usr/bin/env python
"""C10 finding 4: abbreviated-id lookup (DiskObjectStore.iter_prefix) lets
PackFileDisappeared escape when `git repack -ad` (or dulwich's repack) runs
between the reader's scan of objects/pack and its opening of a pack index.

Every other lookup path catches PackFileDisappeared, evicts the stale pack and
rescans; iter_prefix() does `for p in self.packs: p.index.iter_prefix(...)`
with no handling at all, so the reader gets an exception for an object that
exists before, during and after the repack.

Interleaving (system-call granularity): the reader's os.listdir(objects/pack)
returns, then the repacker runs to completion, then the reader continues.
The hook below only wraps os.listdir to place the repack at that point.
"""
import os, shutil, subprocess, sys, tempfile, warnings
warnings.simplefilter("ignore")
from dulwich.objects import Blob, Commit, Tree
from dulwich.object_store import DiskObjectStore
from dulwich.repo import Repo

TMP = (os.environ.get("CORPUS_TMP") or "/tmp")
os.makedirs(TMP, exist_ok=True)
ENV = dict(os.environ, HOME="/nonexistent", GIT_CONFIG_NOSYSTEM="1", GIT_CONFIG_GLOBAL="/dev/null")
real_listdir = os.listdir


def run(repacker):
    d = tempfile.mkdtemp(dir=TMP)
    try:
        Repo.init_bare(d).close()
        blob = Blob.from_string(b"wanted\n")
        t = Tree(); t.add(b"f", 0o100644, blob.id)
        c = Commit(); c.tree = t.id; c.author = c.committer = b"A <a@b>"
        c.author_time = c.commit_time = 1; c.author_timezone = c.commit_timezone = 0; c.message = b"m"
        setup = DiskObjectStore(d + "/objects")
        setup.add_objects([(blob, None), (t, None)])
        setup.add_object(c)                   # loose, so that the repack has something to do
        setup.close()
        r = Repo(d); r.refs[b"refs/heads/master"] = c.id; r.close()

        fired = []

        def repack():
            if repacker == "dulwich":
                w = DiskObjectStore(d + "/objects"); w.repack(); w.close()
            else:
                subprocess.run(["git", "repack", "-ad", "-q"], cwd=d, env=ENV, check=True)

        def listdir(path="."):
            res = real_listdir(path)
            if not fired and os.fspath(path).rstrip("/").endswith("objects/pack"):
                fired.append(1)
                os.listdir = real_listdir
                repack()                      # the other process runs here
            return res

        reader = DiskObjectStore(d + "/objects")
        os.listdir = listdir
        try:
            got, err = list(reader.iter_prefix(blob.id[:8])), None
        except Exception as e:  # noqa: BLE001
            got, err = None, e
        finally:
            os.listdir = real_listdir
        try:
            reader.close()
        except Exception:
            pass
        check = DiskObjectStore(d + "/objects")
        exists = blob.id in check
        check.close()
        print("[%s repack] object exists afterwards: %s; iter_prefix(%s) -> %s"
              % (repacker, exists, blob.id[:8].decode(),
                 "%s: %r" % (type(err).__name__, err) if err else got))
        return exists and (err is not None or blob.id not in got)
    finally:
        shutil.rmtree(d, ignore_errors=True)


bad = [run("dulwich"), run("git")]
if any(bad):
    print("VIOLATION: the object exists throughout, the lookup must return it; instead the reader fails")
    print("because a pack listed a moment ago has been replaced (PackFileDisappeared is not handled in iter_prefix).")
    sys.stdout.flush()
    os._exit(1)
print("no violation")
os._exit(0)
