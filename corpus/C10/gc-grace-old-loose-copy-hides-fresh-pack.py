#!/usr/bin/env python
"""C10 finding 3: gc prunes an unreachable object whose newest copy is seconds old.

An unreachable object exists twice: as an old loose file (30 days) and in a
pack that arrived just now (e.g. a fetch that has not updated its ref yet).
DiskObjectStore.get_object_mtime() returns the loose file's mtime as soon as a
loose copy exists and never looks at the packs, so garbage_collect() with the
default two-week grace period judges the object to be 30 days old, deletes the
loose file AND excludes the object from the repack -- the fresh packed copy is
destroyed too.  (The method's own comment says "the object is as young as its
newest copy", but that is only applied among packs.)

Property C10: only unreachable objects OLDER than the grace period may
disappear.  (For information the script also runs `git gc --prune=2.weeks.ago`
on an identical repository; C git 2.39 happens to have the same hole because
force_object_loose() does not freshen an existing loose file, so git is shown
only for comparison, not as the oracle.  The verdict is the property's.)
Exit status 1 = violation present.
"""

import os
import shutil
import subprocess
import sys
import tempfile
import time
import warnings

warnings.simplefilter("ignore")

from dulwich.gc import garbage_collect
from dulwich.object_store import DiskObjectStore
from dulwich.objects import Blob
from dulwich.repo import Repo

ENV = dict(
    os.environ, HOME="/nonexistent", GIT_CONFIG_NOSYSTEM="1", GIT_CONFIG_GLOBAL="/dev/null"
)


def build(path):
    repo = Repo.init_bare(path)
    store = repo.object_store
    blob = Blob.from_string(b"unreachable, but received again a second ago")
    store.add_object(blob)  # loose copy
    loose_path = store._get_shafile_path(blob.id)
    old = time.time() - 30 * 86400
    os.utime(loose_path, (old, old))  # the loose copy is 30 days old
    store.add_objects([(blob, None)])  # a brand-new pack holding it too
    return repo, blob


def present(path, sha):
    s = DiskObjectStore(os.path.join(path, "objects"))
    try:
        return sha in s
    finally:
        s.close()


os.makedirs((os.environ.get("CORPUS_TMP") or "/tmp"), exist_ok=True)
base = tempfile.mkdtemp(dir=(os.environ.get("CORPUS_TMP") or "/tmp"))
status = 0
try:
    # --- dulwich ---
    d1 = os.path.join(base, "dulwich")
    os.mkdir(d1)
    repo, blob = build(d1)
    store = repo.object_store
    pack_age = time.time() - max(
        os.path.getmtime(p._data_path) for p in store.packs
    )
    print("age of the newest copy (pack), seconds: %.1f" % pack_age)
    print(
        "age reported by get_object_mtime(), days: %.1f"
        % ((time.time() - store.get_object_mtime(blob.id)) / 86400)
    )
    stats = garbage_collect(repo)  # default grace period: two weeks
    repo.close()
    print("garbage_collect(grace=2 weeks) pruned:", sorted(stats.pruned_objects))
    after_dulwich = present(d1, blob.id)
    print("object present after dulwich gc:", after_dulwich)

    # --- C git as oracle on an identical repository ---
    d2 = os.path.join(base, "cgit")
    os.mkdir(d2)
    repo2, blob2 = build(d2)
    repo2.close()
    subprocess.run(
        ["git", "-C", d2, "gc", "-q", "--prune=2.weeks.ago"], env=ENV, check=True
    )
    after_git = (
        subprocess.run(
            ["git", "-C", d2, "cat-file", "-e", blob2.id.decode()], env=ENV
        ).returncode
        == 0
    )
    print("object present after `git gc --prune=2.weeks.ago`:", after_git)

    if not after_dulwich:
        print(
            "VIOLATION: an unreachable object whose newest copy is %.0f s old "
            "disappeared under a 14-day grace period; the property allows only "
            "objects older than the grace period to go." % pack_age
        )
        status = 1
    else:
        print("no violation")
finally:
    shutil.rmtree(base, ignore_errors=True)
sys.stdout.flush()
os._exit(status)
