#!/usr/bin/env python
"""C10 finding 5: gc deletes the commit a linked worktree's HEAD points at.

A repository has a linked worktree (`git worktree add --detach`) whose HEAD is
detached at a commit that no branch contains.  dulwich.gc.garbage_collect() on
the main repository computes reachability from refs_container.allkeys(), which
is the main worktree's HEAD plus refs/ -- the HEAD files under
.git/worktrees/<id>/ are never consulted.  The worktree's HEAD commit, its tree
and its blob are judged unreachable and deleted; the worktree is left with a
HEAD that names a missing object.  C git treats every worktree's HEAD as a
root (the script runs `git gc --prune=now` with all reflogs expired on an
identical copy: the commit survives).

Property C10: gc never makes an object reachable from any ref or HEAD
unreadable.  Exit status 1 = violation present.
"""

import os
import shutil
import subprocess
import sys
import tempfile
import time
import warnings

warnings.simplefilter("ignore")

from dulwich.gc import garbage_collect
from dulwich.repo import Repo

ENV = dict(
    os.environ,
    HOME="/nonexistent",
    GIT_CONFIG_NOSYSTEM="1",
    GIT_CONFIG_GLOBAL="/dev/null",
    GIT_AUTHOR_NAME="a",
    GIT_AUTHOR_EMAIL="a@b",
    GIT_COMMITTER_NAME="a",
    GIT_COMMITTER_EMAIL="a@b",
    GIT_AUTHOR_DATE="1000000000 +0000",
    GIT_COMMITTER_DATE="1000000000 +0000",
)


def git(d, *args, check=True):
    return subprocess.run(
        ["git", "-C", d, *args], env=ENV, capture_output=True, check=check
    )


def build(base):
    main = os.path.join(base, "main")
    wt = os.path.join(base, "wt")
    os.makedirs(main)
    git(main, "init", "-q", "-b", "master")
    with open(os.path.join(main, "f"), "w") as f:
        f.write("one\n")
    git(main, "add", "f")
    git(main, "commit", "-qm", "one")
    git(main, "worktree", "add", "-q", "--detach", wt)
    with open(os.path.join(wt, "g"), "w") as f:
        f.write("only in the worktree\n")
    git(wt, "add", "g")
    git(wt, "commit", "-qm", "worktree only")
    head = git(wt, "rev-parse", "HEAD").stdout.strip().decode()
    # no reflog keeps anything alive, and every object is old
    git(main, "reflog", "expire", "--expire=now", "--all")
    old = time.time() - 10**7
    for root, _dirs, files in os.walk(os.path.join(main, ".git", "objects")):
        for name in files:
            os.utime(os.path.join(root, name), (old, old))
    return main, wt, head


def readable(wt, sha):
    return git(wt, "cat-file", "-e", sha + "^{tree}", check=False).returncode == 0


os.makedirs((os.environ.get("CORPUS_TMP") or "/tmp"), exist_ok=True)
base = tempfile.mkdtemp(dir=(os.environ.get("CORPUS_TMP") or "/tmp"))
status = 0
try:
    # oracle: C git
    gbase = os.path.join(base, "cgit")
    main, wt, head = build(gbase)
    git(main, "gc", "-q", "--prune=now")
    print("C git:   worktree HEAD %s readable after `git gc --prune=now`: %s"
          % (head[:12], readable(wt, head)))

    # dulwich
    dbase = os.path.join(base, "dulwich")
    main, wt, head = build(dbase)
    print("worktree HEAD readable before dulwich gc:", readable(wt, head))
    repo = Repo(main)
    print("roots dulwich considers:", sorted(repo.refs.allkeys()))
    stats = garbage_collect(repo, grace_period=0)
    repo.close()
    print("dulwich pruned:", sorted(s.decode()[:12] for s in stats.pruned_objects))
    ok = readable(wt, head)
    print("dulwich: worktree HEAD %s readable after garbage_collect(): %s"
          % (head[:12], ok))
    print("`git status` in the worktree now says:",
          (git(wt, "status", check=False).stderr or b"ok").decode().strip())
    if not ok:
        print(
            "VIOLATION: an object reachable from a HEAD (the linked worktree's) "
            "was made unreadable by gc; the property requires it to survive."
        )
        status = 1
    else:
        print("no violation")
finally:
    shutil.rmtree(base, ignore_errors=True)
sys.stdout.flush()
os._exit(status)
