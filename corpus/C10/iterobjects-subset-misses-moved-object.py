#!/usr/bin/env python
"""C10 finding 2: iterobjects_subset() raises a spurious KeyError ("missing
object") for an object that exists throughout, when a concurrent
pack_loose_objects / repack / `git repack -ad` moves it from a loose file
into a pack.

PackBasedObjectStore.iterobjects_subset looks at cached packs, rescans the
pack directory ONCE, looks at alternates and finally at loose files.  Unlike
get_raw()/__contains__ it never re-scans the pack directory after the loose
lookup fails, so "loose -> packed" between the rescan and the loose lookup is
reported as missing.  The reader below is only paused at a generator yield.
"""
import os, shutil, subprocess, sys, tempfile, warnings
warnings.simplefilter("ignore")
from dulwich.objects import Blob, Commit, Tree
from dulwich.object_store import DiskObjectStore
from dulwich.repo import Repo

TMP = (os.environ.get("CORPUS_TMP") or "/tmp")
os.makedirs(TMP, exist_ok=True)
ENV = dict(os.environ, HOME="/nonexistent", GIT_CONFIG_NOSYSTEM="1", GIT_CONFIG_GLOBAL="/dev/null")


def commit_for(blobs):
    """A tree + commit that make all blobs reachable (git repack -ad drops unreachable ones)."""
    t = Tree()
    for i, b in enumerate(blobs):
        t.add(b"f%d" % i, 0o100644, b.id)
    c = Commit()
    c.tree = t.id
    c.author = c.committer = b"A <a@b>"
    c.author_time = c.commit_time = 1
    c.author_timezone = c.commit_timezone = 0
    c.message = b"m"
    return t, c


def run(repacker):
    d = tempfile.mkdtemp(dir=TMP)
    try:
        Repo.init_bare(d).close()
        setup = DiskObjectStore(d + "/objects")
        packed = Blob.from_string(b"already packed\n")
        loose = Blob.from_string(b"still loose\n")
        t, c = commit_for([packed, loose])
        setup.add_objects([(packed, None), (t, None), (c, None)])
        setup.add_object(loose)
        setup.close()
        r = Repo(d); r.refs[b"refs/heads/master"] = c.id; r.close()

        reader = DiskObjectStore(d + "/objects")
        it = reader.iterobjects_subset([packed.id, loose.id])
        first = next(it)                      # yields the packed object, pauses
        assert first.id == packed.id
        if repacker == "dulwich":
            w = DiskObjectStore(d + "/objects")
            w.pack_loose_objects()
            w.close()
        else:
            subprocess.run(["git", "repack", "-ad", "-q"], cwd=d, env=ENV, check=True)
        check = DiskObjectStore(d + "/objects")
        exists = loose.id in check and check[loose.id].data == loose.data
        check.close()
        try:
            rest = [o.id for o in it]
            err = None
        except KeyError as e:
            rest, err = [], e
        try:
            reader.close()
        except Exception:
            pass
        print("[%s] object %s exists after the repack: %s; reader got: %s"
              % (repacker, loose.id.decode()[:12], exists, "KeyError(%s)" % err if err else rest))
        return exists and err is not None
    finally:
        shutil.rmtree(d, ignore_errors=True)


bad = [run("dulwich"), run("git")]
if any(bad):
    print("VIOLATION: the object existed the whole time (first loose, then packed); the property requires the")
    print("reader to find it, but iterobjects_subset reported it missing (KeyError).")
    sys.stdout.flush()
    os._exit(1)
print("no violation")
os._exit(0)
