"""C10: an object that exists throughout is reported missing when two repacks overlap one lookup (Model/PackLookup.v, theorem
lookup_during_two_repacks_refuted, replayed on the real store): the reader still lists a pack deleted earlier; repack 1 adds pack 10
and deletes packs 1 and 2; repack 2 adds pack 11 and deletes pack 10; DiskObjectStore.get_raw spends its three attempts on packs
that have just gone, finds no loose file, sees no pack it did not already list, and raises KeyError."""
import os, shutil, sys, tempfile
from dulwich.object_format import SHA1
from dulwich.object_store import DiskObjectStore
from dulwich.objects import Blob
from dulwich.pack import Pack, write_pack

base = tempfile.mkdtemp(dir=os.environ.get("CORPUS_TMP") or None)
rc = 0
try:
    blob = lambda i: Blob.from_string(b"object %d\n" % i)
    staging = os.path.join(base, "staging"); os.mkdir(staging)
    odir = os.path.join(base, "objects"); DiskObjectStore.init(odir).close()
    pdir = os.path.join(odir, "pack")
    names = {}
    for w, objs in {1: [0], 2: [5], 10: [0, 5], 11: [0, 5, 6], 9: [7]}.items():
        t = os.path.join(staging, "p%d" % w)
        write_pack(t, [(blob(i), None) for i in objs], SHA1)
        p = Pack(t, object_format=SHA1); nm = "pack-" + p.name().decode(); p.close()
        for ext in (".pack", ".idx"):
            os.rename(t + ext, os.path.join(staging, nm + ext))
        names[w] = nm
    appear = lambda w: [shutil.copyfile(os.path.join(staging, names[w] + e), os.path.join(pdir, names[w] + e)) for e in (".pack", ".idx")]
    vanish = lambda w: [os.remove(os.path.join(pdir, names[w] + e)) for e in (".idx", ".pack")]
    store = DiskObjectStore(odir)
    appear(9); store._update_pack_cache(); vanish(9)          # the reader's past: a pack that has been deleted since
    appear(1); appear(2)                                       # the present: object 0 is in pack 1
    target = blob(0)
    steps = {2: [("a", 10), ("d", 1), ("d", 2)], 5: [("a", 11), ("d", 10)]}     # before the reader's k-th step
    count = [0]

    def hook():
        for op, w in steps.get(count[0], []):
            (appear if op == "a" else vanish)(w)
            # every step keeps a copy of object 0 in the directory
            assert any(target.id in Pack(os.path.join(pdir, n[:-5]), object_format=SHA1) for n in os.listdir(pdir) if n.endswith(".pack"))
        count[0] += 1

    og, ou, ol = Pack.get_raw, store._update_pack_cache, store._get_loose_object
    Pack.get_raw = lambda self, sha: (hook(), og(self, sha))[1]
    store._update_pack_cache = lambda: (hook(), ou())[1]
    store._get_loose_object = lambda sha: (hook(), ol(sha))[1]
    try:
        try:
            store.get_raw(target.id)
            print("found")
        except KeyError:
            print("VIOLATION: get_raw raised KeyError for an object that was in some pack of the directory at every moment")
            rc = 1
    finally:
        Pack.get_raw = og
        store.close()
finally:
    shutil.rmtree(base, ignore_errors=True)
sys.exit(rc)
