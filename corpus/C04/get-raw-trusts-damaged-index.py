"""C04: with two offsets of a pack index (v2) swapped, DiskObjectStore.get_raw(a) and iterobjects_subset([a]) hand out the content
of object b under the name a: the offset table is trusted, the index's own checksum is not looked at on load, and only
store[a] (ShaFile.check via __getitem__) compares the content with the name."""
import hashlib, os, shutil, struct, sys, tempfile
from dulwich.object_store import DiskObjectStore
from dulwich.objects import Blob, object_header

base = tempfile.mkdtemp(dir=os.environ.get("CORPUS_TMP") or None)
rc = 0
try:
    odir = os.path.join(base, "objects")
    s = DiskObjectStore.init(odir)
    blobs = [Blob.from_string(b"first object, %d\n" % i * (i + 2)) for i in range(4)]
    s.add_objects([(b, None) for b in blobs])
    s.close()
    idx = [os.path.join(odir, "pack", n) for n in os.listdir(os.path.join(odir, "pack")) if n.endswith(".idx")][0]
    data = bytearray(open(idx, "rb").read())
    n = struct.unpack(">L", data[8 + 255 * 4:8 + 256 * 4])[0]
    off = 8 + 256 * 4 + n * 20 + n * 4            # the 4-byte offset table of a version 2 index
    a, b = data[off:off + 4], data[off + 4:off + 8]
    data[off:off + 4], data[off + 4:off + 8] = b, a
    os.chmod(idx, 0o644)
    open(idx, "wb").write(bytes(data))            # (the trailing checksums are left as they were: they no longer match)
    names = sorted(x.id for x in blobs)
    s = DiskObjectStore(odir)
    bad = []
    for name in names[:2]:
        try:
            tn, raw = s.get_raw(name)
            if hashlib.sha1(object_header(tn, len(raw)) + raw).hexdigest().encode() != name:
                bad.append("get_raw(%s) returned %d bytes hashing to another name" % (name[:8].decode(), len(raw)))
        except Exception as e:  # noqa: BLE001  an ordinary refusal is fine
            print("get_raw refused:", type(e).__name__)
    try:
        for o in s.iterobjects_subset(names[:2]):
            raw = o.as_raw_string()
            if hashlib.sha1(o.type_name + b" %d\0" % len(raw) + raw).hexdigest().encode() != o.id:
                bad.append("iterobjects_subset yields %s with content hashing to another name" % o.id[:8].decode())
    except Exception as e:  # noqa: BLE001
        print("iterobjects_subset refused:", type(e).__name__)
    s.close()
    for x in bad:
        print("VIOLATION:", x)
    rc = 1 if bad else 0
finally:
    shutil.rmtree(base, ignore_errors=True)
sys.exit(rc)
