#!/usr/bin/env python
"""C04 finding 3: DiskObjectStore.add_pack()+commit() never checks the pack trailer.
extend_pack() recomputes and overwrites the last 20 bytes, so damaged packs (bad
trailer, appended tail, lowered object count) are ingested "successfully", and the
store can end up holding a pack file that C git refuses as corrupt."""
import hashlib, os, shutil, struct, subprocess, sys, tempfile, warnings, zlib
sys.path.insert(0, "/repo")
warnings.simplefilter("ignore")
from dulwich.object_store import DiskObjectStore, MemoryObjectStore

GITENV = {"HOME": "/nonexistent", "GIT_CONFIG_NOSYSTEM": "1",
          "GIT_CONFIG_GLOBAL": "/dev/null", "PATH": os.environ.get("PATH", "/usr/bin:/bin")}


def obj(t, payload):
    size = len(payload); b = (t << 4) | (size & 15); size >>= 4; h = []
    while size:
        h.append(b | 0x80); b = size & 0x7F; size >>= 7
    h.append(b)
    return bytes(h) + zlib.compress(payload)


body = obj(3, b"first blob\n") + obj(3, b"second blob\n")
hdr = b"PACK" + struct.pack(">LL", 2, 2)
good = hdr + body + hashlib.sha1(hdr + body).digest()
cases = {
    "one bit flipped in the trailer": good[:-1] + bytes([good[-1] ^ 1]),
    "trailer zeroed": good[:-20] + b"\0" * 20,
    "one junk byte appended": good + b"\0",
    "object count lowered 2->1, trailer stale": good[:11] + b"\x01" + good[12:],
}
tmp = tempfile.mkdtemp(prefix="c04f3-")
accepted = 0
try:
    for label, data in cases.items():
        print(f"== {label}")
        # oracle 1: C git
        gdir = os.path.join(tmp, "g"); shutil.rmtree(gdir, ignore_errors=True); os.makedirs(gdir)
        open(os.path.join(gdir, "in.pack"), "wb").write(data)
        r = subprocess.run(["git", "index-pack", "in.pack"], cwd=gdir, env=GITENV,
                           capture_output=True)
        print("   git index-pack      :", "accepts" if r.returncode == 0 else
              "rejects (" + r.stderr.decode().strip() + ")")
        # oracle 2: dulwich's own MemoryObjectStore through the same API
        m = MemoryObjectStore(); f, commit, abort = m.add_pack(); f.write(data)
        try:
            commit(); print("   MemoryObjectStore   : accepts")
        except Exception as e:
            print(f"   MemoryObjectStore   : rejects ({type(e).__name__})")
        # subject: DiskObjectStore
        root = os.path.join(tmp, "objects"); shutil.rmtree(root, ignore_errors=True)
        os.makedirs(root)
        store = DiskObjectStore.init(root)
        f, commit, abort = store.add_pack(); f.write(data)
        try:
            commit()
        except Exception as e:
            print(f"   DiskObjectStore     : rejects ({type(e).__name__})")
            store.close(); continue
        accepted += 1
        names = sorted(store); store.close()
        print(f"   DiskObjectStore     : ACCEPTS, {len(names)} object(s) now visible")
        packs = [p for p in os.listdir(os.path.join(root, "pack")) if p.endswith(".pack")]
        stored = open(os.path.join(root, "pack", packs[0]), "rb").read()
        print("   stored pack == bytes handed in:", stored == data,
              "(trailer was silently rewritten)" if stored != data else "")
        r = subprocess.run(["git", "verify-pack", os.path.join(root, "pack", packs[0])],
                           env=GITENV, capture_output=True)
        print("   git verify-pack on the stored pack:", "ok" if r.returncode == 0 else
              "FAILS: " + r.stderr.decode().strip().splitlines()[0])
finally:
    shutil.rmtree(tmp, ignore_errors=True)

print()
if accepted:
    print(f"VIOLATION: {accepted} damaged pack(s) with a wrong trailer were ingested without error.")
    print("The property requires damaged input (wrong trailer, appended tail, wrong count) to be")
    print("rejected with an ordinary error, as git index-pack and MemoryObjectStore do.")
    sys.exit(1)
print("all damaged packs rejected: property holds")
sys.exit(0)
