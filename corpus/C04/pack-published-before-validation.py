#!/usr/bin/env python
"""C04 finding 4: DiskObjectStore._complete_pack() publishes pack-<sha>.pack and
pack-<sha>.idx under their final names BEFORE it validates the pack, and removes
them again if validation fails.  While validation runs, any other reader of the
repository uses the pack that is about to be rejected; if the process dies in that
window (crash point) the rejected pack stays in the store for good."""
import hashlib, os, shutil, struct, sys, tempfile, warnings, zlib
sys.path.insert(0, "/repo")
warnings.simplefilter("ignore")
import dulwich.object_store as osm
from dulwich.object_store import DiskObjectStore


def obj(t, payload):
    size = len(payload); b = (t << 4) | (size & 15); size >>= 4; h = []
    while size:
        h.append(b | 0x80); b = size & 0x7F; size >>= 7
    h.append(b)
    return bytes(h) + zlib.compress(payload)


# A tree whose only entry has a garbage mode: the final check in _complete_pack
# ("payloads that fail to parse are rejected rather than silently landed on disk")
# refuses this pack with ObjectFormatException.
bad_tree = b"1x0644 a\0" + b"\x11" * 20
bad_id = hashlib.sha1(b"tree %d\0" % len(bad_tree) + bad_tree).hexdigest().encode()
d = b"PACK" + struct.pack(">LL", 2, 1) + obj(2, bad_tree)
data = d + hashlib.sha1(d).digest()

tmp = tempfile.mkdtemp(prefix="c04f4-")
root = os.path.join(tmp, "objects"); os.makedirs(root)
seen = {}
orig = osm.PackInflater.for_pack_data


def observing(*a, **kw):
    """Pure instrumentation: look at the repository like a second process would,
    at the moment the library starts validating, then continue unchanged."""
    other = DiskObjectStore(root)
    seen["files"] = sorted(os.listdir(os.path.join(root, "pack")))
    seen["visible"] = bad_id in other
    seen["listed"] = bad_id in set(other)
    other.close()
    if os.environ.get("C04_CRASH"):
        os._exit(9)          # simulated power loss / SIGKILL at this point
    return orig(*a, **kw)


osm.PackInflater.for_pack_data = observing
violation = False
try:
    store = DiskObjectStore.init(root)
    f, commit, abort = store.add_pack(); f.write(data)
    try:
        commit(); print("ingestion unexpectedly succeeded")
    except Exception as e:
        print(f"ingestion failed as it should: {type(e).__name__}: {e}")
    store.close()
    print("during validation a second DiskObjectStore saw files:", seen.get("files"))
    print("  rejected object visible via `in`  :", seen.get("visible"))
    print("  rejected object listed by iteration:", seen.get("listed"))
    if seen.get("visible") or seen.get("listed"):
        violation = True

    # crash point: same ingestion in a child that dies when validation starts
    root2 = os.path.join(tmp, "objects2"); os.makedirs(root2)
    pid = os.fork()
    if pid == 0:
        root = root2
        os.environ["C04_CRASH"] = "1"
        s = DiskObjectStore.init(root2)
        f, commit, abort = s.add_pack(); f.write(data)
        commit()
        os._exit(0)
    os.waitpid(pid, 0)
    after = DiskObjectStore(root2)
    present = bad_id in after
    print("after a crash at the start of validation, pack dir:",
          sorted(os.listdir(os.path.join(root2, "pack"))))
    print("  never-validated (and in fact invalid) object in the store:", present)
    if present:
        violation = True
        try:
            after[bad_id].items()
        except Exception as e:
            print(f"  reading it: {type(e).__name__}: {e}")
    after.close()
finally:
    osm.PackInflater.for_pack_data = orig
    shutil.rmtree(tmp, ignore_errors=True)

print()
if violation:
    print("VIOLATION: a pack whose ingestion fails is visible and used under its final name")
    print("while it is being checked, and survives a crash in that window.")
    print("The property requires that a failed ingestion makes no new object visible and that no")
    print("pack is used before ingestion has succeeded (git index-pack checks first, renames last).")
    sys.exit(1)
print("rejected pack never visible: property holds")
sys.exit(0)
