#!/venv/bin/python
"""C04 finding 1: a truncated loose object is read back as a shorter object under
the old name, without any error.

DiskObjectStore.get_raw() / iterobjects_subset() / _get_loose_object() go through
ShaFile.from_path(path, sha).  objects._decompress() uses a zlib decompressobj and
never checks that the stream reached its end (decompressobj.eof), the size in the
"blob <n>\\0" header is only checked to be an integer, and from_file() pins the id
with FixedSha(sha) instead of hashing.  So for almost every truncation point of a
loose object file the store hands out a prefix of the content as if it were the
object.  C git refuses the same file.
"""
import hashlib
import os
import shutil
import subprocess
import sys
import tempfile
import warnings

sys.path.insert(0, "/repo")
warnings.simplefilter("ignore")
from dulwich.object_store import DiskObjectStore  # noqa: E402
from dulwich.objects import Blob  # noqa: E402

os.makedirs((os.environ.get("CORPUS_TMP") or "/tmp"), exist_ok=True)
top = tempfile.mkdtemp(dir=(os.environ.get("CORPUS_TMP") or "/tmp"), prefix="f1-")
env = dict(os.environ, HOME="/nonexistent", GIT_CONFIG_NOSYSTEM="1",
           GIT_CONFIG_GLOBAL="/dev/null")
violations = []
try:
    subprocess.run(["git", "init", "-q", "--bare", top], check=True, env=env)
    objdir = os.path.join(top, "objects")
    content = b"line of text that belongs to the blob\n" * 8 + bytes(range(256))
    blob = Blob.from_string(content)
    store = DiskObjectStore(objdir)
    store.add_object(blob)
    store.close()
    path = os.path.join(objdir, blob.id[:2].decode(), blob.id[2:].decode())
    os.chmod(path, 0o644)
    whole = open(path, "rb").read()
    print(f"blob {blob.id.decode()} is {len(content)} bytes, loose file {len(whole)} bytes")

    silent = 0
    first = None
    for cut in range(1, len(whole)):
        with open(path, "wb") as f:
            f.write(whole[:cut])
        s = DiskObjectStore(objdir)
        try:
            try:
                type_num, raw = s.get_raw(blob.id)
            except Exception:
                continue  # an ordinary error is fine
            actual = hashlib.sha1(b"blob %d\0" % len(raw) + raw).hexdigest().encode()
            if actual != blob.id:
                silent += 1
                if first is None:
                    first = (cut, len(raw), actual)
        finally:
            s.close()
    print(f"get_raw(): {silent} of {len(whole) - 1} truncation points gave data "
          f"that does not hash to the requested name, with no error")
    if silent:
        violations.append("get_raw")

    # one concrete case, compared with C git and with the other read API
    cut = len(whole) // 2
    with open(path, "wb") as f:
        f.write(whole[:cut])
    s = DiskObjectStore(objdir)
    try:
        type_num, raw = s.get_raw(blob.id)
        print(f"cut at {cut}: get_raw -> type {type_num}, {len(raw)} bytes "
              f"(original {len(content)}), prefix of original: {content.startswith(raw)}")
        objs = list(s.iterobjects_subset([blob.id]))
        o = objs[0]
        real = hashlib.sha1(b"blob %d\0" % len(o.data) + o.data).hexdigest().encode()
        print(f"cut at {cut}: iterobjects_subset -> object .id={o.id.decode()} "
              f"len(data)={len(o.data)} real hash={real.decode()}")
        if o.id == blob.id and real != blob.id:
            violations.append("iterobjects_subset")
    except Exception as e:
        print("ordinary error:", type(e).__name__, e)
    finally:
        s.close()
    r = subprocess.run(["git", "--git-dir", top, "cat-file", "blob", blob.id.decode()],
                       env=env, capture_output=True)
    print(f"C git cat-file on the same file: exit {r.returncode}, "
          f"stderr: {r.stderr.decode().strip().splitlines()[:1]}")
finally:
    shutil.rmtree(top, ignore_errors=True)

if violations:
    print("VIOLATION via", violations, "- the property requires an ordinary error or "
          "data that hashes to the name it is stored under")
    sys.exit(1)
print("no violation")
sys.exit(0)
