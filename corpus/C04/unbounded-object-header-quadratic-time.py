#!/venv/bin/python
"""C04 finding 3: a crafted object header makes pack ingestion take time quadratic in
the size of the pack (no prompt termination).

take_msb_bytes()/take_msb_bytes_at() accept an object header of any length (every
byte with the top bit set continues it) and _decode_object_header() then builds the
size with `size += (byte & 0x7f) << (i*7 + 4)` on an ever-growing Python int.  For a
header of n bytes that is O(n^2) work: 0.3 MB of 0xff bytes keep every ingestion path
busy for several seconds, 3 MB for minutes, 30 MB for hours, before the inevitable
OverflowError.  (_decode_delta_base_offset has the same shape.)  C git index-pack
refuses the same pack in a few milliseconds.

The script times the same hostile pack at n and 2n; a linear-time reader would need
about twice as long and well under a second.
"""
import hashlib
import io
import os
import shutil
import struct
import subprocess
import sys
import tempfile
import time
import warnings

sys.path.insert(0, "/repo")
warnings.simplefilter("ignore")
from dulwich.object_store import DiskObjectStore, MemoryObjectStore  # noqa: E402
from dulwich.pack import PackStreamReader  # noqa: E402

ENV = dict(os.environ, HOME="/nonexistent", GIT_CONFIG_NOSYSTEM="1",
           GIT_CONFIG_GLOBAL="/dev/null")


def hostile_pack(n):
    # one object: type blob, size header continued for n bytes
    body = b"PACK" + struct.pack(">LL", 2, 1) + b"\xbf" + b"\xff" * n + b"\x00"
    return body + hashlib.sha1(body).digest()


def timed(fn):
    t = time.perf_counter()
    try:
        fn()
        out = "accepted"
    except Exception as e:
        out = type(e).__name__
    return time.perf_counter() - t, out


def via_stream(pack):
    src = io.BytesIO(pack)
    list(PackStreamReader(hashlib.sha1, src.read).read_objects())


def via_mem_thin(pack):
    src = io.BytesIO(pack)
    MemoryObjectStore().add_thin_pack(src.read, None)


def via_disk_add_pack(pack, top):
    store = DiskObjectStore.init(tempfile.mkdtemp(dir=top))
    try:
        f, commit, abort = store.add_pack()
        f.write(pack)
        commit()
    finally:
        store.close()


def main():
    os.makedirs((os.environ.get("CORPUS_TMP") or "/tmp"), exist_ok=True)
    top = tempfile.mkdtemp(dir=(os.environ.get("CORPUS_TMP") or "/tmp"), prefix="f3-")
    bad = []
    try:
        n = 120_000
        small, big = hostile_pack(n), hostile_pack(2 * n)
        paths = {
            "PackStreamReader.read_objects": via_stream,
            "MemoryObjectStore.add_thin_pack": via_mem_thin,
            "DiskObjectStore.add_pack+commit": lambda p: via_disk_add_pack(p, top),
        }
        for name, fn in paths.items():
            t1, o1 = timed(lambda: fn(small))
            t2, o2 = timed(lambda: fn(big))
            print(f"{name}: {len(small)} byte pack -> {o1} after {t1:.2f}s; "
                  f"{len(big)} byte pack -> {o2} after {t2:.2f}s; ratio {t2 / t1:.1f}")
            if t2 > 1.5 and t2 / t1 > 3.0:
                bad.append(name)
        # oracle: C git on the larger pack
        pk = os.path.join(top, "hostile.pack")
        with open(pk, "wb") as f:
            f.write(big)
        t = time.perf_counter()
        r = subprocess.run(["git", "index-pack", "-o", os.path.join(top, "h.idx"), pk],
                           env=ENV, capture_output=True, cwd=top)
        print(f"git index-pack on the {len(big)} byte pack: exit {r.returncode} after "
              f"{time.perf_counter() - t:.2f}s: {r.stderr.decode().strip()[:80]}")
    finally:
        shutil.rmtree(top, ignore_errors=True)
    if bad:
        print("VIOLATION: ingestion time grows quadratically with a hostile header on",
              bad)
        print("required: hostile input is refused promptly (a size header that does "
              "not fit 64 bits can be refused after ten bytes)")
        sys.exit(1)
    print("no violation")
    sys.exit(0)


if __name__ == "__main__":
    main()
