#!/usr/bin/env python
"""C04 finding 2: DiskObjectStore.add_thin_pack() leaves objects/tmp_pack_* behind
whenever the incoming stream is rejected (bad checksum, bad zlib, missing base...)."""
import hashlib, io, os, shutil, struct, sys, tempfile, warnings, zlib
sys.path.insert(0, "/repo")
warnings.simplefilter("ignore")
from dulwich.object_store import DiskObjectStore
from dulwich.objects import Blob


def obj(t, payload, extra=b""):
    size = len(payload); b = (t << 4) | (size & 15); size >>= 4; h = []
    while size:
        h.append(b | 0x80); b = size & 0x7F; size >>= 7
    h.append(b)
    return bytes(h) + extra + zlib.compress(payload)


def pack(objs):
    d = b"PACK" + struct.pack(">LL", 2, len(objs)) + b"".join(objs)
    return d + hashlib.sha1(d).digest()


def listing(root):
    return sorted(os.path.relpath(os.path.join(d, f), root)
                  for d, _, fs in os.walk(root) for f in fs)


good = pack([obj(3, b"hello\n")])
cases = {
    "last trailer bit flipped": good[:-1] + bytes([good[-1] ^ 1]),
    "bit flipped in zlib data": good[:20] + bytes([good[20] ^ 0x10]) + good[21:],
    "truncated after 18 bytes": good[:18],
    "ref-delta with missing base": pack([obj(7, b"\x06\x06\x90\x06", b"\x42" * 20)]),
}
tmp = tempfile.mkdtemp(prefix="c04f2-")
bad = False
try:
    for label, data in cases.items():
        root = os.path.join(tmp, "objects"); shutil.rmtree(root, ignore_errors=True)
        os.makedirs(root)
        store = DiskObjectStore.init(root)
        store.add_object(Blob.from_string(b"already there\n"))
        before = listing(root)
        stream = io.BytesIO(data)
        try:
            store.add_thin_pack(stream.read, None)
            print(f"[{label}] unexpectedly accepted")
        except Exception as e:
            print(f"[{label}] add_thin_pack failed with {type(e).__name__}: {e}")
        after = listing(root)
        extra = sorted(set(after) - set(before))
        print("   new files after the failure:", extra)
        for name in extra:
            print("   ", name, "holds", os.path.getsize(os.path.join(root, name)),
                  "bytes of the rejected stream")
        if after != before:
            bad = True
        store.close()
finally:
    shutil.rmtree(tmp, ignore_errors=True)

print()
if bad:
    print("VIOLATION: every rejected thin pack leaves objects/tmp_pack_XXXXXX behind;")
    print("add_thin_pack creates it with mkstemp() and never removes it on error.")
    print("The property requires a failed ingestion to leave the object store unchanged.")
    sys.exit(1)
print("no leftover files: property holds")
sys.exit(0)
