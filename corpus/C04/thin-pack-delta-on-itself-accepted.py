"""C04: a thin pack whose only entry is a REF delta naming its own result as base, sent to a store that already holds that object
(loose): add_thin_pack resolves the delta from the store's copy and accepts the pack; afterwards the object no longer reads —
lookups go to the pack first, whose entry stands on itself, and raise UnresolvedDeltas instead of finding the loose file.
tests/test_pack.py::DeltaChainIteratorTests::test_ext_ref_deltified_object_based_on_itself requires the indexing to succeed."""
import hashlib, io, os, shutil, struct, sys, tempfile, zlib
from dulwich.object_store import DiskObjectStore
from dulwich.objects import Blob
from dulwich.pack import create_delta

base = tempfile.mkdtemp(dir=os.environ.get("CORPUS_TMP") or None)
rc = 0
try:
    store = DiskObjectStore.init(base)
    blob = Blob.from_string(b"object number 0\n" * 3)
    store.add_object(blob)
    assert store.get_raw(blob.id)[1] == blob.data
    delta = b"".join(create_delta(blob.data, blob.data))
    body = b"PACK" + struct.pack(">LL", 2, 1)
    n = len(delta)
    hdr = bytearray([(7 << 4) | (n & 0x0F)]); n >>= 4
    while n:
        hdr[-1] |= 0x80; hdr.append(n & 0x7F); n >>= 7
    body += bytes(hdr) + bytes.fromhex(blob.id.decode()) + zlib.compress(delta)
    data = body + hashlib.sha1(body).digest()
    try:
        store.add_thin_pack(io.BytesIO(data).read, None)
        print("the pack was accepted")
    except Exception as e:  # noqa: BLE001
        print("the pack was refused:", type(e).__name__)
        sys.exit(0)
    try:
        ok = store.get_raw(blob.id)[1] == blob.data
        print("the object still reads:", ok)
        rc = 0 if ok else 1
    except Exception as e:  # noqa: BLE001
        print("VIOLATION: after the accepted ingestion the object raises", type(e).__name__, "(it was readable before)")
        rc = 1
    store.close()
finally:
    shutil.rmtree(base, ignore_errors=True)
sys.exit(rc)
