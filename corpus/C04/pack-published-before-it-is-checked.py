#!/venv/bin/python
"""C04 finding 2: DiskObjectStore publishes a pack BEFORE the check that refuses it.

DiskObjectStore._complete_pack() renames the temporary file to
objects/pack/pack-<sha>.pack, writes pack-<sha>.idx next to it, and only then runs
its own gate (check_length_and_checksum + PackInflater over every object).  If the
gate refuses the pack (here: a tree with a garbage mode, which the indexer happily
hashes), the two files are removed again.  Between the index write and the removal
the refused objects are visible to every other reader of the repository, and if the
process dies in that window the refused pack stays in the store for good.

Part A: a second DiskObjectStore (stand-in for a concurrent reader) looks at the
        repository at the moment the gate starts.  Deterministic: the look is taken
        from a wrapper around PackInflater.for_pack_data that only observes.
Part B: the ingesting process is killed (os._exit) at the same point; afterwards
        dulwich and C git both serve the object that the library meant to refuse.
Both for add_pack()+commit() and for add_thin_pack()."""
import hashlib
import io
import os
import shutil
import struct
import subprocess
import sys
import tempfile
import warnings
import zlib

sys.path.insert(0, "/repo"); warnings.simplefilter("ignore")
import dulwich.object_store as osmod  # noqa: E402
from dulwich.object_store import DiskObjectStore  # noqa: E402

ENV = dict(os.environ, HOME="/nonexistent", GIT_CONFIG_NOSYSTEM="1",
           GIT_CONFIG_GLOBAL="/dev/null")


def enc(type_num, data):
    size = len(data)
    c = (type_num << 4) | (size & 0xF)
    size >>= 4
    hdr = bytearray()
    while size:
        hdr.append(c | 0x80)
        c = size & 0x7F
        size >>= 7
    hdr.append(c)
    return bytes(hdr) + zlib.compress(data)


BLOB = b"payload\n"
BAD_TREE = b"1zz644 a\0" + hashlib.sha1(b"blob 8\0" + BLOB).digest()
BAD_ID = hashlib.sha1(b"tree %d\0" % len(BAD_TREE) + BAD_TREE).hexdigest().encode()
body = b"PACK" + struct.pack(">LL", 2, 2) + enc(3, BLOB) + enc(2, BAD_TREE)
PACK = body + hashlib.sha1(body).digest()


def ingest(store, path_kind):
    if path_kind == "add_pack":
        f, commit, abort = store.add_pack()
        f.write(PACK)
        commit()
    else:
        src = io.BytesIO(PACK)
        store.add_thin_pack(src.read, None)


def child(objdir, path_kind):
    """Part B helper: die at the start of the library's own validation step."""
    osmod.PackInflater.for_pack_data = lambda *a, **k: os._exit(77)
    ingest(DiskObjectStore(objdir), path_kind)
    os._exit(0)


def main():
    os.makedirs((os.environ.get("CORPUS_TMP") or "/tmp"), exist_ok=True)
    bad = []
    for path_kind in ("add_pack", "add_thin_pack"):
        # ---- Part A: concurrent reader ----
        top = tempfile.mkdtemp(dir=(os.environ.get("CORPUS_TMP") or "/tmp"), prefix="f2-")
        try:
            subprocess.run(["git", "init", "-q", "--bare", top], check=True, env=ENV)
            objdir = os.path.join(top, "objects")
            store = DiskObjectStore(objdir)
            orig = osmod.PackInflater.for_pack_data
            seen = []

            def observe(pd, resolve_ext_ref=None):
                other = DiskObjectStore(objdir)
                try:
                    seen.append((BAD_ID in other, other.get_raw(BAD_ID)[1] == BAD_TREE
                                 if BAD_ID in other else None))
                finally:
                    other.close()
                return orig(pd, resolve_ext_ref=resolve_ext_ref)

            osmod.PackInflater.for_pack_data = observe
            try:
                ingest(store, path_kind)
                outcome = "accepted"
            except Exception as e:
                outcome = f"refused with {type(e).__name__}: {e}"
            finally:
                osmod.PackInflater.for_pack_data = orig
            store.close()
            after = DiskObjectStore(objdir)
            still = BAD_ID in after
            after.close()
            print(f"[{path_kind}] A: ingestion {outcome}; a second reader saw the "
                  f"malformed tree during ingestion: {seen}; visible afterwards: {still}")
            if outcome.startswith("refused") and any(s[0] for s in seen):
                bad.append(f"{path_kind}: refused object visible to a concurrent reader")
        finally:
            shutil.rmtree(top, ignore_errors=True)

        # ---- Part B: crash point ----
        top = tempfile.mkdtemp(dir=(os.environ.get("CORPUS_TMP") or "/tmp"), prefix="f2-")
        try:
            subprocess.run(["git", "init", "-q", "--bare", top], check=True, env=ENV)
            objdir = os.path.join(top, "objects")
            r = subprocess.run([sys.executable, __file__, "--child", objdir, path_kind])
            s = DiskObjectStore(objdir)
            present = BAD_ID in s
            s.close()
            g = subprocess.run(["git", "--git-dir", top, "cat-file", "-t", BAD_ID.decode()],
                               env=ENV, capture_output=True)
            print(f"[{path_kind}] B: writer died (exit {r.returncode}) at the start of "
                  f"validation; pack dir now: {sorted(os.listdir(os.path.join(objdir, 'pack')))}; "
                  f"dulwich has the tree: {present}; git cat-file -t: "
                  f"{g.stdout.decode().strip() or g.stderr.decode().strip()}")
            if r.returncode == 77 and present:
                bad.append(f"{path_kind}: refused pack survives a crash and is used")
        finally:
            shutil.rmtree(top, ignore_errors=True)

    if bad:
        print("VIOLATION:", "; ".join(bad))
        print("required: a pack that ingestion refuses never becomes visible; "
              "validate before renaming it into objects/pack and writing its .idx")
        sys.exit(1)
    print("no violation")
    sys.exit(0)


if __name__ == "__main__":
    if len(sys.argv) > 1 and sys.argv[1] == "--child":
        child(sys.argv[2], sys.argv[3])
    main()
