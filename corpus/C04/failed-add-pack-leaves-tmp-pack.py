#!/usr/bin/env python
"""C04 finding 1: DiskObjectStore.add_pack()/commit() and add_pack_data() leave a
temporary pack file in objects/pack when ingestion of a corrupt pack fails."""
import hashlib, os, shutil, struct, sys, tempfile, warnings, zlib
sys.path.insert(0, "/repo")
warnings.simplefilter("ignore")
from dulwich.object_store import DiskObjectStore


def obj(t, payload, extra=b""):
    size = len(payload); b = (t << 4) | (size & 15); size >>= 4; h = []
    while size:
        h.append(b | 0x80); b = size & 0x7F; size >>= 7
    h.append(b)
    return bytes(h) + extra + zlib.compress(payload)


def pack(objs):
    d = b"PACK" + struct.pack(">LL", 2, len(objs)) + b"".join(objs)
    return d + hashlib.sha1(d).digest()


def listing(root):
    return sorted(os.path.relpath(os.path.join(d, f), root)
                  for d, _, fs in os.walk(root) for f in fs)


good = pack([obj(3, b"hello\n")])
cases = {
    # one flipped bit inside the deflate stream of the only object
    "bit flipped in zlib data": good[:20] + bytes([good[20] ^ 0x10]) + good[21:],
    # truncated in the middle
    "truncated pack": good[:18],
    # REF_DELTA (type 7) against a base that exists nowhere; trailer is correct
    "ref-delta with missing base": pack([obj(7, b"\x06\x06\x90\x06", b"\x42" * 20)]),
}
tmp = tempfile.mkdtemp(prefix="c04f1-")
bad = False
try:
    for label, data in cases.items():
        root = os.path.join(tmp, "objects"); shutil.rmtree(root, ignore_errors=True)
        os.makedirs(root)
        store = DiskObjectStore.init(root)
        before = listing(root)
        f, commit, abort = store.add_pack()
        f.write(data)
        try:
            commit()
            print(f"[{label}] unexpectedly accepted")
        except Exception as e:
            print(f"[{label}] commit() failed with {type(e).__name__}: {e}")
        after = listing(root)
        print("   files before:", before, " files after:", after)
        if after != before:
            bad = True
        try:
            store.close()
        except Exception:
            pass

    # Same thing through the library's own wrapper add_pack_data(), which calls
    # abort() only when *writing* fails, not when commit() fails.
    root = os.path.join(tmp, "objects2"); os.makedirs(root)
    store = DiskObjectStore.init(root)
    before = listing(root)
    from dulwich.pack import REF_DELTA, UnpackedObject
    unpacked = [UnpackedObject(REF_DELTA, delta_base=b"\x42" * 20,
                               decomp_chunks=[b"\x06\x06\x90\x06"], sha=b"\x01" * 20)]
    try:
        store.add_pack_data(len(unpacked), iter(unpacked))
        print("[add_pack_data] unexpectedly accepted")
    except Exception as e:
        print(f"[add_pack_data] failed with {type(e).__name__}: {e}")
    after = listing(root)
    print("   files before:", before, " files after:", after)
    if after != before:
        bad = True
    try:
        store.close()
    except Exception:
        pass
finally:
    shutil.rmtree(tmp, ignore_errors=True)

print()
if bad:
    print("VIOLATION: a failed ingestion left objects/pack/tmp*.pack behind "
          "(holding the rejected, attacker-supplied bytes).")
    print("The property requires a failed ingestion to leave the object store unchanged.")
    sys.exit(1)
print("no leftover files: property holds")
sys.exit(0)
