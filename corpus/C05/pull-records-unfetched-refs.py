#!/usr/bin/env python
"""C05 finding 6: porcelain.pull() records remote refs whose objects it never fetched.

porcelain.pull() negotiates only the refs selected by its refspecs (default:
just HEAD) - its determine_wants() returns those shas and nothing else - but
after the transfer it calls
    _import_remote_refs(r.refs, remote_name, fetch_result.refs)
with the *complete* ref advertisement.  Every other remote branch is written to
refs/remotes/<remote>/* and every remote tag to refs/tags/*, although none of
their objects were asked for.  After a successful pull the receiver therefore
holds refs that name objects absent from its object store (git fsck: "invalid
sha1 pointer"), i.e. a repository that was complete before the fetch is not
complete after it.  It is independent of the transport; shown here for the
in-process local transport and for dulwich's TCP server.
Exit status 1 = violation present.
"""
import io
import os
import shutil
import sys
import tempfile
import threading

sys.path.insert(0, "/repo")
from dulwich import porcelain
from dulwich.objects import Blob, Commit, Tag, Tree
from dulwich.repo import Repo
from dulwich.server import FileSystemBackend, TCPGitServer

BASE = (os.environ.get("CORPUS_TMP") or "/tmp")
os.makedirs(BASE, exist_ok=True)
d = tempfile.mkdtemp(dir=BASE, prefix="finding6-")


def commit(repo, n, parents):
    b = Blob.from_string(b"content %d\n" % n)
    t = Tree()
    t.add(b"file", 0o100644, b.id)
    c = Commit()
    c.tree, c.parents = t.id, parents
    c.author = c.committer = b"A <a@example.com>"
    c.author_time = c.commit_time = 1000 + n
    c.author_timezone = c.commit_timezone = 0
    c.message = b"commit %d" % n
    for o in (b, t, c):
        repo.object_store.add_object(o)
    return c


rc = 0
try:
    srv = TCPGitServer(FileSystemBackend("/"), "127.0.0.1", 0)
    threading.Thread(target=srv.serve_forever, daemon=True).start()
    for kind in ("local", "tcp"):
        src_path = os.path.join(d, "src-" + kind)
        src = Repo.init_bare(src_path, mkdir=True)
        c0 = commit(src, 0, [])
        c1 = commit(src, 1, [c0.id])
        src.refs[b"refs/heads/master"] = c1.id
        src.refs.set_symbolic_ref(b"HEAD", b"refs/heads/master")

        url = src_path if kind == "local" else "git://127.0.0.1:%d%s" % (srv.server_address[1], src_path)
        sink = io.BytesIO()
        clone = porcelain.clone(url, os.path.join(d, "clone-" + kind), errstream=sink)

        # upstream moves on: one more commit on master, a new branch and a new annotated tag
        c2 = commit(src, 2, [c1.id])
        t1 = commit(src, 5, [c0.id])
        tag = Tag()
        tag.name, tag.tagger, tag.tag_time, tag.tag_timezone = b"v1", b"T <t@example.com>", 2000, 0
        tag.message, tag.object = b"v1", (Commit, t1.id)
        src.object_store.add_object(tag)
        src.refs[b"refs/heads/master"] = c2.id
        src.refs[b"refs/heads/topic"] = t1.id
        src.refs[b"refs/tags/v1"] = tag.id
        src.close()

        porcelain.pull(clone, "origin", outstream=sink, errstream=sink)
        print("[%s] porcelain.pull(repo, 'origin') succeeded; receiver refs:" % kind)
        dangling = []
        for name, sha in sorted(clone.get_refs().items()):
            present = sha in clone.object_store
            print("    %-28s %s  %s" % (name.decode(), sha.decode()[:12], "ok" if present else "OBJECT MISSING"))
            if not present:
                dangling.append(name)
        clone.close()
        if dangling:
            print("[%s] VIOLATION: %d ref(s) were transferred without their objects: %s"
                  % (kind, len(dangling), [n.decode() for n in dangling]))
            rc = 1
    srv.shutdown()
    if rc:
        print("The property requires the receiver to hold every object reachable from the refs that were")
        print("transferred.  Either 'topic' and 'v1' must be fetched too, or (as C git does on")
        print("`git pull origin`/`git fetch origin master`) refs that were not fetched must not be written.")
    else:
        print("no violation")
finally:
    shutil.rmtree(d, ignore_errors=True)
sys.stdout.flush()
os._exit(rc)
