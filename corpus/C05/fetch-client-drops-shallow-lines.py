#!/usr/bin/env python
"""C05 finding 2: the dulwich fetch client loses "shallow" lines, so a
depth-limited fetch leaves commits whose parents are missing and unrecorded.

In protocol v0/v1 the server answers "deepen N" immediately with its
shallow/unshallow lines, before it reads any "have".  _handle_upload_pack_head
(dulwich/client.py) only reads them after "done"; while it is still sending
haves it polls can_read() and treats whatever packet is pending as an ACK
("parts[0] == b'ACK'" else ignore).  Every pending "shallow <sha>" line that is
consumed there is silently dropped, so the commit is stored with its parents
cut off but never written to the shallow file.

The server here is C git's own git-upload-pack (SubprocessGitClient), so the
peer is known-good.  The only thing the script adds is a graph walker that
takes 0.5s to produce its (single) have - as a walker over a big repository
would - to make the ordering deterministic.  Public API only
(GitClient.fetch_pack + the same add_pack/update_shallow steps GitClient.fetch
performs).  Exit status 1 = violation present.
"""
import os
import shutil
import sys
import tempfile
import time

sys.path.insert(0, "/repo")
os.environ.update(HOME="/nonexistent", GIT_CONFIG_NOSYSTEM="1", GIT_CONFIG_GLOBAL="/dev/null")
from dulwich.client import SubprocessGitClient
from dulwich.objects import Blob, Commit, Tree
from dulwich.repo import Repo

BASE = (os.environ.get("CORPUS_TMP") or "/tmp")
os.makedirs(BASE, exist_ok=True)
d = tempfile.mkdtemp(dir=BASE, prefix="finding2-")


def commit(repo, n, parents):
    b = Blob.from_string(b"content %d\n" % n)
    t = Tree()
    t.add(b"file", 0o100644, b.id)
    c = Commit()
    c.tree, c.parents = t.id, parents
    c.author = c.committer = b"A <a@example.com>"
    c.author_time = c.commit_time = 1000 + n
    c.author_timezone = c.commit_timezone = 0
    c.message = b"commit %d" % n
    for o in (b, t, c):
        repo.object_store.add_object(o)
    return c


class SlowWalker:
    """Delegates to the repository's own graph walker, but is slow."""

    def __init__(self, inner):
        self.inner = inner
        self.shallow = inner.shallow

    def __next__(self):
        time.sleep(0.5)
        return next(self.inner)

    def ack(self, sha):
        self.inner.ack(sha)

    def nak(self):
        self.inner.nak()


rc = 0
try:
    src = Repo.init_bare(os.path.join(d, "src"), mkdir=True)
    c0 = commit(src, 0, [])
    a1 = commit(src, 1, [c0.id]); a2 = commit(src, 2, [a1.id])
    b1 = commit(src, 3, [c0.id]); b2 = commit(src, 4, [b1.id])
    src.refs[b"refs/heads/base"] = c0.id
    src.refs[b"refs/heads/a"] = a2.id
    src.refs[b"refs/heads/b"] = b2.id
    src.refs.set_symbolic_ref(b"HEAD", b"refs/heads/base")

    # receiver: complete repository that already has the root commit
    dst = Repo.init_bare(os.path.join(d, "dst"), mkdir=True)
    for sha in (c0.id, c0.tree, src[c0.tree][b"file"][1]):
        dst.object_store.add_object(src[sha])
    dst.refs[b"refs/heads/base"] = c0.id
    src.close()

    client = SubprocessGitClient(thin_packs=False)
    f, pack_commit, pack_abort = dst.object_store.add_pack()
    result = client.fetch_pack(
        os.path.join(d, "src"),
        lambda refs, depth=None: [refs[b"refs/heads/a"], refs[b"refs/heads/b"]],
        SlowWalker(dst.get_graph_walker()),
        f.write,
        depth=1,
    )
    pack_commit()
    dst.update_shallow(result.new_shallow, result.new_unshallow)
    dst.refs[b"refs/heads/a"] = a2.id
    dst.refs[b"refs/heads/b"] = b2.id
    print("fetch of heads a and b with depth=1 succeeded")
    print("shallow lines the client reported :", sorted(s.decode() for s in result.new_shallow))
    print("shallow lines C git sent (expected):", sorted(s.decode() for s in (a2.id, b2.id)))
    shallow = dst.get_shallow()
    bad = []
    for name, tip, parent in ((b"a", a2, a1), (b"b", b2, b1)):
        if tip.id not in shallow and parent.id not in dst.object_store:
            bad.append((name, tip.id, parent.id))
    dst.close()
    if bad:
        for name, tip, parent in bad:
            print("VIOLATION: refs/heads/%s -> %s is not in the shallow file, but its parent %s is missing"
                  % (name.decode(), tip.decode(), parent.decode()))
        print("The property requires every object reachable from a fetched ref to be present (or the cut")
        print("to be recorded as shallow).  The 'shallow' line was read in the have loop and thrown away.")
        rc = 1
    else:
        print("no violation: both depth-1 tips are recorded as shallow")
finally:
    shutil.rmtree(d, ignore_errors=True)
sys.stdout.flush()
os._exit(rc)
