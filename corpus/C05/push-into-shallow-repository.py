#!/usr/bin/env python
"""C05 finding 5: pushing into a shallow dulwich-served repository omits objects.

The receiver is a depth-1 clone (made by C git, so its state is beyond doubt):
it has master's tip c3 and a shallow file listing c3.  A complete dulwich
repository pushes branch "side" (s1, forked from the old commit c1).  The
sender computes the pack with have = {c3}; MissingObjectFinder assumes the
receiver owns all ancestors of c3, so c1 and c0 are left out.  Neither
dulwich's receive-pack server (ReceivePackHandler) nor LocalGitClient.send_pack
advertise the receiver's "shallow" lines, and neither checks connectivity
before updating the ref.  The push reports success and the receiver has
refs/heads/side -> s1 -> <missing c1>, while s1 is not in the shallow file.

C git's receive-pack prevents this: it advertises "shallow c3" (send-pack then
treats c3 as parentless) and verifies connectivity.  Because dulwich's server
does neither, even C git's own `git push` into it produces the hole (3rd case).
Exit status 1 = violation present.
"""
import os
import shutil
import subprocess
import sys
import tempfile
import threading

sys.path.insert(0, "/repo")
from dulwich.client import LocalGitClient, TCPGitClient
from dulwich.objects import Blob, Commit, Tag, Tree
from dulwich.repo import Repo
from dulwich.server import FileSystemBackend, TCPGitServer

BASE = (os.environ.get("CORPUS_TMP") or "/tmp")
os.makedirs(BASE, exist_ok=True)
d = tempfile.mkdtemp(dir=BASE, prefix="finding5-")
GITENV = dict(os.environ, HOME="/nonexistent", GIT_CONFIG_NOSYSTEM="1", GIT_CONFIG_GLOBAL="/dev/null")


def commit(repo, n, parents):
    b = Blob.from_string(b"content %d\n" % n)
    t = Tree()
    t.add(b"file", 0o100644, b.id)
    c = Commit()
    c.tree, c.parents = t.id, parents
    c.author = c.committer = b"A <a@example.com>"
    c.author_time = c.commit_time = 1000 + n
    c.author_timezone = c.commit_timezone = 0
    c.message = b"commit %d" % n
    for o in (b, t, c):
        repo.object_store.add_object(o)
    return c


def missing_closure(repo, root):
    shallow = repo.get_shallow()
    todo, seen, missing = [root], set(), []
    while todo:
        s = todo.pop()
        if s in seen:
            continue
        seen.add(s)
        try:
            o = repo.object_store[s]
        except KeyError:
            missing.append(s)
            continue
        if isinstance(o, Commit):
            todo.append(o.tree)
            if s not in shallow:
                todo.extend(o.parents)
        elif isinstance(o, Tree):
            todo.extend(e.sha for e in o.iteritems())
        elif isinstance(o, Tag):
            todo.append(o.object[1])
    return missing


rc = 0
try:
    src_path = os.path.join(d, "src")
    src = Repo.init_bare(src_path, mkdir=True)
    cs = [commit(src, 0, [])]
    for i in range(1, 4):
        cs.append(commit(src, i, [cs[-1].id]))
    s1 = commit(src, 10, [cs[1].id])
    src.refs[b"refs/heads/master"] = cs[3].id
    src.refs[b"refs/heads/side"] = s1.id
    src.refs.set_symbolic_ref(b"HEAD", b"refs/heads/master")

    srv = TCPGitServer(FileSystemBackend("/"), "127.0.0.1", 0)
    threading.Thread(target=srv.serve_forever, daemon=True).start()

    for kind in ("local", "tcp", "cgit-client"):
        dst_path = os.path.join(d, "dst-" + kind)
        subprocess.run(["git", "clone", "-q", "--bare", "--depth=1", "--single-branch", "--branch=master",
                        "file://" + src_path, dst_path], check=True, env=GITENV)
        client = LocalGitClient() if kind == "local" else TCPGitClient("127.0.0.1", port=srv.server_address[1])
        try:
            if kind == "cgit-client":  # C git's own `git push` talking to dulwich's receive-pack server
                url = "git://127.0.0.1:%d%s" % (srv.server_address[1], dst_path)
                res = subprocess.run(["git", "push", "-q", url, "refs/heads/side:refs/heads/side"],
                                     cwd=src_path, env=GITENV, check=True)
                res.ref_status = "git push exit status %d" % res.returncode
            else:
                res = client.send_pack(dst_path, lambda refs: {**refs, b"refs/heads/side": s1.id},
                                       src.generate_pack_data)
        except Exception as e:  # a refusal would be acceptable behaviour
            print("[%s] push refused: %r" % (kind, e))
            continue
        dst = Repo(dst_path)
        print("[%s] receiver before: master=%s shallow=[%s]; push status: %s"
              % (kind, cs[3].id.decode()[:10], ",".join(s.decode()[:10] for s in dst.get_shallow()),
                 res.ref_status or "ok"))
        miss = []
        for name in (b"refs/heads/master", b"refs/heads/side"):
            if name in dst.refs:
                miss += missing_closure(dst, dst.refs[name])
        print("[%s] receiver after : side=%s" % (kind, dst.refs[b"refs/heads/side"].decode()[:10]
                                                 if b"refs/heads/side" in dst.refs else None))
        dst.close()
        if miss:
            print("[%s] VIOLATION: reachable from the receiver's refs, not behind its shallow boundary, absent: %s"
                  % (kind, sorted({m.decode() for m in miss})))
            rc = 1
    src.close()
    srv.shutdown()
    if rc:
        print("The property requires that after a successful push the receiver holds everything reachable")
        print("from the pushed ref (s1, c1, c0 and their trees/blobs), whatever history it had before.")
    else:
        print("no violation")
finally:
    shutil.rmtree(d, ignore_errors=True)
sys.stdout.flush()
os._exit(rc)
