#!/usr/bin/env python
"""C05 finding 3: a local (in-process) fetch reports refs it did not transfer.

Repo.fetch / LocalGitClient.fetch / LocalGitClient.fetch_pack read the
sender's refs twice: once in Repo.find_missing_objects (that snapshot decides
what is packed) and a second time, after the pack has been generated, for the
FetchPackResult they return ("return self.get_refs()").  porcelain.fetch,
porcelain.clone and Repo.clone then point refs/remotes/*, refs/tags/* and HEAD
at the *second* snapshot.  If another process commits to the sender between
the two reads, the receiver gets a ref naming a commit that was never sent.
Every other transport (and C git) uses the single ref advertisement for both.

The concurrent writer is simulated deterministically: porcelain.fetch writes
progress ("counting objects...") to the errstream the caller supplies, after
the first ref snapshot and before the second; our errstream performs the
other process's commit at exactly that moment.  Exit status 1 = violation.
"""
import io
import os
import shutil
import sys
import tempfile

sys.path.insert(0, "/repo")
from dulwich import porcelain
from dulwich.objects import Blob, Commit, Tree
from dulwich.repo import Repo

BASE = (os.environ.get("CORPUS_TMP") or "/tmp")
os.makedirs(BASE, exist_ok=True)
d = tempfile.mkdtemp(dir=BASE, prefix="finding3-")


def commit(repo, n, parents):
    b = Blob.from_string(b"content %d\n" % n)
    t = Tree()
    t.add(b"file", 0o100644, b.id)
    c = Commit()
    c.tree, c.parents = t.id, parents
    c.author = c.committer = b"A <a@example.com>"
    c.author_time = c.commit_time = 1000 + n
    c.author_timezone = c.commit_timezone = 0
    c.message = b"commit %d" % n
    for o in (b, t, c):
        repo.object_store.add_object(o)
    return c


rc = 0
try:
    src_path = os.path.join(d, "src")
    src = Repo.init_bare(src_path, mkdir=True)
    c0 = commit(src, 0, [])
    c1 = commit(src, 1, [c0.id])
    src.refs[b"refs/heads/master"] = c1.id
    src.refs.set_symbolic_ref(b"HEAD", b"refs/heads/master")
    src.close()

    dst = Repo.init_bare(os.path.join(d, "dst"), mkdir=True)
    cfg = dst.get_config()
    cfg.set((b"remote", b"origin"), b"url", src_path.encode())
    cfg.set((b"remote", b"origin"), b"fetch", b"+refs/heads/*:refs/remotes/origin/*")
    cfg.write_to_path()

    class OtherProcess(io.RawIOBase):
        """errstream; the first progress message triggers the concurrent commit."""
        new_tip = None

        def write(self, data):
            if OtherProcess.new_tip is None:
                other = Repo(src_path)  # a second, independent handle on the sender
                c2 = commit(other, 2, [other.refs[b"refs/heads/master"]])
                other.refs[b"refs/heads/master"] = c2.id
                other.close()
                OtherProcess.new_tip = c2.id
            return len(data)

    porcelain.fetch(dst, "origin", errstream=OtherProcess())
    tip = dst.refs[b"refs/remotes/origin/master"]
    print("master when the fetch decided what to send :", c1.id.decode())
    print("concurrent commit made during the fetch    :", OtherProcess.new_tip.decode())
    print("porcelain.fetch succeeded; refs/remotes/origin/master =", tip.decode())
    present = tip in dst.object_store
    dst.close()
    if not present:
        print("VIOLATION: the receiver's ref names a commit that is not in its object store.")
        print("The property requires the receiver to hold every object reachable from the refs that")
        print("were transferred; the ref must be the one the pack was computed for (c1), or c2 must")
        print("have been sent with it.")
        rc = 1
    else:
        print("no violation: the ref target is present")
finally:
    shutil.rmtree(d, ignore_errors=True)
sys.stdout.flush()
os._exit(rc)
