#!/usr/bin/env python
"""C05 finding 4: pushing from a shallow dulwich repository silently creates an
incomplete receiver.

Repo.generate_pack_data() stops the object walk at the sender's own shallow
commits (shallow=self.get_shallow()), but neither send_pack implementation
tells the receiver about that cut (C git's send-pack transmits "shallow <sha>"
lines; receive-pack then refuses the update unless receive.shallowUpdate is
set, or records the boundary).  dulwich's receivers - LocalGitClient.send_pack
and ReceivePackHandler - only check that the ref tip itself arrived.  Result:
"push successful", and the previously complete (empty) receiver now has
refs/heads/master -> c3 -> c2 -> <missing c1>, with no shallow file.

Sender state is produced by an ordinary depth-limited clone
(porcelain.clone(depth=2)).  Two receiver transports are exercised: in-process
local and dulwich's TCP server.  Exit status 1 = violation present.
"""
import io
import os
import shutil
import sys
import tempfile
import threading

sys.path.insert(0, "/repo")
from dulwich import porcelain
from dulwich.objects import Blob, Commit, Tag, Tree
from dulwich.repo import Repo
from dulwich.server import FileSystemBackend, TCPGitServer

BASE = (os.environ.get("CORPUS_TMP") or "/tmp")
os.makedirs(BASE, exist_ok=True)
d = tempfile.mkdtemp(dir=BASE, prefix="finding4-")


def commit(repo, n, parents):
    b = Blob.from_string(b"content %d\n" % n)
    t = Tree()
    t.add(b"file", 0o100644, b.id)
    c = Commit()
    c.tree, c.parents = t.id, parents
    c.author = c.committer = b"A <a@example.com>"
    c.author_time = c.commit_time = 1000 + n
    c.author_timezone = c.commit_timezone = 0
    c.message = b"commit %d" % n
    for o in (b, t, c):
        repo.object_store.add_object(o)
    return c


def missing_closure(repo, root):
    shallow = repo.get_shallow()
    todo, seen, missing = [root], set(), []
    while todo:
        s = todo.pop()
        if s in seen:
            continue
        seen.add(s)
        try:
            o = repo.object_store[s]
        except KeyError:
            missing.append(s)
            continue
        if isinstance(o, Commit):
            todo.append(o.tree)
            if s not in shallow:
                todo.extend(o.parents)
        elif isinstance(o, Tree):
            todo.extend(e.sha for e in o.iteritems())
        elif isinstance(o, Tag):
            todo.append(o.object[1])
    return missing


rc = 0
try:
    src = Repo.init_bare(os.path.join(d, "src"), mkdir=True)
    cs = [commit(src, 0, [])]
    for i in range(1, 4):
        cs.append(commit(src, i, [cs[-1].id]))
    src.refs[b"refs/heads/master"] = cs[3].id
    src.refs.set_symbolic_ref(b"HEAD", b"refs/heads/master")
    src.close()

    srv = TCPGitServer(FileSystemBackend("/"), "127.0.0.1", 0)
    threading.Thread(target=srv.serve_forever, daemon=True).start()

    err, out = io.BytesIO(), io.BytesIO()
    mid = porcelain.clone(os.path.join(d, "src"), os.path.join(d, "mid"), bare=True, depth=2, errstream=err)
    print("sender = porcelain.clone(depth=2); its shallow file:", sorted(s.decode() for s in mid.get_shallow()))

    for kind in ("local", "tcp"):
        dst_path = os.path.join(d, "dst-" + kind)
        Repo.init_bare(dst_path, mkdir=True).close()
        url = dst_path if kind == "local" else "git://127.0.0.1:%d%s" % (srv.server_address[1], dst_path)
        try:
            porcelain.push(mid, url, b"refs/heads/master:refs/heads/master", outstream=out, errstream=err)
        except Exception as e:  # a refusal would be acceptable behaviour
            print("[%s] push refused: %r" % (kind, e))
            continue
        dst = Repo(dst_path)
        tip = dst.refs[b"refs/heads/master"] if b"refs/heads/master" in dst.refs else None
        print("[%s] push reported success; receiver refs/heads/master = %s, receiver shallow file = %s"
              % (kind, tip and tip.decode(), sorted(dst.get_shallow())))
        miss = missing_closure(dst, tip) if tip else []
        dst.close()
        if miss:
            print("[%s] VIOLATION: reachable from the pushed ref but absent from the receiver: %s"
                  % (kind, [m.decode() for m in miss]))
            rc = 1
    mid.close()
    srv.shutdown()
    if rc:
        print("The property requires a receiver that was complete before the push to be complete after it:")
        print("either c1 and c0 must arrive, or the cut must be recorded (shallow), or the push must be refused")
        print("(what C git's receive-pack does: 'shallow update not allowed').")
    else:
        print("no violation")
finally:
    shutil.rmtree(d, ignore_errors=True)
sys.stdout.flush()
os._exit(rc)
