#!/usr/bin/env python
"""C05 finding 7 (error path / crash point): a local deepening fetch rewrites the
receiver's shallow file before any object has been transferred.

Repo.find_missing_objects() (used by Repo.fetch / LocalGitClient.fetch*) calls
graph_walker.update_shallow(new_shallow, unshallow) - i.e. the *receiver's*
Repo.update_shallow - while it is still deciding what to send.  The pack is
generated and stored only afterwards.  If anything interrupts the transfer in
between (here: the progress stream raises EPIPE, as a closed stderr pipe does;
ENOSPC, a signal or a crash have the same effect) the receiver keeps the new
shallow file without the objects: the old boundary commit is "unshallowed"
although its parent never arrived, and the new boundary names a commit that is
not even present.  A repository that was complete (modulo its shallow file)
before the operation is incomplete after it, and later fetches do not repair it
because the tip object is present and therefore not requested again.
The network clients do it in the safe order (pack first, shallow file second).
Exit status 1 = violation present.
"""
import io
import os
import shutil
import sys
import tempfile

sys.path.insert(0, "/repo")
from dulwich import porcelain
from dulwich.objects import Blob, Commit, Tree
from dulwich.repo import Repo

BASE = (os.environ.get("CORPUS_TMP") or "/tmp")
os.makedirs(BASE, exist_ok=True)
d = tempfile.mkdtemp(dir=BASE, prefix="finding7-")


def commit(repo, n, parents):
    b = Blob.from_string(b"content %d\n" % n)
    t = Tree()
    t.add(b"file", 0o100644, b.id)
    c = Commit()
    c.tree, c.parents = t.id, parents
    c.author = c.committer = b"A <a@example.com>"
    c.author_time = c.commit_time = 1000 + n
    c.author_timezone = c.commit_timezone = 0
    c.message = b"commit %d" % n
    for o in (b, t, c):
        repo.object_store.add_object(o)
    return c


def holes(repo, tip):
    """Commits reachable from tip (not walking past shallow commits) that are absent."""
    shallow, todo, seen, missing = repo.get_shallow(), [tip], set(), []
    while todo:
        s = todo.pop()
        if s in seen:
            continue
        seen.add(s)
        if s not in repo.object_store:
            missing.append(s)
        elif s not in shallow:
            todo.extend(repo.object_store[s].parents)
    return missing


class ClosedPipe(io.RawIOBase):
    def write(self, data):
        raise BrokenPipeError(32, "Broken pipe")


rc = 0
try:
    src = Repo.init_bare(os.path.join(d, "src"), mkdir=True)
    cs = [commit(src, 0, [])]
    for i in range(1, 5):
        cs.append(commit(src, i, [cs[-1].id]))
    src.refs[b"refs/heads/master"] = cs[4].id
    src.refs.set_symbolic_ref(b"HEAD", b"refs/heads/master")
    src.close()

    sink = io.BytesIO()
    clone = porcelain.clone(os.path.join(d, "src"), os.path.join(d, "clone"), bare=True, depth=1, errstream=sink)
    print("depth-1 clone: tip c4 =", cs[4].id.decode()[:12], "shallow =", sorted(s.decode()[:12] for s in clone.get_shallow()),
          "holes =", holes(clone, cs[4].id))

    try:
        porcelain.fetch(clone, "origin", depth=3, errstream=ClosedPipe())
        print("fetch unexpectedly succeeded")
    except BrokenPipeError as e:
        print("porcelain.fetch(depth=3) was interrupted:", e)

    after = holes(clone, cs[4].id)
    print("after the failed fetch: shallow =", sorted(s.decode()[:12] for s in clone.get_shallow()),
          " (c2 = %s, present: %s)" % (cs[2].id.decode()[:12], cs[2].id in clone.object_store))
    print("                        holes   =", [m.decode()[:12] for m in after])

    porcelain.fetch(clone, "origin", errstream=sink)  # an ordinary later fetch does not heal it
    later = holes(clone, cs[4].id)
    print("after a later plain fetch: holes =", [m.decode()[:12] for m in later])
    clone.close()
    if after:
        print("VIOLATION: refs/heads/master -> c4 is no longer shallow but its parent c3 is missing; the receiver")
        print("was complete before the operation and is not complete after it.  The shallow file must only be")
        print("updated once the objects it accounts for are safely in the object store.")
        rc = 1
    else:
        print("no violation")
finally:
    shutil.rmtree(d, ignore_errors=True)
sys.stdout.flush()
os._exit(rc)
