#!/usr/bin/env python
"""C05 finding 1: dulwich's upload-pack server forgets that the client is shallow.

A shallow clone (depth=1) fetches again with a generous --depth after the
remote branch was rewritten (commit --amend + force push).  The deepen request
produces no new shallow/unshallow lines, and in that case the server
(Repo.find_missing_objects + _ProtocolGraphWalker._handle_shallow_request)
throws the client's "shallow <sha>" lines away and trusts "have <shallow tip>"
as if the client owned the tip's whole ancestry.  The pack omits those
ancestors, the fetch succeeds, and the receiver ends up with a ref whose
history has a hole that is not covered by its shallow file.

Everything goes through public porcelain (clone / fetch) over dulwich's own
WSGI smart-HTTP server.  Exit status 1 = violation present.
"""
import io
import os
import shutil
import sys
import tempfile
import threading

sys.path.insert(0, "/repo")
from dulwich import porcelain
from dulwich.objects import Blob, Commit, Tag, Tree
from dulwich.repo import Repo
from dulwich.server import FileSystemBackend
from dulwich.web import (WSGIRequestHandlerLogger, WSGIServerLogger,
                         make_server, make_wsgi_chain)

BASE = (os.environ.get("CORPUS_TMP") or "/tmp")
os.makedirs(BASE, exist_ok=True)
d = tempfile.mkdtemp(dir=BASE, prefix="finding1-")


def commit(repo, n, parents):
    b = Blob.from_string(b"content %d\n" % n)
    t = Tree()
    t.add(b"file", 0o100644, b.id)
    c = Commit()
    c.tree, c.parents = t.id, parents
    c.author = c.committer = b"A <a@example.com>"
    c.author_time = c.commit_time = 1000 + n
    c.author_timezone = c.commit_timezone = 0
    c.message = b"commit %d" % n
    for o in (b, t, c):
        repo.object_store.add_object(o)
    return c


def missing_closure(repo, root):
    """Objects reachable from root (not walking past shallow commits) that are absent."""
    shallow = repo.get_shallow()
    todo, seen, missing = [root], set(), []
    while todo:
        s = todo.pop()
        if s in seen:
            continue
        seen.add(s)
        try:
            o = repo.object_store[s]
        except KeyError:
            missing.append(s)
            continue
        if isinstance(o, Commit):
            todo.append(o.tree)
            if s not in shallow:
                todo.extend(o.parents)
        elif isinstance(o, Tree):
            todo.extend(e.sha for e in o.iteritems())
        elif isinstance(o, Tag):
            todo.append(o.object[1])
    return missing


class Quiet(WSGIRequestHandlerLogger):
    def log_message(self, *a):
        pass


rc = 0
try:
    src = Repo.init_bare(os.path.join(d, "src"), mkdir=True)
    c0 = commit(src, 0, [])
    c1 = commit(src, 1, [c0.id])
    c2 = commit(src, 2, [c1.id])
    src.refs[b"refs/heads/master"] = c2.id
    src.refs.set_symbolic_ref(b"HEAD", b"refs/heads/master")

    srv = make_server("127.0.0.1", 0, make_wsgi_chain(FileSystemBackend("/")),
                      handler_class=Quiet, server_class=WSGIServerLogger)
    threading.Thread(target=srv.serve_forever, daemon=True).start()
    url = "http://127.0.0.1:%d%s/src" % (srv.server_address[1], d)

    err = io.BytesIO()
    clone = porcelain.clone(url, os.path.join(d, "clone"), bare=True, depth=1, errstream=err)
    print("1. porcelain.clone(depth=1): tip", c2.id.decode(), "shallow file =",
          sorted(s.decode() for s in clone.get_shallow()))

    # the remote amends its tip: c2 is replaced by c2b (same parent c1)
    c2b = commit(src, 22, [c1.id])
    src.refs[b"refs/heads/master"] = c2b.id
    src.close()
    print("2. remote rewrites master: c2 -> c2b", c2b.id.decode(), "(parent c1 = %s)" % c1.id.decode())

    porcelain.fetch(clone, "origin", depth=50, errstream=err)
    new_tip = clone.refs[b"refs/remotes/origin/master"]
    print("3. porcelain.fetch(depth=50) succeeded; refs/remotes/origin/master =", new_tip.decode())
    print("   shallow file =", sorted(s.decode() for s in clone.get_shallow()))
    miss = missing_closure(clone, new_tip)
    clone.close()
    srv.shutdown()
    if miss:
        print("VIOLATION: objects reachable from the fetched ref are absent and not hidden by the shallow file:")
        for m in miss:
            print("   missing", m.decode())
        print("The property requires the receiver to hold c2b, c1 and c0 (depth 50 covers the whole")
        print("3-commit history) or to have the cut recorded in its shallow file.  C git's upload-pack")
        print("registers the client's 'shallow' lines and therefore sends c1 and c0.")
        rc = 1
    else:
        print("no violation: the fetched history is complete")
finally:
    shutil.rmtree(d, ignore_errors=True)
sys.stdout.flush()
os._exit(rc)
