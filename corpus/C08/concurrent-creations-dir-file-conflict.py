#!/usr/bin/env python
"""C08 finding 5: concurrent creations produce a directory/file conflict no serial order allows.

add_if_new() / set_if_equals() refuse a name that collides, as file versus
directory, with a packed ref (_check_packed_refs_collision) -- but that check
runs on a packed-refs snapshot taken BEFORE the ref lock, and is never
repeated under the lock.  A ref created and packed by another actor in
between is not seen, so both refs/heads/foo and refs/heads/foo/bar end up
existing, a state git forbids and that neither serial order can produce
(executed one at a time, the second creation raises).

Scenario: neither ref exists.
  A: add_if_new(refs/heads/foo/bar, X)
  B: (placed between A's collision check and A's mkdir of refs/heads/foo, by
      wrapping os.makedirs, which A calls right after the check)
       add_if_new(refs/heads/foo, Y) -> True ; pack_refs(all=True)
  A: creates directory refs/heads/foo/, writes bar -> True.
Required: one of the two creations fails.
"""
import os
import shutil
import sys
import tempfile

from dulwich.refs import DiskRefsContainer
from dulwich.repo import Repo

X = b"7" * 40
Y = b"8" * 40
FOO = b"refs/heads/foo"
BAR = b"refs/heads/foo/bar"


def serial(path, first):
    """What happens when the two creations run one after the other."""
    c = DiskRefsContainer(path)
    out = []
    for name, val in (first, (BAR, X) if first[0] == FOO else (FOO, Y)):
        try:
            out.append((name, c.add_if_new(name, val)))
        except OSError as e:
            out.append((name, type(e).__name__))
        c.pack_refs(all=True)
    return out


def main():
    os.makedirs((os.environ.get("CORPUS_TMP") or "/tmp"), exist_ok=True)
    tmp = tempfile.mkdtemp(dir=(os.environ.get("CORPUS_TMP") or "/tmp"))
    res = {}
    try:
        for i, first in enumerate(((FOO, Y), (BAR, X))):
            p = os.path.join(tmp, "serial%d.git" % i)
            os.mkdir(p)
            Repo.init_bare(p, default_branch=b"main").close()
            print("serial order %d:" % i, serial(p, first))

        path = os.path.join(tmp, "repo.git")
        os.mkdir(path)
        Repo.init_bare(path, default_branch=b"main").close()
        A = DiskRefsContainer(path)
        B = DiskRefsContainer(path)

        real = os.makedirs
        state = {"armed": True}

        def wrapper(*a, **kw):
            if state["armed"] and os.fsencode(a[0]).endswith(b"/refs/heads/foo"):
                state["armed"] = False
                res["B"] = B.add_if_new(FOO, Y)
                B.pack_refs(all=True)
            return real(*a, **kw)

        os.makedirs = wrapper
        try:
            try:
                res["A"] = A.add_if_new(BAR, X)
            except OSError as e:
                res["A"] = type(e).__name__
        finally:
            os.makedirs = real

        reader = DiskRefsContainer(path)
        foo, bar = reader.read_ref(FOO), reader.read_ref(BAR)
        print("concurrent: B.add_if_new(refs/heads/foo)     ->", res.get("B"))
        print("concurrent: A.add_if_new(refs/heads/foo/bar) ->", res["A"])
        print("final refs/heads/foo     ->", foo)
        print("final refs/heads/foo/bar ->", bar)
    finally:
        shutil.rmtree(tmp, ignore_errors=True)
    if "B" not in res:
        print("hook did not fire; scenario not exercised")
        sys.exit(0)
    if res["A"] is True and res["B"] is True and foo and bar:
        print("VIOLATION: both creations reported success and both refs exist, although"
              " executed one at a time the second one is refused (see serial orders).")
        sys.exit(1)
    print("no violation")
    sys.exit(0)


if __name__ == "__main__":
    main()
