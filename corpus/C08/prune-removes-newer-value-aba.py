#!/usr/bin/env python
"""C08 finding 4: pack_refs' prune step removes a NEWER loose value (ABA) and an older value comes back.

pack_refs() writes packed-refs, releases the packed-refs lock, and only then
prunes each loose file "if it still holds the value that was packed"
(_prune_loose_ref).  Equality with the value *this* packer wrote says nothing
about what packed-refs holds by now: between the write and the prune another
actor may have moved the ref away, had THAT value packed, and moved the ref
back.  The prune then unlinks the loose file and the ref silently falls back
to the other, older value in packed-refs -- a completed update is lost.

Scenario: refs/heads/main loose at V.
  P: pack_refs(all=True): packed-refs now has main=V; lock released.
  B: (placed before P's prune takes the ref lock, by wrapping os.open on
      main.lock, which is the first thing _prune_loose_ref does)
       set_if_equals(main, V, W) -> True
       pack_refs(all=True)               (packed main=W, loose pruned)
       set_if_equals(main, W, V) -> True (loose main=V, packed main=W)
  P: prune: loose == V == "the value that was packed" -> unlink.
Final value of main is W.  B's operations are sequential and its last one set
the ref to V successfully; P never changes values.  In every serial order the
final value is V.
"""
import os
import shutil
import sys
import tempfile

from dulwich.refs import DiskRefsContainer
from dulwich.repo import Repo

V = b"5" * 40
W = b"6" * 40
MAIN = b"refs/heads/main"


def main():
    os.makedirs((os.environ.get("CORPUS_TMP") or "/tmp"), exist_ok=True)
    tmp = tempfile.mkdtemp(dir=(os.environ.get("CORPUS_TMP") or "/tmp"))
    res = {}
    try:
        path = os.path.join(tmp, "repo.git")
        os.mkdir(path)
        Repo.init_bare(path, default_branch=b"main").close()
        DiskRefsContainer(path)[MAIN] = V

        P = DiskRefsContainer(path)
        B = DiskRefsContainer(path)
        lock = os.path.join(os.fsencode(path), b"refs", b"heads", b"main.lock")

        real = os.open
        state = {"armed": True}

        def actor_b():
            res["B1"] = B.set_if_equals(MAIN, V, W)
            B.pack_refs(all=True)
            res["B2"] = B.set_if_equals(MAIN, W, V)
            res["after_B"] = DiskRefsContainer(path).read_ref(MAIN)

        def wrapper(p, *a, **kw):
            if state["armed"] and isinstance(p, (bytes, str)) and os.fsencode(p) == lock:
                state["armed"] = False
                # P has already renamed its packed-refs into place
                res["packed_by_P"] = DiskRefsContainer(path).get_packed_refs().get(MAIN)
                actor_b()
            return real(p, *a, **kw)

        os.open = wrapper
        try:
            P.pack_refs(all=True)
        finally:
            os.open = real

        reader = DiskRefsContainer(path)
        final = reader.read_ref(MAIN)
        print("packed-refs value written by P before B ran ->", res.get("packed_by_P"))
        print("B.set_if_equals(main, V, W)                 ->", res.get("B1"))
        print("B.pack_refs(all=True); B.set_if_equals(main, W, V) ->", res.get("B2"))
        print("value right after B finished                ->", res.get("after_B"))
        print("final value after P finished pruning        ->", final)
    finally:
        shutil.rmtree(tmp, ignore_errors=True)
    if "B2" not in res:
        print("hook did not fire; scenario not exercised")
        sys.exit(0)
    if res["B1"] is True and res["B2"] is True and final != V:
        print("VIOLATION: B's last successful update (W -> V) was undone by the packer's"
              " prune; the older value W came back.")
        print("Required: final value V (pack_refs must never change a ref's value).")
        sys.exit(1)
    print("no violation")
    sys.exit(0)


if __name__ == "__main__":
    main()
