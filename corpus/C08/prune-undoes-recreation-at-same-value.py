#!/usr/bin/env python
"""C08 finding 6: pack_refs prunes a loose ref by comparing its *value* with
what it packed, after packed-refs.lock was released (ABA).  If the ref was
deleted and re-created with the same value in between, the prune removes the
only copy: a creation reported as successful is lost.

Initial state: loose refs/heads/a == X, nothing packed.
Actors (three DiskRefsContainer instances = three processes):
  P: pack_refs(all=True)
  D: remove_if_equals(b"refs/heads/a", X)   -> True  (branch deleted)
  A: add_if_new(b"refs/heads/a", X)         -> True  (branch re-created at X)

Interleaving (P preempted just before open("refs/heads/a.lock") in
_prune_loose_ref, i.e. after packed-refs was renamed and unlocked):
  P  lock packed-refs, pack a == X, rename, unlock
  D  lock a, remove packed entry a, unlink loose a, unlock      -> True
  A  lock a, a exists nowhere, write loose a == X, unlock       -> True
  P  lock a, loose a == X == "the value I packed" -> unlink loose a
Final: refs/heads/a does not exist, although the last operation on it was a
successful add_if_new.  In every serial order of P, D, A in which D and A
both succeed (D before A) the ref exists with value X at the end.
(The prune decision would have to be tied to the packed entry still being
there - e.g. by holding packed-refs.lock over the prune - not to the value.)
"""

import os
import shutil
import sys
import tempfile

from dulwich.refs import DiskRefsContainer
from dulwich.repo import Repo

X = b"1" * 40
NAME = b"refs/heads/a"

os.makedirs((os.environ.get("CORPUS_TMP") or "/tmp"), exist_ok=True)
tmp = tempfile.mkdtemp(dir=(os.environ.get("CORPUS_TMP") or "/tmp"))
try:
    Repo.init_bare(tmp).close()
    DiskRefsContainer(tmp)[NAME] = X
    P = DiskRefsContainer(tmp)
    D = DiskRefsContainer(tmp)
    A = DiskRefsContainer(tmp)

    lock = os.path.join(os.fsencode(tmp), NAME + b".lock")
    real_open = os.open
    res = {}

    def hooked_open(path, flags, *a, **kw):
        if not res and isinstance(path, (bytes, str)) and os.fsencode(path) == lock:
            # P's first open of a.lock is the one in _prune_loose_ref
            res["packed_before"] = DiskRefsContainer(tmp).get_packed_refs().get(NAME)
            res["D"] = D.remove_if_equals(NAME, X)
            res["after_D"] = DiskRefsContainer(tmp).read_ref(NAME)
            res["A"] = A.add_if_new(NAME, X)
            res["after_A"] = DiskRefsContainer(tmp).read_ref(NAME)
        return real_open(path, flags, *a, **kw)

    os.open = hooked_open
    try:
        P.pack_refs(all=True)
    finally:
        os.open = real_open

    chk = DiskRefsContainer(tmp)
    final = chk.read_ref(NAME)
    print("packed value when P reached the prune :", res.get("packed_before"))
    print("D remove_if_equals(a, X) returned       :", res.get("D"),
          " -> value then:", res.get("after_D"))
    print("A add_if_new(a, X) returned             :", res.get("A"),
          " -> value then:", res.get("after_A"))
    print("value after pack_refs finished          :", final,
          "(listed: %s)" % (NAME in chk.allkeys()))
    print("required: a ref whose creation was reported as successful and that "
          "nobody deleted afterwards still exists")
    if res.get("D") is True and res.get("A") is True and final is None:
        print("VIOLATION: the re-created ref was removed by the prune step of "
              "pack_refs")
        sys.exit(1)
    print("no violation")
    sys.exit(0)
finally:
    shutil.rmtree(tmp, ignore_errors=True)
