import os
#!/usr/bin/env python
"""C08 finding 5: commits through the in-memory API (MemoryRepo.do_commit ->
DictRefsContainer.set_if_equals) are not a compare-and-swap; two threads that
commit on the same branch can both be told "success" while one commit is lost.

DictRefsContainer.set_if_equals does
    if old_ref is not None and self._refs.get(name, ZERO_SHA) != old_ref: return False
    ...
    self._refs[name] = new_ref
with nothing that makes the comparison and the store one step.  The class
docstring says "not threadsafe", but MemoryRepo offers no other ref store and
do_commit reports the swap as atomic ("changed during commit" otherwise).

The schedule is forced deterministically with a per-thread trace function (no
library code is changed): thread A is suspended on the line after the
comparison has passed, thread B then runs a complete do_commit, A resumes.
"""

import sys
import threading

from dulwich.objects import Tree
from dulwich.refs import DictRefsContainer
from dulwich.repo import MemoryRepo

REF = b"refs/heads/master"
ident = b"T <t@example.com>"

repo = MemoryRepo()
tree = Tree()
repo.object_store.add_object(tree)
c0 = repo.do_commit(b"base", committer=ident, author=ident, tree=tree.id, ref=REF,
                    commit_timestamp=1, commit_timezone=0)

code = DictRefsContainer.set_if_equals.__code__
# first line after the old-value comparison
lines = [ln for (_, _, ln) in code.co_lines() if ln is not None]
import inspect
src, first = inspect.getsourcelines(DictRefsContainer.set_if_equals)
after_check = next(first + i for i, l in enumerate(src) if "self._check_refname(name)" in l)
assert after_check in lines

a_paused = threading.Event()
b_done = threading.Event()
results = {}


def tracer(frame, event, arg):
    if frame.f_code is not code:
        return None

    def local(frame, event, arg):
        if event == "line" and frame.f_lineno == after_check and not a_paused.is_set():
            a_paused.set()      # comparison passed; now get preempted
            b_done.wait(30)
        return local

    return local


def actor(name, traced):
    if traced:
        sys.settrace(tracer)
    try:
        results[name] = repo.do_commit(
            b"commit by " + name.encode(), committer=ident, author=ident,
            tree=tree.id, ref=REF, commit_timestamp=2, commit_timezone=0)
    except Exception as e:
        results[name] = e
    finally:
        sys.settrace(None)


ta = threading.Thread(target=actor, args=("A", True))
ta.start()
assert a_paused.wait(30)
tb = threading.Thread(target=actor, args=("B", False))
tb.start()
tb.join()
b_done.set()
ta.join()

head = repo.refs[REF]
history = [e.commit.id for e in repo.get_walker(include=[head])]
print("base commit :", c0)
for n in ("A", "B"):
    print("actor %s     :" % n, results[n])
print("final branch:", head)
print("history     :", history)
ok_ids = [r for r in results.values() if isinstance(r, bytes)]
lost = [c for c in ok_ids if c not in history]
print("required: every commit reported as successful is in the final history; "
      "the loser gets CommitError")
if lost:
    print("VIOLATION: reported successful but not in the branch history:", lost)
    sys.exit(1)
print("no violation")
sys.exit(0)
