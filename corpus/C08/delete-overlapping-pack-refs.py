#!/usr/bin/env python
"""C08 finding 3: a ref deleted while pack_refs runs comes back (from packed-refs).

DiskRefsContainer.remove_if_equals() holds the lock of the ref, deals with
packed-refs first (_remove_packed_ref: an UNLOCKED "is it packed?" check, or a
rewrite under a packed-refs lock that is released again at once) and only
afterwards unlinks the loose file.  pack_refs() reads the loose values while
holding only the packed-refs lock, not the refs' locks.  So a pack_refs that
runs after _remove_packed_ref() but before the unlink copies the still-present
loose value into packed-refs; its prune step finds the ref locked and skips
it; the remover then unlinks the loose file and reports success -- and the ref
is still there, served from packed-refs.  (C git keeps packed-refs locked
across the whole deletion, so this cannot happen there.)

Scenario: refs/heads/topic is loose at V, not packed.
  R: remove_if_equals(topic, V)
  P: pack_refs(all=True), placed between R's _remove_packed_ref() check and
     R's unlink by wrapping os.path.lexists (called by R exactly there).
Required: after R returns True (and P has finished), topic does not exist.
"""
import os
import shutil
import sys
import tempfile

from dulwich.refs import DiskRefsContainer
from dulwich.repo import Repo

V = b"3" * 40
KEEP = b"4" * 40
TOPIC = b"refs/heads/topic"
MAIN = b"refs/heads/main"


def main():
    os.makedirs((os.environ.get("CORPUS_TMP") or "/tmp"), exist_ok=True)
    tmp = tempfile.mkdtemp(dir=(os.environ.get("CORPUS_TMP") or "/tmp"))
    res = {}
    try:
        path = os.path.join(tmp, "repo.git")
        os.mkdir(path)
        Repo.init_bare(path, default_branch=b"main").close()
        setup = DiskRefsContainer(path)
        setup[MAIN] = KEEP
        setup[TOPIC] = V

        R = DiskRefsContainer(path)
        P = DiskRefsContainer(path)
        topic_file = os.path.join(os.fsencode(path), b"refs", b"heads", b"topic")

        real = os.path.lexists
        state = {"armed": True}

        def wrapper(p):
            if state["armed"] and os.fsencode(p) == topic_file:
                state["armed"] = False
                try:
                    P.pack_refs(all=True)
                    res["P"] = "ok"
                except Exception as e:
                    res["P"] = repr(e)
            return real(p)

        os.path.lexists = wrapper
        try:
            try:
                res["R"] = R.remove_if_equals(TOPIC, V)
            except Exception as e:
                res["R"] = repr(e)
        finally:
            os.path.lexists = real

        reader = DiskRefsContainer(path)
        final = reader.read_ref(TOPIC)
        listed = TOPIC in reader.allkeys()
        print("P.pack_refs(all=True)          ->", res.get("P"))
        print("R.remove_if_equals(topic, V)   ->", res["R"])
        print("final read of refs/heads/topic ->", final)
        print("topic listed by allkeys()      ->", listed)
        print("loose file exists              ->", os.path.exists(topic_file))
        print("packed-refs:", dict(reader.get_packed_refs()))
    finally:
        shutil.rmtree(tmp, ignore_errors=True)
    if "P" not in res:
        print("hook did not fire; scenario not exercised")
        sys.exit(0)
    if res["R"] is True and (final is not None or listed):
        print("VIOLATION: the delete was reported successful, the packer has finished,"
              " and the deleted ref is back with value", final)
        print("Required: in every serial order of {remove_if_equals, pack_refs} the ref"
              " is absent at the end (or the delete reports an error).")
        sys.exit(1)
    print("no violation")
    sys.exit(0)


if __name__ == "__main__":
    main()
