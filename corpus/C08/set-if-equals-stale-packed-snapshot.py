#!/usr/bin/env python
"""C08 finding 1: set_if_equals reports success from a STALE packed-refs snapshot.

DiskRefsContainer.set_if_equals() fetches the packed-refs dict before taking
the ref lock and later, under the lock, uses that stale dict for its "ref
already has the desired value" shortcut (returns True without writing).  If
another actor changes the ref between the snapshot and the lock, the CAS is
reported as successful although the ref never holds new_ref afterwards.

Two scenarios (each: actor B runs entirely between A's packed-refs collision
check and A taking the lock; placed deterministically by wrapping os.makedirs,
which A calls via ensure_dir_exists right between those two steps):

 (a) push-create vs delete: refs/heads/main is packed at X.
     A: set_if_equals(main, ZERO_SHA, X)   (what receive-pack does for a create)
     B: remove_if_equals(main, X) -> True
     A returns True, but main does not exist at the end.
 (b) main packed at X.
     A: set_if_equals(main, Y, X)
     B: set_if_equals(main, X, Y) -> True ; pack_refs(all=True)
     A returns True, but main is still Y at the end.
"""
import os
import shutil
import sys
import tempfile

from dulwich.refs import DiskRefsContainer
from dulwich.repo import Repo

X = b"1" * 40
Y = b"2" * 40
ZERO = b"0" * 40
MAIN = b"refs/heads/main"


def one_shot_before_makedirs(action):
    """Run `action` once, at the first os.makedirs call, then restore."""
    real = os.makedirs

    def wrapper(*a, **kw):
        os.makedirs = real
        action()
        return real(*a, **kw)

    os.makedirs = wrapper
    return real


def fresh(tmp, name):
    path = os.path.join(tmp, name)
    os.mkdir(path)
    Repo.init_bare(path, default_branch=b"main").close()
    refs = DiskRefsContainer(path)
    refs[MAIN] = X
    refs.pack_refs(all=True)
    assert not os.path.exists(os.path.join(path, "refs", "heads", "main"))
    assert refs.get_packed_refs()[MAIN] == X
    return path


def scenario_a(tmp):
    path = fresh(tmp, "a")
    A = DiskRefsContainer(path)
    B = DiskRefsContainer(path)
    res = {}

    def actor_b():
        res["B"] = B.remove_if_equals(MAIN, X)

    real = one_shot_before_makedirs(actor_b)
    try:
        res["A"] = A.set_if_equals(MAIN, ZERO, X)
    finally:
        os.makedirs = real
    final = DiskRefsContainer(path).read_ref(MAIN)
    print("(a) B.remove_if_equals(main, X)      ->", res["B"])
    print("(a) A.set_if_equals(main, ZERO, X)   ->", res["A"])
    print("(a) final value of main              ->", final)
    bad = res["A"] is True and res["B"] is True and final != X
    if bad:
        print("(a) VIOLATION: A's create was reported successful after B's delete"
              " completed, yet the ref does not exist. Required: final == X, or A fails.")
    return bad


def scenario_b(tmp):
    path = fresh(tmp, "b")
    A = DiskRefsContainer(path)
    B = DiskRefsContainer(path)
    res = {}

    def actor_b():
        res["B"] = B.set_if_equals(MAIN, X, Y)
        B.pack_refs(all=True)

    real = one_shot_before_makedirs(actor_b)
    try:
        res["A"] = A.set_if_equals(MAIN, Y, X)
    finally:
        os.makedirs = real
    final = DiskRefsContainer(path).read_ref(MAIN)
    print("(b) B.set_if_equals(main, X, Y); pack ->", res["B"])
    print("(b) A.set_if_equals(main, Y, X)       ->", res["A"])
    print("(b) final value of main               ->", final)
    bad = res["A"] is True and res["B"] is True and final != X
    if bad:
        print("(b) VIOLATION: A's CAS Y->X returned True (so Y was current and X must"
              " be the value now), but the ref still holds Y. Required: final == X, or A fails.")
    return bad


def main():
    os.makedirs((os.environ.get("CORPUS_TMP") or "/tmp"), exist_ok=True)
    tmp = tempfile.mkdtemp(dir=(os.environ.get("CORPUS_TMP") or "/tmp"))
    try:
        bad_a = scenario_a(tmp)
        bad_b = scenario_b(tmp)
    finally:
        shutil.rmtree(tmp, ignore_errors=True)
    if bad_a or bad_b:
        sys.exit(1)
    print("no violation")
    sys.exit(0)


if __name__ == "__main__":
    main()
