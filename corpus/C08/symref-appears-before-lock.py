#!/usr/bin/env python
"""C08 finding 3: an unconditional set resolves the symref chain *before* it
takes the lock and never re-checks it; a concurrent set_symbolic_ref on the
same name is silently destroyed, and the outcome matches no serial order.

Initial state: refs/heads/a == A0 (direct), refs/heads/b == B0 (direct).
Actors (two DiskRefsContainer instances = two processes):
  S: refs[b"refs/heads/a"] = Y          (set_if_equals(a, None, Y))
  T: set_symbolic_ref(b"refs/heads/a", b"refs/heads/b")

Interleaving (S preempted just before open("refs/heads/a.lock", O_EXCL)):
  S  follow(a) -> realname = a (a is a direct ref right now)
  T  a := "ref: refs/heads/b"                      (complete, succeeds)
  S  lock a, old_ref is None so nothing is compared, write Y over the symref

Serial S;T gives  a -> b (symref), b == B0.
Serial T;S gives  a -> b (symref), b == Y   (set follows the symref).
Observed:         a == Y (direct, symref gone), b == B0.
C git re-reads the ref under the lock and follows the symref it finds there.
"""

import os
import shutil
import sys
import tempfile

from dulwich.refs import DiskRefsContainer
from dulwich.repo import Repo

A0, B0, Y = b"a" * 40, b"b" * 40, b"c" * 40
NA, NB = b"refs/heads/a", b"refs/heads/b"


def run(order):
    """order: 'S;T', 'T;S' or 'race'. Returns (raw a, raw b)."""
    tmp = tempfile.mkdtemp(dir=(os.environ.get("CORPUS_TMP") or "/tmp"))
    try:
        Repo.init_bare(tmp).close()
        init = DiskRefsContainer(tmp)
        init[NA] = A0
        init[NB] = B0
        S = DiskRefsContainer(tmp)
        T = DiskRefsContainer(tmp)
        if order == "S;T":
            S[NA] = Y
            T.set_symbolic_ref(NA, NB)
        elif order == "T;S":
            T.set_symbolic_ref(NA, NB)
            S[NA] = Y
        else:
            lock = os.path.join(os.fsencode(tmp), NA + b".lock")
            real_open = os.open
            fired = []

            def hooked_open(path, flags, *a, **kw):
                if (
                    not fired
                    and isinstance(path, (bytes, str))
                    and os.fsencode(path) == lock
                ):
                    fired.append(1)  # S preempted right before taking a.lock
                    T.set_symbolic_ref(NA, NB)
                return real_open(path, flags, *a, **kw)

            os.open = hooked_open
            try:
                S[NA] = Y
            finally:
                os.open = real_open
            assert fired
        chk = DiskRefsContainer(tmp)
        return chk.read_ref(NA), chk.read_ref(NB)
    finally:
        shutil.rmtree(tmp, ignore_errors=True)


os.makedirs((os.environ.get("CORPUS_TMP") or "/tmp"), exist_ok=True)
serial = {o: run(o) for o in ("S;T", "T;S")}
raced = run("race")
for o, v in serial.items():
    print("serial %s : a=%r b=%r" % ((o,) + v))
print("interleaved: a=%r b=%r" % raced)
print("required: the interleaved outcome equals one of the serial outcomes "
      "(both operations reported success)")
if raced not in serial.values():
    print("VIOLATION: outcome is not serialisable; the symbolic ref written by "
          "set_symbolic_ref was overwritten by a set that never saw it")
    sys.exit(1)
print("no violation")
sys.exit(0)
