#!/usr/bin/env python
"""C08 finding 2: add_if_new through a symref misses a packed ref -> a successful commit is lost.

DiskRefsContainer.add_if_new(name, ...) resolves symrefs to `realname`, takes
the lock of `realname`, and then re-checks existence under the lock with

    if os.path.exists(filename) or name in self.get_packed_refs():

i.e. it looks up the ORIGINAL name (b"HEAD") in packed-refs, not `realname`
(refs/heads/main).  HEAD is never packed, so a branch that exists only in
packed-refs is invisible to the re-check and gets overwritten.

Scenario (two actors making the first commit of a repository through the
work-tree API; HEAD -> refs/heads/main, unborn):
  A: commit()  ... reads HEAD (unborn), builds a root commit, calls
     add_if_new(HEAD, cA); add_if_new resolves HEAD -> refs/heads/main (absent)
  B: (placed between A's resolution and A's lock, by wrapping os.makedirs which
     add_if_new calls via ensure_dir_exists at exactly that point)
     commit() -> success (cB), then pack_refs(all=True) (e.g. gc)
  A: takes the lock; loose file absent, b"HEAD" not in packed-refs -> writes cA.
Both commits are reported successful; the branch ends at cA, a root commit,
and cB is not in its history.  Required: A's commit fails (CommitError).
"""
import os
import shutil
import sys
import tempfile

from dulwich.repo import Repo

MAIN = b"refs/heads/main"
IDENT = dict(committer=b"A <a@example.com>", author=b"A <a@example.com>",
             commit_timezone=0, author_timezone=0)


def history(repo, head):
    seen, todo = set(), [head]
    while todo:
        sha = todo.pop()
        if sha in seen:
            continue
        seen.add(sha)
        todo.extend(repo[sha].parents)
    return seen


def main():
    os.makedirs((os.environ.get("CORPUS_TMP") or "/tmp"), exist_ok=True)
    tmp = tempfile.mkdtemp(dir=(os.environ.get("CORPUS_TMP") or "/tmp"))
    res = {}
    try:
        path = os.path.join(tmp, "repo")
        os.mkdir(path)
        Repo.init(path, default_branch=b"main").close()
        repo_a = Repo(path)
        repo_b = Repo(path)

        def actor_b():
            res["B"] = repo_b.get_worktree().commit(
                message=b"B's commit", commit_timestamp=1000, author_timestamp=1000,
                **IDENT)
            repo_b.refs.pack_refs(all=True)

        real = os.makedirs
        state = {"armed": False}

        def wrapper(*a, **kw):
            # fire once, at A's ensure_dir_exists(<gitdir>/refs/heads) inside add_if_new
            if state["armed"] and os.fsencode(a[0]).endswith(b".git/refs/heads"):
                state["armed"] = False
                actor_b()
            return real(*a, **kw)

        os.makedirs = wrapper
        try:
            state["armed"] = True
            try:
                res["A"] = repo_a.get_worktree().commit(
                    message=b"A's commit", commit_timestamp=2000,
                    author_timestamp=2000, **IDENT)
            except Exception as e:  # the required outcome
                res["A"] = e
        finally:
            os.makedirs = real

        check = Repo(path)
        final = check.refs[MAIN]
        print("B commit ->", res.get("B"))
        print("A commit ->", res["A"])
        print("final refs/heads/main ->", final)
        ok_commits = [c for c in (res.get("B"), res["A"]) if isinstance(c, bytes)]
        hist = history(check, final)
        lost = [c for c in ok_commits if c not in hist]
        print("history of main:", sorted(hist))
        for r in (repo_a, repo_b, check):
            r.close()
    finally:
        shutil.rmtree(tmp, ignore_errors=True)
    if "B" not in res:
        print("hook did not fire; scenario not exercised")
        sys.exit(0)
    if lost:
        print("VIOLATION: commit(s) reported successful but not contained in the"
              " final branch history:", lost)
        print("Required: the second committer gets CommitError (add_if_new -> False).")
        sys.exit(1)
    print("no violation")
    sys.exit(0)


if __name__ == "__main__":
    main()
