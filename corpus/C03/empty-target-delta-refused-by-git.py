#!/usr/bin/env python
"""C03 finding 3: for an empty target, both dulwich encoders emit a delta of
only 2 or 3 bytes (the two size varints, no ops) when the base is shorter than
16 KiB.  C git's decoder refuses every delta shorter than 4 bytes
(patch-delta.c: `if (delta_size < DELTA_SIZE_MIN) return NULL`), so the pairing
(dulwich encoder -> C git decoder) does not reproduce the target:
"fatal: failed to apply delta".  Both dulwich decoders accept the same delta.

Encoders: dulwich.pack._create_delta_py and dulwich._pack.create_delta (Rust);
neither pads or refuses the degenerate case.

Run with PYTHONPATH pointing at the dulwich checkout.  Exit 1 = violation.
"""
import hashlib
import os
import shutil
import struct
import subprocess
import sys
import tempfile
import zlib

sys.modules["dulwich._pack"] = None
import dulwich.pack as P  # noqa: E402

py_create = P._create_delta_py
py_apply = P.apply_delta
del sys.modules["dulwich._pack"]
try:
    from dulwich._pack import create_delta as rs_create
except ImportError:
    rs_create = None

ENV = dict(os.environ, HOME="/nonexistent", GIT_CONFIG_NOSYSTEM="1", GIT_CONFIG_GLOBAL="/dev/null")
TMP = tempfile.mkdtemp(prefix="c03f3-")


def _hdr(t, size):
    c = (t << 4) | (size & 0xF)
    size >>= 4
    out = bytearray()
    while size:
        out.append(c | 0x80)
        c = size & 0x7F
        size >>= 7
    out.append(c)
    return bytes(out)


def blob_id(data):
    return hashlib.sha1(b"blob %d\0" % len(data) + data)


def git_apply(base, delta, target):
    """Unpack {blob base, REF_DELTA(base, delta)} with C git; return what it made of it."""
    body = b"PACK" + struct.pack(">LL", 2, 2)
    body += _hdr(3, len(base)) + zlib.compress(base)
    body += _hdr(7, len(delta)) + blob_id(base).digest() + zlib.compress(delta)
    pack = body + hashlib.sha1(body).digest()
    d = tempfile.mkdtemp(dir=TMP)
    try:
        subprocess.run(["git", "init", "-q", "--bare", d], env=ENV, check=True)
        p = subprocess.run(["git", "--git-dir", d, "unpack-objects", "-q"], input=pack,
                           env=ENV, capture_output=True)
        if p.returncode != 0:
            return False, "rejected (%s)" % p.stderr.decode(errors="replace").strip().splitlines()[0]
        q = subprocess.run(["git", "--git-dir", d, "cat-file", "blob", blob_id(target).hexdigest()],
                           env=ENV, capture_output=True)
        if q.returncode == 0 and q.stdout == target:
            return True, "ok, target reproduced"
        return False, "accepted but target object missing/wrong"
    finally:
        shutil.rmtree(d, ignore_errors=True)


CASES = [
    (b"", b""),
    (b"a", b""),
    (b"hello world\n" * 10, b""),
    (b"x" * 16383, b""),      # last base length with a 3-byte delta
    (b"x" * 16384, b""),      # control: header alone is 4 bytes, git accepts
    (b"a", b"a"),             # control: smallest non-empty target, 4-byte delta
]

violation = False
try:
    for base, target in CASES:
        for label, create in (("pure Python", py_create), ("Rust", rs_create)):
            if create is None:
                continue
            d = create(base, target)
            d = d if isinstance(d, bytes) else b"".join(d)
            dul = b"".join(py_apply(base, d)) == target
            ok, msg = git_apply(base, d, target)
            print("base=%d bytes target=%d bytes, %s encoder: delta=%s (%d bytes)"
                  % (len(base), len(target), label, d.hex(), len(d)))
            print("    dulwich decoder: %s" % ("ok" if dul else "WRONG"))
            print("    C git decoder  : %s" % msg)
            if not ok:
                violation = True
                print("    VIOLATION: apply_git(create_%s(base, target), base) != target" % label)
finally:
    shutil.rmtree(TMP, ignore_errors=True)

print("required: a delta produced for (base, target) applies to target with every decoder, "
      "including C git, for every pair of byte strings incl. an empty target")
sys.exit(1 if violation else 0)
