#!/usr/bin/env python
"""C03 finding 4: the Rust apply_delta kills the whole process (SIGABRT, "memory
allocation of N bytes failed") on a small hostile delta instead of failing with
ApplyDeltaError.

The delta is 60 KB: it declares a target of 2**62 bytes and consists of 60000
one-byte copy ops (0x80 = copy 0x10000 bytes from offset 0) over a 64 KiB base.
The declared size can never be reached by the bytes supplied (at most
60000 * 65536 < 2**62), so this is a bad delta.  crates/pack/src/lib.rs grows
`out: Vec<u8>` with extend_from_slice for every op, bounded only by the declared
size; it therefore tries to build ~3.9 GB from ~125 KB of input, and when the
allocator refuses, Rust aborts the interpreter: no Python exception can be
caught.  (The pure-Python decoder at least raises MemoryError here - though not
the delta error either.)

The child runs under RLIMIT_AS = 256 MiB so the demonstration itself stays small.
Run with PYTHONPATH pointing at the dulwich checkout.  Exit 1 = violation.
"""
import os
import subprocess
import sys

CHILD = r"""
import resource, sys
resource.setrlimit(resource.RLIMIT_AS, (1 << 28, 1 << 28))
which = sys.argv[1]
if which == "py":
    sys.modules["dulwich._pack"] = None
    from dulwich.pack import apply_delta
else:
    from dulwich._pack import apply_delta
from dulwich.pack import _delta_encode_size as enc
from dulwich.errors import ApplyDeltaError
base = bytes(range(256)) * 256 + b"!"            # 65537 bytes
delta = enc(len(base)) + enc(1 << 62) + b"\x80" * 60000
sys.stdout.write("input: base %d bytes + delta %d bytes; " % (len(base), len(delta)))
try:
    out = apply_delta(base, delta)
    print("returned %d bytes" % sum(map(len, out)))
except ApplyDeltaError as e:
    print("ApplyDeltaError: %s" % e)
except MemoryError:
    print("MemoryError (process survived)")
"""

violation = False
for which, label in (("py", "pure Python"), ("rs", "Rust")):
    if which == "rs":
        try:
            import dulwich._pack  # noqa: F401
        except ImportError:
            print("Rust extension not importable; skipped")
            continue
    p = subprocess.run([sys.executable, "-c", CHILD, which], capture_output=True, text=True,
                       env=dict(os.environ, RUST_BACKTRACE="0"))
    first_err = next((line for line in p.stderr.splitlines() if "alloc" in line), "")
    print("%-12s: exit status %d; stdout: %s" % (label, p.returncode, p.stdout.strip() or "-"))
    if first_err:
        print("              stderr: %s" % first_err.strip())
    if p.returncode < 0:
        violation = True
        print("  VIOLATION: decoder killed the process with signal %d instead of raising "
              "ApplyDeltaError" % -p.returncode)
    elif "MemoryError" in p.stdout:
        print("  (not the delta error, and ~0.25 GiB was allocated for ~125 KB of input, "
              "but the process survived)")

print("required: decoding a bad delta fails with ApplyDeltaError; it never kills the process "
      "or allocates out of proportion to the data supplied")
sys.exit(1 if violation else 0)
