import os
#!/usr/bin/env python
"""C03 finding 1: the pure-Python apply_delta allocates far beyond the size the
delta declares (and far beyond the data supplied) before it rejects the delta.

dulwich.pack.apply_delta (pure Python) only compares the produced length with
the declared target size after the whole op stream was executed.  A delta that
declares a 64 KiB target but consists of N one-byte copy ops (opcode 0x80 =
"copy 0x10000 bytes from offset 0") makes it materialise N * 64 KiB of slices
first.  With ~2 KB of delta that is ~100 MB; with 1 MB of delta it is 64 GiB,
i.e. the process gets OOM-killed.  The Rust decoder rejects the second op.

Run with PYTHONPATH pointing at the dulwich checkout.  Exit 1 = violation.
"""
import sys
import tracemalloc

# force the pure-Python implementation
_saved = sys.modules.get("dulwich._pack", "absent")
sys.modules["dulwich._pack"] = None
import dulwich.pack as P  # noqa: E402
from dulwich.errors import ApplyDeltaError  # noqa: E402

py_apply = P.apply_delta
assert py_apply.__module__ == "dulwich.pack"
del sys.modules["dulwich._pack"]
try:
    from dulwich._pack import apply_delta as rs_apply
except ImportError:
    rs_apply = None

enc = P._delta_encode_size

BASE = bytes(range(256)) * 256 + b"!"  # 65537 bytes, so a 64 KiB slice is a real copy
DECLARED = 0x10000
N_OPS = 1500
delta = enc(len(BASE)) + enc(DECLARED) + b"\x80" * N_OPS
supplied = len(BASE) + len(delta)


def measure(fn):
    tracemalloc.start()
    try:
        try:
            out = fn(BASE, delta)
            res = "returned %d bytes" % sum(map(len, out))
        except ApplyDeltaError as e:
            res = "ApplyDeltaError(%s)" % e
        except MemoryError:
            res = "MemoryError"
        _, peak = tracemalloc.get_traced_memory()
    finally:
        tracemalloc.stop()
    return res, peak


print("base: %d bytes, delta: %d bytes, declared target size: %d bytes"
      % (len(BASE), len(delta), DECLARED))
print("the delta is %d copy ops of 0x10000 bytes each -> can never match the declared size"
      % N_OPS)

violation = False
res, peak = measure(py_apply)
print("pure Python apply_delta: %s; peak traced allocation %d bytes (%.0fx the supplied data, %.0fx the declared size)"
      % (res, peak, peak / supplied, peak / DECLARED))
# generous bound: 8x (supplied data + declared size)
bound = 8 * (supplied + DECLARED)
if peak > bound:
    violation = True
    print("  VIOLATION: allocation is not bounded by the data supplied nor by the declared size "
          "(bound used: %d bytes); it grows by 64 KiB per delta byte" % bound)

if rs_apply is not None:
    res, peak = measure(rs_apply)
    print("Rust apply_delta:        %s; peak traced allocation %d bytes" % (res, peak))
    if peak > bound:
        violation = True
        print("  VIOLATION in Rust decoder as well")
else:
    print("Rust extension not importable; skipped")

print("required: the decoder fails with ApplyDeltaError as soon as the output would exceed the "
      "declared size, without allocating out of proportion to the input")
sys.exit(1 if violation else 0)
