#!/venv/bin/python
"""C09 finding 3: in a reftable-backed repository a half-written table left behind by
a crash is later taken for valid data, after which no ref can be read any more.

ReftableRefsContainer._write_ref_update / _write_batch_updates create the new
table directly under its final name (open(table_path, "wb")).  A crash before
the data is written leaves an EMPTY "*.ref" file that tables.list does not name,
so right after the crash the repository still reads fine.  But
_update_tables_list() builds tables.list from os.listdir(): the next, completely
ordinary ref update adopts the empty leftover into tables.list, and from then on
every ref read raises ValueError("Invalid reftable magic: b''").

The crash is simulated in a forked child: builtins.open is wrapped so that the
process _exit()s right after the real open() that creates the new table.

Run: PYTHONPATH=/repo /venv/bin/python finding-3.py
"""
import builtins
import io
import os
import shutil
import sys
import tempfile

from dulwich.objects import Blob, Commit, Tree
from dulwich.repo import Repo

os.makedirs((os.environ.get("CORPUS_TMP") or "/tmp"), exist_ok=True)
work = tempfile.mkdtemp(dir=(os.environ.get("CORPUS_TMP") or "/tmp"), prefix="f3-")


def mkcommit(r, msg, parents):
    b = Blob.from_string(msg)
    t = Tree()
    t.add(b"f", 0o100644, b.id)
    c = Commit()
    c.tree, c.parents, c.message = t.id, parents, msg
    c.author = c.committer = b"a <a@b>"
    c.author_time = c.commit_time = 1700000000
    c.author_timezone = c.commit_timezone = 0
    for o in (b, t, c):
        r.object_store.add_object(o)
    return c.id


try:
    r = Repo.init(work)
    cfg = r.get_config()
    cfg.set((b"core",), b"repositoryformatversion", b"1")
    cfg.set((b"extensions",), b"refStorage", b"reftable")
    cfg.write_to_path()
    r.close()

    r = Repo(work)
    assert type(r.refs).__name__ == "ReftableRefsContainer"
    c1 = mkcommit(r, b"one", [])
    c2 = mkcommit(r, b"two", [c1])
    r.refs[b"refs/heads/master"] = c1
    r.refs[b"refs/heads/side"] = c1
    r.refs[b"refs/tags/t"] = c1
    r.refs.set_symbolic_ref(b"HEAD", b"refs/heads/master")
    before = r.get_refs()
    r.close()
    print("refs before:", sorted(before.items()))

    pid = os.fork()
    if pid == 0:
        real_open = builtins.open

        def crashing_open(file, mode="r", *a, **k):
            f = real_open(file, mode, *a, **k)
            if "w" in mode and str(file).endswith(".ref"):
                os._exit(77)  # die right after the new table file was created
            return f

        builtins.open = io.open = crashing_open
        with Repo(work) as rr:
            rr.refs.set_if_equals(b"refs/heads/master", c1, c2)  # the operation
        os._exit(0)
    _, st = os.waitpid(pid, 0)
    crashed = os.waitstatus_to_exitcode(st) == 77
    print("child crashed at the chosen point:", crashed)
    with Repo(work) as r1:
        print("refs right after the crash:", sorted(r1.get_refs().items()))
        # a later, unrelated and uninterrupted update by a healthy process
        r1.refs.set_if_equals(b"refs/heads/side", c1, c2)
    print("then refs/heads/side was updated normally (no crash)")

    violation = False
    try:
        with Repo(work) as r2:
            after = r2.get_refs()
        print("refs after crash:", sorted(after.items()))
        for name, old in before.items():
            ok = {old} | ({c2} if name != b"refs/tags/t" else set())
            if after.get(name) not in ok:
                print(f"  VIOLATION: {name!r} is {after.get(name)!r}, must be one of {ok}")
                violation = True
    except Exception as e:  # noqa: BLE001
        print("  VIOLATION: repository does not reopen/read refs:", repr(e))
        violation = True
    print("property requires: no half-written file is taken for valid data")
    print("property requires: every ref keeps its old or its new value after a crash")
    sys.exit(1 if (violation and crashed) else 0)
finally:
    shutil.rmtree(work, ignore_errors=True)
