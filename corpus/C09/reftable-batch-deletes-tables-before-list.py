#!/venv/bin/python
"""C09 finding 2: in a reftable-backed repository a batched ref update removes the
old table files BEFORE the new tables.list is in place.

ReftableRefsContainer._commit_batch / _compact_tables_list (dulwich/reftable.py)
write the new consolidated table, then os.remove() every other *.ref file, and
only afterwards rewrite tables.list (in place).  If the process dies after the
first os.remove(), tables.list still names tables that no longer exist: the
repository can no longer read any ref (FileNotFoundError from Repo.get_refs()).

The crash is simulated in a forked child: os.remove is wrapped so that the
process _exit()s right after the first removal of a *.ref file has completed.

Run: PYTHONPATH=/repo /venv/bin/python finding-2.py
"""
import builtins
import io
import os
import shutil
import sys
import tempfile

from dulwich.objects import Blob, Commit, Tree
from dulwich.repo import Repo

os.makedirs((os.environ.get("CORPUS_TMP") or "/tmp"), exist_ok=True)
work = tempfile.mkdtemp(dir=(os.environ.get("CORPUS_TMP") or "/tmp"), prefix="f2-")


def mkcommit(r, msg, parents):
    b = Blob.from_string(msg)
    t = Tree()
    t.add(b"f", 0o100644, b.id)
    c = Commit()
    c.tree, c.parents, c.message = t.id, parents, msg
    c.author = c.committer = b"a <a@b>"
    c.author_time = c.commit_time = 1700000000
    c.author_timezone = c.commit_timezone = 0
    for o in (b, t, c):
        r.object_store.add_object(o)
    return c.id


try:
    r = Repo.init(work)
    cfg = r.get_config()
    cfg.set((b"core",), b"repositoryformatversion", b"1")
    cfg.set((b"extensions",), b"refStorage", b"reftable")
    cfg.write_to_path()
    r.close()

    r = Repo(work)
    assert type(r.refs).__name__ == "ReftableRefsContainer"
    c1 = mkcommit(r, b"one", [])
    c2 = mkcommit(r, b"two", [c1])
    r.refs[b"refs/heads/master"] = c1
    r.refs[b"refs/heads/side"] = c1
    r.refs[b"refs/tags/t"] = c1
    r.refs.set_symbolic_ref(b"HEAD", b"refs/heads/master")
    before = r.get_refs()
    r.close()
    print("refs before:", sorted(before.items()))

    pid = os.fork()
    if pid == 0:
        real_remove = os.remove

        def crashing_remove(p, *a, **k):
            real_remove(p, *a, **k)
            if str(p).endswith(".ref"):
                os._exit(77)  # die right after the first unlink of an old table

        os.remove = os.unlink = crashing_remove
        with Repo(work) as rr:
            with rr.refs.batch_update():  # the operation: two refs in one batch
                rr.refs.set_if_equals(b"refs/heads/master", c1, c2)
                rr.refs.set_if_equals(b"refs/heads/side", c1, c2)
        os._exit(0)
    _, st = os.waitpid(pid, 0)
    crashed = os.waitstatus_to_exitcode(st) == 77
    print("child crashed at the chosen point:", crashed)

    violation = False
    try:
        with Repo(work) as r2:
            after = r2.get_refs()
        print("refs after crash:", sorted(after.items()))
        for name, old in before.items():
            ok = {old} | ({c2} if name != b"refs/tags/t" else set())
            if after.get(name) not in ok:
                print(f"  VIOLATION: {name!r} is {after.get(name)!r}, must be one of {ok}")
                violation = True
    except Exception as e:  # noqa: BLE001
        print("  VIOLATION: repository does not reopen/read refs:", repr(e))
        violation = True
    print("tables.list size after crash:",
          os.path.getsize(os.path.join(work, ".git", "reftable", "tables.list")))
    print("property requires: every ref keeps its old or its new value after a crash")
    sys.exit(1 if (violation and crashed) else 0)
finally:
    shutil.rmtree(work, ignore_errors=True)
