#!/usr/bin/env python
"""C09 finding 1: a crash while updating a ref in a reftable repository loses every ref.

ReftableRefsContainer rewrites .git/reftable/tables.list IN PLACE
(open(tables_list_path, "wb") in _update_tables_list / _compact_tables_list /
_flush_pending_updates, dulwich/reftable.py).  open(..., "wb") truncates the
live file; the new contents only arrive with a later write().  If the process
dies at the boundary between those two system calls, tables.list is empty, no
table is listed any more and every ref of the repository (HEAD included) is gone.

The crash is simulated in a child process: the first time tables.list is opened
for writing, the real open (with O_TRUNC) is performed and the process then
dies with os._exit before the buffered contents are written -- exactly what a
kill between the open and the write system calls leaves behind.

Property C09 requires: after a crash at any instant the repository reopens and
every ref holds either its old or its new value.
Exit status: 1 if the violation is present, 0 otherwise.
"""
import json
import os
import shutil
import subprocess
import sys
import tempfile

HERE_PYTHONPATH = os.environ.get("PYTHONPATH", "/repo")
ENV = dict(os.environ, PYTHONPATH=HERE_PYTHONPATH, PYTHONDONTWRITEBYTECODE="1",
           HOME="/nonexistent", GIT_CONFIG_GLOBAL="/dev/null", GIT_CONFIG_NOSYSTEM="1")

SETUP = r'''
import os, sys
from dulwich.repo import Repo
from dulwich import porcelain
p = sys.argv[1]
r = Repo.init(p, mkdir=True, default_branch=b"main")
c = r.get_config()
c.set((b"core",), b"repositoryformatversion", b"1")
c.set((b"extensions",), b"refStorage", b"reftable")
c.write_to_path()
r.close()
r = Repo(p)
assert type(r.refs).__name__ == "ReftableRefsContainer", type(r.refs)
for i in range(3):
    fn = os.path.join(p, "f%d" % i)
    open(fn, "w").write("x%d" % i)
    porcelain.add(r, [fn])
    porcelain.commit(r, message=b"m%d" % i, author=b"a <a@x>", committer=b"a <a@x>",
                     commit_timestamp=1700000000 + i, author_timestamp=1700000000 + i,
                     commit_timezone=0, author_timezone=0)
r.refs[b"refs/heads/side"] = r.head()
r.refs[b"refs/tags/keep"] = r.head()
r.close()
'''

# The operation under test: move one branch to the parent commit.
OPERATION = r'''
import builtins, os, sys
crash = sys.argv[2] == "crash"
real_open = builtins.open
def dying_open(file, mode="r", *a, **kw):
    f = real_open(file, mode, *a, **kw)          # open(2) incl. O_TRUNC has completed
    if crash and "w" in mode and str(file).endswith("tables.list"):
        os._exit(77)                             # die before the write(2)
    return f
builtins.open = dying_open
from dulwich.repo import Repo
r = Repo(sys.argv[1])
head = r[r.refs[b"refs/heads/side"]]
r.refs[b"refs/heads/side"] = head.parents[0]
r.close()
'''

READ = r'''
import json, sys
from dulwich.repo import Repo
r = Repo(sys.argv[1])
refs = {}
for k in sorted(r.refs.allkeys()):
    try:
        v = r.refs[k]
        r.object_store[v]
        refs[k.decode()] = v.decode()
    except Exception as e:
        refs[k.decode()] = "ERROR %r" % (e,)
print(json.dumps(refs))
'''


def run(code, *args, ok=(0,)):
    p = subprocess.run([sys.executable, "-c", code, *args], env=ENV, capture_output=True, text=True)
    if p.returncode not in ok:
        print("child failed rc=%d\n%s" % (p.returncode, p.stderr[-2000:]))
        sys.exit(2)
    return p.stdout


def main():
    top = tempfile.mkdtemp(prefix="c09-f1-")
    try:
        base = os.path.join(top, "base")
        run(SETUP, base)
        old = json.loads(run(READ, base))

        done = os.path.join(top, "done")
        shutil.copytree(base, done, symlinks=True)
        run(OPERATION, done, "nocrash")
        new = json.loads(run(READ, done))

        crashed = os.path.join(top, "crashed")
        shutil.copytree(base, crashed, symlinks=True)
        run(OPERATION, crashed, "crash", ok=(77,))
        tl = os.path.join(crashed, ".git", "reftable", "tables.list")
        print("tables.list size before:", os.path.getsize(os.path.join(base, ".git", "reftable", "tables.list")),
              " after crash:", os.path.getsize(tl))
        print(".ref tables still on disk:", len([n for n in os.listdir(os.path.dirname(tl)) if n.endswith(".ref")]))
        p = subprocess.run([sys.executable, "-c", READ, crashed], env=ENV, capture_output=True, text=True)
        if p.returncode != 0:
            print("repository does not reopen after the crash:\n" + p.stderr[-1500:])
            print("VIOLATION: C09 requires the repository to reopen without error")
            return 1
        after = json.loads(p.stdout)

        print("refs before the operation :", old)
        print("refs after a complete run :", new)
        print("refs after the crash      :", after)
        bad = []
        for name in sorted(set(old) | set(new)):
            allowed = {old.get(name), new.get(name)}
            if after.get(name) not in allowed:
                bad.append("%s is %r, must be one of %r" % (name, after.get(name), sorted(map(str, allowed))))
        if bad:
            print("VIOLATION: after a crash between open(tables.list, O_TRUNC) and its write, refs are neither old nor new:")
            for b in bad:
                print("   ", b)
            print("C09 requires every ref to hold either its old or its new value after a crash at any instant.")
            return 1
        print("no violation: every ref holds its old or its new value")
        return 0
    finally:
        shutil.rmtree(top, ignore_errors=True)


if __name__ == "__main__":
    sys.exit(main())
