#!/usr/bin/env python
"""C20 finding 4: a read / set / write cycle on a config that has an
`include.path` copies every included setting into the file itself.

ConfigFile.from_path() merges the included file's settings into the same
_values table as the file's own settings (_process_include/_merge_config), and
write_to_file() dumps that table.  After Repo.get_config() -> set() ->
write_to_path() the main file carries a copy of the included settings *and*
still includes the other file, so every included multi-valued key is now
doubled -- for git and for dulwich alike -- although the only operation was
setting an unrelated key.  git's own `git config user.name x` leaves the
included settings where they are.
"""
import os, shutil, subprocess, sys, tempfile

sys.path.insert(0, "/repo")
from dulwich.repo import Repo

ENV = dict(os.environ, HOME="/nonexistent", GIT_CONFIG_NOSYSTEM="1", GIT_CONFIG_GLOBAL="/dev/null")
os.makedirs((os.environ.get("CORPUS_TMP") or "/tmp"), exist_ok=True)
d = tempfile.mkdtemp(dir=(os.environ.get("CORPUS_TMP") or "/tmp"))
bad = False

def git(*a):
    return subprocess.run(["git", *a], env=ENV, cwd=d, capture_output=True, check=True).stdout

try:
    git("init", "-q", ".")
    git("config", "-f", ".git/extra.cfg", "--add", "remote.o.fetch", "+refs/heads/*:refs/remotes/o/*")
    git("config", "-f", ".git/extra.cfg", "--add", "remote.o.fetch", "+refs/tags/*:refs/tags/*")
    git("config", "include.path", "extra.cfg")
    before_git = git("config", "--get-all", "remote.o.fetch").split(b"\n")[:-1]
    r = Repo(d)
    before_dul = list(r.get_config().get_multivar((b"remote", b"o"), b"fetch"))
    print("before: git    remote.o.fetch =", before_git)
    print("        dulwich remote.o.fetch =", before_dul)

    c = r.get_config()
    c.set((b"user",), b"name", b"x")      # unrelated key
    c.write_to_path()
    r.close()
    print("\n.git/config after dulwich set user.name + write:\n" + open(os.path.join(d, ".git/config")).read())

    after_git = git("config", "--get-all", "remote.o.fetch").split(b"\n")[:-1]
    r = Repo(d)
    after_dul = list(r.get_config().get_multivar((b"remote", b"o"), b"fetch"))
    r.close()
    print("after:  git    remote.o.fetch =", after_git)
    print("        dulwich remote.o.fetch =", after_dul)
    print("property: setting user.name and rewriting the file must leave remote.o.fetch as it was")
    if after_git != before_git or after_dul != before_dul:
        bad = True
finally:
    shutil.rmtree(d, ignore_errors=True)
print("VIOLATION" if bad else "ok")
sys.exit(1 if bad else 0)
