"""C20 finding 6: line-continuation handling differs from git on files git accepts.

(a) A comment that ends in a backslash: git ignores everything in a comment up to the
    newline (config.c parse_value: `if (comment) continue;`). ConfigFile.from_file tests
    _is_line_continuation() on the raw text after '=', comment included, so the NEXT line
    is glued onto the comment and the setting on it silently disappears.
(b) A continued value: from_file does line.lstrip() on every physical line, including
    continuation lines, so blanks that git keeps inside the value are dropped
    ("a\\<LF>   b" is "a   b" for git, "ab" for dulwich); same inside double quotes.
These are hand-written files (git itself never writes a continuation), but they are legal
config files that git reads without complaint, and dulwich reads different values.
"""
import os, shutil, subprocess, sys, tempfile

from dulwich.config import ConfigFile

ENV = dict(os.environ, HOME="/nonexistent", GIT_CONFIG_NOSYSTEM="1", GIT_CONFIG_GLOBAL="/dev/null")
base = (os.environ.get("CORPUS_TMP") or "/tmp")
os.makedirs(base, exist_ok=True)
d = tempfile.mkdtemp(dir=base)

CASES = {
    "comment ending in backslash": b"[s]\n\tk = v # see C:\\tmp\\\n\tj = 2\n",
    "continuation with indentation": b"[s]\n\tk = a\\\n   b\n",
    "continuation inside quotes": b'[s]\n\tk = "a\\\n  b"\n',
}


def git_view(p):
    out = subprocess.run(["git", "config", "-f", p, "-z", "--list"], env=ENV,
                         capture_output=True, check=True).stdout
    res = []
    for ent in out.split(b"\0")[:-1]:
        k, _, v = ent.partition(b"\n")
        res.append((k, v))
    return res


def dul_view(p):
    c = ConfigFile.from_path(p)
    res = []
    for s in c.sections():
        for k, v in c.items(s):
            res.append((b".".join((s[0].lower(),) + s[1:] + (k.lower(),)), v))
    return res


bad = False
try:
    p = os.path.join(d, "config")
    for name, data in CASES.items():
        with open(p, "wb") as f:
            f.write(data)
        g, dv = git_view(p), dul_view(p)
        flag = "DIFFERENT" if g != dv else "same"
        bad = bad or g != dv
        print(f"{name}: {data!r}\n    git     -> {g}\n    dulwich -> {dv}\n    {flag}")
    print("required: dulwich reads the same keys and values as git")
finally:
    shutil.rmtree(d, ignore_errors=True)
print("VIOLATION" if bad else "ok")
sys.exit(1 if bad else 0)
