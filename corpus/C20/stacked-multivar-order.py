"""C20 finding 5: a multi-valued key spread over global and repository config comes back in
the opposite order from git.

git reads system, then global, then local, so `git config --get-all s.k` lists the global
value first and the local one last (last one wins, list order = file precedence order).
StackedConfig.get_multivar() walks self.backends in lookup-precedence order (local first,
then global) and yields in that order, so Repo.get_config_stack().get_multivar() returns
the values reversed across files. Order matters for multi-valued keys (remote.*.fetch,
url.*.insteadOf, credential.helper with an empty reset entry, ...).
"""
import os, shutil, subprocess, sys, tempfile

base = (os.environ.get("CORPUS_TMP") or "/tmp")
os.makedirs(base, exist_ok=True)
d = tempfile.mkdtemp(dir=base)
glob = os.path.join(d, "global.cfg")
os.environ.update(HOME="/nonexistent", GIT_CONFIG_NOSYSTEM="1", GIT_CONFIG_GLOBAL=glob)
os.environ.pop("GIT_CONFIG_SYSTEM", None)
os.environ.pop("XDG_CONFIG_HOME", None)

from dulwich.repo import Repo  # noqa: E402

try:
    repo_dir = os.path.join(d, "r")
    os.mkdir(repo_dir)
    subprocess.run(["git", "-C", repo_dir, "init", "-q"], check=True)
    # both files are written by git
    subprocess.run(["git", "config", "-f", glob, "--add", "credential.helper", ""], check=True)
    subprocess.run(["git", "config", "-f", glob, "--add", "credential.helper", "global-helper"], check=True)
    subprocess.run(["git", "-C", repo_dir, "config", "--add", "credential.helper", "local-helper"], check=True)

    g = subprocess.run(["git", "-C", repo_dir, "config", "-z", "--get-all", "credential.helper"],
                       capture_output=True, check=True).stdout
    git_vals = g.split(b"\0")[:-1]
    r = Repo(repo_dir)
    dul_vals = list(r.get_config_stack().get_multivar((b"credential",), b"helper"))
    r.close()
    print("git     --get-all credential.helper ->", git_vals)
    print("dulwich get_multivar               ->", dul_vals)
    print("required: the same values in the same order")
    bad = dul_vals != git_vals
finally:
    shutil.rmtree(d, ignore_errors=True)
print("VIOLATION" if bad else "ok")
sys.exit(1 if bad else 0)
