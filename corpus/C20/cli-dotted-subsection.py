"""C20 finding 4: `dulwich config` cannot address a subsection that contains a dot.

cmd_config.run splits the key with key.split(".") and uses tuple(parts[:-1]) as the
section, so  branch.release-1.2.remote  becomes the 3-tuple (branch, release-1, 2).
 * get: a value git wrote (and git reads) is reported as missing (exit 1, no output);
 * set: write_to_file cannot unpack the 3-tuple and dies with ValueError; nothing is set.
git's rule: section = up to the first dot, key = after the last dot, subsection between.
"""
import os, shutil, subprocess, sys, tempfile

import dulwich  # noqa: F401  (uses whatever checkout PYTHONPATH points at)

ENV = dict(os.environ, HOME="/nonexistent", GIT_CONFIG_NOSYSTEM="1", GIT_CONFIG_GLOBAL="/dev/null")
base = (os.environ.get("CORPUS_TMP") or "/tmp")
os.makedirs(base, exist_ok=True)
d = tempfile.mkdtemp(dir=base)


def git(*a):
    r = subprocess.run(["git", "-C", d, *a], env=ENV, capture_output=True)
    return r.returncode, r.stdout


def dul(*a):
    r = subprocess.run([sys.executable, "-m", "dulwich", "config", *a], cwd=d, env=ENV,
                       capture_output=True)
    return r.returncode, r.stdout, r.stderr.decode(errors="replace").strip().splitlines()[-1:]


try:
    git("init", "-q")
    git("config", "branch.release-1.2.remote", "origin")
    g_get = git("config", "branch.release-1.2.remote")
    d_get = dul("branch.release-1.2.remote")
    print("git     config branch.release-1.2.remote ->", g_get)
    print("dulwich config branch.release-1.2.remote ->", d_get)

    d_set = dul("branch.release-1.2.merge", "refs/heads/release-1.2")
    g_after = git("config", "branch.release-1.2.merge")
    print("dulwich config branch.release-1.2.merge refs/heads/release-1.2 ->", d_set)
    print("git     config branch.release-1.2.merge afterwards            ->", g_after)

    # control: a subsection without a dot works
    git("config", "branch.main.remote", "origin")
    print("control, dulwich config branch.main.remote ->", dul("branch.main.remote"))
    print("required: dulwich prints 'origin' (exit 0) and the set is readable by git")
    bad = (d_get[0] != 0 or d_get[1].strip() != b"origin"
           or g_after != (0, b"refs/heads/release-1.2\n"))
finally:
    shutil.rmtree(d, ignore_errors=True)
print("VIOLATION" if bad else "ok")
sys.exit(1 if bad else 0)
