#!/usr/bin/env python
"""C20 finding 2: ConfigDict.get()/get_multivar() answer a lookup in
section.subsection with the value of the *bare section* when the subsection
does not have (or does not exist with) that key.

git keeps `foo.k` and `foo.bar.k` strictly apart: with only `[foo] k = top`
in the file, `git config --get foo.bar.k` finds nothing (exit 1).  dulwich
reads the same file and returns b"top" for (b"foo", b"bar"), b"k" -- so the
file does not mean the same to dulwich and to git, and a write/read round trip
"returns" a key in a subsection that was never written there.
"""
import os, shutil, subprocess, sys, tempfile

sys.path.insert(0, "/repo")
from dulwich.config import ConfigFile

ENV = dict(os.environ, HOME="/nonexistent", GIT_CONFIG_NOSYSTEM="1", GIT_CONFIG_GLOBAL="/dev/null")
os.makedirs((os.environ.get("CORPUS_TMP") or "/tmp"), exist_ok=True)
d = tempfile.mkdtemp(dir=(os.environ.get("CORPUS_TMP") or "/tmp"))
bad = False
try:
    p = os.path.join(d, "config")
    c = ConfigFile()
    c.set((b"foo",), b"k", b"top")
    c.add((b"foo",), b"m", b"m1")
    c.add((b"foo",), b"m", b"m2")
    c.set((b"foo", b"bar"), b"other", b"x")
    c.write_to_path(p)
    print("file written by dulwich:\n" + open(p).read())

    r = subprocess.run(["git", "config", "-f", p, "--get", "foo.bar.k"], env=ENV, capture_output=True)
    print("git config --get foo.bar.k -> exit", r.returncode, "stdout", r.stdout)
    r2 = subprocess.run(["git", "config", "-f", p, "--get-all", "foo.baz.m"], env=ENV, capture_output=True)
    print("git config --get-all foo.baz.m -> exit", r2.returncode, "stdout", r2.stdout)

    c2 = ConfigFile.from_path(p)
    try:
        v = c2.get((b"foo", b"bar"), b"k")
    except KeyError:
        v = None
    print("dulwich get((b'foo', b'bar'), b'k') ->", v, "(property: not set, like git)")
    if v is not None and r.returncode == 1:
        bad = True
    try:
        mv = list(c2.get_multivar((b"foo", b"baz"), b"m"))
    except KeyError:
        mv = None
    print("dulwich get_multivar((b'foo', b'baz'), b'm') ->", mv, "(property: not set, like git)")
    if mv and r2.returncode == 1:
        bad = True
finally:
    shutil.rmtree(d, ignore_errors=True)
print("VIOLATION" if bad else "ok")
sys.exit(1 if bad else 0)
