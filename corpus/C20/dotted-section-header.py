#!/usr/bin/env python
"""C20 finding 3: the deprecated `[section.subsection]` header.

(a) ConfigFile.write_to_file() emits a section whose name contains a dot
    (legal per git-config(1): "Only alphanumeric characters, - and . are
    allowed in section names") as `[Foo.Bar]`.  Reading it back yields the
    section (b"Foo", b"Bar") -- a different section; get((b"Foo.Bar",), k)
    raises KeyError after the round trip.
(b) _parse_section_header_line() keeps the case of the subsection taken from
    `[Foo.Bar]`.  git lower-cases it: the key is foo.bar.k, `foo.Bar.k` is not
    set.  dulwich says the opposite, and when dulwich rewrites the file it
    becomes `[Foo "Bar"]`, which changes what git reads.
"""
import os, shutil, subprocess, sys, tempfile

sys.path.insert(0, "/repo")
from dulwich.config import ConfigFile

ENV = dict(os.environ, HOME="/nonexistent", GIT_CONFIG_NOSYSTEM="1", GIT_CONFIG_GLOBAL="/dev/null")
os.makedirs((os.environ.get("CORPUS_TMP") or "/tmp"), exist_ok=True)
d = tempfile.mkdtemp(dir=(os.environ.get("CORPUS_TMP") or "/tmp"))
bad = False

def gitget(p, name):
    r = subprocess.run(["git", "config", "-f", p, "--get", name], env=ENV, capture_output=True)
    return r.stdout.rstrip(b"\n") if r.returncode == 0 else None

def dget(c, sec, k):
    try:
        return c.get(sec, k)
    except KeyError:
        return None

try:
    p = os.path.join(d, "config")
    c = ConfigFile()
    c.set((b"Foo.Bar",), b"k", b"v")
    c.write_to_path(p)
    print("file written by dulwich:", open(p, "rb").read())
    c2 = ConfigFile.from_path(p)
    print("(a) sections before:", list(c.sections()), "after round trip:", list(c2.sections()))
    print("    get((b'Foo.Bar',), b'k') before:", dget(c, (b"Foo.Bar",), b"k"), "after:", dget(c2, (b"Foo.Bar",), b"k"))
    if list(c.sections()) != list(c2.sections()) or dget(c2, (b"Foo.Bar",), b"k") != b"v":
        bad = True

    g_lower, g_upper = gitget(p, "foo.bar.k"), gitget(p, "foo.Bar.k")
    d_lower, d_upper = dget(c2, (b"foo", b"bar"), b"k"), dget(c2, (b"foo", b"Bar"), b"k")
    print("(b) git:     foo.bar.k =", g_lower, " foo.Bar.k =", g_upper)
    print("    dulwich: foo.bar.k =", d_lower, " foo.Bar.k =", d_upper, "(property: same as git)")
    if (g_lower, g_upper) != (d_lower, d_upper):
        bad = True

    # rewrite by dulwich changes what git reads
    before = gitget(p, "foo.bar.k")
    c2.write_to_path(p)
    after = gitget(p, "foo.bar.k")
    print("    after dulwich read+write the file is", open(p, "rb").read())
    print("    git foo.bar.k before rewrite:", before, "after rewrite:", after, "(property: unchanged)")
    if before != after:
        bad = True
finally:
    shutil.rmtree(d, ignore_errors=True)
print("VIOLATION" if bad else "ok")
sys.exit(1 if bad else 0)
