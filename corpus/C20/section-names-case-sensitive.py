#!/usr/bin/env python
"""C20 finding 1: section names are not compared with git's case rules by
Config.has_section(), `section in config`, and the helpers that walk
Config.sections() (iter_instead_of / apply_instead_of).

git: section names (and keys) are case-insensitive, subsections are not.
`git config Remote.origin.url X` writes the header `[Remote "origin"]`, and git
itself then answers remote.origin.url.  dulwich's get() agrees, but
has_section((b"remote", b"origin")) says the section does not exist, and
apply_instead_of ignores a `[Url "..."]` section that git honours.
"""
import os, shutil, subprocess, sys, tempfile

sys.path.insert(0, "/repo")
from dulwich.config import ConfigFile, apply_instead_of

ENV = dict(os.environ, HOME="/nonexistent", GIT_CONFIG_NOSYSTEM="1", GIT_CONFIG_GLOBAL="/dev/null")
os.makedirs((os.environ.get("CORPUS_TMP") or "/tmp"), exist_ok=True)
d = tempfile.mkdtemp(dir=(os.environ.get("CORPUS_TMP") or "/tmp"))
bad = False
try:
    p = os.path.join(d, "config")
    def git(*a):
        return subprocess.run(["git", "config", "-f", p, *a], env=ENV, capture_output=True, check=True).stdout
    git("Remote.origin.url", "https://example.com/r.git")
    git("Url.https://example.com/.insteadOf", "ex:")
    print("file written by git:\n" + open(p).read())
    print("git reads remote.origin.url =", git("--get", "remote.origin.url").strip())
    print("git reads url.https://example.com/.insteadof =", git("--get", "url.https://example.com/.insteadof").strip())

    c = ConfigFile.from_path(p)
    v = c.get((b"remote", b"origin"), b"url")
    print("dulwich get((remote, origin), url) =", v)
    hs = c.has_section((b"remote", b"origin"))
    print("dulwich has_section((b'remote', b'origin')) =", hs, "(property: True, section names are case-insensitive)")
    if not hs:
        bad = True
    inn = (b"remote", b"origin") in c
    print("dulwich (b'remote', b'origin') in config =", inn, "(property: True)")
    if not inn:
        bad = True
    gu = subprocess.run(["git", "ls-remote", "--get-url", "ex:repo.git"], cwd=d, capture_output=True,
                        env=dict(ENV, GIT_CONFIG_GLOBAL=p), check=True).stdout.decode().strip()
    u = apply_instead_of(c, "ex:repo.git")
    print("git rewrites ex:repo.git to", gu, "; dulwich apply_instead_of gives", u)
    if u != gu:
        bad = True

    # The same without git: a config dulwich wrote itself.
    c = ConfigFile()
    c.set((b"Core",), b"bare", b"true")
    q = os.path.join(d, "c2")
    c.write_to_path(q)
    c2 = ConfigFile.from_path(q)
    print("dulwich-written [Core]: get core.bare =", c2.get((b"core",), b"bare"),
          "has_section((b'core',)) =", c2.has_section((b"core",)))
    if not c2.has_section((b"core",)):
        bad = True
finally:
    shutil.rmtree(d, ignore_errors=True)
print("VIOLATION" if bad else "ok")
sys.exit(1 if bad else 0)
