"""C20 finding 3: replacing a section through ConfigDict.__setitem__ is not what gets written.

ConfigDict.__setitem__ delegates to CaseInsensitiveOrderedMultiDict.__setitem__, which
APPENDS to the ordered list and only replaces the lookup entry. In memory the section is
replaced (get of the old key raises KeyError), but write_to_file() iterates the ordered
list and emits the old section body too. Write -> read back (by dulwich or by git) gives
a configuration with a key the written object did not have.
"""
import io, os, shutil, subprocess, sys, tempfile

from dulwich.config import CaseInsensitiveOrderedMultiDict, ConfigFile

ENV = dict(os.environ, HOME="/nonexistent", GIT_CONFIG_NOSYSTEM="1", GIT_CONFIG_GLOBAL="/dev/null")
base = (os.environ.get("CORPUS_TMP") or "/tmp")
os.makedirs(base, exist_ok=True)
d = tempfile.mkdtemp(dir=base)


def view(c):
    return [(s, k, v) for s in c.sections() for k, v in c.items(s)]


try:
    c = ConfigFile()
    c.set((b"s",), b"k", b"1")
    new = CaseInsensitiveOrderedMultiDict()
    new[b"j"] = b"2"
    c[(b"s",)] = new                      # replace section s
    try:
        old = c.get((b"s",), b"k")
    except KeyError:
        old = None
    print("in memory: sections/items =", view(c), " get(s.k) =", old)

    p = os.path.join(d, "config")
    c.write_to_path(p)
    print("written file:", open(p, "rb").read())
    c2 = ConfigFile.from_path(p)
    try:
        back = c2.get((b"s",), b"k")
    except KeyError:
        back = None
    print("read back:  sections/items =", view(c2), " get(s.k) =", back)
    g = subprocess.run(["git", "config", "-f", p, "-z", "--list"], env=ENV, capture_output=True).stdout
    print("git reads:", g)
    print("required: the file holds exactly what the object held: s.j=2 and no s.k")
    bad = view(c2) != view(c) or back != old or b"s.k" in g
finally:
    shutil.rmtree(d, ignore_errors=True)
print("VIOLATION" if bad else "ok")
sys.exit(1 if bad else 0)
