import os, shutil, subprocess, sys, tempfile, warnings
warnings.simplefilter("ignore")
sys.unraisablehook = lambda *a: None
from dulwich.repo import Repo

ENV = dict(os.environ, HOME="/nonexistent", GIT_CONFIG_NOSYSTEM="1", GIT_CONFIG_GLOBAL="/dev/null",
           GIT_AUTHOR_NAME="a", GIT_AUTHOR_EMAIL="a@x", GIT_COMMITTER_NAME="a", GIT_COMMITTER_EMAIL="a@x",
           GIT_AUTHOR_DATE="1000000000 +0000", GIT_COMMITTER_DATE="1000000000 +0000")

def git(d, *a):
    return subprocess.run(["git", "-C", d, *a], env=ENV, check=True, capture_output=True).stdout.decode()

def commits(d, lo, hi):
    for i in range(lo, hi):
        with open(os.path.join(d, "f%d" % i), "w") as f:
            f.write("content %d\n" % i)
        git(d, "add", ".")
        git(d, "commit", "-q", "-m", "c%d" % i)

os.makedirs((os.environ.get("CORPUS_TMP") or "/tmp"), exist_ok=True)
TOP = tempfile.mkdtemp(dir=(os.environ.get("CORPUS_TMP") or "/tmp"))
d = os.path.join(TOP, "repo")
os.mkdir(d)
git(d, "init", "-q", "-b", "main", ".")
# C14 finding 1: bitmaps generated for packs that are not closed under
# reachability truncate ancestry and change the objects chosen for a transfer.
from dulwich.object_store import GraphTraversalReachability, MissingObjectFinder
bad = False
try:
    commits(d, 0, 4); git(d, "repack", "-q")       # pack A: c0..c3
    commits(d, 4, 8); git(d, "repack", "-q")       # pack B: c4..c7 (incremental)
    c = [x.encode() for x in git(d, "rev-list", "--reverse", "HEAD").split()]
    r = Repo(d)
    store = r.object_store
    def transfer(haves, wants):
        return sorted(o[0] for o in MissingObjectFinder(store, haves, wants))
    anc0 = store.get_reachability_provider().get_reachable_commits([c[7]])
    send0 = transfer([c[7]], [c[2]])   # receiver has the tip, asks for an ancestor
    print("without bitmaps: provider =", type(store.get_reachability_provider()).__name__)
    print("  commits reachable from tip:", len(anc0), " objects to send (have tip, want c2):", len(send0))
    # what `porcelain.repack(write_bitmaps=True)` does:
    store.generate_pack_bitmaps(r.refs.as_dict())
    anc1 = store.get_reachability_provider().get_reachable_commits([c[7]])
    send1 = transfer([c[7]], [c[2]])
    print("with bitmaps:    provider =", type(store.get_reachability_provider()).__name__)
    print("  commits reachable from tip:", len(anc1), " objects to send (have tip, want c2):", len(send1))
    truth = set(x.encode() for x in git(d, "rev-list", "HEAD").split())
    print("git rev-list HEAD:", len(truth))
    r.close()
    if anc0 != anc1 or send0 != send1:
        bad = True
        print("VIOLATION: the presence of pack bitmaps changed the ancestry answer "
              "and/or the set of objects chosen for transfer; property C14 requires identical answers.")
finally:
    shutil.rmtree(TOP, ignore_errors=True)
sys.exit(1 if bad else 0)
