import os, shutil, subprocess, sys, tempfile, warnings
warnings.simplefilter("ignore")
sys.unraisablehook = lambda *a: None
from dulwich.repo import Repo

ENV = dict(os.environ, HOME="/nonexistent", GIT_CONFIG_NOSYSTEM="1", GIT_CONFIG_GLOBAL="/dev/null",
           GIT_AUTHOR_NAME="a", GIT_AUTHOR_EMAIL="a@x", GIT_COMMITTER_NAME="a", GIT_COMMITTER_EMAIL="a@x",
           GIT_AUTHOR_DATE="1000000000 +0000", GIT_COMMITTER_DATE="1000000000 +0000")

def git(d, *a):
    return subprocess.run(["git", "-C", d, *a], env=ENV, check=True, capture_output=True).stdout.decode()

def commits(d, lo, hi):
    for i in range(lo, hi):
        with open(os.path.join(d, "f%d" % i), "w") as f:
            f.write("content %d\n" % i)
        git(d, "add", ".")
        git(d, "commit", "-q", "-m", "c%d" % i)

os.makedirs((os.environ.get("CORPUS_TMP") or "/tmp"), exist_ok=True)
TOP = tempfile.mkdtemp(dir=(os.environ.get("CORPUS_TMP") or "/tmp"))
d = os.path.join(TOP, "repo")
os.mkdir(d)
git(d, "init", "-q", "-b", "main", ".")
# C14 finding 2: with a bitmap on a single, complete pack, the exclusion list
# of get_reachable_commits is silently dropped when an excluded commit has no
# bitmap of its own (any commit that is not a ref tip / every-Nth commit).
bad = False
try:
    commits(d, 0, 8)
    git(d, "repack", "-a", "-d", "-q")             # one closed pack
    c = [x.encode() for x in git(d, "rev-list", "--reverse", "HEAD").split()]
    r = Repo(d)
    store = r.object_store
    p0 = store.get_reachability_provider()
    a0 = p0.get_reachable_commits([c[7]], exclude=[c[5]])
    print("without bitmap (%s): reachable from c7 excluding c5 -> %d commits"
          % (type(p0).__name__, len(a0)))
    store.generate_pack_bitmaps(r.refs.as_dict())
    p1 = store.get_reachability_provider()
    a1 = p1.get_reachable_commits([c[7]], exclude=[c[5]])
    print("with bitmap    (%s): reachable from c7 excluding c5 -> %d commits"
          % (type(p1).__name__, len(a1)))
    truth = set(x.encode() for x in git(d, "rev-list", "HEAD", "^" + c[5].decode()).split())
    print("git rev-list HEAD ^c5 ->", len(truth), "commits")
    r.close()
    if a0 != a1:
        bad = True
        print("VIOLATION: same query, same repository, different answer once a bitmap exists "
              "(excluded ancestors are returned as reachable). C14 requires identical answers.")
finally:
    shutil.rmtree(TOP, ignore_errors=True)
sys.exit(1 if bad else 0)
