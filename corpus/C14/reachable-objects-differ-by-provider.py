import os, shutil, subprocess, sys, tempfile, warnings
warnings.simplefilter("ignore")
sys.unraisablehook = lambda *a: None
from dulwich.repo import Repo

ENV = dict(os.environ, HOME="/nonexistent", GIT_CONFIG_NOSYSTEM="1", GIT_CONFIG_GLOBAL="/dev/null",
           GIT_AUTHOR_NAME="a", GIT_AUTHOR_EMAIL="a@x", GIT_COMMITTER_NAME="a", GIT_COMMITTER_EMAIL="a@x",
           GIT_AUTHOR_DATE="1000000000 +0000", GIT_COMMITTER_DATE="1000000000 +0000")

def git(d, *a):
    return subprocess.run(["git", "-C", d, *a], env=ENV, check=True, capture_output=True).stdout.decode()

def commits(d, lo, hi):
    for i in range(lo, hi):
        with open(os.path.join(d, "f%d" % i), "w") as f:
            f.write("content %d\n" % i)
        git(d, "add", ".")
        git(d, "commit", "-q", "-m", "c%d" % i)

os.makedirs((os.environ.get("CORPUS_TMP") or "/tmp"), exist_ok=True)
TOP = tempfile.mkdtemp(dir=(os.environ.get("CORPUS_TMP") or "/tmp"))
d = os.path.join(TOP, "repo")
os.mkdir(d)
git(d, "init", "-q", "-b", "main", ".")
# C14 finding 3: get_reachable_objects() answers differently with and without a
# bitmap, on a single complete pack: the graph provider returns only the given
# commits plus their own trees, the bitmap provider the full closure.
bad = False
try:
    commits(d, 0, 6)
    git(d, "repack", "-a", "-d", "-q")
    head = git(d, "rev-parse", "HEAD").strip().encode()
    r = Repo(d)
    store = r.object_store
    p0 = store.get_reachability_provider()
    o0 = p0.get_reachable_objects([head])
    print("without bitmap (%s): %d objects reachable from HEAD" % (type(p0).__name__, len(o0)))
    store.generate_pack_bitmaps(r.refs.as_dict())
    p1 = store.get_reachability_provider()
    o1 = p1.get_reachable_objects([head])
    print("with bitmap    (%s): %d objects reachable from HEAD" % (type(p1).__name__, len(o1)))
    truth = set(l.split()[0].encode() for l in git(d, "rev-list", "--objects", "HEAD").splitlines())
    print("git rev-list --objects HEAD: %d objects" % len(truth))
    r.close()
    if o0 != o1:
        bad = True
        print("VIOLATION: the reachable-object set depends on whether a bitmap is present; "
              "C14 requires the same set either way.")
finally:
    shutil.rmtree(TOP, ignore_errors=True)
sys.exit(1 if bad else 0)
