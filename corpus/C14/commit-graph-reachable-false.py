import os, shutil, subprocess, sys, tempfile, warnings
warnings.simplefilter("ignore")
sys.unraisablehook = lambda *a: None
from dulwich.repo import Repo

ENV = dict(os.environ, HOME="/nonexistent", GIT_CONFIG_NOSYSTEM="1", GIT_CONFIG_GLOBAL="/dev/null",
           GIT_AUTHOR_NAME="a", GIT_AUTHOR_EMAIL="a@x", GIT_COMMITTER_NAME="a", GIT_COMMITTER_EMAIL="a@x",
           GIT_AUTHOR_DATE="1000000000 +0000", GIT_COMMITTER_DATE="1000000000 +0000")

def git(d, *a):
    return subprocess.run(["git", "-C", d, *a], env=ENV, check=True, capture_output=True).stdout.decode()

def commits(d, lo, hi):
    for i in range(lo, hi):
        with open(os.path.join(d, "f%d" % i), "w") as f:
            f.write("content %d\n" % i)
        git(d, "add", ".")
        git(d, "commit", "-q", "-m", "c%d" % i)

os.makedirs((os.environ.get("CORPUS_TMP") or "/tmp"), exist_ok=True)
TOP = tempfile.mkdtemp(dir=(os.environ.get("CORPUS_TMP") or "/tmp"))
d = os.path.join(TOP, "repo")
os.mkdir(d)
git(d, "init", "-q", "-b", "main", ".")
# C14 finding 5: porcelain.write_commit_graph(reachable=False) writes a graph in
# which every parent that is not itself a ref tip is encoded as "no parent";
# ParentsProvider / Walker then trust it and history ends at the ref tips.
from dulwich import porcelain
bad = False
try:
    commits(d, 0, 5)
    head = git(d, "rev-parse", "HEAD").strip().encode()
    def ask():
        r = Repo(d)
        try:
            return ([e.commit.id for e in r.get_walker()], r.get_parents(head))
        finally:
            r.close()
    walk0, par0 = ask()
    print("no commit-graph : walker yields %d commits, parents(HEAD) = %s" % (len(walk0), par0))
    porcelain.write_commit_graph(d, reachable=False)
    print("commit-graph written:", os.path.exists(os.path.join(d, ".git/objects/info/commit-graph")))
    walk1, par1 = ask()
    print("with commit-graph: walker yields %d commits, parents(HEAD) = %s" % (len(walk1), par1))
    if walk0 != walk1 or par0 != par1:
        bad = True
        print("VIOLATION: parents and ancestry differ once the commit-graph exists; "
              "C14 requires them to be identical (missing parents must fall back to the commit object).")
finally:
    shutil.rmtree(TOP, ignore_errors=True)
sys.exit(1 if bad else 0)
