import os, shutil, subprocess, sys, tempfile, warnings
warnings.simplefilter("ignore")
sys.unraisablehook = lambda *a: None
from dulwich.repo import Repo

ENV = dict(os.environ, HOME="/nonexistent", GIT_CONFIG_NOSYSTEM="1", GIT_CONFIG_GLOBAL="/dev/null",
           GIT_AUTHOR_NAME="a", GIT_AUTHOR_EMAIL="a@x", GIT_COMMITTER_NAME="a", GIT_COMMITTER_EMAIL="a@x",
           GIT_AUTHOR_DATE="1000000000 +0000", GIT_COMMITTER_DATE="1000000000 +0000")

def git(d, *a):
    return subprocess.run(["git", "-C", d, *a], env=ENV, check=True, capture_output=True).stdout.decode()

def commits(d, lo, hi):
    for i in range(lo, hi):
        with open(os.path.join(d, "f%d" % i), "w") as f:
            f.write("content %d\n" % i)
        git(d, "add", ".")
        git(d, "commit", "-q", "-m", "c%d" % i)

os.makedirs((os.environ.get("CORPUS_TMP") or "/tmp"), exist_ok=True)
TOP = tempfile.mkdtemp(dir=(os.environ.get("CORPUS_TMP") or "/tmp"))
d = os.path.join(TOP, "repo")
os.mkdir(d)
git(d, "init", "-q", "-b", "main", ".")
# C14 finding 6: a stale peeled value ("^" line) in packed-refs is trusted even
# though a newer loose ref overrides the packed entry, so Repo.get_peeled()
# (and refs.get_peeled(), used for ref advertisement) return the old target.
bad = False
try:
    commits(d, 0, 3)
    git(d, "tag", "-a", "-m", "t1", "v1", "HEAD~2")
    def ask():
        r = Repo(d)
        try:
            return (r.refs[b"refs/tags/v1"], r.refs.get_peeled(b"refs/tags/v1"),
                    r.get_peeled(b"refs/tags/v1"))
        finally:
            r.close()
    git(d, "pack-refs", "--all")
    # continue the history: the tag is moved; the new value is a loose ref,
    # the old "<sha> refs/tags/v1 / ^<peeled>" entry stays in packed-refs
    git(d, "tag", "-f", "-a", "-m", "moved", "v1", "HEAD")
    truth = git(d, "rev-parse", "v1^{}").strip().encode()
    value, cached, peeled = ask()
    print("packed-refs (stale for v1):")
    print("   " + open(os.path.join(d, ".git", "packed-refs")).read().replace("\n", "\n   "))
    print("refs/tags/v1        =", value.decode(), "(loose, newer than packed)")
    print("refs.get_peeled    ->", cached and cached.decode())
    print("Repo.get_peeled    ->", peeled.decode())
    print("git rev-parse v1^{} ->", truth.decode())
    if peeled != truth or (cached is not None and cached != truth):
        bad = True
    # same refs, packed-refs refreshed (not stale any more):
    git(d, "pack-refs", "--all")
    value2, cached2, peeled2 = ask()
    print("after refreshing packed-refs: value", value2 == value, " Repo.get_peeled ->", peeled2.decode())
    if bad:
        print("VIOLATION: the peeled value of the ref comes from a stale packed-refs entry that the "
              "loose ref has superseded; C14 requires stale acceleration data to be ignored.")
finally:
    shutil.rmtree(TOP, ignore_errors=True)
sys.exit(1 if bad else 0)
