import os, shutil, subprocess, sys, tempfile, warnings
warnings.simplefilter("ignore")
sys.unraisablehook = lambda *a: None
from dulwich.repo import Repo

ENV = dict(os.environ, HOME="/nonexistent", GIT_CONFIG_NOSYSTEM="1", GIT_CONFIG_GLOBAL="/dev/null",
           GIT_AUTHOR_NAME="a", GIT_AUTHOR_EMAIL="a@x", GIT_COMMITTER_NAME="a", GIT_COMMITTER_EMAIL="a@x",
           GIT_AUTHOR_DATE="1000000000 +0000", GIT_COMMITTER_DATE="1000000000 +0000")

def git(d, *a):
    return subprocess.run(["git", "-C", d, *a], env=ENV, check=True, capture_output=True).stdout.decode()

def commits(d, lo, hi):
    for i in range(lo, hi):
        with open(os.path.join(d, "f%d" % i), "w") as f:
            f.write("content %d\n" % i)
        git(d, "add", ".")
        git(d, "commit", "-q", "-m", "c%d" % i)

os.makedirs((os.environ.get("CORPUS_TMP") or "/tmp"), exist_ok=True)
TOP = tempfile.mkdtemp(dir=(os.environ.get("CORPUS_TMP") or "/tmp"))
d = os.path.join(TOP, "repo")
os.mkdir(d)
git(d, "init", "-q", "-b", "main", ".")
# C14 finding 7: DiskRefsContainer.pack_refs() (porcelain.pack_refs) rewrites
# packed-refs under a "# pack-refs with: peeled" header but (a) keeps the OLD
# "^" line of a ref whose value changed and (b) writes no "^" line for newly
# packed annotated tags. Readers (dulwich and C git) then give wrong peeled values.
from dulwich import porcelain
bad = False
try:
    commits(d, 0, 3)
    git(d, "tag", "-a", "-m", "t1", "v1", "HEAD~2")
    git(d, "pack-refs", "--all")                           # packed-refs by C git
    git(d, "tag", "-a", "-m", "t2", "v2", "HEAD~1")        # new annotated tag (loose)
    git(d, "tag", "-f", "-a", "-m", "t1b", "v1", "HEAD")   # v1 moved (loose)
    truth = {n: git(d, "rev-parse", n.decode().split("/")[-1] + "^{}").strip().encode()
             for n in (b"refs/tags/v1", b"refs/tags/v2")}
    def ask():
        r = Repo(d)
        try:
            return {n: r.get_peeled(n) for n in truth}
        finally:
            r.close()
    v2_loose = ask()[b"refs/tags/v2"]
    porcelain.pack_refs(d, all=True)                       # packed-refs by dulwich
    print("packed-refs written by dulwich:")
    print("   " + open(os.path.join(d, ".git", "packed-refs")).read().replace("\n", "\n   "))
    after = ask()
    for n in sorted(truth):
        print("%s: Repo.get_peeled -> %s   git rev-parse ^{} -> %s"
              % (n.decode(), after[n].decode(), truth[n].decode()))
        if after[n] != truth[n]:
            bad = True
    print("refs/tags/v2 peeled while still loose (before pack_refs):", v2_loose.decode())
    print("git show-ref -d (C git reading dulwich's packed-refs):")
    print("   " + git(d, "show-ref", "-d", "--tags").replace("\n", "\n   "))
    if bad:
        print("VIOLATION: packing the refs changed the peeled ref values; C14 requires ref answers "
              "to be identical with and without packed-refs.")
finally:
    shutil.rmtree(TOP, ignore_errors=True)
sys.exit(1 if bad else 0)
