import os, shutil, subprocess, sys, tempfile, warnings
warnings.simplefilter("ignore")
sys.unraisablehook = lambda *a: None
from dulwich.repo import Repo

ENV = dict(os.environ, HOME="/nonexistent", GIT_CONFIG_NOSYSTEM="1", GIT_CONFIG_GLOBAL="/dev/null",
           GIT_AUTHOR_NAME="a", GIT_AUTHOR_EMAIL="a@x", GIT_COMMITTER_NAME="a", GIT_COMMITTER_EMAIL="a@x",
           GIT_AUTHOR_DATE="1000000000 +0000", GIT_COMMITTER_DATE="1000000000 +0000")

def git(d, *a):
    return subprocess.run(["git", "-C", d, *a], env=ENV, check=True, capture_output=True).stdout.decode()

def commits(d, lo, hi):
    for i in range(lo, hi):
        with open(os.path.join(d, "f%d" % i), "w") as f:
            f.write("content %d\n" % i)
        git(d, "add", ".")
        git(d, "commit", "-q", "-m", "c%d" % i)

os.makedirs((os.environ.get("CORPUS_TMP") or "/tmp"), exist_ok=True)
TOP = tempfile.mkdtemp(dir=(os.environ.get("CORPUS_TMP") or "/tmp"))
d = os.path.join(TOP, "repo")
os.mkdir(d)
git(d, "init", "-q", "-b", "main", ".")
# C14 finding 4: a .bitmap written by dulwich (porcelain.repack(write_bitmaps=True))
# numbers objects by pack-INDEX position, while the format (and C git) numbers
# them by position in the PACK. The pack checksum in the header matches, so a
# peer trusts the file and its answers change.
from dulwich import porcelain
bad = False
try:
    commits(d, 0, 8)
    git(d, "repack", "-a", "-d", "-q")             # one closed pack, no bitmap
    def count(*extra):
        p = subprocess.run(["git", "-C", d, "rev-list", "--count", *extra, "HEAD"],
                           env=ENV, capture_output=True)
        return p.stdout.decode().strip(), p.stderr.decode().strip()
    n_plain, _ = count()
    n_before, _ = count("--use-bitmap-index")
    print("before dulwich writes a bitmap: rev-list --count HEAD = %s, with --use-bitmap-index = %s"
          % (n_plain, n_before))
    porcelain.repack(d, write_bitmaps=True)
    packdir = os.path.join(d, ".git", "objects", "pack")
    print("pack dir:", sorted(os.path.splitext(f)[1] for f in os.listdir(packdir)))
    n_after, err = count("--use-bitmap-index")
    print("after: rev-list --count --use-bitmap-index HEAD = %s   (stderr: %s)" % (n_after, err or "-"))
    if any(f.endswith('.bitmap') for f in os.listdir(packdir)) and n_after != n_plain:
        bad = True
        print("VIOLATION: the bitmap written by dulwich changes the number of commits reachable from HEAD "
              "(%s instead of %s). C14 requires answers to be identical with and without the file." % (n_after, n_plain))
finally:
    shutil.rmtree(TOP, ignore_errors=True)
sys.exit(1 if bad else 0)
