#!/usr/bin/env python
"""C14 finding 4: a stale packed-refs entry (written by C git) changes the peeled
value of a ref that has since been re-pointed by a loose ref.

refs/tags/t is a lightweight tag when `git pack-refs --all` runs, so packed-refs
(fully-peeled) has no ^ line for it.  History continues: the tag is replaced by an
annotated tag (a loose ref file that overrides the packed entry).
DiskRefsContainer.get_peeled only checks for a loose override in the branch where
a ^ line exists; in the "known not peelable" branch it returns self[name], i.e.
the new TAG OBJECT, so Repo.get_peeled returns the tag instead of the commit.
Without packed-refs (or once it is refreshed by C git) the answer is the commit.
"""
import os, shutil, subprocess, sys, tempfile
from dulwich import porcelain
from dulwich.repo import Repo

ENV = dict(os.environ, HOME="/nonexistent", GIT_CONFIG_NOSYSTEM="1",
           GIT_CONFIG_GLOBAL="/dev/null")
os.makedirs((os.environ.get("CORPUS_TMP") or "/tmp"), exist_ok=True)
d = tempfile.mkdtemp(dir=(os.environ.get("CORPUS_TMP") or "/tmp"))
try:
    Repo.init(d).close()
    ids = []
    for i in range(2):
        p = os.path.join(d, "f")
        with open(p, "w") as f:
            f.write(str(i))
        porcelain.add(d, [p])
        ids.append(porcelain.commit(
            d, message=b"c%d" % i, author=b"a <a@b>", committer=b"a <a@b>",
            commit_timestamp=1000 + i, author_timestamp=1000 + i,
            commit_timezone=0, author_timezone=0))
    # lightweight tag, packed by C git
    porcelain.tag_create(d, b"t", annotated=False, objectish=ids[0])
    subprocess.check_call(["git", "-C", d, "pack-refs", "--all"], env=ENV)
    # history continues: the tag is re-pointed at an annotated tag of the next commit
    porcelain.tag_create(d, b"t2", author=b"a <a@b>", message=b"m", annotated=True,
                         objectish=ids[1], tag_time=2000, tag_timezone=0)
    r = Repo(d)
    tagobj = r.refs[b"refs/tags/t2"]
    r.refs[b"refs/tags/t"] = tagobj       # loose ref overrides the stale packed entry
    r.close()

    def peeled():
        r = Repo(d)
        try:
            return r.refs[b"refs/tags/t"], r.get_peeled(b"refs/tags/t")
        finally:
            r.close()

    with_packed = peeled()
    pr = os.path.join(d, ".git", "packed-refs")
    print("packed-refs (stale for refs/tags/t):")
    print(open(pr).read())
    os.rename(pr, pr + ".off")
    # keep the other refs resolvable without packed-refs: only refs/tags/t matters
    without_packed = peeled()
    print("refs/tags/t =", with_packed[0].decode(), "(annotated tag object)")
    print("tagged commit =", ids[1].decode())
    print("get_peeled with stale packed-refs :", with_packed[1].decode())
    print("get_peeled without packed-refs    :", without_packed[1].decode())
    if with_packed[0] != without_packed[0] or with_packed[1] != without_packed[1] \
            or with_packed[1] != ids[1]:
        print("VIOLATION: the stale packed-refs entry must be ignored; the peeled value "
              "has to be the tagged commit in both cases.")
        sys.exit(1)
    print("no violation")
    sys.exit(0)
finally:
    shutil.rmtree(d, ignore_errors=True)
