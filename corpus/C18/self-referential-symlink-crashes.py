# C18 finding 6: adding an untracked symlink that points at itself (or any
# symlink loop) to the work tree makes porcelain.status() and porcelain.add()
# raise OSError(ELOOP): IgnoreFilterManager.find_matching() tries to open
# "<path>/.gitignore" for the file itself and only tolerates ENOENT/ENOTDIR.
import os, sys, shutil, stat, subprocess, tempfile
sys.path.insert(0, '/repo')
from dulwich import porcelain
from dulwich.repo import Repo
from dulwich.objects import Blob, Commit
from dulwich.index import commit_tree

ENV = dict(os.environ, HOME='/nonexistent', GIT_CONFIG_NOSYSTEM='1', GIT_CONFIG_GLOBAL='/dev/null',
           GIT_OPTIONAL_LOCKS='0')
os.makedirs((os.environ.get("CORPUS_TMP") or "/tmp"), exist_ok=True)
J = os.path.join


def git(d, *a):
    return subprocess.run(['git', *a], cwd=d, env=ENV, capture_output=True)


def git_status(d, mode='all'):
    out = git(d, 'status', '--porcelain=v1', '-z', '--no-renames', '--untracked-files=' + mode).stdout
    return sorted(rec for rec in out.split(b'\0') if rec)


def dul_status(d, mode='all'):
    s = porcelain.status(d, untracked_files=mode)
    return {'staged': {k: sorted(v) for k, v in s.staged.items() if v},
            'unstaged': sorted(s.unstaged), 'untracked': sorted(s.untracked)}


def make_repo(spec, branch=b'master'):
    """Create a repo with one commit holding `spec` (path -> (mode, data)) and check it out with dulwich."""
    d = tempfile.mkdtemp(dir=(os.environ.get("CORPUS_TMP") or "/tmp"))
    r = Repo.init(d)
    items = []
    for p, (m, data) in spec.items():
        b = Blob.from_string(data); r.object_store.add_object(b); items.append((p, b.id, m))
    tree = commit_tree(r.object_store, items)
    c = Commit(); c.tree = tree; c.parents = []
    c.author = c.committer = b'a <a@b>'; c.author_time = c.commit_time = 1000000000
    c.author_timezone = c.commit_timezone = 0; c.message = b'm'
    r.object_store.add_object(c)
    r.refs[b'refs/heads/' + branch] = c.id
    return d, r, tree


spec = {b'f': (0o100644, b'f\n')}
d, r, tree = make_repo(spec)
bad = False
try:
    porcelain.checkout(d, b'master')
    os.symlink('loop', J(d, 'loop'))
    print('git status:', git_status(d))
    print('property: status reports untracked b"loop"; add() stages it as a symlink')
    for name, fn in [('status', lambda: dul_status(d)), ('add', lambda: porcelain.add(d))]:
        try:
            print('dulwich', name, '->', fn())
        except OSError as e:
            bad = True
            print('VIOLATION: dulwich', name, 'raised', repr(e))
finally:
    shutil.rmtree(d)
sys.exit(1 if bad else 0)
