# C18 finding 7: staging a new file f/in while the index still holds the file
# entry "f" (tracked file replaced by a directory) leaves BOTH "f" and "f/in"
# in the index. git refuses that index ("You have both f and f/in"), and
# dulwich's own tree for it silently drops "f" - yet status does not list "f"
# as a staged deletion, so status is not exact about HEAD vs. index.
import os, sys, shutil, stat, subprocess, tempfile
sys.path.insert(0, '/repo')
from dulwich import porcelain
from dulwich.repo import Repo
from dulwich.objects import Blob, Commit
from dulwich.index import commit_tree

ENV = dict(os.environ, HOME='/nonexistent', GIT_CONFIG_NOSYSTEM='1', GIT_CONFIG_GLOBAL='/dev/null',
           GIT_OPTIONAL_LOCKS='0')
os.makedirs((os.environ.get("CORPUS_TMP") or "/tmp"), exist_ok=True)
J = os.path.join


def git(d, *a):
    return subprocess.run(['git', *a], cwd=d, env=ENV, capture_output=True)


def git_status(d, mode='all'):
    out = git(d, 'status', '--porcelain=v1', '-z', '--no-renames', '--untracked-files=' + mode).stdout
    return sorted(rec for rec in out.split(b'\0') if rec)


def dul_status(d, mode='all'):
    s = porcelain.status(d, untracked_files=mode)
    return {'staged': {k: sorted(v) for k, v in s.staged.items() if v},
            'unstaged': sorted(s.unstaged), 'untracked': sorted(s.untracked)}


def make_repo(spec, branch=b'master'):
    """Create a repo with one commit holding `spec` (path -> (mode, data)) and check it out with dulwich."""
    d = tempfile.mkdtemp(dir=(os.environ.get("CORPUS_TMP") or "/tmp"))
    r = Repo.init(d)
    items = []
    for p, (m, data) in spec.items():
        b = Blob.from_string(data); r.object_store.add_object(b); items.append((p, b.id, m))
    tree = commit_tree(r.object_store, items)
    c = Commit(); c.tree = tree; c.parents = []
    c.author = c.committer = b'a <a@b>'; c.author_time = c.commit_time = 1000000000
    c.author_timezone = c.commit_timezone = 0; c.message = b'm'
    r.object_store.add_object(c)
    r.refs[b'refs/heads/' + branch] = c.id
    return d, r, tree


spec = {b'f': (0o100644, b'f\n'), b'g': (0o100644, b'g\n')}
d, r, tree = make_repo(spec)
try:
    porcelain.checkout(d, b'master')
    os.unlink(J(d, 'f')); os.mkdir(J(d, 'f')); open(J(d, 'f/in'), 'wb').write(b'in\n')
    porcelain.add(d, [J(d, 'f/in')])             # like: git add f/in
    names = sorted(r.open_index())
    print('index paths after add(f/in):', names)
    wt = git(d, 'write-tree')
    print('git write-tree on that index: rc=%d %r' % (wt.returncode, wt.stderr.strip()))
    w = dul_status(d)
    print('dulwich status:', w)
    new_tree = r.open_index().commit(r.object_store)
    listing = git(d, 'ls-tree', '-r', '--name-only', new_tree.decode()).stdout.split()
    print('paths in the tree dulwich would commit:', listing)
    print('property: after staging f/in the index holds f/in and no longer f (git add removes the'
          ' conflicting entry); status lists f as staged delete, matching the tree that gets committed')
    conflict = b'f' in names and b'f/in' in names
    inexact = b'f' not in listing and b'f' not in w['staged'].get('delete', [])
    bad = conflict or wt.returncode != 0
    if bad:
        print('VIOLATION: D/F-conflicting index; status inexact about f:', inexact)
finally:
    shutil.rmtree(d)
sys.exit(1 if bad else 0)
