# C18 finding 8: after a tracked file "f" was replaced by a directory and
# everything was staged, un-staging the new path f/in raises NotTreeError:
# WorkTree.unstage() looks f/in up in HEAD's tree, where "f" is a blob, and only
# expects KeyError.
import os, sys, shutil, stat, subprocess, tempfile
sys.path.insert(0, '/repo')
from dulwich import porcelain
from dulwich.repo import Repo
from dulwich.objects import Blob, Commit
from dulwich.index import commit_tree

ENV = dict(os.environ, HOME='/nonexistent', GIT_CONFIG_NOSYSTEM='1', GIT_CONFIG_GLOBAL='/dev/null',
           GIT_OPTIONAL_LOCKS='0')
os.makedirs((os.environ.get("CORPUS_TMP") or "/tmp"), exist_ok=True)
J = os.path.join


def git(d, *a):
    return subprocess.run(['git', *a], cwd=d, env=ENV, capture_output=True)


def git_status(d, mode='all'):
    out = git(d, 'status', '--porcelain=v1', '-z', '--no-renames', '--untracked-files=' + mode).stdout
    return sorted(rec for rec in out.split(b'\0') if rec)


def dul_status(d, mode='all'):
    s = porcelain.status(d, untracked_files=mode)
    return {'staged': {k: sorted(v) for k, v in s.staged.items() if v},
            'unstaged': sorted(s.unstaged), 'untracked': sorted(s.untracked)}


def make_repo(spec, branch=b'master'):
    """Create a repo with one commit holding `spec` (path -> (mode, data)) and check it out with dulwich."""
    d = tempfile.mkdtemp(dir=(os.environ.get("CORPUS_TMP") or "/tmp"))
    r = Repo.init(d)
    items = []
    for p, (m, data) in spec.items():
        b = Blob.from_string(data); r.object_store.add_object(b); items.append((p, b.id, m))
    tree = commit_tree(r.object_store, items)
    c = Commit(); c.tree = tree; c.parents = []
    c.author = c.committer = b'a <a@b>'; c.author_time = c.commit_time = 1000000000
    c.author_timezone = c.commit_timezone = 0; c.message = b'm'
    r.object_store.add_object(c)
    r.refs[b'refs/heads/' + branch] = c.id
    return d, r, tree


from dulwich.errors import NotTreeError
spec = {b'f': (0o100644, b'f\n'), b'g': (0o100644, b'g\n')}
d, r, tree = make_repo(spec)
bad = False
try:
    porcelain.checkout(d, b'master')
    os.unlink(J(d, 'f')); os.mkdir(J(d, 'f')); open(J(d, 'f/in'), 'wb').write(b'in\n')
    porcelain.add(d)
    print('status after staging everything:', dul_status(d))
    print('property: unstage f/in removes it from the index (it is not in HEAD); status then lists it untracked')
    try:
        r.get_worktree().unstage(['f/in'])
        print('status after unstage:', dul_status(d), ' git:', git_status(d))
    except NotTreeError as e:
        bad = True
        print('VIOLATION: unstage raised', repr(e))
finally:
    shutil.rmtree(d)
sys.exit(1 if bad else 0)
