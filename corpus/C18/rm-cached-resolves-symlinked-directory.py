"""C18: remove(cached=True) of d/x drops a different entry (o/x) when d has become a symlink to o."""
import os, shutil, subprocess, sys, tempfile
sys.path.insert(0, "/repo")
from dulwich import porcelain
from dulwich.index import commit_tree
from dulwich.objects import Blob, Commit
from dulwich.repo import Repo

os.makedirs((os.environ.get("CORPUS_TMP") or "/tmp"), exist_ok=True)
TMP = tempfile.mkdtemp(prefix="f3-", dir=(os.environ.get("CORPUS_TMP") or "/tmp"))
ENV = dict(os.environ, HOME="/nonexistent", GIT_CONFIG_NOSYSTEM="1", GIT_CONFIG_GLOBAL="/dev/null",
           GIT_OPTIONAL_LOCKS="0")


def git(cwd, *args):
    return subprocess.run(["git", *args], cwd=cwd, env=ENV, capture_output=True)


def make_repo(name, *trees):
    """Repo with one commit per tree ({path: (mode, data)}) on branches br0, br1..; br0 checked out."""
    path = os.path.join(TMP, name)
    os.makedirs(path)
    r = Repo.init(path)
    for i, entries in enumerate(trees):
        blobs = []
        for p, (mode, data) in entries.items():
            b = Blob.from_string(data)
            r.object_store.add_object(b)
            blobs.append((p, b.id, mode))
        c = Commit()
        c.tree = commit_tree(r.object_store, blobs)
        c.author = c.committer = b"a <a@b>"
        c.author_time = c.commit_time = 1000000000
        c.author_timezone = c.commit_timezone = 0
        c.message = b"m%d" % i
        r.object_store.add_object(c)
        r.refs[b"refs/heads/br%d" % i] = c.id
    r.refs.set_symbolic_ref(b"HEAD", b"refs/heads/br0")
    r.get_worktree().reset_index()
    s = porcelain.status(path)
    assert not any(s.staged.values()) and not s.unstaged and not s.untracked, s
    return path, r


def git_status(path):
    out = git(path, "status", "--porcelain=v1", "-z", "--untracked-files=all", "--no-renames").stdout
    return sorted(rec for rec in out.split(b"\0") if rec)


def dul_status(path):
    s = porcelain.status(path, untracked_files="all")
    return {k: sorted(v) for k, v in s.staged.items()}, sorted(s.unstaged), sorted(s.untracked)


# Tree has d/x and o/x.  Edits: replace directory d by symlink d -> o; remove d/x from the index.
path, r = make_repo("w", {b"d/x": (0o100644, b"x\n"), b"o/x": (0o100644, b"other\n"), b"a": (0o100644, b"a\n")})
peer = os.path.join(TMP, "peer")
shutil.copytree(path, peer, symlinks=True)
for p in (path, peer):
    shutil.rmtree(os.path.join(p, "d"))
    os.symlink("o", os.path.join(p, "d"))
err = None
try:
    porcelain.remove(path, paths=[b"d/x"], cached=True)
except Exception as e:  # noqa: BLE001
    err = e
g = git(peer, "rm", "-q", "--cached", "d/x")
names = sorted(r.open_index())
print("edit: rm -r d; ln -s o d; remove d/x from the index")
print("dulwich remove raised:", repr(err))
print("index after dulwich remove(['d/x'], cached=True):", names)
print("index after git rm --cached d/x (rc=%d)         :" % g.returncode, git(peer, "ls-files").stdout.split())
print("dulwich status:", dul_status(path))
print("git status in the git-operated copy:", git_status(peer))
bad = names != [b"a", b"o/x"]
if bad:
    print("VIOLATION: porcelain.remove() maps the path with path_to_tree_path(), which resolves the symlink d,")
    print("so the entry o/x (an unrelated, unmodified file) is removed and d/x stays.  Status then shows o/x as")
    print("staged-deleted + untracked.  Required: exactly d/x leaves the index, as with git rm --cached.")
else:
    print("ok")

shutil.rmtree(TMP, ignore_errors=True)
sys.exit(1 if bad else 0)
