"""C18: checkout(force=True) leaves modified files and staged changes in place; status is not clean."""
import os, shutil, subprocess, sys, tempfile
sys.path.insert(0, "/repo")
from dulwich import porcelain
from dulwich.index import commit_tree
from dulwich.objects import Blob, Commit
from dulwich.repo import Repo

os.makedirs((os.environ.get("CORPUS_TMP") or "/tmp"), exist_ok=True)
TMP = tempfile.mkdtemp(prefix="f6-", dir=(os.environ.get("CORPUS_TMP") or "/tmp"))
ENV = dict(os.environ, HOME="/nonexistent", GIT_CONFIG_NOSYSTEM="1", GIT_CONFIG_GLOBAL="/dev/null",
           GIT_OPTIONAL_LOCKS="0")


def git(cwd, *args):
    return subprocess.run(["git", *args], cwd=cwd, env=ENV, capture_output=True)


def make_repo(name, *trees):
    """Repo with one commit per tree ({path: (mode, data)}) on branches br0, br1..; br0 checked out."""
    path = os.path.join(TMP, name)
    os.makedirs(path)
    r = Repo.init(path)
    for i, entries in enumerate(trees):
        blobs = []
        for p, (mode, data) in entries.items():
            b = Blob.from_string(data)
            r.object_store.add_object(b)
            blobs.append((p, b.id, mode))
        c = Commit()
        c.tree = commit_tree(r.object_store, blobs)
        c.author = c.committer = b"a <a@b>"
        c.author_time = c.commit_time = 1000000000
        c.author_timezone = c.commit_timezone = 0
        c.message = b"m%d" % i
        r.object_store.add_object(c)
        r.refs[b"refs/heads/br%d" % i] = c.id
    r.refs.set_symbolic_ref(b"HEAD", b"refs/heads/br0")
    r.get_worktree().reset_index()
    s = porcelain.status(path)
    assert not any(s.staged.values()) and not s.unstaged and not s.untracked, s
    return path, r


def git_status(path):
    out = git(path, "status", "--porcelain=v1", "-z", "--untracked-files=all", "--no-renames").stdout
    return sorted(rec for rec in out.split(b"\0") if rec)


def dul_status(path):
    s = porcelain.status(path, untracked_files="all")
    return {k: sorted(v) for k, v in s.staged.items()}, sorted(s.unstaged), sorted(s.untracked)


# br0 and br1 differ in k only.  Edits: modify 'same' (equal in both trees), stage a change of 'same2'.
t0 = {b"same": (0o100644, b"s\n"), b"same2": (0o100755, b"t\n"), b"k": (0o100644, b"k0\n")}
t1 = dict(t0)
t1[b"k"] = (0o100644, b"k1\n")
path, r = make_repo("w", t0, t1)
peer = os.path.join(TMP, "peer")
shutil.copytree(path, peer, symlinks=True)
for p in (path, peer):
    with open(os.path.join(p, "same"), "w") as f:
        f.write("local edit\n")
    with open(os.path.join(p, "same2"), "w") as f:
        f.write("staged edit\n")
porcelain.add(path, paths=["same2"])
git(peer, "add", "same2")
porcelain.checkout(path, "br1", force=True)
g = git(peer, "checkout", "-q", "-f", "br1")
d = dul_status(path)
print("after dulwich checkout('br1', force=True):", d)
print("   file same  =", open(os.path.join(path, "same")).read().strip(), "| tree has 's'")
print("   file same2 =", open(os.path.join(path, "same2")).read().strip(), "| tree has 't'")
print("after git checkout -f br1 (rc=%d):" % g.returncode, git_status(peer),
      "| same =", open(os.path.join(peer, "same")).read().strip())
idx = r.open_index()
tree_of_index = idx.commit(r.object_store)
want = r[r.refs[b"refs/heads/br1"]].tree
print("index tree == br1 tree:", tree_of_index == want)
bad = bool(d[1]) or any(d[0].values()) or tree_of_index != want
if bad:
    print("VIOLATION: the forced checkout only applies tree_changes(old HEAD tree, new tree); paths equal in both")
    print("trees are never rewritten and their index entries are kept, so contents and index do not match the")
    print("checked-out tree and status is not clean.  Required (and what git checkout -f does): work tree and")
    print("index equal br1, status clean.")
else:
    print("ok")

shutil.rmtree(TMP, ignore_errors=True)
sys.exit(1 if bad else 0)
