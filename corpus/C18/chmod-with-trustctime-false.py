# C18 finding 12: with core.trustctime=false a chmod-only change is not reported
# by status(): _check_entry_for_changes() returns "unchanged" as soon as
# mtime+size match (_stat_matches_entry), before the executable bit is compared.
# git compares the mode independently of ctime and reports the file.
import os, sys, shutil, stat, subprocess, tempfile
sys.path.insert(0, '/repo')
from dulwich import porcelain
from dulwich.repo import Repo
from dulwich.objects import Blob, Commit
from dulwich.index import commit_tree

ENV = dict(os.environ, HOME='/nonexistent', GIT_CONFIG_NOSYSTEM='1', GIT_CONFIG_GLOBAL='/dev/null',
           GIT_OPTIONAL_LOCKS='0')
os.makedirs((os.environ.get("CORPUS_TMP") or "/tmp"), exist_ok=True)
J = os.path.join


def git(d, *a):
    return subprocess.run(['git', *a], cwd=d, env=ENV, capture_output=True)


def git_status(d, mode='all'):
    out = git(d, 'status', '--porcelain=v1', '-z', '--no-renames', '--untracked-files=' + mode).stdout
    return sorted(rec for rec in out.split(b'\0') if rec)


def dul_status(d, mode='all'):
    s = porcelain.status(d, untracked_files=mode)
    return {'staged': {k: sorted(v) for k, v in s.staged.items() if v},
            'unstaged': sorted(s.unstaged), 'untracked': sorted(s.untracked)}


def make_repo(spec, branch=b'master'):
    """Create a repo with one commit holding `spec` (path -> (mode, data)) and check it out with dulwich."""
    d = tempfile.mkdtemp(dir=(os.environ.get("CORPUS_TMP") or "/tmp"))
    r = Repo.init(d)
    items = []
    for p, (m, data) in spec.items():
        b = Blob.from_string(data); r.object_store.add_object(b); items.append((p, b.id, m))
    tree = commit_tree(r.object_store, items)
    c = Commit(); c.tree = tree; c.parents = []
    c.author = c.committer = b'a <a@b>'; c.author_time = c.commit_time = 1000000000
    c.author_timezone = c.commit_timezone = 0; c.message = b'm'
    r.object_store.add_object(c)
    r.refs[b'refs/heads/' + branch] = c.id
    return d, r, tree


spec = {b'f': (0o100644, b'f\n'), b'x': (0o100755, b'#!/bin/sh\n')}
d, r, tree = make_repo(spec)
try:
    c = r.get_config(); c.set((b'core',), b'trustctime', False); c.write_to_path()
    porcelain.checkout(d, b'master')
    os.chmod(J(d, 'f'), 0o755)
    os.chmod(J(d, 'x'), 0o644)
    g, w = git_status(d), dul_status(d)
    print('git status    :', g)
    print('dulwich status:', w)
    print('property: chmod is an edit status must report (core.filemode is true)')
    bad = w['unstaged'] == [] and g != []
    if bad:
        print('VIOLATION: mode change invisible to dulwich status with core.trustctime=false')
finally:
    shutil.rmtree(d)
sys.exit(1 if bad else 0)
