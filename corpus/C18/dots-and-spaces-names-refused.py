# C18 finding 9: tree entries whose name consists only of dots and spaces (other
# than "." and ".."), e.g. "..." or " ", are valid for git on this platform (git
# 2.39 with its default core.protectNTFS=true checks them out and fsck --strict
# accepts them), but dulwich refuses to check out the whole tree with
# InvalidPathError: validate_path_element_ntfs() strips trailing dots/spaces and
# then treats the empty remainder as an invalid name.
import os, sys, shutil, stat, subprocess, tempfile
sys.path.insert(0, '/repo')
from dulwich import porcelain
from dulwich.repo import Repo
from dulwich.objects import Blob, Commit
from dulwich.index import commit_tree

ENV = dict(os.environ, HOME='/nonexistent', GIT_CONFIG_NOSYSTEM='1', GIT_CONFIG_GLOBAL='/dev/null',
           GIT_OPTIONAL_LOCKS='0')
os.makedirs((os.environ.get("CORPUS_TMP") or "/tmp"), exist_ok=True)
J = os.path.join


def git(d, *a):
    return subprocess.run(['git', *a], cwd=d, env=ENV, capture_output=True)


def git_status(d, mode='all'):
    out = git(d, 'status', '--porcelain=v1', '-z', '--no-renames', '--untracked-files=' + mode).stdout
    return sorted(rec for rec in out.split(b'\0') if rec)


def dul_status(d, mode='all'):
    s = porcelain.status(d, untracked_files=mode)
    return {'staged': {k: sorted(v) for k, v in s.staged.items() if v},
            'unstaged': sorted(s.unstaged), 'untracked': sorted(s.untracked)}


def make_repo(spec, branch=b'master'):
    """Create a repo with one commit holding `spec` (path -> (mode, data)) and check it out with dulwich."""
    d = tempfile.mkdtemp(dir=(os.environ.get("CORPUS_TMP") or "/tmp"))
    r = Repo.init(d)
    items = []
    for p, (m, data) in spec.items():
        b = Blob.from_string(data); r.object_store.add_object(b); items.append((p, b.id, m))
    tree = commit_tree(r.object_store, items)
    c = Commit(); c.tree = tree; c.parents = []
    c.author = c.committer = b'a <a@b>'; c.author_time = c.commit_time = 1000000000
    c.author_timezone = c.commit_timezone = 0; c.message = b'm'
    r.object_store.add_object(c)
    r.refs[b'refs/heads/' + branch] = c.id
    return d, r, tree


spec = {b'...': (0o100644, b'dots\n'), b' ': (0o100644, b'space\n'), b'ok': (0o100644, b'ok\n')}
d, r, tree = make_repo(spec)
bad = False
try:
    fs = git(d, 'fsck', '--strict')
    print('git fsck --strict rc:', fs.returncode, fs.stderr)
    co = git(d, 'checkout', '-q', 'master')
    print('git checkout rc:', co.returncode, 'work tree:', sorted(os.listdir(d)), 'git status:', git_status(d))
    # back to an empty work tree/index, then let dulwich do the same checkout
    git(d, 'checkout', '-q', '--orphan', 'empty'); git(d, 'rm', '-rfq', '.')
    print('emptied work tree:', sorted(os.listdir(d)))
    print('property: checking out any tree of valid paths works and is clean')
    try:
        porcelain.checkout(d, b'master')
        print('dulwich checkout ok:', sorted(os.listdir(d)), dul_status(d))
    except Exception as e:
        bad = True
        print('VIOLATION: dulwich checkout raised', repr(e), '; work tree:', sorted(os.listdir(d)))
finally:
    shutil.rmtree(d)
sys.exit(1 if bad else 0)
