"""C18: a tracked directory replaced by a symlink to itself (rm -r d; ln -s d d): porcelain.status raised OSError(ELOOP)
from the lstat of d/x instead of reporting d/x as changed (git status answers)."""
import os, shutil, sys, tempfile
from dulwich import porcelain
from dulwich.repo import Repo

base = tempfile.mkdtemp(dir=os.environ.get("CORPUS_TMP") or None)
rc = 0
try:
    wt = os.path.join(base, "wt")
    r = Repo.init(wt, mkdir=True)
    os.mkdir(os.path.join(wt, "d"))
    with open(os.path.join(wt, "d", "x"), "wb") as f:
        f.write(b"x\n")
    porcelain.add(r, paths=[os.path.join(wt, "d", "x")])
    porcelain.commit(r, message=b"c", author=b"a <a@b>", committer=b"a <a@b>")
    shutil.rmtree(os.path.join(wt, "d"))
    os.symlink("d", os.path.join(wt, "d"))
    try:
        s = porcelain.status(r)
        print("status:", s.staged, s.unstaged, s.untracked)
        if b"d/x" not in s.unstaged:
            print("VIOLATION: d/x is gone from the work tree and is not reported as unstaged")
            rc = 1
    except OSError as e:
        print("VIOLATION: porcelain.status raised", repr(e))
        rc = 1
    r.close()
finally:
    shutil.rmtree(base, ignore_errors=True)
sys.exit(rc)
