# C18 finding 11: dulwich rewrites the index without "smudging" racily-clean
# entries. If a file is modified (same size) in the same second in which its
# index entry was recorded, and dulwich later rewrites the index (for any
# unrelated path) in a later second, C git - which compares whole seconds and
# relies on index-mtime <= entry-mtime to detect the race - reports the file as
# unmodified, while dulwich (nanosecond compare) reports it modified. The two
# status results disagree and git (commit -a, diff) misses the change.
import os, sys, shutil, stat, subprocess, tempfile
sys.path.insert(0, '/repo')
from dulwich import porcelain
from dulwich.repo import Repo
from dulwich.objects import Blob, Commit
from dulwich.index import commit_tree

ENV = dict(os.environ, HOME='/nonexistent', GIT_CONFIG_NOSYSTEM='1', GIT_CONFIG_GLOBAL='/dev/null',
           GIT_OPTIONAL_LOCKS='0')
os.makedirs((os.environ.get("CORPUS_TMP") or "/tmp"), exist_ok=True)
J = os.path.join


def git(d, *a):
    return subprocess.run(['git', *a], cwd=d, env=ENV, capture_output=True)


def git_status(d, mode='all'):
    out = git(d, 'status', '--porcelain=v1', '-z', '--no-renames', '--untracked-files=' + mode).stdout
    return sorted(rec for rec in out.split(b'\0') if rec)


def dul_status(d, mode='all'):
    s = porcelain.status(d, untracked_files=mode)
    return {'staged': {k: sorted(v) for k, v in s.staged.items() if v},
            'unstaged': sorted(s.unstaged), 'untracked': sorted(s.untracked)}


def make_repo(spec, branch=b'master'):
    """Create a repo with one commit holding `spec` (path -> (mode, data)) and check it out with dulwich."""
    d = tempfile.mkdtemp(dir=(os.environ.get("CORPUS_TMP") or "/tmp"))
    r = Repo.init(d)
    items = []
    for p, (m, data) in spec.items():
        b = Blob.from_string(data); r.object_store.add_object(b); items.append((p, b.id, m))
    tree = commit_tree(r.object_store, items)
    c = Commit(); c.tree = tree; c.parents = []
    c.author = c.committer = b'a <a@b>'; c.author_time = c.commit_time = 1000000000
    c.author_timezone = c.commit_timezone = 0; c.message = b'm'
    r.object_store.add_object(c)
    r.refs[b'refs/heads/' + branch] = c.id
    return d, r, tree


import time
spec = {b'f': (0o100644, b'hello\n'), b'g': (0o100644, b'g\n')}
bad = False
for attempt in range(5):
    d, r, tree = make_repo(spec)
    try:
        while time.time() % 1 > 0.2:            # start early in a second
            time.sleep(0.01)
        porcelain.checkout(d, b'master')
        open(J(d, 'f'), 'wb').write(b'HELLO\n')  # same size, same second
        e = r.open_index()[b'f']
        if e.mtime[0] != int(os.lstat(J(d, 'f')).st_mtime):
            print('attempt crossed a second boundary, retrying'); continue
        g0, w0 = git_status(d), dul_status(d)
        time.sleep(1.0 - time.time() % 1 + 0.05)  # next second
        open(J(d, 'new'), 'wb').write(b'n\n')
        porcelain.add(d, [J(d, 'new')])           # unrelated index rewrite
        g1, w1 = git_status(d), dul_status(d)
        print('before index rewrite: git', g0, ' dulwich', w0)
        print('after  index rewrite: git', g1, ' dulwich', w1)
        print('git diff --quiet rc:', git(d, 'diff', '--quiet').returncode, '(0 = git sees no change in f)')
        print('property: status reports f as modified and agrees with git status')
        bad = b' M f' in g0 and b' M f' not in g1 and b'f' in w1['unstaged']
        if bad:
            print('VIOLATION: after dulwich rewrote the index, git no longer sees the modification of f')
        break
    finally:
        shutil.rmtree(d)
sys.exit(1 if bad else 0)
