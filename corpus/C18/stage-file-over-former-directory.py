"""C18: staging a file that replaced a directory keeps the directory's entries: index holds d and d/x."""
import os, shutil, subprocess, sys, tempfile
sys.path.insert(0, "/repo")
from dulwich import porcelain
from dulwich.index import commit_tree
from dulwich.objects import Blob, Commit
from dulwich.repo import Repo

os.makedirs((os.environ.get("CORPUS_TMP") or "/tmp"), exist_ok=True)
TMP = tempfile.mkdtemp(prefix="f5-", dir=(os.environ.get("CORPUS_TMP") or "/tmp"))
ENV = dict(os.environ, HOME="/nonexistent", GIT_CONFIG_NOSYSTEM="1", GIT_CONFIG_GLOBAL="/dev/null",
           GIT_OPTIONAL_LOCKS="0")


def git(cwd, *args):
    return subprocess.run(["git", *args], cwd=cwd, env=ENV, capture_output=True)


def make_repo(name, *trees):
    """Repo with one commit per tree ({path: (mode, data)}) on branches br0, br1..; br0 checked out."""
    path = os.path.join(TMP, name)
    os.makedirs(path)
    r = Repo.init(path)
    for i, entries in enumerate(trees):
        blobs = []
        for p, (mode, data) in entries.items():
            b = Blob.from_string(data)
            r.object_store.add_object(b)
            blobs.append((p, b.id, mode))
        c = Commit()
        c.tree = commit_tree(r.object_store, blobs)
        c.author = c.committer = b"a <a@b>"
        c.author_time = c.commit_time = 1000000000
        c.author_timezone = c.commit_timezone = 0
        c.message = b"m%d" % i
        r.object_store.add_object(c)
        r.refs[b"refs/heads/br%d" % i] = c.id
    r.refs.set_symbolic_ref(b"HEAD", b"refs/heads/br0")
    r.get_worktree().reset_index()
    s = porcelain.status(path)
    assert not any(s.staged.values()) and not s.unstaged and not s.untracked, s
    return path, r


def git_status(path):
    out = git(path, "status", "--porcelain=v1", "-z", "--untracked-files=all", "--no-renames").stdout
    return sorted(rec for rec in out.split(b"\0") if rec)


def dul_status(path):
    s = porcelain.status(path, untracked_files="all")
    return {k: sorted(v) for k, v in s.staged.items()}, sorted(s.unstaged), sorted(s.untracked)


# Tree has d/x.  Edits: replace directory d by a regular file d; stage d.
path, r = make_repo("w", {b"d/x": (0o100644, b"x\n"), b"a": (0o100644, b"a\n")})
peer = os.path.join(TMP, "peer")
shutil.copytree(path, peer, symlinks=True)
for p in (path, peer):
    shutil.rmtree(os.path.join(p, "d"))
    with open(os.path.join(p, "d"), "w") as f:
        f.write("now a file\n")
porcelain.add(path, paths=["d"])
git(peer, "add", "d")
idx = r.open_index()
names = sorted(idx)
print("edit: rm -r d; echo > d; stage d")
print("index after dulwich add(['d']):", names)
print("index after git add d         :", git(peer, "ls-files").stdout.split())
d = dul_status(path)
print("dulwich status:", d)
print("git status (git-operated copy):", git_status(peer))
tree = idx.commit(r.object_store)
listing = git(path, "ls-tree", "-r", "--name-only", tree.decode()).stdout.split()
print("tree written from the dulwich index contains:", listing)
wt = git(path, "write-tree")
print("git write-tree on the dulwich index: rc=%d %s" % (wt.returncode, wt.stderr.decode().strip()))
bad = names != [b"a", b"d"]
if bad:
    print("VIOLATION: WorkTree.stage() removes index entries that are leading *files* of the staged path, but not")
    print("entries *below* a path that is now a file.  The index holds both d and d/x; status calls d a staged")
    print("addition, yet the tree built from this index has no file d at all (d/x wins) and git refuses the")
    print("index.  Required: d/x leaves the index when d is staged (staged: add d, delete d/x; nothing unstaged).")
else:
    print("ok")

shutil.rmtree(TMP, ignore_errors=True)
sys.exit(1 if bad else 0)
