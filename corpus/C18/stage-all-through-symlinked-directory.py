"""C18: staging everything after dir->symlink stages content read through the symlink; does not converge."""
import os, shutil, subprocess, sys, tempfile
sys.path.insert(0, "/repo")
from dulwich import porcelain
from dulwich.index import commit_tree
from dulwich.objects import Blob, Commit
from dulwich.repo import Repo

os.makedirs((os.environ.get("CORPUS_TMP") or "/tmp"), exist_ok=True)
TMP = tempfile.mkdtemp(prefix="f2-", dir=(os.environ.get("CORPUS_TMP") or "/tmp"))
ENV = dict(os.environ, HOME="/nonexistent", GIT_CONFIG_NOSYSTEM="1", GIT_CONFIG_GLOBAL="/dev/null",
           GIT_OPTIONAL_LOCKS="0")


def git(cwd, *args):
    return subprocess.run(["git", *args], cwd=cwd, env=ENV, capture_output=True)


def make_repo(name, *trees):
    """Repo with one commit per tree ({path: (mode, data)}) on branches br0, br1..; br0 checked out."""
    path = os.path.join(TMP, name)
    os.makedirs(path)
    r = Repo.init(path)
    for i, entries in enumerate(trees):
        blobs = []
        for p, (mode, data) in entries.items():
            b = Blob.from_string(data)
            r.object_store.add_object(b)
            blobs.append((p, b.id, mode))
        c = Commit()
        c.tree = commit_tree(r.object_store, blobs)
        c.author = c.committer = b"a <a@b>"
        c.author_time = c.commit_time = 1000000000
        c.author_timezone = c.commit_timezone = 0
        c.message = b"m%d" % i
        r.object_store.add_object(c)
        r.refs[b"refs/heads/br%d" % i] = c.id
    r.refs.set_symbolic_ref(b"HEAD", b"refs/heads/br0")
    r.get_worktree().reset_index()
    s = porcelain.status(path)
    assert not any(s.staged.values()) and not s.unstaged and not s.untracked, s
    return path, r


def git_status(path):
    out = git(path, "status", "--porcelain=v1", "-z", "--untracked-files=all", "--no-renames").stdout
    return sorted(rec for rec in out.split(b"\0") if rec)


def dul_status(path):
    s = porcelain.status(path, untracked_files="all")
    return {k: sorted(v) for k, v in s.staged.items()}, sorted(s.unstaged), sorted(s.untracked)


# Tree has d/x ("x") and o/x ("other").  Edit: replace directory d by a symlink d -> o, then stage everything.
path, r = make_repo("w", {b"d/x": (0o100644, b"x\n"), b"o/x": (0o100644, b"other\n")})
peer = os.path.join(TMP, "peer")
shutil.copytree(path, peer, symlinks=True)
for p in (path, peer):
    shutil.rmtree(os.path.join(p, "d"))
    os.symlink("o", os.path.join(p, "d"))
porcelain.add(path)                 # dulwich: stage everything
git(peer, "add", "-A")              # git: stage everything
idx = r.open_index()
dul_index = sorted((k, oct(idx[k].mode), idx[k].sha[:8]) for k in idx)
print("dulwich index after add():", dul_index)
print("git index after add -A   :", git(peer, "ls-files", "-s").stdout.decode().split("\n")[:-1])
dul_tree = idx.commit(r.object_store).decode()
git_tree = git(peer, "write-tree").stdout.decode().strip()
print("tree of dulwich index:", dul_tree)
print("tree of git index    :", git_tree, "(work tree really is: symlink d -> o, file o/x)")
d = dul_status(path)
print("dulwich status after staging everything:", d)
print("git status on the same repo            :", git_status(path))
bad = dul_tree != git_tree or bool(d[1]) or bool(d[2])
if bad:
    print("VIOLATION: WorkTree.stage()/get_unstaged_changes follow the symlink d: the index now says d/x is a")
    print("regular file with the content of o/x, the symlink d itself stays untracked, and the staged tree is")
    print("not the tree of the working directory.  Required: index == {d (120000), o/x}, status without")
    print("unstaged/untracked entries, same tree as git add -A.")
else:
    print("ok")

shutil.rmtree(TMP, ignore_errors=True)
sys.exit(1 if bad else 0)
