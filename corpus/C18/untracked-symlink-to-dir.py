# C18 finding 4: an untracked symlink that points at a directory is never
# reported by status(untracked_files="all"), is reported as a *directory*
# ("nl/") in "normal" mode, and add() (stage everything) never stages it.
import os, sys, shutil, stat, subprocess, tempfile
sys.path.insert(0, '/repo')
from dulwich import porcelain
from dulwich.repo import Repo
from dulwich.objects import Blob, Commit
from dulwich.index import commit_tree

ENV = dict(os.environ, HOME='/nonexistent', GIT_CONFIG_NOSYSTEM='1', GIT_CONFIG_GLOBAL='/dev/null',
           GIT_OPTIONAL_LOCKS='0')
os.makedirs((os.environ.get("CORPUS_TMP") or "/tmp"), exist_ok=True)
J = os.path.join


def git(d, *a):
    return subprocess.run(['git', *a], cwd=d, env=ENV, capture_output=True)


def git_status(d, mode='all'):
    out = git(d, 'status', '--porcelain=v1', '-z', '--no-renames', '--untracked-files=' + mode).stdout
    return sorted(rec for rec in out.split(b'\0') if rec)


def dul_status(d, mode='all'):
    s = porcelain.status(d, untracked_files=mode)
    return {'staged': {k: sorted(v) for k, v in s.staged.items() if v},
            'unstaged': sorted(s.unstaged), 'untracked': sorted(s.untracked)}


def make_repo(spec, branch=b'master'):
    """Create a repo with one commit holding `spec` (path -> (mode, data)) and check it out with dulwich."""
    d = tempfile.mkdtemp(dir=(os.environ.get("CORPUS_TMP") or "/tmp"))
    r = Repo.init(d)
    items = []
    for p, (m, data) in spec.items():
        b = Blob.from_string(data); r.object_store.add_object(b); items.append((p, b.id, m))
    tree = commit_tree(r.object_store, items)
    c = Commit(); c.tree = tree; c.parents = []
    c.author = c.committer = b'a <a@b>'; c.author_time = c.commit_time = 1000000000
    c.author_timezone = c.commit_timezone = 0; c.message = b'm'
    r.object_store.add_object(c)
    r.refs[b'refs/heads/' + branch] = c.id
    return d, r, tree


spec = {b'dir/a': (0o100644, b'a\n'), b'f': (0o100644, b'f\n')}
d, r, tree = make_repo(spec)
try:
    porcelain.checkout(d, b'master')
    os.symlink('dir', J(d, 'nl'))        # untracked symlink -> directory
    os.symlink('f', J(d, 'nlf'))         # untracked symlink -> file (control, handled fine)
    g_all, g_norm = git_status(d, 'all'), git_status(d, 'normal')
    w_all, w_norm = dul_status(d, 'all'), dul_status(d, 'normal')
    print('git     all   :', g_all)
    print('dulwich all   :', w_all['untracked'])
    print('git     normal:', g_norm)
    print('dulwich normal:', w_norm['untracked'])
    porcelain.add(d)
    after = dul_status(d, 'all')
    in_index = b'nl' in r.open_index()
    print('after add(): "nl" in index =', in_index, '; git status now:', git_status(d))
    print('property: untracked path "nl" (a symlink) must be reported as b"nl" and staged by add()')
    bad = (b'nl' not in w_all['untracked']) or (b'nl' not in w_norm['untracked']) or not in_index
    if bad:
        print('VIOLATION')
finally:
    shutil.rmtree(d)
sys.exit(1 if bad else 0)
