# C18 finding 10: porcelain.add() without paths ("stage everything") ignores a
# chmod-only change. status() (which honours core.filemode) lists the file as
# unstaged, but add() computes its own list with get_unstaged_changes(...) without
# honor_filemode, so the file is never re-staged and stays "unstaged" forever.
import os, sys, shutil, stat, subprocess, tempfile
sys.path.insert(0, '/repo')
from dulwich import porcelain
from dulwich.repo import Repo
from dulwich.objects import Blob, Commit
from dulwich.index import commit_tree

ENV = dict(os.environ, HOME='/nonexistent', GIT_CONFIG_NOSYSTEM='1', GIT_CONFIG_GLOBAL='/dev/null',
           GIT_OPTIONAL_LOCKS='0')
os.makedirs((os.environ.get("CORPUS_TMP") or "/tmp"), exist_ok=True)
J = os.path.join


def git(d, *a):
    return subprocess.run(['git', *a], cwd=d, env=ENV, capture_output=True)


def git_status(d, mode='all'):
    out = git(d, 'status', '--porcelain=v1', '-z', '--no-renames', '--untracked-files=' + mode).stdout
    return sorted(rec for rec in out.split(b'\0') if rec)


def dul_status(d, mode='all'):
    s = porcelain.status(d, untracked_files=mode)
    return {'staged': {k: sorted(v) for k, v in s.staged.items() if v},
            'unstaged': sorted(s.unstaged), 'untracked': sorted(s.untracked)}


def make_repo(spec, branch=b'master'):
    """Create a repo with one commit holding `spec` (path -> (mode, data)) and check it out with dulwich."""
    d = tempfile.mkdtemp(dir=(os.environ.get("CORPUS_TMP") or "/tmp"))
    r = Repo.init(d)
    items = []
    for p, (m, data) in spec.items():
        b = Blob.from_string(data); r.object_store.add_object(b); items.append((p, b.id, m))
    tree = commit_tree(r.object_store, items)
    c = Commit(); c.tree = tree; c.parents = []
    c.author = c.committer = b'a <a@b>'; c.author_time = c.commit_time = 1000000000
    c.author_timezone = c.commit_timezone = 0; c.message = b'm'
    r.object_store.add_object(c)
    r.refs[b'refs/heads/' + branch] = c.id
    return d, r, tree


spec = {b'f': (0o100644, b'f\n'), b'x': (0o100755, b'#!/bin/sh\n')}
d, r, tree = make_repo(spec)
try:
    porcelain.checkout(d, b'master')
    os.chmod(J(d, 'f'), 0o755)
    os.chmod(J(d, 'x'), 0o644)
    before = dul_status(d)
    print('status after chmod      :', before)
    porcelain.add(d)                              # stage everything
    after = dul_status(d)
    idx_tree = r.open_index().commit(r.object_store)
    print('status after add()      :', after)
    git(d, 'add', '-A')
    git_tree = git(d, 'write-tree').stdout.strip()
    print('index tree after add()  :', idx_tree, '(still the HEAD tree)' if idx_tree == tree else '')
    print('index tree after git add:', git_tree)
    print('property: staging everything makes index == work tree (modes included); status then shows staged modify, no unstaged')
    bad = after['unstaged'] != [] or idx_tree != git_tree
    if bad:
        print('VIOLATION: add() did not stage the mode changes')
finally:
    shutil.rmtree(d)
sys.exit(1 if bad else 0)
