# C18 finding 13: delete a tracked file in the work tree (unstaged deletion), then
# switch to a branch whose tree does not contain that file. update_working_tree()
# -> _transition_to_absent() returns early when the file is already gone and
# never removes the index entry, so after the switch the index still holds the
# path: status reports it as "staged add" + "unstaged (deleted)" and the index
# tree is not the target tree. git, doing the same steps, ends up clean.
import os, sys, shutil, stat, subprocess, tempfile
sys.path.insert(0, '/repo')
from dulwich import porcelain
from dulwich.repo import Repo
from dulwich.objects import Blob, Commit
from dulwich.index import commit_tree

ENV = dict(os.environ, HOME='/nonexistent', GIT_CONFIG_NOSYSTEM='1', GIT_CONFIG_GLOBAL='/dev/null',
           GIT_OPTIONAL_LOCKS='0')
os.makedirs((os.environ.get("CORPUS_TMP") or "/tmp"), exist_ok=True)
J = os.path.join


def git(d, *a):
    return subprocess.run(['git', *a], cwd=d, env=ENV, capture_output=True)


def git_status(d, mode='all'):
    out = git(d, 'status', '--porcelain=v1', '-z', '--no-renames', '--untracked-files=' + mode).stdout
    return sorted(rec for rec in out.split(b'\0') if rec)


def dul_status(d, mode='all'):
    s = porcelain.status(d, untracked_files=mode)
    return {'staged': {k: sorted(v) for k, v in s.staged.items() if v},
            'unstaged': sorted(s.unstaged), 'untracked': sorted(s.untracked)}


def make_repo(spec, branch=b'master'):
    """Create a repo with one commit holding `spec` (path -> (mode, data)) and check it out with dulwich."""
    d = tempfile.mkdtemp(dir=(os.environ.get("CORPUS_TMP") or "/tmp"))
    r = Repo.init(d)
    items = []
    for p, (m, data) in spec.items():
        b = Blob.from_string(data); r.object_store.add_object(b); items.append((p, b.id, m))
    tree = commit_tree(r.object_store, items)
    c = Commit(); c.tree = tree; c.parents = []
    c.author = c.committer = b'a <a@b>'; c.author_time = c.commit_time = 1000000000
    c.author_timezone = c.commit_timezone = 0; c.message = b'm'
    r.object_store.add_object(c)
    r.refs[b'refs/heads/' + branch] = c.id
    return d, r, tree


from dulwich.objects import Blob, Commit


def two_branch_repo():
    A = {b'f': (0o100644, b'f\n'), b'onlyA': (0o100644, b'A\n')}
    d, r, ta = make_repo(A, b'A')
    items = []
    for p, data in [(b'f', b'f\n'), (b'onlyB', b'B\n')]:
        b = Blob.from_string(data); r.object_store.add_object(b); items.append((p, b.id, 0o100644))
    tb = commit_tree(r.object_store, items)
    c = Commit(); c.tree = tb; c.parents = [r.refs[b'refs/heads/A']]
    c.author = c.committer = b'a <a@b>'; c.author_time = c.commit_time = 1000000001
    c.author_timezone = c.commit_timezone = 0; c.message = b'B'
    r.object_store.add_object(c); r.refs[b'refs/heads/B'] = c.id
    porcelain.checkout(d, b'A')
    return d, r, tb


d1, r1, tb = two_branch_repo()
d2, r2, _ = two_branch_repo()
try:
    os.unlink(J(d1, 'onlyA')); os.unlink(J(d2, 'onlyA'))
    print('status before switch (dulwich):', dul_status(d1), ' git:', git_status(d2))
    porcelain.checkout(d1, b'B')                       # dulwich switches A -> B
    p = git(d2, 'checkout', '-q', 'B')                 # git does the same in the twin repo
    w, g = dul_status(d1), git_status(d2)
    idx_tree = r1.open_index().commit(r1.object_store)
    print('git checkout rc:', p.returncode)
    print('after switch, dulwich status:', w, ' (git status on the same dir agrees:', git_status(d1), ')')
    print('after switch, git     status:', g)
    print('index tree == tree of B:', idx_tree == tb, sorted(r1.open_index()))
    print('property: after the switch the index equals the target tree and status is clean, as with git')
    bad = (w['staged'] != {} or w['unstaged'] != []) and g == []
    if bad:
        print('VIOLATION: stale index entry "onlyA" survives the branch switch')
finally:
    shutil.rmtree(d1); shutil.rmtree(d2)
sys.exit(1 if bad else 0)
