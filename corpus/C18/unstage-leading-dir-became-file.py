"""C18: unstage of a path below a directory that was replaced by a file raises NotADirectoryError."""
import os, shutil, subprocess, sys, tempfile
sys.path.insert(0, "/repo")
from dulwich import porcelain
from dulwich.index import commit_tree
from dulwich.objects import Blob, Commit
from dulwich.repo import Repo

os.makedirs((os.environ.get("CORPUS_TMP") or "/tmp"), exist_ok=True)
TMP = tempfile.mkdtemp(prefix="f4-", dir=(os.environ.get("CORPUS_TMP") or "/tmp"))
ENV = dict(os.environ, HOME="/nonexistent", GIT_CONFIG_NOSYSTEM="1", GIT_CONFIG_GLOBAL="/dev/null",
           GIT_OPTIONAL_LOCKS="0")


def git(cwd, *args):
    return subprocess.run(["git", *args], cwd=cwd, env=ENV, capture_output=True)


def make_repo(name, *trees):
    """Repo with one commit per tree ({path: (mode, data)}) on branches br0, br1..; br0 checked out."""
    path = os.path.join(TMP, name)
    os.makedirs(path)
    r = Repo.init(path)
    for i, entries in enumerate(trees):
        blobs = []
        for p, (mode, data) in entries.items():
            b = Blob.from_string(data)
            r.object_store.add_object(b)
            blobs.append((p, b.id, mode))
        c = Commit()
        c.tree = commit_tree(r.object_store, blobs)
        c.author = c.committer = b"a <a@b>"
        c.author_time = c.commit_time = 1000000000
        c.author_timezone = c.commit_timezone = 0
        c.message = b"m%d" % i
        r.object_store.add_object(c)
        r.refs[b"refs/heads/br%d" % i] = c.id
    r.refs.set_symbolic_ref(b"HEAD", b"refs/heads/br0")
    r.get_worktree().reset_index()
    s = porcelain.status(path)
    assert not any(s.staged.values()) and not s.unstaged and not s.untracked, s
    return path, r


def git_status(path):
    out = git(path, "status", "--porcelain=v1", "-z", "--untracked-files=all", "--no-renames").stdout
    return sorted(rec for rec in out.split(b"\0") if rec)


def dul_status(path):
    s = porcelain.status(path, untracked_files="all")
    return {k: sorted(v) for k, v in s.staged.items()}, sorted(s.unstaged), sorted(s.untracked)


# Tree has d/x.  Edits: stage a modification of d/x, replace directory d by a regular file, unstage d/x.
path, r = make_repo("w", {b"d/x": (0o100644, b"x\n"), b"a": (0o100644, b"a\n")})
peer = os.path.join(TMP, "peer")
shutil.copytree(path, peer, symlinks=True)
for p in (path, peer):
    with open(os.path.join(p, "d", "x"), "w") as f:
        f.write("changed\n")
porcelain.add(path, paths=["d/x"])
git(peer, "add", "d/x")
for p in (path, peer):
    shutil.rmtree(os.path.join(p, "d"))
    with open(os.path.join(p, "d"), "w") as f:
        f.write("now a file\n")
print("before unstage, dulwich:", dul_status(path))
print("before unstage, git    :", git_status(peer))
err = None
try:
    r.get_worktree().unstage(["d/x"])
except OSError as e:
    err = e
g = git(peer, "reset", "-q", "--", "d/x")
print("dulwich unstage(['d/x']) raised:", repr(err))
print("git reset -- d/x rc:", g.returncode)
d = dul_status(path)
print("after, dulwich:", d)
print("after, git    :", git_status(peer))
bad = err is not None or d[0]["modify"] != []
if bad:
    print("VIOLATION: WorkTree.unstage() lstat()s the path and only expects FileNotFoundError; with the leading")
    print("directory replaced by a file it raises NotADirectoryError and the index keeps the staged change.")
    print("Required: the entry is reset to HEAD (staged list empty; d/x unstaged-deleted, d untracked) like git.")
else:
    print("ok")

shutil.rmtree(TMP, ignore_errors=True)
sys.exit(1 if bad else 0)
