# C18 finding 3: a tracked directory replaced by a symlink to another directory
# with the same file names/contents is reported as clean. The tracked files
# dir/a, dir/sub/b no longer exist as such in the work tree (git: deleted) and
# the symlink "dir" is a new untracked path, but dulwich lstat()s *through* the
# symlinked leading directory. add() then stages nothing.
import os, sys, shutil, stat, subprocess, tempfile
sys.path.insert(0, '/repo')
from dulwich import porcelain
from dulwich.repo import Repo
from dulwich.objects import Blob, Commit
from dulwich.index import commit_tree

ENV = dict(os.environ, HOME='/nonexistent', GIT_CONFIG_NOSYSTEM='1', GIT_CONFIG_GLOBAL='/dev/null',
           GIT_OPTIONAL_LOCKS='0')
os.makedirs((os.environ.get("CORPUS_TMP") or "/tmp"), exist_ok=True)
J = os.path.join


def git(d, *a):
    return subprocess.run(['git', *a], cwd=d, env=ENV, capture_output=True)


def git_status(d, mode='all'):
    out = git(d, 'status', '--porcelain=v1', '-z', '--no-renames', '--untracked-files=' + mode).stdout
    return sorted(rec for rec in out.split(b'\0') if rec)


def dul_status(d, mode='all'):
    s = porcelain.status(d, untracked_files=mode)
    return {'staged': {k: sorted(v) for k, v in s.staged.items() if v},
            'unstaged': sorted(s.unstaged), 'untracked': sorted(s.untracked)}


def make_repo(spec, branch=b'master'):
    """Create a repo with one commit holding `spec` (path -> (mode, data)) and check it out with dulwich."""
    d = tempfile.mkdtemp(dir=(os.environ.get("CORPUS_TMP") or "/tmp"))
    r = Repo.init(d)
    items = []
    for p, (m, data) in spec.items():
        b = Blob.from_string(data); r.object_store.add_object(b); items.append((p, b.id, m))
    tree = commit_tree(r.object_store, items)
    c = Commit(); c.tree = tree; c.parents = []
    c.author = c.committer = b'a <a@b>'; c.author_time = c.commit_time = 1000000000
    c.author_timezone = c.commit_timezone = 0; c.message = b'm'
    r.object_store.add_object(c)
    r.refs[b'refs/heads/' + branch] = c.id
    return d, r, tree


spec = {b'dir/a': (0o100644, b'a\n'), b'dir/sub/b': (0o100644, b'b\n'),
        b'odir/a': (0o100644, b'a\n'), b'odir/sub/b': (0o100644, b'b\n')}
d, r, tree = make_repo(spec)
try:
    porcelain.checkout(d, b'master')
    shutil.rmtree(J(d, 'dir'))
    os.symlink('odir', J(d, 'dir'))
    g = git_status(d)
    w = dul_status(d)
    print('git status    :', g)
    print('dulwich status:', w)
    porcelain.add(d)
    idx_tree = r.open_index().commit(r.object_store)
    git(d, 'add', '-A')
    git_tree = git(d, 'write-tree').stdout.strip()
    print('tree after dulwich add():', idx_tree, '(unchanged HEAD tree)' if idx_tree == tree else '')
    print('tree after git add -A   :', git_tree)
    print('property: status lists dir/a, dir/sub/b (gone) and untracked "dir"; staging everything records the symlink')
    bad = (not w['unstaged'] and not w['untracked'] and g != []) or idx_tree != git_tree
    if bad:
        print('VIOLATION: dulwich sees a clean tree although a directory became a symlink')
finally:
    shutil.rmtree(d)
sys.exit(1 if bad else 0)
