"""C07 finding 3: porcelain.reflog_expire() (and reflog_delete / stash drop, same
code shape) rewrites logs/<ref> IN PLACE through open(path, "r+b"), with neither
the ref's lock nor a lock file for the log (dulwich/porcelain/__init__.py
reflog_expire -> dulwich/reflog.py expire_reflog: read all, seek(0), write kept
entries, truncate()).

(a) interleaving: a ref update that commits (under refs/heads/master.lock, which
    is what serialises reflog appends in dulwich) between expire's read and its
    write-back loses its reflog entry: it is truncated away.
(b) fault: if a write fails with ENOSPC half way, the log is left as a mixture
    of new and old bytes - neither the complete old nor the complete new file.

C git rewrites the log into logs/<ref>.lock while holding <ref>.lock and renames.
The other actor / the fault are placed deterministically by shadowing open() in
the porcelain module with a file object whose seek()/write() are hooked.
"""

import errno
import io
import os
import shutil
import sys
import tempfile

import dulwich.porcelain as porcelain
from dulwich.repo import Repo

TMP = (os.environ.get("CORPUS_TMP") or "/tmp")
os.makedirs(TMP, exist_ok=True)
WHO = b"A U Thor <a@example.com>"
NAME = b"refs/heads/master"
V = [bytes([0x30 + i]) * 40 for i in range(1, 7)]
hooks = {}


class Hooked(io.BufferedRandom):
    writes = 0

    def seek(self, *a):
        h = hooks.pop("before_seek", None)
        if h:
            h()
        return super().seek(*a)

    def write(self, data):
        Hooked.writes += 1
        if hooks.get("fail_write_no") == Hooked.writes:
            raise OSError(errno.ENOSPC, os.strerror(errno.ENOSPC))
        n = super().write(data)
        self.flush()  # one write(2) per entry, as with an unbuffered file
        return n


def hooked_open(path, mode="r", *a, **kw):
    if mode == "r+b" and str(path).endswith(os.path.join("heads", "master")):
        return Hooked(io.FileIO(path, "r+"))
    return io.open(path, mode, *a, **kw)


porcelain.open = hooked_open  # shadows the builtin inside dulwich.porcelain only


def fresh_repo():
    d = tempfile.mkdtemp(dir=TMP)
    r = Repo.init(d)
    c = r.get_config()
    c.set((b"core",), b"logAllRefUpdates", True)
    c.write_to_path()
    r.close()
    r = Repo(d)
    old = None
    msgs = [b"first, a rather long message " * 2, b"second", b"third entry", b"4"]
    for i, m in enumerate(msgs):  # two old entries, two recent ones
        ts = 1000 + i if i < 2 else 2_000_000_000 + i
        assert r.refs.set_if_equals(NAME, old, V[i], committer=WHO, timestamp=ts,
                                    timezone=0, message=m)
        old = V[i]
    return d, r


bad = []
# ---------------- (a) interleaving ------------------------------------------
d, r = fresh_repo()
try:
    log = os.path.join(d, ".git", "logs", "refs", "heads", "master")
    actor_b = Repo(d)

    def b_updates_ref():
        ok = actor_b.refs.set_if_equals(NAME, V[3], V[4], committer=WHO,
                                        timestamp=2_000_000_100, timezone=0,
                                        message=b"update by B")
        hooks["b_ok"] = ok

    hooks["before_seek"] = b_updates_ref
    res = porcelain.reflog_expire(d, ref=NAME, expire_time=5000)
    entries = list(Repo(d).read_reflog(NAME))
    ref_now = Repo(d).refs[NAME]
    print("(a) expire result:", res, " B's locked ref update succeeded:", hooks["b_ok"])
    print("    ref value now          :", ref_now)
    print("    newest reflog entry new:", entries[-1].new_sha, entries[-1].message)
    print("    required: the log is replaced as a whole under the ref's lock, so")
    print("    B's committed entry (new =", V[4], ") must still be in the log")
    if hooks["b_ok"] and not any(e.new_sha == V[4] for e in entries):
        print("    VIOLATION: B's reflog entry was truncated away by the in-place rewrite")
        bad.append("a")
finally:
    shutil.rmtree(d, ignore_errors=True)

# ---------------- (b) ENOSPC in the middle of the rewrite ---------------------
d, r = fresh_repo()
try:
    log = os.path.join(d, ".git", "logs", "refs", "heads", "master")
    before = open(log, "rb").read()
    lines = before.splitlines(keepends=True)
    complete_new = b"".join(lines[2:])
    Hooked.writes = 0
    hooks["fail_write_no"] = 2
    try:
        porcelain.reflog_expire(d, ref=NAME, expire_time=5000)
        err = None
    except OSError as e:
        err = e
    after = open(log, "rb").read()
    print("(b) reflog_expire raised:", repr(err))
    print("    log == complete old content:", after == before)
    print("    log == complete new content:", after == complete_new)
    print("    log lines now:")
    for ln in after.splitlines():
        print("      ", ln[:100])
    print("    required: a failed write leaves the complete old content in place")
    if err is not None and after != before and after != complete_new:
        print("    VIOLATION: log is a mixture of new and old bytes")
        bad.append("b")
finally:
    shutil.rmtree(d, ignore_errors=True)

sys.exit(1 if bad else 0)
