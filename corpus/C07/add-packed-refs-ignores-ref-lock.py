"""C07 finding 2: DiskRefsContainer.add_packed_refs() changes a ref while
another writer holds the lock on it (dulwich/refs.py, add_packed_refs).

After rewriting packed-refs, add_packed_refs() does
    os.remove(self.refpath(ref))
for every ref, without taking <ref>.lock (the comment says it "bypasses
remove_if_equals").  So a writer B that holds <ref>.lock, and has verified the
ref's value under that lock, is not protected: actor A's add_packed_refs()
neither fails with FileLocked nor waits, it changes the ref underneath B.
The outcome below (B's compare-and-swap succeeds although the ref no longer
had the expected value, A's update is silently lost) is impossible in any
serial order of A and B.  C git refuses to touch a ref whose .lock exists.

The interleaving is written out sequentially; nothing depends on timing.
"""

import os
import shutil
import sys
import tempfile

from dulwich.file import FileLocked
from dulwich.refs import locked_ref
from dulwich.repo import Repo

TMP = (os.environ.get("CORPUS_TMP") or "/tmp")
os.makedirs(TMP, exist_ok=True)
d = tempfile.mkdtemp(dir=TMP)
try:
    name = b"refs/heads/x"
    v1, v2, v3 = b"1" * 40, b"2" * 40, b"3" * 40
    a = Repo.init(d)  # actor A
    a.refs[name] = v1
    b = Repo(d)  # actor B (own container, own caches)
    loose = os.path.join(d, ".git", "refs", "heads", "x")

    refused = None
    with locked_ref(b.refs, name) as lb:  # B: takes refs/heads/x.lock
        assert os.path.exists(loose + ".lock")
        b_check = lb.ensure_equals(v1)  # B: under the lock, x == v1
        # ---- A runs here, while B holds the lock on x --------------------
        try:
            a.refs.add_packed_refs({name: v2})  # A: set x = v2
            refused = False
        except FileLocked:
            refused = True
        loose_gone_under_lock = not os.path.exists(loose)
        seen_by_reader = Repo(d).refs[name]
        # ---- back to B ---------------------------------------------------
        if b_check:
            lb.set(v3)  # B: x was v1, so make it v3
    final = Repo(d).refs[name]

    print("B verified x == v1 under its lock      :", b_check)
    print("A's add_packed_refs refused (FileLocked):", refused)
    print("loose file removed while B held the lock:", loose_gone_under_lock)
    print("value a reader saw while B held the lock:", seen_by_reader)
    print("final value                             :", final)
    print()
    print("required: while B holds x.lock nobody else may change x; A must get")
    print("FileLocked (as it does from set_if_equals) and x must stay", v1)
    print("until B commits.  Serial outcomes: A;B -> B's check fails, x == v2;")
    print("B;A -> x == v2.  x == v3 with A reporting success is not serialisable.")

    if refused is False and loose_gone_under_lock and seen_by_reader != v1:
        print("VIOLATION: ref changed by another writer while its lock was held")
        sys.exit(1)
    print("ok")
    sys.exit(0)
finally:
    shutil.rmtree(d, ignore_errors=True)
