"""C07 finding 4: _GitFile.close() interrupted (KeyboardInterrupt) right after the
rename has taken effect deletes a lock that belongs to somebody else
(dulwich/file.py, _GitFile.close).

close() runs   os.replace(lock, target)   inside   try: ... except BaseException:
self.abort(); raise.   abort() unconditionally does os.remove(self._lockfilename).
A SIGINT that arrives during the rename(2) is turned into KeyboardInterrupt by
CPython only after the system call has returned, i.e. after the lock file has
already become the target and the name <file>.lock is free again - still inside
that try block.  If another writer B has created its own <file>.lock by then,
A's error path removes B's lock; a third writer C can now take the lock while B
is still writing, and B's content is silently dropped.  The comment below the
try block ("It must not be removed again: by now the path may be a lock taken by
somebody else") states exactly the invariant that the except branch breaks.

Determinism: os.replace is wrapped to (1) perform the real rename, (2) let actor
B take the lock, (3) raise KeyboardInterrupt, which is what a signal delivered
during the rename looks like to close().
"""

import os
import shutil
import sys
import tempfile

import dulwich.file as dfile
from dulwich.file import FileLocked, GitFile

TMP = (os.environ.get("CORPUS_TMP") or "/tmp")
os.makedirs(TMP, exist_ok=True)
d = tempfile.mkdtemp(dir=TMP)
real_replace = os.replace
try:
    path = os.path.join(d, "packed-refs")
    with open(path, "wb") as f:
        f.write(b"old\n")
    state = {}

    def replace_then_interrupt(src, dst, *a, **kw):
        os.replace = real_replace  # only the first call is special
        real_replace(src, dst, *a, **kw)  # A's rename really happens
        state["after_rename"] = open(path, "rb").read()
        b = GitFile(path, "wb")  # actor B: lock name is free -> gets the lock
        b.write(b"content of B\n")
        state["b"] = b
        raise KeyboardInterrupt  # the pending SIGINT surfaces in A

    a = GitFile(path, "wb")  # actor A
    a.write(b"content of A\n")
    os.replace = replace_then_interrupt
    try:
        a.close()
        interrupted = False
    except KeyboardInterrupt:
        interrupted = True
    finally:
        os.replace = real_replace

    b = state["b"]
    b_lock_present = os.path.exists(path + ".lock")
    print("A's rename took effect, file is         :", state["after_rename"])
    print("A.close() raised KeyboardInterrupt       :", interrupted)
    print("B still holds the lock (not closed)      :", not b.closed)
    print("B's lock file still exists               :", b_lock_present)

    # actor C
    try:
        c = GitFile(path, "wb")
        c_got_lock = True
    except FileLocked:
        c_got_lock = False
    print("C obtained the lock while B holds it     :", c_got_lock)
    if c_got_lock:
        c.write(b"content of C\n")
        c.close()
    try:
        b.close()
        b_close = "ok"
    except OSError as e:
        b_close = f"{type(e).__name__}: {e}"
    print("B.close()                                :", b_close)
    print("final content                            :", open(path, "rb").read())
    print()
    print("required: committing or releasing a lock never disturbs a lock taken")
    print("by someone else; while B holds the lock C must get FileLocked.")
    if not b_lock_present or c_got_lock:
        print("VIOLATION: A's error path removed B's lock file")
        sys.exit(1)
    print("ok")
    sys.exit(0)
finally:
    os.replace = real_replace
    shutil.rmtree(d, ignore_errors=True)
