"""C07 finding 1: leaving a locked_ref block without calling set() installs the
EMPTY lock file over the ref (dulwich/refs.py, locked_ref.__exit__).

locked_ref.__enter__ creates <ref>.lock (empty).  __exit__ calls
self._file.close() whenever no exception occurred and delete() was not called,
even if nothing was ever written.  _GitFile.close() renames the empty lock file
over the ref.  So the natural compare-and-swap idiom

    with locked_ref(refs, name) as l:
        if l.ensure_equals(expected):
            l.set(new)

destroys the ref when the comparison fails: the ref file becomes 0 bytes long,
which is neither the complete old content nor any new content.
"""

import os
import shutil
import sys
import tempfile

from dulwich.refs import locked_ref
from dulwich.repo import Repo

TMP = (os.environ.get("CORPUS_TMP") or "/tmp")
os.makedirs(TMP, exist_ok=True)
d = tempfile.mkdtemp(dir=TMP)
try:
    r = Repo.init(d)
    old = b"1" * 40
    name = b"refs/heads/master"
    r.refs[name] = old
    path = os.path.join(d, ".git", "refs", "heads", "master")
    before = open(path, "rb").read()

    # A writer takes the lock, finds that the ref does not have the value it
    # expected, and therefore writes nothing.
    with locked_ref(r.refs, name) as l:
        matched = l.ensure_equals(b"2" * 40)
        if matched:
            l.set(b"3" * 40)

    after = open(path, "rb").read()
    lock_left = os.path.exists(path + ".lock")
    try:
        value = r.refs[name]
    except Exception as e:  # noqa: BLE001
        value = f"{type(e).__name__}: {e}"
    r.close()

    print("comparison matched      :", matched)
    print("ref file before         :", before)
    print("ref file after          :", after)
    print("refs[name] after        :", value)
    print("lock file left behind   :", lock_left)
    print()
    print("required: nothing was written under the lock, so the ref file must")
    print("still hold its complete old content", before)

    if after != before:
        print("VIOLATION: the ref was replaced by the never-written (empty) lock file")
        sys.exit(1)
    print("ok: old content still in place")
    sys.exit(0)
finally:
    shutil.rmtree(d, ignore_errors=True)
