"""C07 finding 5: locked_index.__enter__ leaks index.lock when loading the index
fails (dulwich/index.py, locked_index.__enter__).

__enter__ first creates index.lock (GitFile(path, "wb")) and only then builds
Index(path), which reads and parses the existing index.  If that raises (here:
an index whose header announces a version dulwich does not support; an EIO
while reading has the same effect) the exception leaves __enter__, so Python
never calls __exit__, and nothing aborts the lock.  The failed writer has
written nothing, yet index.lock stays behind for as long as the locked_index
object is referenced, and every other writer gets FileLocked.
"""

import gc
import os
import shutil
import sys
import tempfile

from dulwich.file import FileLocked, GitFile
from dulwich.index import locked_index
from dulwich.repo import Repo

TMP = (os.environ.get("CORPUS_TMP") or "/tmp")
os.makedirs(TMP, exist_ok=True)
d = tempfile.mkdtemp(dir=TMP)
try:
    Repo.init(d).close()
    path = os.path.join(d, ".git", "index")
    old = b"DIRC" + (99).to_bytes(4, "big") + (0).to_bytes(4, "big") + b"\0" * 20
    with open(path, "wb") as f:
        f.write(old)

    writer = locked_index(path)  # e.g. kept as an attribute of a long-lived object
    try:
        with writer as index:
            index.clear()
        failure = None
    except Exception as e:  # noqa: BLE001
        failure = e
    gc.collect()

    lock_left = os.path.exists(path + ".lock")
    try:
        other = GitFile(path, "wb")
        other.abort()
        other_result = "obtained the lock"
    except FileLocked as e:
        other_result = f"FileLocked{e.args}"

    print("the with-statement failed with :", repr(failure))
    print("index content unchanged        :", open(path, "rb").read() == old)
    print("index.lock left behind         :", lock_left)
    print("another writer afterwards      :", other_result)
    print()
    print("required: a write that fails leaves the old content in place AND the")
    print("lock released.")
    if failure is not None and lock_left:
        print("VIOLATION: the failed writer still holds index.lock")
        sys.exit(1)
    print("ok")
    sys.exit(0)
finally:
    shutil.rmtree(d, ignore_errors=True)
