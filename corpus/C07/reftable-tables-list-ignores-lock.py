#!/usr/bin/env python
"""C07 finding 6: the reftable refs backend rewrites reftable/tables.list in
place and takes no lock at all.

tables.list is the one file that says which tables make up the ref database;
the reftable format (and C git) only ever changes it by writing
tables.list.lock and renaming it.  ReftableRefsContainer._update_tables_list /
_compact_tables_list / _flush_pending_updates do `open(tables.list, "wb")`:
 (a) a held tables.list.lock (another writer in its critical section) does
     not stop a ref update;
 (b) open("wb") truncates first, so when the write fails (ENOSPC injected at
     the write call) tables.list is left empty: every ref of the repository
     disappears for all readers, although the failed update concerned one ref.
"""
import builtins
import errno
import os
import shutil
import sys
import tempfile

sys.path.insert(0, "/repo")
import dulwich.reftable as dreftable
from dulwich.file import GitFile
from dulwich.repo import Repo

BASE = (os.environ.get("CORPUS_TMP") or "/tmp")
os.makedirs(BASE, exist_ok=True)
tmp = tempfile.mkdtemp(dir=BASE)
violation = False
A, B, C = b"1" * 40, b"2" * 40, b"3" * 40


def fresh_refs():
    r = Repo(os.path.join(tmp, "r"))
    try:
        return {k.decode(): v[:4].decode() for k, v in r.refs.as_dict().items()}
    finally:
        r.close()


class FailingFile:
    def __init__(self, f):
        self._f = f
    def write(self, data):
        raise OSError(errno.ENOSPC, "No space left on device (injected)")
    def __enter__(self):
        return self
    def __exit__(self, *a):
        self._f.close()


try:
    r = Repo.init(os.path.join(tmp, "r"), mkdir=True)
    c = r.get_config()
    c.set((b"core",), b"repositoryformatversion", b"1")
    c.set((b"extensions",), b"refStorage", b"reftable")
    c.write_to_path()
    r.close()
    r = Repo(os.path.join(tmp, "r"))
    assert type(r.refs).__name__ == "ReftableRefsContainer"
    r.refs[b"refs/heads/a"] = A
    r.refs[b"refs/heads/b"] = B
    tl = os.path.join(tmp, "r", ".git", "reftable", "tables.list")
    print("refs:", fresh_refs())

    # (a) another writer holds tables.list.lock
    other = GitFile(tl, "wb")
    before = open(tl, "rb").read()
    r.refs[b"refs/heads/c"] = C
    changed = open(tl, "rb").read() != before
    print("(a) tables.list rewritten while tables.list.lock is held by another writer:", changed)
    other.abort()
    if changed:
        violation = True

    # (b) the write of tables.list fails
    before = open(tl, "rb").read()
    refs_before = fresh_refs()

    def faulty_open(path, mode="r", *a, **k):
        f = builtins.open(path, mode, *a, **k)
        if os.fspath(path) == tl and "w" in mode:
            return FailingFile(f)
        return f

    dreftable.open = faulty_open  # shadows the builtin inside dulwich.reftable only
    try:
        r.refs[b"refs/heads/a"] = C
        print("(b) unexpected: no error")
    except OSError as e:
        print("(b) update of refs/heads/a failed as injected:", e.strerror)
    finally:
        del dreftable.open
    after = open(tl, "rb").read()
    refs_after = fresh_refs()
    print("(b) tables.list: %d bytes before, %d bytes after the failed write" % (len(before), len(after)))
    print("(b) refs before:", refs_before)
    print("(b) refs after: ", refs_after)
    if after != before:
        violation = True
    r.close()
    print()
    print("required: the file changes only by lock + whole-file rename; a failed")
    print("write leaves the old content; a held lock excludes other writers.")
finally:
    shutil.rmtree(tmp, ignore_errors=True)

print("VIOLATION" if violation else "no violation")
sys.exit(1 if violation else 0)
