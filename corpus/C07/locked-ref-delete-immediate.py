"""C07 finding 7: locked_ref.delete() takes effect immediately instead of at
commit, so an ABORTED locked_ref block has already destroyed the ref
(dulwich/refs.py, locked_ref.delete / locked_ref.__exit__).

delete() rewrites packed-refs without the entry and os.remove()s the loose file
right away; __exit__ then merely drops the lock.  If the with-block is left by
an exception after delete() - which __exit__ treats as "abort" - the old value
is not restored: the ref is gone (loose file and packed entry).  The same early
removal makes delete() followed by set() in one block expose a state to readers
in which the ref has neither its old nor its new value.
"""

import os
import shutil
import sys
import tempfile

from dulwich.refs import locked_ref
from dulwich.repo import Repo

TMP = (os.environ.get("CORPUS_TMP") or "/tmp")
os.makedirs(TMP, exist_ok=True)
d = tempfile.mkdtemp(dir=TMP)
bad = []


def value(name):
    rr = Repo(d)
    try:
        return rr.refs[name]
    except KeyError:
        return None
    finally:
        rr.close()


try:
    r = Repo.init(d)
    v1, v2 = b"1" * 40, b"2" * 40
    a, b = b"refs/heads/a", b"refs/heads/b"
    r.refs[a] = v1
    r.refs[b] = v1
    r.refs.pack_refs(all=True)  # a and b now live in packed-refs
    r.refs[a] = v1
    print("before: a =", value(a), " b =", value(b))

    # ---- aborted block ------------------------------------------------------
    try:
        with locked_ref(r.refs, a) as l:
            l.delete()
            raise RuntimeError("caller changes its mind / later step fails")
    except RuntimeError:
        pass
    after_abort = value(a)
    print("after aborted block: a =", after_abort,
          " lock left:", os.path.exists(os.path.join(d, ".git/refs/heads/a.lock")))
    print("  required: an aborted write leaves the old content", v1, "in place")
    if after_abort != v1:
        print("  VIOLATION: the ref was destroyed although the lock was aborted")
        bad.append("abort")

    # ---- delete() + set() in one block: what a reader sees in between -------
    with locked_ref(r.refs, b) as l:
        l.delete()
        seen = value(b)  # concurrent reader, lock still held, nothing committed
        l.set(v2)
    print("reader during delete()+set() block saw b =", seen, " final b =", value(b))
    print("  required: readers see the complete old (", v1, ") or new (", v2, ") value")
    if seen not in (v1, v2):
        print("  VIOLATION: reader saw the ref missing before the lock was committed")
        bad.append("reader")
    sys.exit(1 if bad else 0)
finally:
    shutil.rmtree(d, ignore_errors=True)
