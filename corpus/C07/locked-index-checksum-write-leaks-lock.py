#!/usr/bin/env python
"""C07 finding 1: locked_index leaves index.lock behind when the write of the
trailing checksum fails.

locked_index.__exit__ guards write_index_dict() with try/except -> abort(), but
then runs SHA1Writer.close() in the `else:` branch.  SHA1Writer.close() first
*writes* the 20 byte trailer (write_sha) and only then calls _GitFile.close().
If that last write raises (ENOSPC, EIO, KeyboardInterrupt ...) nobody calls
abort(): the exception leaves the context manager with .git/index.lock still
on disk, so the failing writer cannot even retry and every other writer gets
FileLocked.  (Index.write(), the sibling routine, has the close inside the try
and does release the lock.)

Caveat: on CPython the leaked _GitFile is eventually reclaimed by refcounting
and its __del__ (a ResourceWarning path) removes the lock file -- but only once
the exception and its traceback are gone.  While the exception is being
handled (retry loops, logging, sys.last_exc in a REPL, stored errors) or on an
interpreter without refcounting the lock stays.

The fault is injected at the I/O boundary: _GitFile.write raises ENOSPC on the
last write call of the operation (the call number is learned from a fault-free
run first).
"""
import errno
import os
import shutil
import sys
import tempfile

sys.path.insert(0, "/repo")
from dulwich import file as dfile
from dulwich.file import FileLocked, GitFile
from dulwich.index import IndexEntry, locked_index
from dulwich.repo import Repo

BASE = (os.environ.get("CORPUS_TMP") or "/tmp")
os.makedirs(BASE, exist_ok=True)
tmp = tempfile.mkdtemp(dir=BASE)
violation = False
orig_write = dfile._GitFile.write
try:
    Repo.init(os.path.join(tmp, "r"), mkdir=True).close()
    index_path = os.path.join(tmp, "r", ".git", "index")
    lock_path = index_path + ".lock"
    entry = IndexEntry((0, 0), (0, 0), 0, 0, 0o100644, 0, 0, 5, b"a" * 40, 0, 0)

    with locked_index(index_path) as idx:  # seed content: "old" index
        idx[b"old"] = entry
    old = open(index_path, "rb").read()

    state = {"n": 0, "fail_at": None}

    def counting_write(self, data):
        state["n"] += 1
        if state["n"] == state["fail_at"]:
            raise OSError(errno.ENOSPC, "No space left on device (injected)")
        return orig_write(self, data)

    dfile._GitFile.write = counting_write

    def operation():
        with locked_index(index_path) as idx:
            idx.read()
            idx[b"new"] = entry

    # fault-free run: learn how many write calls the operation makes
    shutil.copy(index_path, index_path + ".bak")
    operation()
    total = state["n"]
    shutil.copy(index_path + ".bak", index_path)
    print(f"fault-free run: {total} write calls; the last one is the checksum")

    state["n"] = 0
    state["fail_at"] = total
    try:
        operation()
        print("unexpected: no exception")
    except OSError as e:
        print("operation failed as injected:", e)
        # still inside the handler, as a caller that wants to retry would be
        lock_left = os.path.exists(lock_path)
        print("index.lock still present after the failed write:", lock_left)
        state["fail_at"] = None
        try:
            g = GitFile(index_path, "wb")
            g.abort()
            print("retry: lock could be taken again")
        except FileLocked:
            print("retry: FileLocked -- the failed writer never released its lock")
            violation = True
        violation = violation or lock_left
    print("index content unchanged:", open(index_path, "rb").read() == old)
    print()
    print("required: a write that fails leaves the old content in place AND the")
    print("lock released (as Index.write() does in the same situation).")
finally:
    dfile._GitFile.write = orig_write
    shutil.rmtree(tmp, ignore_errors=True)

print("VIOLATION" if violation else "no violation")
sys.exit(1 if violation else 0)
