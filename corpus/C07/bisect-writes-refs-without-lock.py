"""C07 finding 6: BisectState writes the refs refs/bisect/* with a plain
open(path, "wb"), not through the lock protocol (dulwich/bisect.py, mark_bad /
mark_good / skip).

(a) mutual exclusion: while another writer holds refs/bisect/bad.lock (taken via
    the refs container) mark_bad() still overwrites refs/bisect/bad.
(b) all-or-nothing: open(..., "wb") truncates the ref first; if the write then
    fails (ENOSPC) the ref is left EMPTY instead of keeping its old value.

C git updates refs/bisect/bad through update-ref, i.e. under bad.lock + rename.
The fault is injected by shadowing open() inside dulwich.bisect only.
"""

import errno
import io
import os
import shutil
import sys
import tempfile

import dulwich.bisect as bisect_mod
from dulwich import porcelain
from dulwich.bisect import BisectState
from dulwich.refs import locked_ref
from dulwich.repo import Repo

TMP = (os.environ.get("CORPUS_TMP") or "/tmp")
os.makedirs(TMP, exist_ok=True)
WHO = b"A U Thor <a@example.com>"
BAD = b"refs/bisect/bad"
d = tempfile.mkdtemp(dir=TMP)
bad = []
try:
    r = Repo.init(d)
    commits = []
    for i in range(4):
        with open(os.path.join(d, "f"), "w") as f:
            f.write(str(i))
        porcelain.add(r, [os.path.join(d, "f")])
        commits.append(porcelain.commit(r, message=b"c%d" % i, author=WHO, committer=WHO,
                                        commit_timestamp=1000 + i, author_timestamp=1000 + i,
                                        commit_timezone=0, author_timezone=0))
    state = BisectState(r)
    state.start(bad=commits[3], good=[commits[0]], no_checkout=True)
    ref_path = os.path.join(d, ".git", "refs", "bisect", "bad")
    print("refs/bisect/bad after start:", r.refs[BAD])

    # ---- (a) another writer holds the lock on refs/bisect/bad --------------
    other = Repo(d)
    with locked_ref(other.refs, BAD) as lk:
        assert os.path.exists(ref_path + ".lock")
        held_value = lk.get()
        try:
            state.mark_bad(commits[2])
            refused = False
        except Exception as e:  # noqa: BLE001
            refused = True
            print("mark_bad refused:", repr(e))
        value_under_lock = lk.get()
        lk.set(held_value)  # the lock holder writes back what it saw
    print("(a) value when lock was taken       :", held_value)
    print("    mark_bad refused while locked   :", refused)
    print("    value while lock still held     :", value_under_lock)
    print("    required: FileLocked for the second writer; value unchanged")
    if not refused and value_under_lock != held_value:
        print("    VIOLATION: ref overwritten while another writer held its lock")
        bad.append("a")

    # ---- (b) ENOSPC while writing the ref -----------------------------------
    before = open(ref_path, "rb").read()

    class Failing(io.FileIO):
        def write(self, data):
            raise OSError(errno.ENOSPC, os.strerror(errno.ENOSPC))

    def hooked_open(path, mode="r", *a, **kw):
        if mode == "wb" and os.fspath(path) == ref_path:
            return Failing(path, "w")  # same O_TRUNC open the builtin performs
        return io.open(path, mode, *a, **kw)

    bisect_mod.open = hooked_open
    try:
        state.mark_bad(commits[1])
        err = None
    except OSError as e:
        err = e
    finally:
        del bisect_mod.open
    after = open(ref_path, "rb").read()
    print("(b) mark_bad raised                 :", repr(err))
    print("    ref file before                 :", before)
    print("    ref file after the failed write :", after)
    print("    required: a failed write leaves the complete old content in place")
    if err is not None and after != before:
        print("    VIOLATION: ref truncated by the failed write")
        bad.append("b")
    sys.exit(1 if bad else 0)
finally:
    shutil.rmtree(d, ignore_errors=True)
