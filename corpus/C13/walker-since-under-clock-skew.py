import os, shutil, subprocess, sys, tempfile
from dulwich.objects import Commit, Tree
from dulwich.repo import Repo

ENV = dict(os.environ, HOME="/nonexistent", GIT_CONFIG_NOSYSTEM="1", GIT_CONFIG_GLOBAL="/dev/null")
os.makedirs((os.environ.get("CORPUS_TMP") or "/tmp"), exist_ok=True)
TMP = tempfile.mkdtemp(dir=(os.environ.get("CORPUS_TMP") or "/tmp"))


def build(parents, times):
    """Commit i has parents[i] (indices of earlier commits) and commit time times[i]."""
    repo = Repo.init_bare(TMP)
    tree = Tree()
    repo.object_store.add_object(tree)
    ids = []
    for i, ps in enumerate(parents):
        c = Commit()
        c.tree = tree.id
        c.parents = [ids[p] for p in ps]
        c.author = c.committer = b"a <a@example.com>"
        c.author_time = c.commit_time = times[i]
        c.author_timezone = c.commit_timezone = 0
        c.message = b"c%d" % i
        repo.object_store.add_object(c)
        ids.append(c.id)
    return repo, ids


def git(*args):
    out = subprocess.run(["git", "--git-dir", TMP, *args], env=ENV, capture_output=True, text=True)
    return out.stdout.split()


def ancestors(parents):
    anc = []
    for i, ps in enumerate(parents):
        s = {i}
        for p in ps:
            s |= anc[p]
        anc.append(s)
    return anc

# Walker(since=...) loses a commit that is reachable and new enough, when it sits behind more than
# _MAX_EXTRA_COMMITS (5) commits whose clocks are older than `since` (clock skew).
#   chain: N (t=2000, root) <- o1..o6 (t=100..105, wrong clock) <- TIP (t=3000)
parents = [[]] + [[i] for i in range(7)]
times = [2000, 100, 101, 102, 103, 104, 105, 3000]
try:
    repo, ids = build(parents, times)
    idx = {s: i for i, s in enumerate(ids)}
    since = 1500
    expected = sorted(i for i in range(len(parents)) if times[i] >= since)
    bad = False
    for order in ("date", "topo"):
        got = [idx[e.commit.id] for e in repo.get_walker(include=[ids[7]], since=since, order=order)]
        print("Walker(include=[TIP], since=%d, order=%s) -> %r" % (since, order, got))
        bad = bad or sorted(got) != expected
    print("required: every reachable commit with commit_time >= since, each once:", expected)
    repo.close()
    shutil.rmtree(TMP)
    os.mkdir(TMP)
    repo, ids = build([[]] + [[i] for i in range(5)], [2000, 100, 101, 102, 103, 3000])
    idx = {s: i for i, s in enumerate(ids)}
    print("same shape with only 4 old commits in between ->",
          [idx[e.commit.id] for e in repo.get_walker(include=[ids[5]], since=since)], "(root reported)")
    if bad:
        print("VIOLATION: commit 0 (t=2000) is reachable from TIP and newer than `since`, but the queue gives up")
        print("after 5 too-old commits. With only 4 old commits in between the same commit IS reported, so the")
        print("answer depends on the number of skewed commits, not on the graph.")
finally:
    shutil.rmtree(TMP, ignore_errors=True)
sys.exit(1 if bad else 0)
