"""C13 finding 6: porcelain.log(reverse=True, max_entries=N) shows the wrong
commits (the N oldest instead of the N newest).

porcelain.log() passes reverse to Repo.get_walker() but keeps max_entries to
itself ("We filter ourselves") and counts entries while iterating the already
reversed walk.  The limit is therefore applied after the reversal, so on a
linear, monotone history c1..c6 it prints c1, c2.  git (and dulwich's own
Walker(reverse=True, max_entries=2)) limit first and reverse afterwards:
`git log --reverse -n 2` prints c5, c6.
"""
import io, os, shutil, subprocess, sys, tempfile

from dulwich import porcelain
from dulwich.objects import Commit, Tree
from dulwich.repo import Repo

ENV = dict(os.environ, HOME="/nonexistent", GIT_CONFIG_NOSYSTEM="1",
           GIT_CONFIG_GLOBAL="/dev/null")
os.makedirs((os.environ.get("CORPUS_TMP") or "/tmp"), exist_ok=True)
d = tempfile.mkdtemp(dir=(os.environ.get("CORPUS_TMP") or "/tmp"))
try:
    path = os.path.join(d, "r")
    repo = Repo.init(path, mkdir=True)
    tree = Tree()
    repo.object_store.add_object(tree)
    prev, names = None, {}
    for i in range(1, 7):
        c = Commit()
        c.tree = tree.id
        c.parents = [prev] if prev else []
        c.author = c.committer = b"a <a@example.com>"
        c.author_time = c.commit_time = 1000 * i
        c.author_timezone = c.commit_timezone = 0
        c.message = b"c%d\n" % i
        repo.object_store.add_object(c)
        names[c.id] = "c%d" % i
        prev = c.id
    repo.refs[b"refs/heads/master"] = prev
    repo.refs.set_symbolic_ref(b"HEAD", b"refs/heads/master")

    walker = [names[e.commit.id] for e in
              repo.get_walker([prev], reverse=True, max_entries=2)]
    repo.close()

    buf = io.StringIO()
    porcelain.log(path, outstream=buf, reverse=True, max_entries=2, oneline=True)
    got = [line.split()[-1] for line in buf.getvalue().splitlines() if line.strip()]

    out = subprocess.run(["git", "-C", path, "log", "--reverse", "-n", "2",
                          "--format=%s"], env=ENV, capture_output=True, check=True)
    git = out.stdout.decode().split()
finally:
    shutil.rmtree(d, ignore_errors=True)

print("porcelain.log(reverse=True, max_entries=2):", got)
print("Walker(reverse=True, max_entries=2)       :", walker)
print("git log --reverse -n 2                    :", git)
print("property: the walk with {reverse, max_entries} agrees with git: the two "
      "newest commits, oldest first")
sys.exit(1 if got != git else 0)
