import os, shutil, subprocess, sys, tempfile
from dulwich.objects import Commit, Tree
from dulwich.repo import Repo

ENV = dict(os.environ, HOME="/nonexistent", GIT_CONFIG_NOSYSTEM="1", GIT_CONFIG_GLOBAL="/dev/null")
os.makedirs((os.environ.get("CORPUS_TMP") or "/tmp"), exist_ok=True)
TMP = tempfile.mkdtemp(dir=(os.environ.get("CORPUS_TMP") or "/tmp"))


def build(parents, times):
    """Commit i has parents[i] (indices of earlier commits) and commit time times[i]."""
    repo = Repo.init_bare(TMP)
    tree = Tree()
    repo.object_store.add_object(tree)
    ids = []
    for i, ps in enumerate(parents):
        c = Commit()
        c.tree = tree.id
        c.parents = [ids[p] for p in ps]
        c.author = c.committer = b"a <a@example.com>"
        c.author_time = c.commit_time = times[i]
        c.author_timezone = c.commit_timezone = 0
        c.message = b"c%d" % i
        repo.object_store.add_object(c)
        ids.append(c.id)
    return repo, ids


def git(*args):
    out = subprocess.run(["git", "--git-dir", TMP, *args], env=ENV, capture_output=True, text=True)
    return out.stdout.split()


def ancestors(parents):
    anc = []
    for i, ps in enumerate(parents):
        s = {i}
        for p in ps:
            s |= anc[p]
        anc.append(s)
    return anc

# find_octopus_base returns the same commit twice (criss-cross merges 3 and 4 over 1 and 2).
from dulwich.graph import find_octopus_base

parents = [[], [0], [0], [2, 1], [1, 2]]
times = [1000, 1010, 1020, 1030, 1040]  # monotone clock
try:
    repo, ids = build(parents, times)
    idx = {s: i for i, s in enumerate(ids)}
    query = [3, 4, 0]
    got = [idx[x] for x in find_octopus_base(repo, [ids[q] for q in query])]
    gitans = [idx[x.encode()] for x in git("merge-base", "--octopus", "--all", *[ids[q].decode() for q in query])]
    print("commits (index: parents):", dict(enumerate(parents)))
    print("find_octopus_base(3, 4, 0) ->", got)
    print("required: exactly the set of maximal common ancestors, [0] (C git says", gitans, ")")
    bad = got != [0]
    if bad:
        print("VIOLATION: mb(3,4) = [1, 2]; each of them is then merged with 0 giving [0] twice,")
        print("and the concatenated list is returned without de-duplication.")
finally:
    shutil.rmtree(TMP, ignore_errors=True)
sys.exit(1 if bad else 0)
