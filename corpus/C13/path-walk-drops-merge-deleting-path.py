"""C13 finding 3: a path-limited walk drops a merge commit that deletes the path.

Walker._should_return() decides for merge commits through
WalkEntry.changes() -> diff_tree.tree_changes_for_merge(), which reports a
deleted path only "if not all of the old SHAs match".  A merge whose parents
both contain the same blob at `f` and whose own tree has no `f` therefore
produces no change for `f`, and Walker(paths=[b"f"]) silently omits the only
commit that removed the file.  git lists that merge for `-- f` in its default
mode and with --full-history (it is not TREESAME to any parent).
"""
import os, shutil, subprocess, sys, tempfile

from dulwich.objects import Blob, Commit, Tree
from dulwich.repo import Repo

ENV = dict(os.environ, HOME="/nonexistent", GIT_CONFIG_NOSYSTEM="1",
           GIT_CONFIG_GLOBAL="/dev/null")
os.makedirs((os.environ.get("CORPUS_TMP") or "/tmp"), exist_ok=True)
d = tempfile.mkdtemp(dir=(os.environ.get("CORPUS_TMP") or "/tmp"))
try:
    repo = Repo.init(os.path.join(d, "r"), mkdir=True)
    blob = Blob.from_string(b"content\n")
    repo.object_store.add_object(blob)

    def tree(with_f, g):
        t = Tree()
        if with_f:
            t.add(b"f", 0o100644, blob.id)
        gb = Blob.from_string(g)
        repo.object_store.add_object(gb)
        t.add(b"g", 0o100644, gb.id)
        repo.object_store.add_object(t)
        return t.id

    ids = {}
    #  R (adds f) -- A (touches g) --.
    #   \                             M  (merge: removes f)
    #    `---------- B (touches g) --'
    spec = [("R", [], 1, tree(True, b"0")), ("A", ["R"], 2, tree(True, b"a")),
            ("B", ["R"], 3, tree(True, b"b")), ("M", ["A", "B"], 4, tree(False, b"m"))]
    for name, parents, t, tid in spec:
        c = Commit()
        c.tree = tid
        c.parents = [ids[p] for p in parents]
        c.author = c.committer = b"a <a@example.com>"
        c.author_time = c.commit_time = t
        c.author_timezone = c.commit_timezone = 0
        c.message = name.encode()
        repo.object_store.add_object(c)
        ids[name] = c.id
    names = {v: k for k, v in ids.items()}
    tip = ids["M"]

    got = [names[e.commit.id] for e in repo.get_walker([tip], paths=[b"f"])]

    def git(*args):
        out = subprocess.run(["git", "-C", repo.path, "rev-list", *args,
                              tip.decode(), "--", "f"],
                             env=ENV, capture_output=True, check=True)
        return [names[l.encode()] for l in out.stdout.decode().split()]

    g_default, g_full = git(), git("--full-history")
    repo.close()
finally:
    shutil.rmtree(d, ignore_errors=True)

print("dulwich Walker(paths=[b'f'])        :", got)
print("git rev-list M -- f                 :", g_default)
print("git rev-list --full-history M -- f  :", g_full)
print("property: the path-limited walk agrees with git; M (the commit that "
      "deleted f) must be listed")
sys.exit(1 if (set(got) != set(g_default) and set(got) != set(g_full)) else 0)
