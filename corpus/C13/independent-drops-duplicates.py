import os, shutil, subprocess, sys, tempfile
from dulwich.objects import Commit, Tree
from dulwich.repo import Repo

ENV = dict(os.environ, HOME="/nonexistent", GIT_CONFIG_NOSYSTEM="1", GIT_CONFIG_GLOBAL="/dev/null")
os.makedirs((os.environ.get("CORPUS_TMP") or "/tmp"), exist_ok=True)
TMP = tempfile.mkdtemp(dir=(os.environ.get("CORPUS_TMP") or "/tmp"))


def build(parents, times):
    """Commit i has parents[i] (indices of earlier commits) and commit time times[i]."""
    repo = Repo.init_bare(TMP)
    tree = Tree()
    repo.object_store.add_object(tree)
    ids = []
    for i, ps in enumerate(parents):
        c = Commit()
        c.tree = tree.id
        c.parents = [ids[p] for p in ps]
        c.author = c.committer = b"a <a@example.com>"
        c.author_time = c.commit_time = times[i]
        c.author_timezone = c.commit_timezone = 0
        c.message = b"c%d" % i
        repo.object_store.add_object(c)
        ids.append(c.id)
    return repo, ids


def git(*args):
    out = subprocess.run(["git", "--git-dir", TMP, *args], env=ENV, capture_output=True, text=True)
    return out.stdout.split()


def ancestors(parents):
    anc = []
    for i, ps in enumerate(parents):
        s = {i}
        for p in ps:
            s |= anc[p]
        anc.append(s)
    return anc

# independent() drops a commit entirely when it is listed twice.
from dulwich.graph import independent

parents = [[], [0], [0]]
times = [1000, 1010, 1020]
try:
    repo, ids = build(parents, times)
    idx = {s: i for i, s in enumerate(ids)}
    bad = False
    for query, expected in (([1, 1], [1]), ([1, 2, 1], [1, 2])):
        got = [idx[x] for x in independent(repo, [ids[q] for q in query])]
        gitans = [idx[x.encode()] for x in git("merge-base", "--independent", *[ids[q].decode() for q in query])]
        print("independent(%r) -> %r; required %r (C git: %r)" % (query, got, expected, gitans))
        if sorted(set(got)) != expected:
            bad = True
    if bad:
        print("VIOLATION: commit 1 is not reachable from any *other* commit of the set, yet it is filtered out:")
        print("independent() compares list positions, and find_merge_base([x, x]) == [x] makes each copy")
        print("count the other copy as a descendant.")
finally:
    shutil.rmtree(TMP, ignore_errors=True)
sys.exit(1 if bad else 0)
