import os, shutil, subprocess, sys, tempfile
from dulwich.objects import Commit, Tree
from dulwich.repo import Repo

ENV = dict(os.environ, HOME="/nonexistent", GIT_CONFIG_NOSYSTEM="1", GIT_CONFIG_GLOBAL="/dev/null")
os.makedirs((os.environ.get("CORPUS_TMP") or "/tmp"), exist_ok=True)
TMP = tempfile.mkdtemp(dir=(os.environ.get("CORPUS_TMP") or "/tmp"))


def build(parents, times):
    """Commit i has parents[i] (indices of earlier commits) and commit time times[i]."""
    repo = Repo.init_bare(TMP)
    tree = Tree()
    repo.object_store.add_object(tree)
    ids = []
    for i, ps in enumerate(parents):
        c = Commit()
        c.tree = tree.id
        c.parents = [ids[p] for p in ps]
        c.author = c.committer = b"a <a@example.com>"
        c.author_time = c.commit_time = times[i]
        c.author_timezone = c.commit_timezone = 0
        c.message = b"c%d" % i
        repo.object_store.add_object(c)
        ids.append(c.id)
    return repo, ids


def git(*args):
    out = subprocess.run(["git", "--git-dir", TMP, *args], env=ENV, capture_output=True, text=True)
    return out.stdout.split()


def ancestors(parents):
    anc = []
    for i, ps in enumerate(parents):
        s = {i}
        for p in ps:
            s |= anc[p]
        anc.append(s)
    return anc

# find_octopus_base returns a common ancestor that is NOT maximal.
#      0 (root)
#     / \
#    1   2        3 = octopus merge of (0, 2, 1), 4 = merge of (2, 1)
from dulwich.graph import find_octopus_base

parents = [[], [0], [0], [0, 2, 1], [2, 1]]
times = [1000, 1010, 1020, 1030, 1040]  # monotone clock, no skew needed
try:
    repo, ids = build(parents, times)
    idx = {s: i for i, s in enumerate(ids)}
    anc = ancestors(parents)
    query = [3, 4, 1]
    common = set.intersection(*[anc[q] for q in query])
    expected = sorted(x for x in common if not any(x != y and x in anc[y] for y in common))
    got = [idx[x] for x in find_octopus_base(repo, [ids[q] for q in query])]
    gitans = sorted(idx[x.encode()] for x in git("merge-base", "--octopus", "--all", *[ids[q].decode() for q in query]))
    print("commits (index: parents):", dict(enumerate(parents)))
    print("find_octopus_base(3, 4, 1) ->", got)
    print("maximal common ancestors   ->", expected, "(C git says", gitans, ")")
    bad = sorted(got) != expected
    if bad:
        print("VIOLATION: commit 0 is an ancestor of commit 1, so it is not a maximal common ancestor;")
        print("find_octopus_base folds pairwise merge bases (mb(1,1)=[1], mb(1,2)=[0]) and never reduces the result.")
finally:
    shutil.rmtree(TMP, ignore_errors=True)
sys.exit(1 if bad else 0)
