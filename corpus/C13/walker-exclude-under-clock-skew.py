import os, shutil, subprocess, sys, tempfile
from dulwich.objects import Commit, Tree
from dulwich.repo import Repo

ENV = dict(os.environ, HOME="/nonexistent", GIT_CONFIG_NOSYSTEM="1", GIT_CONFIG_GLOBAL="/dev/null")
os.makedirs((os.environ.get("CORPUS_TMP") or "/tmp"), exist_ok=True)
TMP = tempfile.mkdtemp(dir=(os.environ.get("CORPUS_TMP") or "/tmp"))


def build(parents, times):
    """Commit i has parents[i] (indices of earlier commits) and commit time times[i]."""
    repo = Repo.init_bare(TMP)
    tree = Tree()
    repo.object_store.add_object(tree)
    ids = []
    for i, ps in enumerate(parents):
        c = Commit()
        c.tree = tree.id
        c.parents = [ids[p] for p in ps]
        c.author = c.committer = b"a <a@example.com>"
        c.author_time = c.commit_time = times[i]
        c.author_timezone = c.commit_timezone = 0
        c.message = b"c%d" % i
        repo.object_store.add_object(c)
        ids.append(c.id)
    return repo, ids


def git(*args):
    out = subprocess.run(["git", "--git-dir", TMP, *args], env=ENV, capture_output=True, text=True)
    return out.stdout.split()


def ancestors(parents):
    anc = []
    for i, ps in enumerate(parents):
        s = {i}
        for p in ps:
            s |= anc[p]
        anc.append(s)
    return anc

# Walker with an exclude set emits a commit that IS reachable from an excluded commit, when one
# excluded commit has a timestamp older than its parent and >= 5 other excluded commits sit in between.
#   R (t=1060, root)  <-  K (t=1005, child of R, clock ran backwards)
#   c1..c6 : unrelated linear chain, t=1000..1050 (tip H = c6)
#   walk include=[R], exclude=[K, H]   ->  must be empty (R is an ancestor of K)
parents = [[], [0], [], [2], [3], [4], [5], [6]]
times = [1060, 1005, 1000, 1010, 1020, 1030, 1040, 1050]
R, K, H = 0, 1, 7
try:
    repo, ids = build(parents, times)
    idx = {s: i for i, s in enumerate(ids)}
    anc = ancestors(parents)
    expected = sorted(anc[R] - (anc[K] | anc[H]))
    bad = False
    for order in ("date", "topo"):
        got = [idx[e.commit.id] for e in repo.get_walker(include=[ids[R]], exclude=[ids[K], ids[H]], order=order)]
        print("Walker(include=[R], exclude=[K, H], order=%s) -> %r" % (order, got))
        bad = bad or sorted(got) != expected
    gitans = [idx[x.encode()] for x in git("rev-list", ids[R].decode(), "^" + ids[K].decode(), "^" + ids[H].decode())]
    print("required (reachable from R minus reachable from K, H):", expected, "; git rev-list R ^K ^H:", gitans)
    if bad:
        print("VIOLATION: _CommitTimeQueue._step stops after _MAX_EXTRA_COMMITS(5) excluded commits once the")
        print("whole queue is excluded, so K (older than its parent) is never popped and never marks R excluded.")
finally:
    shutil.rmtree(TMP, ignore_errors=True)
sys.exit(1 if bad else 0)
