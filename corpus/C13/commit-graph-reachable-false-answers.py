import os, shutil, subprocess, sys, tempfile
from dulwich.objects import Commit, Tree
from dulwich.repo import Repo

ENV = dict(os.environ, HOME="/nonexistent", GIT_CONFIG_NOSYSTEM="1", GIT_CONFIG_GLOBAL="/dev/null")
os.makedirs((os.environ.get("CORPUS_TMP") or "/tmp"), exist_ok=True)
TMP = tempfile.mkdtemp(dir=(os.environ.get("CORPUS_TMP") or "/tmp"))


def build(parents, times):
    """Commit i has parents[i] (indices of earlier commits) and commit time times[i]."""
    repo = Repo.init_bare(TMP)
    tree = Tree()
    repo.object_store.add_object(tree)
    ids = []
    for i, ps in enumerate(parents):
        c = Commit()
        c.tree = tree.id
        c.parents = [ids[p] for p in ps]
        c.author = c.committer = b"a <a@example.com>"
        c.author_time = c.commit_time = times[i]
        c.author_timezone = c.commit_timezone = 0
        c.message = b"c%d" % i
        repo.object_store.add_object(c)
        ids.append(c.id)
    return repo, ids


def git(*args):
    out = subprocess.run(["git", "--git-dir", TMP, *args], env=ENV, capture_output=True, text=True)
    return out.stdout.split()


def ancestors(parents):
    anc = []
    for i, ps in enumerate(parents):
        s = {i}
        for p in ps:
            s |= anc[p]
        anc.append(s)
    return anc

# A commit-graph written by dulwich's own write_commit_graph(refs, reachable=False) makes ancestry vanish:
# parents that are not in the graph are written as "no parent" and the reader trusts that.
from dulwich.graph import can_fast_forward, find_merge_base

parents = [[], [0], [1], [1]]
times = [1000, 1010, 1020, 1030]
try:
    repo, ids = build(parents, times)
    idx = {s: i for i, s in enumerate(ids)}

    def answers(r):
        return (
            [idx[x] for x in find_merge_base(r, [ids[2], ids[3]])],
            can_fast_forward(r, ids[0], ids[3]),
            [idx[e.commit.id] for e in r.get_walker(include=[ids[3]])],
        )

    before = answers(repo)
    repo.object_store.write_commit_graph([ids[2], ids[3]], reachable=False)
    repo.close()
    repo = Repo(TMP)
    assert repo.object_store.get_commit_graph() is not None
    after = answers(repo)
    repo.close()
    print("                         merge_base(2,3)  can_ff(0->3)  walk(3)")
    print("without commit-graph:   ", before)
    print("with commit-graph:      ", after)
    print("git merge-base 2 3 (core.commitGraph=false):",
          [idx[x.encode()] for x in git("-c", "core.commitGraph=false", "merge-base", ids[2].decode(), ids[3].decode())])
    bad = before != after
    if bad:
        print("VIOLATION: answers must be the same with and without a commit-graph ([1], True, [3, 1, 0]).")
        print("CommitGraph.write_to_file stores GRAPH_PARENT_MISSING for parents outside the graph;")
        print("_parse_chunks drops them, and ParentsProvider.get_parents returns the truncated list.")
finally:
    shutil.rmtree(TMP, ignore_errors=True)
sys.exit(1 if bad else 0)
