"""C13 finding 4: a path-limited walk does no history simplification and so
matches no mode of `git log -- <path>`.

Walker._next()/_should_return() walk every reachable commit and merely filter:
a non-merge is kept when it changes the path, a merge only when it differs from
ALL parents.  _CommitTimeQueue never stops following a parent.  For the most
ordinary case - two branches change `f` differently and the merge keeps the
first parent's version - git's default mode follows only the TREESAME parent
and lists [A, R]; --full-history lists [M, B, A, R].  dulwich lists [B, A, R]:
it shows B, whose change was discarded by the merge (git default prunes it),
yet hides M (which --full-history shows).  No git simplification mode
(--dense/--sparse/--simplify-merges/--show-pulls) produces that answer.
"""
import os, shutil, subprocess, sys, tempfile

from dulwich.objects import Blob, Commit, Tree
from dulwich.repo import Repo

ENV = dict(os.environ, HOME="/nonexistent", GIT_CONFIG_NOSYSTEM="1",
           GIT_CONFIG_GLOBAL="/dev/null")
os.makedirs((os.environ.get("CORPUS_TMP") or "/tmp"), exist_ok=True)
d = tempfile.mkdtemp(dir=(os.environ.get("CORPUS_TMP") or "/tmp"))
try:
    repo = Repo.init(os.path.join(d, "r"), mkdir=True)
    def tree(content):
        t = Tree()
        b = Blob.from_string(content)
        repo.object_store.add_object(b)
        t.add(b"f", 0o100644, b.id)
        repo.object_store.add_object(t)
        return t.id

    ids = {}
    #  R (f=0) -- A (f=1) --.
    #   \                    M  (merge, keeps A's f=1)
    #    `------- B (f=2) --'
    spec = [("R", [], 1, tree(b"0")), ("A", ["R"], 2, tree(b"1")),
            ("B", ["R"], 3, tree(b"2")), ("M", ["A", "B"], 4, tree(b"1"))]
    for name, parents, t, tid in spec:
        c = Commit()
        c.tree = tid
        c.parents = [ids[p] for p in parents]
        c.author = c.committer = b"a <a@example.com>"
        c.author_time = c.commit_time = t
        c.author_timezone = c.commit_timezone = 0
        c.message = name.encode()
        repo.object_store.add_object(c)
        ids[name] = c.id
    names = {v: k for k, v in ids.items()}
    tip = ids["M"]

    got = [names[e.commit.id] for e in repo.get_walker([tip], paths=[b"f"])]

    def git(*args):
        out = subprocess.run(["git", "-C", repo.path, "rev-list", *args,
                              tip.decode(), "--", "f"],
                             env=ENV, capture_output=True, check=True)
        return [names[l.encode()] for l in out.stdout.decode().split()]

    g_default, g_full = git(), git("--full-history")
    repo.close()
finally:
    shutil.rmtree(d, ignore_errors=True)

print("dulwich Walker(paths=[b'f'])        :", got)
print("git rev-list M -- f                 :", g_default)
print("git rev-list --full-history M -- f  :", g_full)
print("property: the path-limited walk agrees with git "
      "(default mode [A, R]; at the very least one of its modes)")
sys.exit(1 if (set(got) != set(g_default) and set(got) != set(g_full)) else 0)
