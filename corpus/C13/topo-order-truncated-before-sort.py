import os, shutil, subprocess, sys, tempfile
from dulwich.objects import Commit, Tree
from dulwich.repo import Repo

ENV = dict(os.environ, HOME="/nonexistent", GIT_CONFIG_NOSYSTEM="1", GIT_CONFIG_GLOBAL="/dev/null")
os.makedirs((os.environ.get("CORPUS_TMP") or "/tmp"), exist_ok=True)
TMP = tempfile.mkdtemp(dir=(os.environ.get("CORPUS_TMP") or "/tmp"))


def build(parents, times):
    """Commit i has parents[i] (indices of earlier commits) and commit time times[i]."""
    repo = Repo.init_bare(TMP)
    tree = Tree()
    repo.object_store.add_object(tree)
    ids = []
    for i, ps in enumerate(parents):
        c = Commit()
        c.tree = tree.id
        c.parents = [ids[p] for p in ps]
        c.author = c.committer = b"a <a@example.com>"
        c.author_time = c.commit_time = times[i]
        c.author_timezone = c.commit_timezone = 0
        c.message = b"c%d" % i
        repo.object_store.add_object(c)
        ids.append(c.id)
    return repo, ids


def git(*args):
    out = subprocess.run(["git", "--git-dir", TMP, *args], env=ENV, capture_output=True, text=True)
    return out.stdout.split()


def ancestors(parents):
    anc = []
    for i, ps in enumerate(parents):
        s = {i}
        for p in ps:
            s |= anc[p]
        anc.append(s)
    return anc

# order=topo together with max_entries: the limit is applied to the date-ordered stream BEFORE the
# topological reordering, so the result is not a prefix of any topological order: a parent is yielded
# while its (reachable, not excluded) child is not yielded at all.
#   T (t=1100) has parents A and B;  A (t=1010) has parent B;  B (t=1090) is a root.
parents = [[], [0], [1, 0]]
times = [1090, 1010, 1100]
B, A, T = 0, 1, 2
try:
    repo, ids = build(parents, times)
    idx = {s: i for i, s in enumerate(ids)}
    name = {B: "B", A: "A", T: "T"}
    full = [name[idx[e.commit.id]] for e in repo.get_walker(include=[ids[T]], order="topo")]
    got = [name[idx[e.commit.id]] for e in repo.get_walker(include=[ids[T]], order="topo", max_entries=2)]
    gitans = [name[idx[x.encode()]] for x in git("rev-list", "--topo-order", "-n", "2", ids[T].decode())]
    print("topo walk, no limit      ->", full)
    print("topo walk, max_entries=2 ->", got)
    print("git rev-list --topo-order -n 2 ->", gitans)
    bad = got != full[:2]
    if bad:
        print("VIOLATION: required the first 2 entries of the topological order", full[:2], ";")
        print("got parent B although its child A was never yielded (Walker._next counts max_entries on the")
        print("commit-time stream, Walker._reorder sorts topologically only afterwards).")
    # same effect with a perfectly monotone clock: the selected SET differs from git's
finally:
    shutil.rmtree(TMP, ignore_errors=True)
sys.exit(1 if bad else 0)
