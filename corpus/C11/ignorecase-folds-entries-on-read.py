#!/venv/bin/python
"""C11 finding 3: with core.ignorecase (or core.precomposeunicode) set,
Repo.open_index() loses entries while READING an index and mixes up their
contents; the next Index.write() makes the loss permanent.

Repo.open_index() passes path_normalizer=make_path_normalizer(config) to
Index().  Index.read() loads the file through self.update(entries) ->
Index.__setitem__(), and __setitem__ first maps the name through
canonical_path(): a name that is not yet present but whose case-folded form
equals that of an existing key is redirected to that key.  So when the file
holds both b"README" and b"readme" (perfectly legal in the index; C git keeps
and lists both, also with core.ignorecase=true, e.g. after cloning such a tree
on macOS/Windows or on a case-sensitive FS with the option set) the second
entry overwrites the first: one path disappears and the surviving path gets
the other path's blob.
"""
import os, shutil, subprocess, sys, tempfile

sys.path.insert(0, "/repo")
from dulwich.repo import Repo

ENV = dict(os.environ, HOME="/nonexistent", GIT_CONFIG_NOSYSTEM="1",
           GIT_CONFIG_GLOBAL="/dev/null")
os.makedirs((os.environ.get("CORPUS_TMP") or "/tmp"), exist_ok=True)
tmp = tempfile.mkdtemp(dir=(os.environ.get("CORPUS_TMP") or "/tmp"))
violations = 0


def git(*args, inp=None):
    return subprocess.run(["git", "-C", tmp] + list(args), env=ENV, check=True,
                          input=inp, capture_output=True).stdout


def git_listing():
    out = []
    for rec in git("ls-files", "-s", "-z").split(b"\0"):
        if rec:
            meta, name = rec.split(b"\t", 1)
            out.append((name, meta.split()[1]))
    return out


try:
    subprocess.check_call(["git", "init", "-q", tmp], env=ENV)
    git("config", "core.ignorecase", "true")
    b1 = git("hash-object", "-w", "--stdin", inp=b"upper\n").strip()
    b2 = git("hash-object", "-w", "--stdin", inp=b"lower\n").strip()
    git("update-index", "--index-info", inp=b"".join(
        b"100644 %s 0\t%s\n" % (b, n)
        for b, n in ((b1, b"README"), (b2, b"readme"), (b1, b"zz"))))
    before = git_listing()
    print("C git lists           :", before)

    r = Repo(tmp)
    idx = r.open_index()
    seen = [(k, v.sha) for k, v in sorted(idx.items())]
    print("dulwich open_index()  :", seen)
    if seen != before:
        violations += 1
        print("  -> dulwich does not see the entries C git wrote")

    idx.write()      # no modification requested
    r.close()
    after = git_listing()
    print("C git after idx.write():", after)
    if after != before:
        violations += 1
        print("  -> a pure read + write changed the index: entry lost, "
              "README now carries the blob of 'readme'")
finally:
    shutil.rmtree(tmp, ignore_errors=True)

print()
print("required: dulwich reads every index C git writes with the same entries, "
      "and write-after-read is the identity on entries")
print("violations:", violations)
sys.exit(1 if violations else 0)
