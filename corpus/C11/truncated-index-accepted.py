#!/venv/bin/python
"""C11 finding 1: a truncated index file passes the checksum verification.

Index.read() ends with SHA1Reader.check_sha(allow_empty=True).  With
allow_empty=True a stored trailer that is SHORTER than 20 bytes (because the
file ends early) is accepted without comparing anything.  Together with
read_cache_entry(), which does not check that f.read(namelen) returned namelen
bytes, an index that was cut off anywhere inside the last entry's name, its
padding, an extension, or the trailer itself is loaded without any error, and
the last path comes back shortened.  git fsck (where C git verifies the index
checksum) reports "bad index file sha1 signature" for every such file.
"""
import os, shutil, subprocess, sys, tempfile

sys.path.insert(0, "/repo")
from dulwich.index import Index, IndexEntry

ENV = dict(os.environ, HOME="/nonexistent", GIT_CONFIG_NOSYSTEM="1",
           GIT_CONFIG_GLOBAL="/dev/null")
os.makedirs((os.environ.get("CORPUS_TMP") or "/tmp"), exist_ok=True)
tmp = tempfile.mkdtemp(dir=(os.environ.get("CORPUS_TMP") or "/tmp"))
violations = 0
try:
    subprocess.check_call(["git", "init", "-q", tmp], env=ENV)
    path = os.path.join(tmp, ".git", "index")
    sha = b"e69de29bb2d1d6434b8b29ae775ad8c2e48c5391"
    long_name = b"dir/some-rather-long-file-name.txt"
    idx = Index(path, read=False)
    for name in (b"a", long_name):
        idx[name] = IndexEntry((1, 2), (3, 4), 5, 6, 0o100644, 7, 8, 9, sha)
    idx.write()
    good = open(path, "rb").read()
    print("intact index: %d bytes, entries %r" % (len(good), list(Index(path))))

    def git_fsck():
        # git verifies the index checksum in fsck
        r = subprocess.run(["git", "-C", tmp, "fsck"], env=ENV,
                           capture_output=True)
        bad = [l for l in r.stderr.decode().splitlines() if "index" in l]
        return "; ".join(bad) or "index ok"

    for cut in (1, 10, 20, 24, 30, 45):
        with open(path, "wb") as f:
            f.write(good[:-cut])
        verdict = git_fsck()
        try:
            got = list(Index(path))
        except Exception as e:  # any error == damage detected
            print("cut %2d bytes: dulwich detects damage (%s)" % (cut, type(e).__name__))
            continue
        violations += 1
        print("cut %2d bytes: dulwich ACCEPTS the file, entries=%r" % (cut, got))
        print("              git fsck says: %s" % verdict)

    # Same root cause, damage in the middle of the file: one flipped bit in the
    # size field of an extension (size now points past EOF).
    ext = b"UNTR" + (4).to_bytes(4, "big") + b"abcd"
    idx = Index(path, read=False)
    idx[b"a"] = IndexEntry((1, 2), (3, 4), 5, 6, 0o100644, 7, 8, 9, sha)
    idx.write()
    body = open(path, "rb").read()[:-20] + ext
    import hashlib
    whole = body + hashlib.sha1(body).digest()
    open(path, "wb").write(whole)
    assert [e.signature for e in Index(path)._extensions] == [b"UNTR"]
    pos = len(body) - len(ext) + 4  # first byte of the size field
    damaged = bytearray(whole)
    damaged[pos] ^= 0x01            # size 4 -> 0x01000004
    open(path, "wb").write(bytes(damaged))
    try:
        i2 = Index(path)
        violations += 1
        print("bit flip in extension size: dulwich ACCEPTS the file, "
              "extensions now %r (checksum never compared)" % (i2._extensions,))
    except Exception as e:
        print("bit flip in extension size: detected (%s)" % type(e).__name__)
finally:
    shutil.rmtree(tmp, ignore_errors=True)

print()
print("required: every one of these damaged files must be rejected "
      "(checksum mismatch / short file), as git fsck does")
print("violations:", violations)
sys.exit(1 if violations else 0)
