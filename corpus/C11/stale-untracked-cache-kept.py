#!/venv/bin/python
"""C11 finding 6 (borderline scope: agreement with C git about an index that
dulwich writes): the UNTR (untracked cache) extension is carried over verbatim
even when dulwich changes the entry set, so C git afterwards trusts a stale
cache and `git status` no longer reports a file as untracked.

UntrackedExtension keeps the raw payload and Index.write() re-emits it
unchanged.  C git invalidates the affected directory in the untracked cache
whenever an entry is added to / removed from the index
(untracked_cache_remove_from_index); dulwich removes the entry but leaves the
cache valid.  With core.untrackedCache=true, after dulwich drops b"a" from the
index (file still on disk) git status shows "D  a" but NOT "?? a".  The control
run (same steps, entry removed by `git rm --cached`) shows both lines.
Keeping an extension is only safe when its content does not depend on the
entries, or when the entries did not change.
"""
import os, shutil, subprocess, sys, tempfile, time

sys.path.insert(0, "/repo")
from dulwich.index import Index

ENV = dict(os.environ, HOME="/nonexistent", GIT_CONFIG_NOSYSTEM="1",
           GIT_CONFIG_GLOBAL="/dev/null")
os.makedirs((os.environ.get("CORPUS_TMP") or "/tmp"), exist_ok=True)
base = tempfile.mkdtemp(dir=(os.environ.get("CORPUS_TMP") or "/tmp"))


def run(remove_with_dulwich):
    tmp = os.path.join(base, "dul" if remove_with_dulwich else "git")

    def git(*args):
        return subprocess.run(["git", "-C", tmp] + list(args), env=ENV,
                              check=True, capture_output=True).stdout.decode()

    subprocess.check_call(["git", "init", "-q", tmp], env=ENV)
    git("config", "user.email", "a@b"); git("config", "user.name", "n")
    git("config", "core.untrackedCache", "true")
    for n in ("a", "b"):
        open(os.path.join(tmp, n), "w").write(n)
    git("add", "a", "b"); git("commit", "-qm", "c")
    time.sleep(1.1)            # let the directory mtime become non-racy
    git("status", "--porcelain"); git("status", "--porcelain")  # fill UNTR
    path = os.path.join(tmp, ".git", "index")
    assert b"UNTR" in open(path, "rb").read()
    if remove_with_dulwich:
        idx = Index(path)
        del idx[b"a"]
        idx.write()
    else:
        git("rm", "-q", "--cached", "a")
    assert git("ls-files").split() == ["b"]
    return (git("status", "--porcelain").splitlines(),
            git("-c", "core.untrackedCache=false", "status", "--porcelain").splitlines())


try:
    ctl_cached, ctl_plain = run(False)
    dul_cached, dul_plain = run(True)
finally:
    shutil.rmtree(base, ignore_errors=True)

print("entry removed by C git  : status =", ctl_cached, "| without cache =", ctl_plain)
print("entry removed by dulwich: status =", dul_cached, "| without cache =", dul_plain)
bad = dul_cached != dul_plain
if bad:
    print("-> after dulwich's write C git's view is wrong: 'a' is on disk, not in "
          "the index, yet not reported as untracked (stale UNTR kept as valid)")
print()
print("required: C git behaves on an index written by dulwich as on its own; "
      "an extension that depends on the entries must not be kept as valid "
      "when the entries change")
sys.exit(1 if bad else 0)
