#!/venv/bin/python
"""C11 finding 4: Index.read() does not replace the in-memory entries, it
merges the file into them.  Entries that were removed from the file (by C git
or by another dulwich Index object) survive a re-read and are written back by
the next write(), resurrecting them.

Index.read() ("Read current contents of index from disk") calls
self.update(entries) without self.clear() first.  Only the constructor path
(clear() then read()) gives the file's contents.
"""
import os, shutil, subprocess, sys, tempfile

sys.path.insert(0, "/repo")
from dulwich.index import Index

ENV = dict(os.environ, HOME="/nonexistent", GIT_CONFIG_NOSYSTEM="1",
           GIT_CONFIG_GLOBAL="/dev/null")
os.makedirs((os.environ.get("CORPUS_TMP") or "/tmp"), exist_ok=True)
tmp = tempfile.mkdtemp(dir=(os.environ.get("CORPUS_TMP") or "/tmp"))
violations = 0


def git(*args):
    return subprocess.run(["git", "-C", tmp] + list(args), env=ENV, check=True,
                          capture_output=True).stdout


try:
    subprocess.check_call(["git", "init", "-q", tmp], env=ENV)
    for n in ("a", "b", "c"):
        open(os.path.join(tmp, n), "w").write(n)
    git("add", "a", "b", "c")
    path = os.path.join(tmp, ".git", "index")

    idx = Index(path)
    print("dulwich after first read :", sorted(idx))
    git("rm", "-q", "--cached", "b")
    print("C git after 'rm --cached b':", git("ls-files").split())

    idx.read()                                   # re-read the current file
    fresh = sorted(Index(path))
    print("dulwich after idx.read() :", sorted(idx))
    print("a fresh Index(path) gives:", fresh)
    if sorted(idx) != fresh:
        violations += 1
        print("  -> read() reports an entry that is not in the file")

    idx.write()
    now = git("ls-files").split()
    print("C git after idx.write()  :", now)
    if b"b" in now:
        violations += 1
        print("  -> the entry removed by C git has been resurrected")
finally:
    shutil.rmtree(tmp, ignore_errors=True)

print()
print("required: reading an index yields exactly the entries C git lists for "
      "that file")
print("violations:", violations)
sys.exit(1 if violations else 0)
