#!/venv/bin/python
"""C11 finding 2: dulwich cannot read the sparse index C git writes for a
cone-mode sparse-checkout ("sdir" extension).

C git writes two extensions with lower-case signatures: "sdir" (sparse index)
and "link" (split index).  read_index_dict_with_version() only recognises
signatures made of four upper-case letters; on anything else it seeks back 4
bytes and leaves the loop, after which check_sha() takes the 20 bytes starting
AT THE EXTENSION as the trailer and raises ChecksumMismatch for a perfectly
valid file.  dulwich has a SparseDirExtension class for b"sdir" and
IndexExtension.from_raw() dispatches on it, but the reader can never reach it
(and Index.write() never emits it, because extensions with empty data are
filtered out, so Index.is_sparse() is also lost on dulwich's own round trip).
"""
import os, shutil, subprocess, sys, tempfile

sys.path.insert(0, "/repo")
from dulwich.index import Index, IndexEntry

ENV = dict(os.environ, HOME="/nonexistent", GIT_CONFIG_NOSYSTEM="1",
           GIT_CONFIG_GLOBAL="/dev/null")
os.makedirs((os.environ.get("CORPUS_TMP") or "/tmp"), exist_ok=True)
tmp = tempfile.mkdtemp(dir=(os.environ.get("CORPUS_TMP") or "/tmp"))
violations = 0


def git(*args):
    return subprocess.run(["git", "-C", tmp] + list(args), env=ENV, check=True,
                          capture_output=True).stdout


try:
    # --- case A: a sparse index written by C git --------------------------
    subprocess.check_call(["git", "init", "-q", tmp], env=ENV)
    git("config", "user.email", "a@b"); git("config", "user.name", "n")
    for rel in ("top", "d1/f", "d1/sub/g", "d2/h"):
        full = os.path.join(tmp, rel)
        os.makedirs(os.path.dirname(full), exist_ok=True)
        open(full, "w").write(rel)
    git("add", "."); git("commit", "-qm", "c")
    git("sparse-checkout", "init", "--cone", "--sparse-index")
    git("sparse-checkout", "set", "d1")
    listing = git("ls-files", "-s", "--sparse").decode()
    print("git ls-files -s --sparse:\n" + listing)
    path = os.path.join(tmp, ".git", "index")
    raw = open(path, "rb").read()
    print("index contains b'sdir' extension:", b"sdir\0\0\0\0" in raw)
    print("git fsck index verdict:",
          [l for l in subprocess.run(["git", "-C", tmp, "fsck"], env=ENV,
           capture_output=True).stderr.decode().splitlines() if "index" in l] or "ok")
    try:
        idx = Index(path)
        print("dulwich read it:", sorted(idx))
    except Exception as e:
        violations += 1
        print("dulwich FAILS to read git's sparse index: %s: %s" % (type(e).__name__, e))


    # --- case B: dulwich's own sparse index does not survive write + read --
    git("sparse-checkout", "disable")
    from dulwich.repo import Repo
    r = Repo(tmp)
    idx = r.open_index()
    idx.convert_to_sparse(r.object_store, r[r.head()].tree, {b"d2/"})
    before = idx.is_sparse()
    idx.write()
    after = Index(path).is_sparse()
    print("\ndulwich convert_to_sparse: is_sparse() before write = %s, "
          "after write+read = %s; b'sdir' in file: %s"
          % (before, after, b"sdir" in open(path, "rb").read()))
    if before and not after:
        violations += 1
    r.close()
finally:
    shutil.rmtree(tmp, ignore_errors=True)

print()
print("required: dulwich reads every index C git writes (incl. sparse-checkout "
      "indexes)")
print("violations:", violations)
sys.exit(1 if violations else 0)
