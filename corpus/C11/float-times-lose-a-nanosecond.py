#!/venv/bin/python
"""C11 finding 8 (low severity): float ctime/mtime values are converted to
(sec, nsec) by truncation, so a float that denotes a whole number of
nanoseconds comes back one nanosecond short.

write_cache_time():  (secs, nsecs) = divmod(t, 1.0); int(nsecs * 1000000000)
int() truncates; binary floats such as 2.3 or 1.999999999 have a fractional
part a hair below the decimal value, so 0.3 s is stored as 299999999 ns and
.999999999 as 999999998.  round() instead of int() would be exact for every
float that is the nearest double of sec + nsec/1e9 (for sec < 2**22).
Reading back therefore does not give the time that was written, and
float(sec + nsec/1e9) != t.
"""
import io, os, shutil, sys, tempfile

sys.path.insert(0, "/repo")
from dulwich.index import Index, IndexEntry

os.makedirs((os.environ.get("CORPUS_TMP") or "/tmp"), exist_ok=True)
tmp = tempfile.mkdtemp(dir=(os.environ.get("CORPUS_TMP") or "/tmp"))
violations = 0
try:
    path = os.path.join(tmp, "index")
    sha = b"e69de29bb2d1d6434b8b29ae775ad8c2e48c5391"
    cases = [(2, 300000000), (1, 999999999), (16, 290000000), (1000000, 1001),
             (5, 500000000), (1700000000, 250000000)]
    idx = Index(path, read=False)
    for i, (s, ns) in enumerate(cases):
        t = float("%d.%09d" % (s, ns))          # nearest double to s + ns/1e9
        idx[b"f%d" % i] = IndexEntry(t, t, 0, 0, 0o100644, 0, 0, 0, sha)
    idx.write()
    back = Index(path)
    for i, (s, ns) in enumerate(cases):
        t = float("%d.%09d" % (s, ns))
        got = back[b"f%d" % i].mtime
        same = got == (s, ns)
        print("wrote mtime=%r  expected %r  read back %r  %s"
              % (t, (s, ns), got, "ok" if same else "MISMATCH (off by 1 ns)"))
        if not same:
            violations += 1
finally:
    shutil.rmtree(tmp, ignore_errors=True)

print()
print("required: the time read back equals the float time written, to the "
      "nanosecond resolution of the format")
print("violations:", violations)
sys.exit(1 if violations else 0)
