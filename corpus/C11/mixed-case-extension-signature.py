#!/usr/bin/env python
"""C11 finding 4: read_index_dict_with_version() recognises an extension only
when all four signature bytes are upper-case ASCII (or the signature is "sdir").
The index format (and C git's read_index_extension) defines an extension as
optional -- to be skipped and kept -- when its FIRST byte is 'A'..'Z'.  An index
carrying an unknown optional extension such as "Xab1" is listed by C git but
dulwich stops parsing at it, takes the extension bytes for the trailer and
reports a ChecksumMismatch: a sound index is declared damaged and the unknown
extension cannot be kept."""
import hashlib, os, shutil, struct, subprocess, sys, tempfile

from dulwich.index import Index, IndexEntry

ENV = dict(os.environ, HOME="/nonexistent", GIT_CONFIG_NOSYSTEM="1",
           GIT_CONFIG_GLOBAL="/dev/null")


def main():
    os.makedirs((os.environ.get("CORPUS_TMP") or "/tmp"), exist_ok=True)
    d = tempfile.mkdtemp(dir=(os.environ.get("CORPUS_TMP") or "/tmp"))
    bad = 0
    try:
        subprocess.run(["git", "init", "-q", "."], cwd=d, env=ENV, check=True)
        p = os.path.join(d, ".git", "index")
        for version in (2, 3, 4):
            if os.path.exists(p):
                os.unlink(p)
            idx = Index(p, read=False, version=version)
            idx[b"f"] = IndexEntry((1, 0), (1, 0), 1, 1, 0o100644, 0, 0, 1, b"1" * 40)
            idx.write()
            raw = open(p, "rb").read()[:-20]
            raw += b"Xab1" + struct.pack(">I", 3) + b"abc"   # optional, unknown
            raw += hashlib.sha1(raw).digest()                 # correct checksum
            open(p, "wb").write(raw)
            ls = subprocess.run(["git", "ls-files", "-s"], cwd=d, env=ENV,
                                capture_output=True)
            fsck = subprocess.run(["git", "fsck"], cwd=d, env=ENV,
                                  capture_output=True)
            print("v%d: git ls-files rc=%d %r (%s); fsck finds index damage: %s"
                  % (version, ls.returncode, ls.stdout,
                     ls.stderr.decode().strip(),
                     b"index file" in fsck.stderr))
            try:
                got = Index(p)
                exts = [(e.signature, e.to_bytes()) for e in got._extensions]
                print("     dulwich read %d entries, extensions %r" % (len(got), exts))
                if exts != [(b"Xab1", b"abc")]:
                    bad += 1
            except Exception as e:
                print("     dulwich: %s: %s" % (type(e).__name__, e))
                bad += 1
        if bad:
            print("VIOLATION: dulwich must read this index (checksum is correct, "
                  "git lists it) and keep the unknown extension.")
            return 1
        print("ok")
        return 0
    finally:
        shutil.rmtree(d, ignore_errors=True)


if __name__ == "__main__":
    sys.exit(main())
