#!/usr/bin/env python
"""C11 finding 2: an index entry whose ctime/mtime seconds do not fit an unsigned
32-bit field (a file dated before 1970 or after 2106-02-07) cannot be written at
all: write_cache_time() does struct.pack(">LL", sec, nsec) without reducing the
seconds, so Index.write() raises struct.error.  dev, ino and size are reduced
mod 2**32 in write_cache_entry() "like git"; git does the same for the times
((unsigned int) st_mtime) and stages such files without complaint."""
import os, shutil, subprocess, sys, tempfile

from dulwich.index import Index, index_entry_from_stat

ENV = dict(os.environ, HOME="/nonexistent", GIT_CONFIG_NOSYSTEM="1",
           GIT_CONFIG_GLOBAL="/dev/null")


def git(*a, cwd):
    return subprocess.run(["git", *a], cwd=cwd, env=ENV, capture_output=True)


def main():
    os.makedirs((os.environ.get("CORPUS_TMP") or "/tmp"), exist_ok=True)
    d = tempfile.mkdtemp(dir=(os.environ.get("CORPUS_TMP") or "/tmp"))
    failures = 0
    try:
        git("init", "-q", ".", cwd=d)
        cases = {"old.txt": -100000, "future.txt": 2**32 + 5}
        for name, when in cases.items():
            p = os.path.join(d, name)
            with open(p, "w") as f:
                f.write(name)
            os.utime(p, (when, when))
        # oracle: C git stages both and records the seconds modulo 2**32
        r = git("add", "old.txt", "future.txt", cwd=d)
        dbg = git("ls-files", "--debug", cwd=d).stdout.decode()
        print("C git: add rc=%d; recorded" % r.returncode,
              [l.strip() for l in dbg.splitlines() if "mtime" in l])
        os.unlink(os.path.join(d, ".git", "index"))

        for name, when in cases.items():
            st = os.stat(os.path.join(d, name))
            entry = index_entry_from_stat(st, b"1" * 40)
            idx = Index(os.path.join(d, ".git", "index"))
            idx[name.encode()] = entry
            try:
                idx.write()
            except Exception as e:  # struct.error
                print("dulwich: %s (st_mtime=%d): Index.write() raised %s: %s"
                      % (name, when, type(e).__name__, e))
                failures += 1
                continue
            back = Index(os.path.join(d, ".git", "index"))[name.encode()]
            print("dulwich: %s written, mtime read back %r" % (name, back.mtime))
        # the same through the explicit (sec, nsec) form named by the property
        idx = Index(os.path.join(d, "idx2"), read=False)
        from dulwich.index import IndexEntry
        idx[b"f"] = IndexEntry((2**32 + 5, 1), (2**32 + 5, 1), 2**40, 2**40,
                               0o100644, 0, 0, 2**33, b"1" * 40)
        try:
            idx.write()
            print("(sec,nsec) with sec>=2**32 written")
        except Exception as e:
            print("(sec,nsec) with sec>=2**32 next to >32-bit dev/ino/size: "
                  "%s: %s" % (type(e).__name__, e))
            failures += 1
        if failures:
            print("VIOLATION: the round trip must hold for all stat values; git "
                  "keeps the low 32 bits of the seconds, dulwich refuses to "
                  "write the index at all.")
            return 1
        print("ok")
        return 0
    finally:
        shutil.rmtree(d, ignore_errors=True)


if __name__ == "__main__":
    sys.exit(main())
