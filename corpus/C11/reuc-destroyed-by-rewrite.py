#!/venv/bin/python
"""C11 finding 5: the REUC (resolve-undo) extension is silently destroyed by
a dulwich read + write of the index.

IndexExtension.from_raw() turns b"REUC" into ResolveUndoExtension.from_bytes(),
which is a TODO stub that throws the payload away (entries=[]), and to_bytes()
returns b"".  Index.write() then filters out every extension whose to_bytes()
is empty.  Unknown extensions are kept verbatim, but this known-by-name one is
parsed into nothing, so the recorded stage 1/2/3 blobs of resolved conflicts
are lost: `git ls-files --resolve-undo` becomes empty and
`git update-index --unresolve` / `git checkout -m` can no longer restore the
original conflict.  (TREE is dropped the same way, which is harmless because
it is only a cache; REUC is user data.)
"""
import os, shutil, subprocess, sys, tempfile

sys.path.insert(0, "/repo")
from dulwich.index import Index

ENV = dict(os.environ, HOME="/nonexistent", GIT_CONFIG_NOSYSTEM="1",
           GIT_CONFIG_GLOBAL="/dev/null", GIT_AUTHOR_DATE="2000-01-01T00:00:00Z",
           GIT_COMMITTER_DATE="2000-01-01T00:00:00Z")
os.makedirs((os.environ.get("CORPUS_TMP") or "/tmp"), exist_ok=True)
tmp = tempfile.mkdtemp(dir=(os.environ.get("CORPUS_TMP") or "/tmp"))
violations = 0


def git(*args, check=True):
    return subprocess.run(["git", "-C", tmp] + list(args), env=ENV, check=check,
                          capture_output=True).stdout


def put(name, text):
    open(os.path.join(tmp, name), "w").write(text)


try:
    subprocess.check_call(["git", "init", "-q", "-b", "master", tmp], env=ENV)
    git("config", "user.email", "a@b"); git("config", "user.name", "n")
    put("f", "base\n"); put("other", "x\n")
    git("add", "."); git("commit", "-qm", "base")
    git("checkout", "-qb", "side"); put("f", "side\n"); git("commit", "-qam", "side")
    git("checkout", "-q", "master"); put("f", "main\n"); git("commit", "-qam", "main")
    git("merge", "side", check=False)                 # conflict in f
    conflict = git("ls-files", "-s", "f")
    put("f", "resolved\n"); git("add", "f")            # resolve -> REUC recorded
    path = os.path.join(tmp, ".git", "index")
    undo_before = git("ls-files", "--resolve-undo")
    print("resolve-undo info before dulwich touches the index:")
    print(undo_before.decode() or "(none)\n", end="")
    print("b'REUC' in index file:", b"REUC" in open(path, "rb").read())

    idx = Index(path)
    print("dulwich parsed extensions:", idx._extensions)
    entries_before = git("ls-files", "-s")
    idx.write()                                        # pure read + write
    assert git("ls-files", "-s") == entries_before     # entries are fine

    undo_after = git("ls-files", "--resolve-undo")
    print("resolve-undo info after dulwich read + write:")
    print(undo_after.decode() or "(none)\n", end="")
    print("b'REUC' in index file:", b"REUC" in open(path, "rb").read())
    if undo_after != undo_before:
        violations += 1
    git("update-index", "--unresolve", "f", check=False)
    restored = git("ls-files", "-s", "f")
    print("git update-index --unresolve f restores the original 3 stages:",
          restored == conflict)
    if restored != conflict:
        violations += 1
finally:
    shutil.rmtree(tmp, ignore_errors=True)

print()
print("required: extensions dulwich does not interpret (here REUC) survive "
      "read + write unchanged")
print("violations:", violations)
sys.exit(1 if violations else 0)
