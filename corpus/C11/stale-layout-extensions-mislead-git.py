#!/usr/bin/env python
"""C11 finding 1: Index.write() carries the EOIE/IEOT extensions of a git-written
index over verbatim ("unknown extension"), although they describe byte offsets of
the entry blocks.  After dulwich changes the entries, C git (index.threads > 1)
trusts the stale offset table and lists a different entry set (one entry twice,
one entry missing) or dies, while dulwich itself reads the file back fine."""
import os, shutil, subprocess, sys, tempfile

from dulwich.index import Index

ENV = dict(os.environ, HOME="/nonexistent", GIT_CONFIG_NOSYSTEM="1",
           GIT_CONFIG_GLOBAL="/dev/null")


def git(*a, cwd):
    return subprocess.run(["git", *a], cwd=cwd, env=ENV, capture_output=True)


def main():
    os.makedirs((os.environ.get("CORPUS_TMP") or "/tmp"), exist_ok=True)
    d = tempfile.mkdtemp(dir=(os.environ.get("CORPUS_TMP") or "/tmp"))
    try:
        git("init", "-q", ".", cwd=d)
        # the user asked git for multi-threaded index reads; git then writes
        # the optional extensions IEOT (entry offset table) and EOIE
        git("config", "index.threads", "4", cwd=d)
        long_old = "y" * 60          # 128-byte entry in a v2 index
        long_new = "A" * 60          # same length, sorts first
        for n in ["b", "c", "d", "e", "f", "g", "h", long_old]:
            with open(os.path.join(d, n), "w") as f:
                f.write(n)
        git("add", ".", cwd=d)
        idx = Index(os.path.join(d, ".git", "index"))
        print("git wrote version", idx._version, "extensions",
              [e.signature for e in idx._extensions])

        # dulwich renames one path to a name of the same length (what
        # porcelain.mv / remove+add amount to) and writes the index
        entry = idx[long_old.encode()]
        del idx[long_old.encode()]
        idx[long_new.encode()] = entry
        idx.write()

        back = Index(os.path.join(d, ".git", "index"))
        mine = [(k, v.sha) for k, v in sorted(back.items())]
        r = git("ls-files", "-s", "-z", cwd=d)
        theirs = []
        for rec in r.stdout.split(b"\0"):
            if rec:
                meta, name = rec.split(b"\t", 1)
                theirs.append((name, meta.split()[1]))
        oracle = git("-c", "index.threads=1", "ls-files", "-z", cwd=d)
        print("dulwich reads back :", [k[:6] for k, _ in mine])
        print("git ls-files (rc=%d):" % r.returncode, [k[:6] for k, _ in theirs],
              r.stderr.decode().strip())
        print("git, single thread :",
              [n[:6] for n in oracle.stdout.split(b"\0") if n])
        if r.returncode != 0 or theirs != mine:
            print("VIOLATION: C git does not list the entries dulwich wrote; the "
                  "property requires C git to list the same entries from every "
                  "index dulwich writes (stale IEOT/EOIE kept by Index.write).")
            return 1
        print("ok: git and dulwich agree")
        return 0
    finally:
        shutil.rmtree(d, ignore_errors=True)


if __name__ == "__main__":
    sys.exit(main())
