#!/usr/bin/env python
"""C11 finding 3: an unknown (optional) index extension whose payload is empty is
silently dropped by Index.write() / locked_index: the filter that is meant to
suppress the unimplemented TREE extension (to_bytes() == b"") removes every
extension with an empty payload except "sdir".  The property requires unknown
extensions to be kept in versions 2, 3 and 4."""
import hashlib, os, shutil, struct, subprocess, sys, tempfile

from dulwich.index import Index, IndexEntry, IndexExtension, locked_index

ENV = dict(os.environ, HOME="/nonexistent", GIT_CONFIG_NOSYSTEM="1",
           GIT_CONFIG_GLOBAL="/dev/null")


def sigs(path):
    return [(e.signature, e.to_bytes()) for e in Index(path)._extensions]


def main():
    os.makedirs((os.environ.get("CORPUS_TMP") or "/tmp"), exist_ok=True)
    d = tempfile.mkdtemp(dir=(os.environ.get("CORPUS_TMP") or "/tmp"))
    bad = 0
    try:
        subprocess.run(["git", "init", "-q", "."], cwd=d, env=ENV, check=True)
        for version in (2, 3, 4):
            p = os.path.join(d, ".git", "index")
            if os.path.exists(p):
                os.unlink(p)
            idx = Index(p, read=False, version=version)
            idx[b"f"] = IndexEntry((1, 0), (1, 0), 1, 1, 0o100644, 0, 0, 1, b"1" * 40)
            idx.write()
            # append two optional extensions the way any writer would
            raw = open(p, "rb").read()[:-20]
            raw += b"ZZZZ" + struct.pack(">I", 0)            # empty payload
            raw += b"YYYY" + struct.pack(">I", 3) + b"abc"
            raw += hashlib.sha1(raw).digest()
            open(p, "wb").write(raw)
            r = subprocess.run(["git", "ls-files"], cwd=d, env=ENV,
                               capture_output=True)
            before = sigs(p)
            print("v%d: git reads it (rc=%d, %s); dulwich reads extensions %r"
                  % (version, r.returncode,
                     r.stderr.decode().replace("\n", "; "), before))
            Index(p).write()            # plain read + write, nothing changed
            after = sigs(p)
            with locked_index(p):
                pass
            after2 = sigs(p)
            print("     after Index.write(): %r; after locked_index: %r"
                  % (after, after2))
            if after != before or after2 != before:
                bad += 1
        if bad:
            print("VIOLATION: the unknown extension ZZZZ (empty payload) was "
                  "lost on a read/write round trip; it must be kept.")
            return 1
        print("ok")
        return 0
    finally:
        shutil.rmtree(d, ignore_errors=True)


if __name__ == "__main__":
    sys.exit(main())
