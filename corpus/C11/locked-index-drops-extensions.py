#!/venv/bin/python
"""C11 finding 7: the `locked_index` context manager rewrites the index
without its extensions and without its format version.

locked_index.__exit__() calls write_index_dict(f, self._index._byname) with
neither version= nor extensions=, ignoring Index._version / _extensions /
_skip_hash that Index.write() honours.  An index read from a version-4 file
with an (optional, upper-case) unknown extension
comes back as version 2/3 with all extensions gone, even when the with-block
changes nothing.  (Also: any exception raised while writing is swallowed by
`except BaseException: self._file.abort()`, so a failed write is silent.)
"""
import hashlib, os, shutil, subprocess, sys, tempfile

sys.path.insert(0, "/repo")
from dulwich.index import Index, locked_index

ENV = dict(os.environ, HOME="/nonexistent", GIT_CONFIG_NOSYSTEM="1",
           GIT_CONFIG_GLOBAL="/dev/null")
os.makedirs((os.environ.get("CORPUS_TMP") or "/tmp"), exist_ok=True)
tmp = tempfile.mkdtemp(dir=(os.environ.get("CORPUS_TMP") or "/tmp"))
violations = 0


def git(*args):
    return subprocess.run(["git", "-C", tmp] + list(args), env=ENV, check=True,
                          capture_output=True)


try:
    subprocess.check_call(["git", "init", "-q", tmp], env=ENV)
    for n in ("a", "b"):
        open(os.path.join(tmp, n), "w").write(n)
    git("add", "a", "b")
    git("update-index", "--index-version", "4")
    path = os.path.join(tmp, ".git", "index")
    body = open(path, "rb").read()[:-20]
    body += b"XTRA" + (5).to_bytes(4, "big") + b"hello"   # unknown, optional
    open(path, "wb").write(body + hashlib.sha1(body).digest())
    r = git("ls-files")
    print("C git reads the prepared file:", r.stdout.split(), r.stderr.decode().strip())

    def describe():
        i = Index(path)
        return i._version, [(e.signature, e.data) for e in i._extensions]

    start = describe()
    print("prepared index        : version %d, extensions %r" % start)
    Index(path).write()
    mid = describe()
    print("after Index.write()   : version %d, extensions %r" % mid)
    with locked_index(path):
        pass                                   # no change at all
    end = describe()
    print("after locked_index    : version %d, extensions %r" % end)
    if end[1] != start[1]:
        violations += 1
        print("  -> unknown extension was dropped")
    if end[0] != start[0]:
        violations += 1
        print("  -> format version was not kept")
finally:
    shutil.rmtree(tmp, ignore_errors=True)

print()
print("required: writing the index keeps unknown extensions (and the format "
      "version it was read with), on every write path")
print("violations:", violations)
sys.exit(1 if violations else 0)
