#!/usr/bin/env python
"""C02 finding 3: reading a SHA-256 pack written by C git.

Pack.get_raw() returns the right bytes, but the object-level accessors do not:
 * Pack.__getitem__ builds the object with ShaFile.from_raw_string(type, data, sha=...) and
   does not pass object_format, so a Tree is parsed with 20-byte entry ids and raises
   ObjectFormatException (random access fails for every non-empty tree).
 * Pack.iterobjects_subset() filters with ``uo.id in shas``; ShaFile.id is always the
   SHA-1 name, so in a SHA-256 pack nothing matches and the iteration is silently empty.
"""
import os, shutil, subprocess, sys, tempfile
from dulwich.object_format import SHA256
from dulwich.pack import Pack

ENV = dict(os.environ, HOME="/nonexistent", GIT_CONFIG_NOSYSTEM="1", GIT_CONFIG_GLOBAL="/dev/null",
           GIT_AUTHOR_NAME="a", GIT_AUTHOR_EMAIL="a@b", GIT_COMMITTER_NAME="a", GIT_COMMITTER_EMAIL="a@b",
           GIT_AUTHOR_DATE="1000000000 +0000", GIT_COMMITTER_DATE="1000000000 +0000")

def git(*a, cwd=None):
    return subprocess.run(["git", *a], cwd=cwd, env=ENV, capture_output=True, check=True, stdin=subprocess.DEVNULL).stdout

tmp = tempfile.mkdtemp(prefix="c02f3-")
bad = 0
try:
    repo = os.path.join(tmp, "r")
    git("init", "-q", "--object-format=sha256", "-b", "main", repo)
    with open(os.path.join(repo, "f"), "wb") as f:
        f.write(b"hello\n")
    git("add", ".", cwd=repo)
    git("commit", "-q", "-m", "c", cwd=repo)
    h = git("pack-objects", "--all", "-q", os.path.join(tmp, "o"), cwd=repo).strip().decode()
    want = {}
    for line in git("cat-file", "--batch-all-objects", "--batch-check", cwd=repo).splitlines():
        oid, typ, _ = line.split()
        want[oid] = (typ, git("cat-file", typ.decode(), oid.decode(), cwd=repo))
    p = Pack(os.path.join(tmp, "o-" + h), object_format=SHA256)
    try:
        assert set(p) == set(want)
        for oid, (typ, raw) in sorted(want.items()):
            assert p.get_raw(oid)[1] == raw          # raw access is right
            try:
                o = p[oid]
                ok = o.as_raw_string() == raw
                print(f"Pack[{oid[:12].decode()}] ({typ.decode()}): {'ok' if ok else 'WRONG CONTENT'}")
                bad += not ok
            except Exception as e:
                print(f"Pack[{oid[:12].decode()}] ({typ.decode()}): raises {type(e).__name__}: {e}")
                bad += 1
        got = list(p.iterobjects_subset(set(want)))
        print(f"iterobjects_subset(all {len(want)} ids) yielded {len(got)} objects; the property requires {len(want)}")
        if len(got) != len(want):
            bad += 1
    finally:
        p.close()
finally:
    shutil.rmtree(tmp)
sys.exit(1 if bad else 0)
