"""C02 finding 6: no version-3 index can be written for a SHA-256 pack.

The v3 index format exists to carry the hash algorithm, and PackIndex3 reads
hash_format 2 (SHA-256).  But PackData.create_index(version=3) on a SHA-256 pack
 * with the default hash_format assumes SHA-1 and dies with ValueError on the
   first 32-byte name, leaving an empty locked-then-aborted index behind it, and
 * with hash_format=2 (the documented id) raises NotImplementedError in
   write_pack_index_v3, and with hash_format=20 (SHA256.type_num, the id the
   PackIndex3 reader maps back to SHA-256) raises ValueError.
Index versions 2 (same pack) and 3 (SHA-1 pack) work, so the option matrix
{index version 3} x {SHA-256} of the property cannot be written at all.
"""
import os
import shutil
import subprocess
import sys
import tempfile

from dulwich.object_format import SHA1, SHA256
from dulwich.pack import PackData, load_pack_index

ENV = dict(os.environ, HOME="/nonexistent", GIT_CONFIG_NOSYSTEM="1",
           GIT_CONFIG_GLOBAL="/dev/null")
os.makedirs((os.environ.get("CORPUS_TMP") or "/tmp"), exist_ok=True)
TMP = tempfile.mkdtemp(dir=(os.environ.get("CORPUS_TMP") or "/tmp"), prefix="finding6-")
status = 0
try:
    for fmt in (SHA1, SHA256):
        R = TMP + "/r-" + fmt.name
        subprocess.run(["git", "init", "-q", "--bare", "--object-format=" + fmt.name, R],
                       env=ENV, check=True)
        ids = []
        for i in range(5):
            r = subprocess.run(["git", "hash-object", "-w", "--stdin"], env=ENV, cwd=R,
                               input=b"content %d\n" % i, capture_output=True, check=True)
            ids.append(r.stdout.strip())
        r = subprocess.run(["git", "pack-objects", "-q", TMP + "/" + fmt.name], env=ENV, cwd=R,
                           input=b"\n".join(ids) + b"\n", capture_output=True, check=True)
        base = TMP + "/" + fmt.name + "-" + r.stdout.strip().decode()
        # hash_format: 2 is what create_index/write_pack_index_v3 document for SHA-256,
        # 20 is the id PackIndex3 looks up in OBJECT_FORMAT_TYPE_NUMS
        hfs = (None, 1) if fmt is SHA1 else (None, 2, fmt.type_num)
        for ver, hf in [(2, None)] + [(3, h) for h in hfs]:
            out = "%s.v%d-%s.idx" % (base, ver, hf)
            pd = PackData(base + ".pack", object_format=fmt)
            try:
                pd.create_index(out, version=ver, hash_format=hf)
                idx = load_pack_index(out, fmt)
                names = sorted(idx)
                idx.close()
                ok = names == sorted(ids)
                print("%-6s pack, index v%d hash_format=%-4s: written, names read back ok=%s"
                      % (fmt.name, ver, hf, ok))
                if not ok:
                    status = 1
            except Exception as e:  # noqa: BLE001
                print("%-6s pack, index v%d hash_format=%-4s: FAILED with %r"
                      % (fmt.name, ver, hf, e))
                status = 1
            finally:
                pd.close()
    if status:
        print("VIOLATION: a SHA-256 pack cannot be given a version-3 index.")
        print("Required: every {index version} x {hash} combination writes an index that "
              "reads back as the same mapping.")
    else:
        print("no violation")
finally:
    shutil.rmtree(TMP, ignore_errors=True)
sys.exit(status)
