import os
#!/usr/bin/env python
"""C02 finding 1: delta-compressed pack writing crashes on legal object sets.

sort_objects_for_delta() (dulwich/pack.py) sorts tuples (type_num, path, -size, obj).
The path hint may be None (the documented type is ``bytes | None``; MissingObjectFinder
produces (type, None) for the target of a tag and a bare None hint for a wanted blob/tree).
As soon as two objects of the same type carry a None and a bytes path (or a None and an
int type), list.sort() raises TypeError, so no pack can be written with deltify=True.
The same object set is written fine with deltify=False.
"""
import io, sys
from dulwich.object_format import SHA1
from dulwich.object_store import MemoryObjectStore, MissingObjectFinder
from dulwich.objects import Blob, Commit, Tag, Tree
from dulwich.pack import write_pack_from_container, write_pack_objects

bad = 0
# (a) direct API, documented input type Sequence[tuple[ShaFile, bytes | None]]
b1 = Blob.from_string(b"a" * 100)
b2 = Blob.from_string(b"a" * 101)
for deltify in (False, True):
    try:
        write_pack_objects(io.BytesIO().write, [(b1, None), (b2, b"x")], SHA1, deltify=deltify)
        print(f"(a) write_pack_objects deltify={deltify}: ok")
    except TypeError as e:
        print(f"(a) write_pack_objects deltify={deltify}: TypeError: {e}")
        bad += 1

# (b) realistic flow: an annotated tag that points at a blob (like junio-gpg-pub in git.git)
s = MemoryObjectStore()
f1 = Blob.from_string(b"hello world\n" * 20)
f2 = Blob.from_string(b"hello world\n" * 21)
t = Tree(); t.add(b"f", 0o100644, f1.id)
c = Commit(); c.tree = t.id; c.author = c.committer = b"A <a@b>"
c.author_time = c.commit_time = 1; c.author_timezone = c.commit_timezone = 0; c.message = b"m\n"
tg = Tag(); tg.name = b"blobtag"; tg.object = (Blob, f2.id); tg.tagger = b"A <a@b>"
tg.tag_time = 3; tg.tag_timezone = 0; tg.message = b"tag\n"
for o in (f1, f2, t, c, tg):
    s.add_object(o)
for wants in ([c.id, tg.id], [c.id, f2.id]):
    ids = list(MissingObjectFinder(s, haves=[], wants=wants))
    for deltify in (False, True):
        try:
            write_pack_from_container(io.BytesIO().write, s, ids, SHA1, deltify=deltify)
            print(f"(b) wants={[w[:7] for w in wants]} deltify={deltify}: ok")
        except TypeError as e:
            print(f"(b) wants={[w[:7] for w in wants]} deltify={deltify}: TypeError: {e}")
            bad += 1

print("property requires: every finite object set can be written with deltify=True and read back")
sys.exit(1 if bad else 0)
