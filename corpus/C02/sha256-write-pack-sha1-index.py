"""C02 finding 2: write_pack(..., object_format=SHA256) writes an index of SHA-1 names.

full_unpacked_object() / deltas_from_sorted_objects() name every record with
`o.sha().digest()`, which is always the SHA-1 of the object.  PackChunkGenerator
keys its `entries` by that name, and write_pack() feeds those entries to
write_pack_index().  For a SHA-256 pack the result is an index whose name table
holds 20-byte SHA-1 names next to 32-byte SHA-256 trailer checksums: neither
dulwich (PackIndex2 with 32-byte names) nor C git can read it, although the
.pack file itself is a valid SHA-256 pack.
"""
import os
import shutil
import subprocess
import sys
import tempfile

from dulwich.object_format import SHA256
from dulwich.objects import Blob
from dulwich.pack import Pack, write_pack

ENV = dict(os.environ, HOME="/nonexistent", GIT_CONFIG_NOSYSTEM="1",
           GIT_CONFIG_GLOBAL="/dev/null")
os.makedirs((os.environ.get("CORPUS_TMP") or "/tmp"), exist_ok=True)
TMP = tempfile.mkdtemp(dir=(os.environ.get("CORPUS_TMP") or "/tmp"), prefix="finding2-")
status = 0
try:
    objs = [Blob.from_string(b"hello %d\n" % i * 50) for i in range(5)]
    want = {o.get_id(SHA256): o.as_raw_string() for o in objs}
    repo = TMP + "/r"
    subprocess.run(["git", "init", "-q", "--bare", "--object-format=sha256", repo],
                   env=ENV, check=True)
    for deltify in (False, True):
        print("--- write_pack(object_format=SHA256, deltify=%s)" % deltify)
        base = TMP + "/pack-%d" % deltify
        write_pack(base, objs, object_format=SHA256, deltify=deltify)
        problems = []
        # the pack data is fine: C git indexes it
        r = subprocess.run(["git", "index-pack", "--object-format=sha256", "-o",
                            base + ".gidx", base + ".pack"], env=ENV,
                           capture_output=True, cwd=repo)
        print("git index-pack on the .pack: rc=%d" % r.returncode)
        gsize = os.path.getsize(base + ".gidx") if r.returncode == 0 else None
        dsize = os.path.getsize(base + ".idx")
        print("size of git's idx: %s, size of dulwich's idx: %d" % (gsize, dsize))
        if gsize is not None and gsize != dsize:
            problems.append("index size differs from C git's (%d vs %d)" % (dsize, gsize))
        r = subprocess.run(["git", "verify-pack", "--object-format=sha256", base + ".idx"],
                           env=ENV, capture_output=True, cwd=repo)
        print("git verify-pack with dulwich's idx: rc=%d %s"
              % (r.returncode, r.stderr.decode().strip().splitlines()[:1]))
        if r.returncode != 0:
            problems.append("C git rejects the index")
        p = Pack(base, object_format=SHA256)
        try:
            names = sorted(p)
            if set(names) != set(want):
                problems.append("names read back differ: first is %r" % names[0])
            missing = [k for k in want if k not in p]
            if missing:
                problems.append("%d of %d objects not found by random access"
                                % (len(missing), len(want)))
            for k in want:
                if k in p and p[k].as_raw_string() != want[k]:
                    problems.append("wrong content for %r" % k)
        except Exception as e:  # noqa: BLE001
            problems.append("reading back raised %r" % (e,))
        finally:
            p.close()
        for pr in problems:
            print("  PROBLEM:", pr)
        if problems:
            status = 1
    if status:
        print("VIOLATION: the index written for a SHA-256 pack does not map the SHA-256 "
              "names of the objects to their offsets.")
        print("Required: pack + index read back as the same name->content mapping and "
              "C git accepts them.")
    else:
        print("no violation")
finally:
    shutil.rmtree(TMP, ignore_errors=True)
sys.exit(status)
