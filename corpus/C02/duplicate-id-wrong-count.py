import os
#!/usr/bin/env python
"""C02 finding 4: write_pack_from_container() with an object id listed twice.

pack_objects_to_data() drops repeated objects before counting (its comment says a pack
holds every object once), but write_pack_from_container() counts len(object_ids) for the
pack header while generate_unpacked_objects() de-duplicates through dict(object_ids).
With a repeated id the header announces N objects, N-1 are written, and only after all
object bytes went to the write callback does PackChunkGenerator raise AssertionError, so
the stream that was produced has a wrong object count and no trailer checksum.
"""
import io, struct, sys
from dulwich.object_format import SHA1
from dulwich.object_store import MemoryObjectStore
from dulwich.objects import Blob
from dulwich.pack import write_pack_from_container, write_pack_objects

store = MemoryObjectStore()
b1 = Blob.from_string(b"x" * 100)
b2 = Blob.from_string(b"y" * 100)
store.add_object(b1)
store.add_object(b2)

f = io.BytesIO()
entries, _ = write_pack_objects(f.write, [b1, b2, b1], SHA1)
print("write_pack_objects([b1, b2, b1]): header count",
      struct.unpack(">L", f.getvalue()[8:12])[0], "entries", len(entries), "(duplicates dropped, fine)")

bad = 0
for deltify in (False, True):
    for reuse in (False, True):
        f = io.BytesIO()
        try:
            entries, _ = write_pack_from_container(
                f.write, store, [(b1.id, None), (b2.id, None), (b1.id, None)], SHA1,
                deltify=deltify, reuse_deltas=reuse)
            n = struct.unpack(">L", f.getvalue()[8:12])[0]
            print(f"deltify={deltify} reuse_deltas={reuse}: header count {n}, entries {len(entries)}")
            if n != len(entries):
                bad += 1
        except AssertionError as e:
            n = struct.unpack(">L", f.getvalue()[8:12])[0]
            print(f"deltify={deltify} reuse_deltas={reuse}: AssertionError({e}) after {len(f.getvalue())} bytes "
                  f"were written; header says {n} objects")
            bad += 1
print("property requires: an object set with repeated members is written as a consistent pack (as write_pack_objects does)")
sys.exit(1 if bad else 0)
