"""C02 finding 4: Pack.iterobjects_subset yields nothing from a SHA-256 pack.

Pack.iterobjects_subset filters the inflated objects with `uo.id in shas`.
ShaFile.id is always the SHA-1 name, also for objects of a SHA-256 pack, so no
object ever matches the (SHA-256) names asked for: the iteration is silently
empty, even with allow_missing=False, for names that `in` and the index confirm
are in the pack.  Pack.iter_unpacked_subset for the same names finds them all.
"""
import os
import shutil
import subprocess
import sys
import tempfile

from dulwich.object_format import SHA256
from dulwich.pack import Pack

ENV = dict(os.environ, HOME="/nonexistent", GIT_CONFIG_NOSYSTEM="1",
           GIT_CONFIG_GLOBAL="/dev/null", GIT_AUTHOR_NAME="a",
           GIT_AUTHOR_EMAIL="a@b", GIT_COMMITTER_NAME="a",
           GIT_COMMITTER_EMAIL="a@b", GIT_AUTHOR_DATE="1000000000 +0000",
           GIT_COMMITTER_DATE="1000000000 +0000")


def git(*a, cwd=None):
    r = subprocess.run(["git", *a], env=ENV, capture_output=True, cwd=cwd)
    if r.returncode != 0:
        raise RuntimeError((a, r.stderr))
    return r.stdout


os.makedirs((os.environ.get("CORPUS_TMP") or "/tmp"), exist_ok=True)
TMP = tempfile.mkdtemp(dir=(os.environ.get("CORPUS_TMP") or "/tmp"), prefix="finding4-")
status = 0
try:
    R = TMP + "/r"
    git("init", "-q", "--object-format=sha256", R)
    for i in range(4):
        with open(R + "/f.txt", "wb") as f:
            f.write(b"".join(b"line %d\n" % j for j in range(300)) + b"v%d\n" % i)
        git("add", "-A", cwd=R)
        git("commit", "-q", "-m", "c%d" % i, cwd=R)
    git("repack", "-adq", cwd=R)
    pd = R + "/.git/objects/pack"
    base = pd + "/" + [f for f in os.listdir(pd) if f.endswith(".idx")][0][:-4]
    git("verify-pack", base + ".idx", cwd=R)

    p = Pack(base, object_format=SHA256)
    try:
        names = sorted(p)
        ask = names[:5]
        print("pack has %d objects; asking for %d of them, all `in` the pack: %s"
              % (len(names), len(ask), all(n in p for n in ask)))
        unpacked = list(p.iter_unpacked_subset(ask))
        print("iter_unpacked_subset      -> %d records" % len(unpacked))
        got = list(p.iterobjects_subset(ask, allow_missing=False))
        print("iterobjects_subset        -> %d objects" % len(got))
        full = [o for o in p.iterobjects() if o.get_id(SHA256) in ask]
        print("iterobjects, then filter  -> %d objects" % len(full))
        if sorted(o.get_id(SHA256) for o in got) != ask:
            print("VIOLATION: sequential iteration over a subset of a SHA-256 pack loses "
                  "%d of %d objects (no error raised)." % (len(ask) - len(got), len(ask)))
            print("Required: the pack reads back as the same name->object mapping by "
                  "iteration as by random access.")
            status = 1
        else:
            print("no violation")
    finally:
        p.close()
finally:
    shutil.rmtree(TMP, ignore_errors=True)
sys.exit(status)
