"""C02 finding 3: random access into a SHA-256 pack written by C git fails for trees.

Pack.__getitem__ builds the object with
    ShaFile.from_raw_string(type, uncomp, sha=sha1)
without passing the pack's object_format, so a Tree is parsed with 20-byte entry
ids although the pack (object_format=SHA256) stores 32-byte ids.  Every tree of a
SHA-256 pack raises ObjectFormatException on random access, while sequential
iteration (PackInflater, which does pass object_format) reads the same trees fine.
"""
import os
import shutil
import subprocess
import sys
import tempfile

from dulwich.object_format import SHA256
from dulwich.pack import Pack

ENV = dict(os.environ, HOME="/nonexistent", GIT_CONFIG_NOSYSTEM="1",
           GIT_CONFIG_GLOBAL="/dev/null", GIT_AUTHOR_NAME="a",
           GIT_AUTHOR_EMAIL="a@b", GIT_COMMITTER_NAME="a",
           GIT_COMMITTER_EMAIL="a@b", GIT_AUTHOR_DATE="1000000000 +0000",
           GIT_COMMITTER_DATE="1000000000 +0000")


def git(*a, cwd=None):
    r = subprocess.run(["git", *a], env=ENV, capture_output=True, cwd=cwd)
    if r.returncode != 0:
        raise RuntimeError((a, r.stderr))
    return r.stdout


os.makedirs((os.environ.get("CORPUS_TMP") or "/tmp"), exist_ok=True)
TMP = tempfile.mkdtemp(dir=(os.environ.get("CORPUS_TMP") or "/tmp"), prefix="finding3-")
status = 0
try:
    R = TMP + "/r"
    git("init", "-q", "--object-format=sha256", R)
    for i in range(4):
        with open(R + "/f.txt", "wb") as f:
            f.write(b"".join(b"line %d\n" % j for j in range(300)) + b"v%d\n" % i)
        git("add", "-A", cwd=R)
        git("commit", "-q", "-m", "c%d" % i, cwd=R)
    git("repack", "-adq", cwd=R)
    pd = R + "/.git/objects/pack"
    base = pd + "/" + [f for f in os.listdir(pd) if f.endswith(".idx")][0][:-4]
    git("verify-pack", base + ".idx", cwd=R)
    print("C git wrote and verified a SHA-256 pack")

    p = Pack(base, object_format=SHA256)
    try:
        seq = {o.get_id(SHA256): (o.type_name, o.as_raw_string()) for o in p.iterobjects()}
        print("sequential iteration: %d objects, names equal to the index: %s"
              % (len(seq), sorted(seq) == sorted(p)))
        bad = []
        for name in sorted(p):
            kind = git("cat-file", "-t", name.decode(), cwd=R).strip()
            try:
                o = p[name]
                if o.as_raw_string() != seq[name][1] or o.type_name != kind:
                    bad.append((name, kind, "wrong content"))
            except Exception as e:  # noqa: BLE001
                bad.append((name, kind, repr(e)))
        for name, kind, what in bad:
            print("  pack[%s] (%s): %s" % (name[:12].decode(), kind.decode(), what))
        if bad:
            print("VIOLATION: %d of %d objects cannot be read by random access from a "
                  "pack C git wrote." % (len(bad), len(seq)))
            print("Required: random access returns the same type and content as "
                  "sequential iteration and as C git.")
            status = 1
        else:
            print("no violation")
    finally:
        p.close()
finally:
    shutil.rmtree(TMP, ignore_errors=True)
sys.exit(status)
